#!/bin/bash
# round.sh <round> <ID> <demo file> <pkg dir> <-run regex>: confirm a sub-agent's seed, write its meta, run the property's quick check on it
R=$1; ID=$2; DEMO=$3; PKG=$4; RX=$5
cd /verif
SEEDSUFFIX=-r$R tools/confirm_seed.sh $ID $DEMO $PKG "$RX"
python3 tools/seedmeta.py $ID -r$R /tmp/seed
echo "== quick check of $ID against the seed"
LINES_OUT=${LINES_OUT:-8} tools/tryseed.sh seeded/$ID-r$R/patch.diff $ID quick
