"""Per-property configuration of the checks (which binaries/tests make up a check)."""

E1_ASSUME = [
    "instrumented code is data-race free between scheduling points; guarded by the separate free-running -race pass of the same harness bodies (sampling, not exhaustive: it decides nothing about the property itself, a reported SDK race is raised as a violation because it voids this assumption)",
    "Go map iteration order in instrumented packages is canonicalised (sorted keys), not enumerated",
    "schedules needing more deviations than the stated budget from the default (FIFO, run-to-block) schedule are not explored",
]

PROPS = {
    "C01": {
        "level": "model_checking",
        "uses_vsched": True,
        "technique": "stateless model checking of the real goroutines: delay-bounded exhaustive schedule/fault enumeration under a controlled scheduler (synctest bubbles)",
        "claim": "every execution of 2-3 concurrent callers + scripted peer (answer/error/unknown id/late answer/EOF/read error) + optional canceller/Close thread/write faults within the deviation budget is run on the real jsonrpc2.Connection and checked against the completion oracle (own payload or an error with a cause that occurred; no blocked caller; late calls fail with the closing error); streamable HTTP client: a call whose SSE response is cut at every byte offset (read error / clean end; with and without event ids; retry budgets 0/1) always completes, with the response or an error; every session API method (6 client, 3 server) on sessions of both protocol generations after the session terminated (closed by either side, Wait returned): fails at once with an error naming the closed connection, nothing left running",
        "note": "assumes race-freedom between scheduling points; bounded to K<=3 callers and budget B<=2/3 deviations from the default schedule; map iteration order canonicalised",
        "parts": [
            {"pkg": "mcp", "mode": "instr", "test": "TestVerifC01", "two_phase": True, "time_s": {"thorough": 1800}, "scenario_exclude": ["http/", "api/"]},
            {"pkg": "mcp", "mode": "plain", "test": "TestVerifC01HTTP", "scenario_prefix": "http/", "shards": 8},
            {"pkg": "mcp", "mode": "plain", "test": "TestVerifC01AfterClose", "scenario_prefix": "api/", "shards": 1},
            {"pkg": "mcp", "mode": "race", "test": "TestVerifC01", "scenario_prefix": "free-race/", "free_runs": {"quick": 60, "thorough": 600}},
        ],
        "assumptions": E1_ASSUME + ["at most 3 concurrent calls, one call per caller"],
    },
    "C02": {
        "level": "model_checking",
        "engine": "explore (bounded-exhaustive enumeration)",
        "technique": "bounded-exhaustive enumeration of raw wire envelopes, pairs, batch compositions and handler completion orders against real server sessions on 5 transport configurations, with a per-id response counter over the raw output",
        "claim": "16 envelope kinds x 11 id tokens (incl. 2^53+1, int64 min/max, empty and non-ASCII strings) as single messages; pairs of envelopes with distinct/equal/type-differing ids; every batch composition of <=3 members over {call, unknown-method call, gated call, notification} with every release order of the gated handlers (2025-03-26); two concurrent gated calls in both completion orders (also on stateful endpoints with an idle SessionTimeout and timeout-1s / timeout+1s passing between the two completions); a duplicate in-flight id; a peer cancellation (notifications/cancelled) of an in-flight call, alone, followed by another call, and inside 2025-03-26 batches with every release order (the cancelled call is still answered exactly once and its batch still completes): on the in-memory pipe (stdio framing), the streamable handler stateful/stateless x SSE/JSON and the legacy HTTP+SSE handler (single messages only), every call gets exactly one response with the identical id token and the mandated class (result, -32601, -32602, -32600 or an HTTP 4xx pre-validation), notifications get none, and a final ping is still answered",
        "note": "batches are not sent over the legacy HTTP+SSE transport (its POST endpoint accepts one message and answers anything else 400); messages are single-line JSON; ids outside the listed tokens are outside the bound",
        "parts": [
            {"pkg": "mcp", "mode": "plain", "test": "TestVerifC02", "shards": 16},
        ],
        "assumptions": ["synctest.Wait() quiescence = the server has finished processing everything it can"],
    },
    "C03": {
        "level": "model_checking",
        "uses_vsched": True,
        "technique": "stateless model checking of real client+server sessions under a controlled scheduler: all message sequences (len<=3) x all handler completion orders (gates) x delay-bounded schedules",
        "claim": "for every sequence of length <=3 over {notification, tool call, ping} client->server and {progress, log, create-message} server->client, with every user handler parked on a gate that an idle-priority controller opens in every order, and every schedule within the deviation budget, the handler of a notification (and of initialized) finishes before any later message's handler starts; a raw peer sending every batch of three over {notification, call, ping} (2025-03-26): members are dispatched in batch order; over the streamable HTTP server (stateful, stateless legacy, stateless 2026-07-28) a notification POST followed by a call POST: the accepted notification is handled, and before the call (KNOWN FINDING: stateless servers accept and never dispatch it); a raw peer whose slow initialize call has its context ended (notifications/cancelled for it, or a disconnect) followed by a ping / call / notification: the later handler still does not start before the initialize handler finished; a liveness scenario shows calls do overlap",
        "note": "in-memory transport only in this check (HTTP transports are exercised by C02/C10 harnesses); sequences longer than 3 and budgets beyond B are outside the bound",
        "parts": [
            {"pkg": "mcp", "mode": "instr", "test": "TestVerifC03", "two_phase": True, "time_s": {"thorough": 1800}},
            {"pkg": "mcp", "mode": "race", "test": "TestVerifC03", "scenario_prefix": "free-race/", "free_runs": {"quick": 60, "thorough": 600}},
        ],
        "assumptions": E1_ASSUME,
    },
    "C04": {
        "level": "model_checking",
        "uses_vsched": True,
        "technique": "stateless model checking under a controlled scheduler with virtual time: delay-bounded schedules x cancel target/stage x peer behaviours (answers, late, never, stops draining)",
        "claim": "(i) real sessions: two in-flight tool calls, which one is cancelled and when (early, at first idle moment, after return) plus schedule deviations; only the matching handler may observe ctx.Done, the caller returns with zero virtual time after cancel, the session stays usable; (ii) mcp call() over a scripted transport whose peer answers, answers after the cancel, never answers, or parks the request / the cancel notice write until its context ends: prompt return, the other in-flight call and later calls unaffected, nothing left after the 5s notice timeout; (iii) a raw peer with two gated tool calls in flight on a server session, optionally a third request reusing either id (refused), then notifications/cancelled for either id (ids 1/2 or two neighbouring ids beyond 2^53): exactly that handler observes ctx.Done, both calls are answered, the session answers a final ping; (iv) a handler's nested server-to-client request abandoned while the tool call is in flight over streamable HTTP (with and without a standalone stream): the notifications/cancelled travels on the call's own exchange and names the abandoned request; (v) real client over in-process streamable HTTP (stateful legacy and stateless 2026-07-28 with PropagateRequestCancellation, SSE and JSON responses, with and without a second call in flight) and a scripted peer that sends JSON headers at once and the body late: the cancelled call returns at once with the context's error, exactly its server-side handler is cancelled, the other call and later calls succeed; (vi) two calls in flight on a streamable session, the HTTP stream of one breaks (writes fail) and its handler then returns: the undeliverable late response has no effect on the other call or the session",
        "note": "two concurrent calls; budget-bounded schedules; virtual time (a return that needs a timer is a violation)",
        "parts": [
            {"pkg": "mcp", "mode": "instr", "test": "TestVerifC04", "two_phase": True, "scenario_exclude": "http/", "time_s": {"thorough": 1800}},
            {"pkg": "mcp", "mode": "plain", "test": "TestVerifC04HTTP", "shards": 1, "scenario_prefix": "http/"},
            {"pkg": "mcp", "mode": "race", "test": "TestVerifC04", "scenario_prefix": "free-race/", "free_runs": {"quick": 60, "thorough": 600}},
        ],
        "assumptions": E1_ASSUME,
    },
    "C05": {
        "level": "model_checking",
        "uses_vsched": True,
        "technique": "stateless model checking under a controlled scheduler: Close/Wait threads x in-flight gated handlers x outgoing calls x late traffic x EOF x a write failure at every write index, delay-bounded schedules; deadlock/leak/panic oracles",
        "claim": "on every explored execution no handler starts for a request handed over after the close was recorded, such calls get the closing error, running handlers finish before the transport is closed, Close and Wait return, nothing is left running (bubble exit), no panic; a streamable HTTP session closed (DELETE or ServerSession.Close) while one POST with a 12-call batch, or three POSTs with 4 calls each, is being handed to it: every HTTP exchange ends, Close returns, the session is forgotten",
        "note": "handlers return (gates are opened by the idle-priority controller) and the transport honours Close, as the property presumes; bounded budgets",
        "parts": [
            {"pkg": "internal/jsonrpc2", "mode": "instr", "test": "TestVerifC05", "scenario_prefix": "a/", "two_phase": True, "time_s": {"thorough": 1800}},
            {"pkg": "internal/jsonrpc2", "mode": "race", "test": "TestVerifC05", "scenario_prefix": "free-race/", "free_runs": {"quick": 60, "thorough": 600}},
            {"pkg": "mcp", "mode": "instr", "test": "TestVerifC05", "scenario_prefix": "b/", "two_phase": True, "time_s": {"thorough": 1800}},
            {"pkg": "mcp", "mode": "race", "test": "TestVerifC05", "scenario_prefix": "free-race/", "free_runs": {"quick": 60, "thorough": 600}},
        ],
        "assumptions": E1_ASSUME,
    },
    "C15": {
        "level": "fault_enumeration",
        "engine": "explore (choice-tree DFS over environment answers)",
        "technique": "exhaustive enumeration of environment answers at every step of the real Authorize flow (scripted http.Client and AuthorizationCodeFetcher): all paths with <=2 (thorough 3) non-default answers, crossed with the full product of client configuration x authorization result x token answer; a monitor judges every execution",
        "claim": "challenge (5 forms) x protected-resource metadata answers at each of the three locations (ok, resource mismatch, http / javascript: / empty authorization_servers, 404, 500, wrong content type) x authorization-server metadata answers at each location (ok, issuer mismatch, no PKCE, http token endpoint, data:/javascript: fields incl. javascript: with a loopback authority, 404, 500) x registration answers x {CIMD, pre-registered with matching/other/no issuer, DCR} x returned state (ok, two mismatches) x returned iss (absent, matching, other) x iss support x token endpoint (200/400/500): every request goes to an https or loopback URL, the user is never sent to a script-scheme URL, the code is exchanged only with a matching state and a passing RFC 9207 check and never at endpoints of metadata that must be rejected, pre-registered credentials never reach another issuer, and an error (or failed check) leaves the token source unchanged; two rounds on one handler (the second 401 naming the same or another valid authorization server, state echoed or altered) x client configuration: pre-registered credentials bound to the first server are not presented to the second, a failed second round keeps the first token",
        "note": "more than 2 (3) simultaneous faulty answers and TLS-level behaviour are outside the bound; URLs are judged by scheme/host as the client would dial them",
        "parts": [
            {"pkg": "auth", "mode": "plain", "test": "TestVerifC15", "two_phase": True},
        ],
        "assumptions": [],
    },
    "C16": {
        "level": "model_checking",
        "engine": "explore (bounded-exhaustive enumeration)",
        "technique": "bounded-exhaustive enumeration of schema family x argument objects (and output types x handler returns) on a real session, against an independent reference validator written for exactly that family",
        "claim": "11 input schemas (required/optional, defaults, enums, integer bounds, nested object, defaults on properties of a nested object, array items, additionalProperties false/true) x every argument object over per-field alphabets (missing, null, wrong type, below/at/above bounds, not in enum, non-integral, undeclared and case-variant extra keys): the handler runs iff the reference validator accepts the defaulted arguments and then sees exactly those values; otherwise a tool error and no handler run. 8 output shapes (struct, pointer incl. nil, map incl. nil, slice, int, explicit schema with bound+default, explicit schema with a default inside a nested object, any) x returns x own-content: structuredContent equals the JSON of the output with defaults, text rendering present when the handler supplied no content, schema-violating output is an error; the whole family once more on a server with a SchemaCache on which tools with inferred schemas for the same Go types were registered first",
        "note": "JSON Schema features outside the family (refs, oneOf, patterns, nested defaults, floats) are not covered; the reference validator is 100 lines written from the JSON Schema semantics of these keywords",
        "parts": [
            {"pkg": "mcp", "mode": "plain", "test": "TestVerifC16", "shards": 8},
        ],
        "assumptions": [],
    },
    "C17": {
        "level": "model_checking",
        "engine": "explore (choice-tree DFS, sequential)",
        "technique": "exhaustive choice-tree enumeration of listing traversals with interleaved mutations on real client/server sessions (plus bounded enumeration of malformed/stale cursors)",
        "claim": "for tools, prompts, resources and resource templates x page size 1..6 and math.MaxInt x all 32 initial subsets of 5 names x every placement of <=2 add/remove/replace mutations in the gaps between page fetches (two in the same gap included): items come in one strictly increasing order, items registered throughout appear exactly once, nothing unregistered is listed, traversal ends with an empty cursor, page size respected; without mutation the exact set is listed and the client iterator yields the same sequence; malformed cursors get -32602 and the server keeps answering; a stale cursor continues after its position",
        "note": "5 names (one of them the empty string for prompts), page sizes 1..6 and MaxInt, <=2 mutations per traversal; sessions are long-lived per (kind,page size), so states are reached from many predecessor states, not only the initial one",
        "parts": [
            {"pkg": "mcp", "mode": "plain", "test": "TestVerifC17", "gomaxprocs": 2},
        ],
        "assumptions": ["the legacy (2025-06-18) session does not cache list results client-side"],
    },
    "C18": {
        "level": "model_checking",
        "uses_vsched": True,
        "technique": "stateless model checking of a server with three real sessions under a controlled scheduler with owned timers: bursts x debounce-timer placements (time deviations) x schedules; plus an explicit-state search over subscribe/unsubscribe/update/close histories",
        "claim": "(E1) legacy session, 2026-07-28 session with a matching subscriptions/listen and one without: for every burst of 1-3 add/remove changes, every placement of the 10ms debounce timer and every schedule within the budget, each entitled session receives a tools/list_changed after the last change whose handler-time tools/list equals the final server state, unentitled sessions and a server with the capability disabled send none, a list after the handled notification is never an older cached answer (TTL 0 and 60s, with a list call in flight across the change), a session whose peer stopped draining or whose transport fails during the fan-out does not deprive the other sessions of their notification (either connection order), closed sessions leave no subscription; a 2026-07-28 session that unsubscribes from a resource and subscribes again at once is, after everything settled, still served resources/updated; a resources/read in flight across a change of the resource (answer computed before the change, resources/updated handled before the answer arrives, nothing or only an expired entry cached) does not make a later read return the pre-change content (B<=2, thorough 3); (E2) all histories up to the depth over subscribe/unsubscribe/resource-updated/close for two legacy and one modern session: resources/updated reaches exactly the currently subscribed sessions; every feature kind (tools, prompts, resources, resource templates) x {legacy, 2026-07-28} x TTL {0, 60s}: add/remove/add each announced and visible to the next list; the read cache after resources/updated; independence of a session's listens (unsubscribing one resource ends neither the other resource subscription nor the list-changed subscriptions); all histories of depth <=6 (thorough 8) over {session connects, oldest session closes, tool added/removed, 5ms pass, 20ms pass}: one second later every live session has handled a notification at least as late as the last change made while it was connected",
        "note": "three sessions, one URI, bursts of <=3 changes; budgets B<=1 (quick) / 2 (thorough)",
        "parts": [
            {"pkg": "mcp", "mode": "instr", "test": "TestVerifC18", "scenario_prefix": ["burst/", "resubscribe/", "read-in-flight"], "two_phase": True, "time_s": {"thorough": 1800}},
            {"pkg": "mcp", "mode": "race", "test": "TestVerifC18", "scenario_prefix": "free-race/", "free_runs": {"quick": 60, "thorough": 600}},
            {"pkg": "mcp", "mode": "plain", "test": "TestVerifC18Resources", "scenario_prefix": "resource-", "shards": 1, "gomaxprocs": 16, "time_s": {"quick": 120, "thorough": 1200}},
            {"pkg": "mcp", "mode": "plain", "test": "TestVerifC18Kinds", "scenario_prefix": "kinds-", "shards": 1},
            {"pkg": "mcp", "mode": "plain", "test": "TestVerifC18Churn", "scenario_prefix": "session-churn", "shards": 1, "gomaxprocs": 16, "time_s": {"quick": 120, "thorough": 1200}},
        ],
        "assumptions": E1_ASSUME,
    },
    "C19": {
        "level": "model_checking",
        "engine": "explore (bounded-exhaustive enumeration)",
        "technique": "bounded-exhaustive enumeration of messages/values/byte strings through the real codec and framing, with round-trip and no-panic oracles",
        "claim": "(a) 15 id tokens (incl. +-2^53, +-(2^53+1), int64 min/max, empty/unicode/NUL strings) x methods x a JSON value grammar (16 leaves, nesting depth 2) as params, results and error data, plus payloads of 4000 bytes .. 1 MiB around the 4 KiB / 64 KiB reader-buffer boundaries: Decode then Encode preserves id type and exact value, method, params, result, error code/message/data, and is a fixpoint; (b) every such payload through SSE writeEvent/scanEvents and through a pair of newline-delimited ioConns; (c) every content kind incl. _meta/annotations and all ordered pairs of nested content inside tool_result round-trip; required members (list arrays, content, text, data, mimeType, messages, contents, completion.values) are present and non-null on the wire end to end; (d) wrongly-cased member names are not accepted, also when they accompany the real members (before or after them) for small and >= 2^53 ids; (e) every byte string up to length 5 (thorough 6) over a 12-byte JSON-significant alphabet into DecodeMessage, readBatch, scanEvents, CallToolResult.UnmarshalJSON: no panic",
        "note": "values outside the grammar/alphabet and longer inputs are outside the bound; a response whose result is JSON null is treated as not well-formed",
        "parts": [
            {"pkg": "mcp", "mode": "plain", "test": "TestVerifC19", "shards": 16},
        ],
        "assumptions": [],
    },
    "C20": {
        "level": "model_checking",
        "technique": "explicit-state breadth-first search over operation histories of the real MemoryEventStore with a reference model and private-state invariants checked after every operation; plus stateless model checking of concurrent Append/After under a controlled scheduler",
        "claim": "all histories over a 49-operation alphabet (2 sessions x 2 streams; payload sizes 0..limit+1; After at -1,0,1,2,last; SetMaxBytes 1,2,4; SessionClosed) are run on the real store: exhaustively up to the shallow depth and state-deduplicated beyond it; every After result must be the exact appended suffix or ErrEventsPurged with something really evicted, and retained data must be a suffix, correctly accounted and within limit+most recent item; After indices include math.MaxInt; (E1) two or three concurrent appenders near the limit plus a concurrent After under the controlled scheduler (B<=3 / 2): exact byte accounting, the size bound and the suffix property hold when all have finished",
        "note": "eviction order across streams (map iteration) is not part of the oracle; histories beyond the stated depth and more than 2x2 streams are outside the bound; the abstraction (limit, last size, per stream first index + item sizes) is only used for deduplication beyond the shallow depth",
        "parts": [
            {"pkg": "mcp", "mode": "plain", "test": "TestVerifC20", "shards": 1, "gomaxprocs": 16, "time_s": {"quick": 120, "thorough": 1500}, "scenario_exclude": ["concurrent/", "free-race/"]},
            {"pkg": "mcp", "mode": "instr", "test": "TestVerifC20Concurrent", "scenario_prefix": "concurrent/", "two_phase": True, "time_s": {"thorough": 1800}},
            {"pkg": "mcp", "mode": "race", "test": "TestVerifC20Concurrent", "scenario_prefix": "free-race/", "free_runs": {"quick": 60, "thorough": 600}},
        ],
        "uses_vsched": True,
        "assumptions": E1_ASSUME + ["payload contents are a function of (stream, index), so item sizes and first index determine the future behaviour of a state"],
    },
    "C06": {
        "level": "model_checking",
        "technique": "explicit-state search over raw wire message histories against a real ServerSession, with a reference lifecycle-gate model checked after every message",
        "claim": "all sequences (exhaustive up to the shallow depth, state-deduplicated beyond) over a 21-message alphabet (initialize variants, initialized, ping, cancelled, legacy and 2026-07-28 list/call with complete/incomplete/unsupported/invalid metadata, discover, setLevel, subscribe, roots-changed, removed methods) are sent over the in-memory pipe; per message the response class/code, the methods reaching the handler layer (receiving middleware), user-handler invocation counts and session state are compared with the reference gate (a refused request, including one with complete 2026-07-28 metadata but an unknown method or undecodable parameters, leaves no trace); a second search drives the stateful streamable handler with POSTs (initialize, initialized, legacy list/call with and without session id, calls carrying complete/incomplete 2026-07-28 _meta with the version header absent / legacy / modern, discover): a request reaches the feature handlers iff it is a legacy request on the session that went through initialize, and no other request leaves an initialized session behind",
        "note": "message alphabet fixed (one representative per class); histories beyond the stated depth are outside the bound; deduplication key = (InitializeParams version, InitializedParams present, log level)",
        "parts": [
            {"pkg": "mcp", "mode": "plain", "test": "TestVerifC06", "shards": 1, "gomaxprocs": 16, "time_s": {"quick": 150, "thorough": 1500}, "scenario_prefix": "wire-"},
            {"pkg": "mcp", "mode": "plain", "test": "TestVerifC06HTTP", "shards": 1, "gomaxprocs": 16, "time_s": {"quick": 150, "thorough": 1500}, "scenario_prefix": "http-"},
        ],
        "assumptions": ["synctest.Wait() quiescence = the server has finished processing the message"],
    },
    "C07": {
        "level": "model_checking",
        "engine": "explore (full configuration product)",
        "technique": "exhaustive enumeration of the finite configuration matrix on the real client, server and transports (HTTP served in-process), against a reference negotiation function; plus stateless model checking (controlled scheduler, delay-bounded) of a server/discover racing the set-up of its HTTP+SSE session",
        "uses_vsched": True,
        "claim": "8 requested versions (default, the 5 supported, an unknown older and newer string) x {in-memory, io pipes} x 3 advertised sets + SSE + streamable {stateful, stateless} x JSON responses x event store = 120 cells, each Connect+ListTools+CallTool: Connect fails only when the request is not mutually supported and no fallback applies (a modern or unknown-newer request against a server without modern overlap but with shared legacy versions must fall back to initialize and connect); otherwise the negotiated version is SDK-supported, servable by the transport (never 2026-07-28 on SSE/stateful), equals the request when mutually supported; discover is followed by an initialize fallback iff no modern overlap (observed on the wire); plus 231 scripted non-SDK servers over the in-memory pipe (discover answers incl. lists naming the requested unknown version x initialize answers x requests): the negotiated version was offered by the server and is SDK-supported, or Connect fails; 36 scripted legacy servers behind HTTP (streamable and HTTP+SSE client; server/discover refused with 404/400/405, with or without a JSON-RPC body, or with a JSON-RPC method-not-found): the client falls back to initialize and connects; server transports wrapped in LoggingTransport keep their version restriction; (E1) a raw HTTP+SSE peer POSTs server/discover the moment the endpoint event is out, while the GET is still inside Server.Connect: on every schedule within B<=4 (thorough 5) the answer never lists 2026-07-28",
        "note": "a custom transport's ProtocolVersionSupporter is only held against versions >= 2026-07-28 (it filters what server/discover advertises; the legacy initialize handshake does not consult it)",
        "parts": [
            {"pkg": "mcp", "mode": "plain", "test": "TestVerifC07", "shards": 8, "scenario_prefix": ""},
            {"pkg": "mcp", "mode": "instr", "test": "TestVerifC07Race", "scenario_prefix": "sse/discover-races", "time_s": {"thorough": 1800}},
            {"pkg": "mcp", "mode": "race", "test": "TestVerifC07Race", "scenario_prefix": "free-race/", "free_runs": {"quick": 60, "thorough": 600}},
        ],
        "assumptions": E1_ASSUME,
    },
    "C08": {
        "level": "model_checking",
        "uses_vsched": True,
        "technique": "explicit-state search over write/cut/resume histories against the real streamable HTTP handler (served in-process, streaming bodies) with a recording event store as ground truth",
        "claim": "for a request stream (protocol 2025-06-18 and 2025-11-25 with priming event) and the standalone stream: all histories (exhaustive to the shallow depth, state-deduplicated beyond) over {server writes the next of 3 notifications and the final response, client cuts the attached exchange, client resumes with the id of any event issued so far (5 positions), a second concurrent resume}: every exchange delivers, from its resume point on, exactly the messages appended to the stream in append order with ids stream_k increasing by one, ids denote the same payload on every delivery, an attached exchange is caught up at quiescence, a concurrent resume is refused with 409, and after any history the whole stream (incl. the final response) is obtainable by one more resume; (E1) a server write racing a resuming GET on the detached stream under the controlled scheduler: the resumed exchange carries exactly the messages appended after its resume point, ids consecutive, payloads in append order; likewise when the handler closes its own SSE stream (CloseSSEStream) while the client, still holding the POST, already resumes (the resume is refused with 409 or served, and a served resume receives everything written later)",
        "note": "one request stream with 4 messages; purge/eviction of the event store is covered by C20, not here; concurrent Write vs. serveGET interleavings below the request level are not explored (requests are run to quiescence)",
        "parts": [
            {"pkg": "mcp", "mode": "plain", "test": "TestVerifC08", "shards": 1, "gomaxprocs": 16, "time_s": {"quick": 150, "thorough": 1500}, "scenario_prefix": "re"},
            {"pkg": "mcp", "mode": "instr", "test": "TestVerifC08Race", "two_phase": True, "scenario_prefix": "race/", "time_s": {"thorough": 1800}},
            {"pkg": "mcp", "mode": "race", "test": "TestVerifC08Race", "scenario_prefix": "free-race/", "free_runs": {"quick": 60, "thorough": 600}},
        ],
        "assumptions": E1_ASSUME + ["synctest.Wait() quiescence = all bytes the server can write have been written and read"],
    },
    "C09": {
        "level": "fault_enumeration",
        "engine": "explore (choice-tree DFS over fault points)",
        "technique": "exhaustive fault enumeration on the real streamable client against a scripted RoundTripper under virtual time: every byte offset x termination kind of the first body, then every sequence of reconnect outcomes",
        "claim": "for POST response streams (with/without event ids, with a priming event, retry budgets 0/1, thorough 2) and the standalone stream: the first SSE body is cut at every byte offset by a read error or a clean end of stream; each reconnect is answered ok / transport error / 503 / 404 / cut again at representative offsets, in every sequence until the client stops: notifications are delivered each once and in order, every Last-Event-ID presented is the id of the last event received completely, a successful call carries the real response and all messages, a failed call is justified (no ids, a 404, MaxRetries consecutive failed attempts within one reconnect, or more than MaxRetries consecutive bodies without a new complete event - the two budgets are counted separately, as documented), and the call never hangs (10 min virtual time)",
        "note": "3-4 events per stream, single-line data; retry budgets above 2 and second-level cuts at every offset are outside the bound; back-off jitter is not owned in this (uninstrumented) build but does not influence the oracle",
        "parts": [
            {"pkg": "mcp", "mode": "plain", "test": "TestVerifC09", "shards": 16, "time_s": {"quick": 200, "thorough": 1800}},
        ],
        "assumptions": ["reconnect delays use package time (virtualised by the bubble)"],
    },
    "C10": {
        "level": "model_checking",
        "uses_vsched": True,
        "technique": "stateless model checking of the real streamable HTTP handler under a controlled scheduler: concurrent POSTs of two sessions, every handler release order, delay-bounded schedules; every exchange's bytes attributed to its request",
        "claim": "two sessions (same JSON-RPC ids in both) x two concurrent tools/call POSTs each, each handler sending a request-scoped progress notification and then parking on a gate released in every order, stateful SSE/JSON and stateless, plus each session's standalone stream: on every explored schedule each exchange carries exactly the response (and request-scoped notifications) of its own request, standalone streams carry only their own session's notifications and never a response; a duplicate in-flight id on one session never makes a response travel on the other POST's exchange; request A's exchange cut while its handler runs, then a sequential POST B reusing A's id (with and without an event store): B's exchange never carries A's response; server-to-client requests issued by two concurrent handlers (sampling): each request travels on its own call's exchange (the standalone stream in JSON mode), each handler gets the reply to its own request in either answer order, and the cancellation notice of an abandoned request travels where the request travelled (with and without a standalone stream attached)",
        "note": "two sessions, two requests per session; budgets B<=1 (quick) / 2 (thorough), B<=2/3 for the duplicate-id scenarios; resumed streams are covered by C08",
        "parts": [
            {"pkg": "mcp", "mode": "instr", "test": "TestVerifC10", "two_phase": True, "time_s": {"thorough": 1800}},
            {"pkg": "mcp", "mode": "race", "test": "TestVerifC10", "scenario_prefix": "free-race/", "free_runs": {"quick": 60, "thorough": 600}},
        ],
        "assumptions": E1_ASSUME,
    },
    "C11": {
        "level": "model_checking",
        "technique": "explicit-state search over request histories against the real stateful handler under virtual time, with a reference session table checked after every step",
        "claim": "all histories (exhaustive up to the shallow depth, state-deduplicated beyond) over 38 operations - POST initialize as anonymous/u1/u2, POST tools/call / GET / DELETE with each issued (live or dead) or an unknown session id as each user, a POST that stays in flight, handler release, server-side close, DELETE / server-side close while a POST is in flight (they wait; a second DELETE may overlap; an acknowledged 204 makes the id dead at once), advances of timeout-1ms / 1ms / timeout: statuses (404 once dead for every method, 403 for a foreign user with no effect, 200/204 otherwise), ids minted only by initialize and never reissued, Server.Sessions() and the handler's table equal the reference set after every step, idle timeout fires iff a session had no POST in progress for a full timeout; the same search one level shallower with an event store whose SessionClosed fails at teardown; stateless endpoint: no session ids issued or honoured, GET/DELETE/PUT answered 405",
        "note": "two sessions, two users; requests other than DELETE/close on a session whose deletion is pending but not yet acknowledged are not constrained (skipped); histories beyond the stated depth are outside the bound",
        "parts": [
            {"pkg": "mcp", "mode": "plain", "test": "TestVerifC11", "shards": 1, "gomaxprocs": 16, "time_s": {"quick": 150, "thorough": 1500}},
        ],
        "assumptions": ["the idle timer uses package time (virtualised by the bubble)"],
    },
    "C12": {
        "level": "model_checking",
        "engine": "explore (bounded-exhaustive enumeration)",
        "technique": "bounded-exhaustive enumeration of requests (all combinations of <=2 deviations from a valid base per endpoint kind) and of schema x argument values, on the real handlers and the real client transport over a wire-faithful in-process round trip, against a reference predicate of the documented preconditions",
        "claim": "(a) three endpoint kinds (stateless 2026-07-28, stateful legacy, SSE message endpoint) x every combination of <=2 deviations over Host/listener address, Content-Type (7 forms), Accept (8), body size around the limit (with Content-Length and with chunked transfer encoding), protocol-version header, Mcp-Method/Mcp-Name/Mcp-Param-* (absent, different, case-variant, base64-wrapped, malformed base64) and _meta version: the message reaches the server iff no precondition is violated; otherwise a 4xx (403 host, 415 content type, 413 size, -32020 for header mismatches) and nothing dispatched; (b) x-mcp-header annotations at nesting depth 1..5 with annotated siblings x 14 string values (empty, padded, non-ASCII, control, sentinel-looking), safe-range integers, booleans, absent members: every call made through the SDK client is accepted and the tool sees exactly the arguments sent; (c) one handler receiving 2-3 connections on different local addresses (127.0.0.1, [::1], a LAN address) with loopback and foreign Host values in every order: each request is judged by the address it arrived on; (d) every ClientSession API call (12 operations) against the SDK's own stateless (2026-07-28) and stateful (legacy) streamable handlers: no POST the client produces is answered 4xx (operations the negotiated protocol does not have excepted) and the session stays usable",
        "note": "requests are parsed with http.ReadRequest from raw text and client requests are serialised/re-parsed, so header trimming/canonicalisation is the real wire behaviour; more than 2 simultaneous deviations and values outside the alphabets are outside the bound; null-valued annotated arguments are not schema-valid and not enumerated",
        "parts": [
            {"pkg": "mcp", "mode": "plain", "test": "TestVerifC12", "shards": 16},
        ],
        "assumptions": [],
    },
    "C13": {
        "level": "model_checking",
        "engine": "explore (bounded-exhaustive product) under virtual time",
        "technique": "bounded-exhaustive enumeration of all ping-outcome patterns x thresholds x intervals x session kinds on real sessions against a scripted raw-wire peer, in virtual time (synctest), compared with a reference failure detector",
        "claim": "every pattern over {answered, error, timeout, method-not-found, connection break, the ping's own write stalls until the ping deadline on a ctx-honouring transport} of length <= threshold+2, thresholds 0..3, intervals 2s/7s, client and server sessions: the session is closed iff max(threshold,1) consecutive pings failed, not before that miss completed and no later than that many intervals plus one ping timeout after the peer last answered, after exactly that many pings; never otherwise (still usable at the horizon); pings stop after method-not-found; no goroutine left after Close; the same for a client session over the streamable HTTP client transport against a scripted HTTP server, every pattern of per-ping HTTP fates {JSON answer, SSE answer, SSE answer on a resumed stream, SSE stream ending or breaking before any event, 503, JSON-RPC error, POST never answered, silent SSE stream, method-not-found} of length <= threshold+1 (thorough threshold+2), thresholds 1..3 (thorough 0..3), MaxRetries default and disabled",
        "note": "patterns longer than threshold+2 and thresholds above 3 are outside the bound; the goroutine-leak oracle counts goroutines of the (sequential) worker process",
        "parts": [
            {"pkg": "mcp", "mode": "plain", "test": "TestVerifC13", "scenario_prefix": "ping-outcome", "shards": 8},
            {"pkg": "mcp", "mode": "plain", "test": "TestVerifC13HTTP", "scenario_prefix": "http-ping", "shards": 8},
        ],
        "assumptions": ["all timers used by keep-alive go through package time (virtualised by the bubble)"],
    },
    "C14": {
        "level": "model_checking",
        "engine": "explore (bounded-exhaustive product)",
        "technique": "bounded-exhaustive enumeration of the full input/configuration product on the real middleware against a reference predicate (fixed virtual clock)",
        "claim": "the full product of 17 Authorization header shapes x 5 verifier outcomes x 3 required x 5 granted scope sets x 7 expirations (incl. the exact skew boundary +-1ns) x 2 skews x AllowMissingExpiration x nil/non-nil options x metadata URL is run through RequireBearerToken under a synctest bubble's fixed clock, each request three times through one middleware with the verifier handing out the same *TokenInfo (decisions are history-independent, the TokenInfo reaches the handler unaltered); handler-ran must equal the reference conjunction, TokenInfo identity, status legal for the causes present, challenge contents on 401/403; plus every sequence of <=3 requests with different granted scope sets through one middleware with 2-3 required scopes: each is decided on its own, the challenge lists the configured scopes, the Scopes slice handed to RequireBearerToken is never altered",
        "note": "values outside the per-dimension alphabets are not covered; where the statement leaves precedence open (scope vs expiry) both statuses are accepted; a tab between scheme and token is treated as undecided",
        "parts": [
            {"pkg": "auth", "mode": "plain", "test": "TestVerifC14", "shards": 4},
        ],
        "assumptions": ["time.Now is the only clock used by the middleware (true inside the bubble)"],
    },
}

# Properties deliberately not claimed (reason shown in MANIFEST.not_applicable).
NOT_APPLICABLE = {}
