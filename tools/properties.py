"""Per-property configuration of the checks (which binaries/tests make up a check)."""

E1_ASSUME = [
    "instrumented code is data-race free between scheduling points (guarded by the separate free-running -race pass)",
    "Go map iteration order in instrumented packages is canonicalised (sorted keys), not enumerated",
    "schedules needing more deviations than the stated budget from the default (FIFO, run-to-block) schedule are not explored",
]

PROPS = {
    "C01": {
        "level": "model_checking",
        "uses_vsched": True,
        "technique": "stateless model checking of the real goroutines: delay-bounded exhaustive schedule/fault enumeration under a controlled scheduler (synctest bubbles)",
        "claim": "every execution of 2-3 concurrent callers + scripted peer (answer/error/unknown id/late answer/EOF/read error) + optional canceller/Close thread/write faults within the deviation budget is run on the real jsonrpc2.Connection and checked against the completion oracle (own payload or an error with a cause that occurred; no blocked caller; late calls fail with the closing error)",
        "note": "assumes race-freedom between scheduling points; bounded to K<=3 callers and budget B<=2/3 deviations from the default schedule; map iteration order canonicalised",
        "parts": [
            {"pkg": "internal/jsonrpc2", "mode": "instr", "test": "TestVerifC01", "scenario_prefix": "a/"},
        ],
        "assumptions": E1_ASSUME + ["at most 3 concurrent calls, one call per caller"],
    },
}

# Properties deliberately not claimed (reason shown in MANIFEST.not_applicable).
NOT_APPLICABLE = {}
