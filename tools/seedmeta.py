#!/usr/bin/env python3
"""seedmeta.py <ID> <suffix> <seedbase>: writes seeded/<ID><suffix>/meta.json from confirm.log and copies NOTES.md."""
import json, os, re, shutil, sys
pid, suf, base = sys.argv[1], sys.argv[2], sys.argv[3]
d = "/verif/seeded/%s%s" % (pid, suf)
log = open(os.path.join(d, "confirm.log")).read()
def val(k):
    m = re.findall(k + r"=(-?\d+)", log)
    return int(m[-1]) if m else None
notes = os.path.join(base, pid + "-out", "NOTES.md")
if os.path.exists(notes):
    shutil.copy(notes, os.path.join(d, "NOTES.md"))
patch = open(os.path.join(d, "patch.diff")).read()
files = re.findall(r"^diff --git a/(\S+)", patch, re.M)
demos = [f for f in os.listdir(d) if f.endswith("_test.go")]
meta = {
    "property": pid,
    "round": int(suf[2:]) if suf.startswith("-r") else 1,
    "source": "independent sub-agent given only the property text, a description of the earlier rounds' changes to avoid, and a scratch worktree",
    "files_changed": files,
    "demonstration": demos,
    "needs_to_manifest": "see NOTES.md (written by the sub-agent) and ../STATUS.md",
    "confirmed_by": "tools/confirm_seed.sh in a scratch worktree of /repo (removed afterwards)",
    "confirmation": {
        "builds_with_patch": "BUILD-OK" in log,
        "existing_suite_with_patch_exit": val("SUITE-EXIT"),
        "suite_rerun_needed": "re-running once" in log,
        "demo_with_patch_exit": val("DEMO-WITH-PATCH-EXIT"),
        "demo_without_patch_exit": val("DEMO-WITHOUT-PATCH-EXIT"),
    },
}
json.dump(meta, open(os.path.join(d, "meta.json"), "w"), indent=1)
print(pid, meta["confirmation"])
