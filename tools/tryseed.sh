#!/bin/sh
# tryseed.sh <patch> <prop> [tier]: apply a seeded change to /repo, run the check, undo it
set -u
git -C /repo apply "$1" || { echo "patch does not apply"; exit 3; }
VERIF_NO_EVIDENCE=1 /verif/check "$2" "${3:-quick}" 2>&1 | grep -v "^goroutine\|^\s\s\s\s" | cut -c1-600 | tail -${LINES_OUT:-12}
git -C /repo checkout -- . 
git -C /repo status --short | head -3
