#!/bin/sh
# tryseed.sh <patch> <prop> [tier]: run a check against a shadow copy of /repo with a seeded change
# applied (the working tree of /repo itself is left alone, so concurrent checks are not disturbed).
# Equivalent to: git -C /repo apply <patch>; ./check <prop> <tier>; git -C /repo checkout -- .
set -u
SH=/verif/.build/seedshadow-$$
mkdir -p /verif/.build; rm -rf "$SH"
rsync -a --exclude .git /repo/ "$SH"/
patch -p1 -s -d "$SH" -i "$(realpath "$1")" || { echo "patch does not apply"; rm -rf "$SH"; exit 3; }
VERIF_REPO="$SH" VERIF_NO_EVIDENCE=1 /verif/check "$2" "${3:-quick}" 2>&1 | grep -v "^goroutine\|^\s\s\s\s" | cut -c1-600 | tail -${LINES_OUT:-12}
rm -rf "$SH"
