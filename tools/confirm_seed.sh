#!/bin/bash
# confirm_seed.sh <ID> <demo file name in /tmp/seed/ID-out> <package dir for the demo> <go test -run regex>
# Confirms in the scratch worktree /tmp/seed/ID: with the patch the existing suite passes and the demo fails;
# without the patch the demo passes.  Writes /verif/seeded/ID/{patch.diff,<demo>,confirm.log}.
set -u
ID=$1; DEMO=$2; PKG=$3; RX=$4
BASE=${SEEDBASE:-/tmp/seed}; SUF=${SEEDSUFFIX:-}
W=$BASE/$ID; O=$BASE/$ID-out; D=/verif/seeded/$ID$SUF
export GOFLAGS=-mod=mod GOPROXY=off
mkdir -p $D; cp $O/patch.diff $D/patch.diff; cp $O/$DEMO $D/$DEMO
cd $W && git checkout -q -- . && git clean -fdq
LOG=$D/confirm.log; : > $LOG
git apply $O/patch.diff || { echo "PATCH-DOES-NOT-APPLY" >> $LOG; exit 1; }
echo "== with patch: go build ./... && go vet-less full suite (go test -count=1 ./...)" >> $LOG
go build ./... >> $LOG 2>&1 && echo "BUILD-OK" >> $LOG
go test -vet=off -count=1 ./... 2>&1 | grep -v "no test files" | tail -40 >> $LOG
SUITE=${PIPESTATUS[0]}
if [ "$SUITE" != 0 ]; then
  # the repository has a test that flakes under load on the unchanged tree too: re-run the failing packages once
  echo "== suite failed; re-running once" >> $LOG
  go test -vet=off -count=1 ./... 2>&1 | grep -v "no test files" | tail -40 >> $LOG
  SUITE=${PIPESTATUS[0]}
fi
echo "SUITE-EXIT=$SUITE" >> $LOG
cp $O/$DEMO $W/$PKG/$DEMO
echo "== with patch: demo" >> $LOG
timeout 600 go test -vet=off -count=1 -run "$RX" ./$PKG/ 2>&1 | tail -15 >> $LOG
echo "DEMO-WITH-PATCH-EXIT=${PIPESTATUS[0]}" >> $LOG
git apply -R $O/patch.diff
echo "== without patch: demo" >> $LOG
timeout 600 go test -vet=off -count=1 -run "$RX" ./$PKG/ 2>&1 | tail -5 >> $LOG
echo "DEMO-WITHOUT-PATCH-EXIT=${PIPESTATUS[0]}" >> $LOG
rm -f $W/$PKG/$DEMO
grep -h "EXIT=\|BUILD-OK" $LOG | tr '\n' ' '; echo
