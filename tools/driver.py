#!/usr/bin/env python3
"""Driver for the go-sdk model-checking checks.

  check <ID> [quick|thorough]      run one property's check (rebuilds from /repo's working tree)
  check <ID> --replay <file>       re-run one recorded execution
  check setup                      build the instrumenter and warm the build cache
  check selftest [ID...]           run the checks against the mutants in /verif/mutants

Exit status: 0 property held on everything explored (known findings are printed as
KNOWN-FINDING lines), 1 at least one VIOLATION line was printed, 2 harness error
(never accompanied by a VIOLATION line).
"""
import fcntl, glob, hashlib, json, os, re, resource, shutil, subprocess, sys, time

VERIF = os.path.dirname(os.path.dirname(os.path.abspath(__file__)))
REPO = os.environ.get("VERIF_REPO", "/repo")
BUILD = os.path.join(VERIF, ".build")
MODULE = "github.com/modelcontextprotocol/go-sdk"
NCPU = int(os.environ.get("VERIF_NPROC", os.cpu_count() or 4))

sys.path.insert(0, os.path.join(VERIF, "tools"))
from properties import PROPS  # noqa: E402


def goenv():
    env = dict(os.environ)
    env["GOFLAGS"] = "-mod=mod"
    env["GOPROXY"] = "off"
    env.pop("GOTOOLCHAIN", None)  # default (auto) selects the cached go1.25.0 offline
    env.pop("GOSUMDB", None)
    return env


def log(*a):
    print(*a, file=sys.stderr, flush=True)


def run(cmd, **kw):
    return subprocess.run(cmd, **kw)


def build_instr():
    out = os.path.join(BUILD, "bin", "instr")
    src = os.path.join(VERIF, "engine", "instr")
    os.makedirs(os.path.dirname(out), exist_ok=True)
    newest = max(os.path.getmtime(os.path.join(src, f)) for f in os.listdir(src))
    if os.path.exists(out) and os.path.getmtime(out) >= newest:
        return out
    r = run(["go", "build", "-o", out, "."], cwd=src, env=goenv(), capture_output=True, text=True)
    if r.returncode != 0:
        log(r.stdout, r.stderr)
        raise SystemExit(2)
    return out


INSTR_PKGS = ["internal/jsonrpc2", "mcp"]
HARNESS_PKGS = {"jsonrpc2": "internal/jsonrpc2", "mcp": "mcp", "auth": "auth", "oauthex": "oauthex", "jsonrpc": "jsonrpc"}


def make_overlay(mode, extra_replace=None, exclude=(), fallback=()):
    """mode: 'instr', 'plain' or 'race' (= plain SDK code + the E1 harness bodies, for the free-running -race pass).
    exclude: harness files (base names without .go) left out of the build; fallback: harness files replaced by
    their <name>.go.fallback twin (a variant that does not look at the SDK's private state).
    Returns overlay.json path."""
    out = os.path.join(BUILD, mode)
    if os.path.isdir(out):
        shutil.rmtree(out)
    os.makedirs(out)
    cmd = [build_instr(), "-repo", REPO, "-out", out, "-engine", os.path.join(VERIF, "engine")]
    if mode in ("plain", "race"):
        cmd.append("-plain")
    for hdir, pkg in HARNESS_PKGS.items():
        d = os.path.join(VERIF, "harness", hdir)
        if not os.path.isdir(d):
            continue
        for f in sorted(os.listdir(d)):
            if not f.endswith(".go"):
                continue
            dst = f"{pkg}/zz_verif_{f[:-3]}_test.go"
            src = os.path.join(d, f)
            if f[:-3] in exclude:
                continue
            if f[:-3] in fallback:
                src += ".fallback"
            if f.startswith("e1_"):
                if mode == "race":
                    cmd += ["-add", f"{dst}={src}"]
                    continue
                if mode != "instr":
                    continue
                cmd += ["-add", f"{dst}={src}:instr"]
            elif f.startswith("e2_"):
                if mode != "plain":
                    continue
                cmd += ["-add", f"{dst}={src}"]
            else:
                # shared helpers (in-process HTTP, recording store, ...): under the controlled
                # scheduler their goroutines, locks and channels must be the scheduler's too
                cmd += ["-add", f"{dst}={src}:instr" if mode == "instr" else f"{dst}={src}"]
    pkgs = list(INSTR_PKGS)
    for pkg in HARNESS_PKGS.values():
        if pkg not in pkgs:
            pkgs.append(pkg)  # with -plain (or for non-instrumented pkgs) only tests are hidden
    if mode == "instr":
        for pkg in HARNESS_PKGS.values():
            if pkg not in INSTR_PKGS:
                cmd += ["-hide-tests", pkg]
        cmd += INSTR_PKGS
    else:
        cmd += pkgs
    r = run(cmd, capture_output=True, text=True)
    if r.returncode != 0:
        log("instrumenter failed:\n" + r.stdout + r.stderr)
        raise SystemExit(2)
    ov = os.path.join(out, "overlay.json")
    if extra_replace:
        data = json.load(open(ov))
        data["Replace"].update(extra_replace)
        json.dump(data, open(ov, "w"), indent=1)
    return ov


BUILD_NOTES = []


def build_test(mode, pkg, race=False, extra_replace=None, prop=None):
    """Builds the test binary of pkg under the overlay; returns its path."""
    os.makedirs(BUILD, exist_ok=True)
    lock = open(os.path.join(BUILD, "lock"), "w")
    fcntl.flock(lock, fcntl.LOCK_EX)
    try:
        race = race or mode == "race"
        rundir = os.path.join(BUILD, "run-%d" % os.getpid())
        os.makedirs(rundir, exist_ok=True)
        out = os.path.join(rundir, "%s-%s%s.test" % (mode, pkg.replace("/", "_"), "-race" if race else ""))
        exclude, fallback = set(), set()
        t0 = time.time()
        while True:
            ov = make_overlay(mode, extra_replace, exclude, fallback)
            cmd = ["go", "test", "-c", "-vet=off", "-overlay", ov, "-o", out]
            if race and not os.environ.get("VERIF_COVER"):
                cmd.append("-race")
            if os.environ.get("VERIF_COVER"):
                # development aid: statement coverage of the SDK by the plain-build and free-running parts
                cmd += ["-cover", "-coverpkg=./mcp,./auth,./internal/authutil,./internal/json,./internal/jsonrpc2,./internal/util,./internal/xcontext,./jsonrpc,./oauthex"]
            cmd.append("./" + pkg)
            r = run(cmd, cwd=REPO, env=goenv(), capture_output=True, text=True)
            if r.returncode == 0:
                break
            # All harness files of a package are compiled together.  A harness file that no longer compiles
            # against this tree (it reads private state of the SDK that a change has renamed or reshaped) must
            # not take the other properties' checks down with it: files of *other* properties are left out and
            # the build is repeated; a file of this property is replaced by its .fallback twin (black-box
            # variant) when it has one.  Anything else is a harness error (exit 2, never a VIOLATION).
            failing = set(re.findall(r"(?:zz_verif_(\w+)_test\.go|harness/\w+/(\w+)\.go(?:\.fallback)?):\d+", r.stdout + r.stderr))
            failing = {a or b for a, b in failing}
            progress = False
            for f in sorted(failing):
                hdir = [h for h, p_ in HARNESS_PKGS.items() if p_ == pkg][0]
                own = prop is None or re.search(r"_%s(?![0-9])" % prop.lower(), f) or f.startswith("common_")
                if f not in fallback and os.path.exists(os.path.join(VERIF, "harness", hdir, f + ".go.fallback")):
                    fallback.add(f)
                    progress = True
                elif not own and f not in exclude:
                    exclude.add(f)
                    progress = True
            if not progress or len(exclude) + len(fallback) > 40:
                log("build failed (%s %s):\n%s%s" % (mode, pkg, r.stdout, r.stderr))
                raise SystemExit(2)
        if exclude or fallback:
            BUILD_NOTES.append("harness files that do not compile against this tree (they read SDK internals that changed): "
                               "left out (other properties') %s; replaced by their black-box variant %s"
                               % (sorted(exclude), sorted(fallback)))
            log("NOTE: " + BUILD_NOTES[-1])
        log("built %s %s in %.1fs" % (mode, pkg, time.time() - t0))
        return out
    finally:
        fcntl.flock(lock, fcntl.LOCK_UN)
        lock.close()


def limit():
    try:
        resource.setrlimit(resource.RLIMIT_AS, (24 << 30, 24 << 30))
    except Exception:
        pass


def run_part(prop, part, tier, replay=None, seed=0, known_file=None, binary=None):
    """Runs one part (package/mode/test) sharded over processes. Returns list of shard results + harness errors."""
    pkg, mode, test = part["pkg"], part["mode"], part["test"]
    race = part.get("race", False)
    binary = binary or build_test(mode, pkg, race, prop=prop)
    nshards = 1 if replay else min(NCPU, part.get("shards", NCPU))
    if mode == "race":
        if replay:
            return [], []
        nshards = 1
    frontier = None
    pre_results = []
    if part.get("two_phase") and not replay and nshards > 1:
        # phase 1: one process expands every scenario's choice tree breadth-first into subtree roots
        frontier = os.path.join(os.path.dirname(binary), "%s-%s-frontier.json" % (prop, test))
        env = goenv()
        outp = os.path.join(os.path.dirname(binary), "%s-%s-phase1.json" % (prop, test))
        env.update({"VERIF_TIER": tier, "VERIF_SHARD": "0", "VERIF_NSHARDS": str(nshards), "VERIF_OUT": outp, "VERIF_SEED": str(seed),
                    "GOMAXPROCS": "1", "VERIF_FRONTIER_OUT": frontier, "VERIF_REPLAY_DIR": os.path.join(VERIF, "replays")})
        if known_file:
            env["VERIF_KNOWN"] = known_file
        r = subprocess.run([binary, "-test.run", "^%s$" % test, "-test.count=1", "-test.timeout=0"], cwd=os.path.join(REPO, pkg), env=env,
                           capture_output=True, text=True, preexec_fn=limit)
        if os.path.exists(outp):
            pre_results.append(json.load(open(outp)))
        else:
            return [], ["%s phase 1 produced no result (exit %s): %s" % (test, r.returncode, (r.stdout + r.stderr)[-3000:])]
    time_s = part.get("time_s", {}).get(tier, 0)
    rundir = os.path.dirname(binary)
    procs = []
    for sh in range(nshards):
        env = goenv()
        outp = os.path.join(rundir, "%s-%s-%d.json" % (prop, test, sh))
        if os.path.exists(outp):
            os.remove(outp)
        env.update({
            "VERIF_TIER": tier, "VERIF_SHARD": str(sh), "VERIF_NSHARDS": str(nshards), "VERIF_OUT": outp,
            "VERIF_SEED": str(seed), "GOMAXPROCS": str(part.get("gomaxprocs", 1)), "GOMEMLIMIT": "3GiB",
            "VERIF_REPLAY_DIR": os.path.join(VERIF, "replays"),
        })
        if time_s:
            env["VERIF_TIME_S"] = str(time_s)
        if known_file:
            env["VERIF_KNOWN"] = known_file
        if replay:
            env["VERIF_REPLAY"] = os.path.abspath(replay)
        if frontier:
            env["VERIF_FRONTIER_IN"] = frontier
        if mode == "race":
            env["VERIF_FREERUN"] = str(part.get("free_runs", {}).get(tier, 20))
            env["GOMAXPROCS"] = str(part.get("gomaxprocs", 8))
            env["GORACE"] = "halt_on_error=0 log_path=%s.race" % outp
            env.pop("GOMEMLIMIT", None)
            for f in glob.glob(outp + ".race.*"):
                os.remove(f)
        cmd = [binary, "-test.run", "^%s$" % test, "-test.count=1", "-test.timeout=0"]
        if os.environ.get("VERIF_COVER"):
            os.makedirs(os.environ["VERIF_COVER"], exist_ok=True)
            cmd.append("-test.gocoverdir=" + os.environ["VERIF_COVER"])
        if replay:
            cmd.append("-test.v")
        logf = open(outp + ".log", "w")
        p = subprocess.Popen(cmd, cwd=os.path.join(REPO, pkg), env=env, stdout=logf, stderr=subprocess.STDOUT, preexec_fn=limit)
        procs.append((p, outp, logf))
    results, herr = list(pre_results), []
    wall_cap = part.get("wall_cap", {}).get(tier, 3600 if tier == "quick" else 6 * 3600)
    t0 = time.time()
    stalled = watch_for_stalls(procs, wall_cap, t0) if mode == "plain" else {}
    for p, outp, logf in procs:
        try:
            rc = p.wait(timeout=max(1, wall_cap - (time.time() - t0)))
        except subprocess.TimeoutExpired:
            p.kill()
            rc = -9
            herr.append("%s shard killed by the wall-clock watchdog (%ds)" % (test, wall_cap))
        logf.close()
        txt = open(outp + ".log").read()
        if p.pid in stalled:
            # the execution marked in the side file never came to rest and the process went idle (no CPU time
            # used, no further execution started, for STALL_S seconds): the goroutine dump says why
            why = classify_stall(txt)
            if why:
                results.append(crash_result(prop, test, outp, why, txt, replay, kind="stall"))
            else:
                herr.append("%s shard stalled (idle for %ds inside one execution) and the goroutine dump shows no SDK goroutine waiting for a lock: %s" % (test, STALL_S, txt[-3000:]))
            continue
        if replay:
            sys.stdout.write(txt)
        if mode == "race":
            # harness bookkeeping is written for the controlled scheduler (one thread at a time); free-running it can
            # trip the runtime's own fatal checks, which kill the worker with all its runs: such a worker is run again
            tries = 1
            while not os.path.exists(outp) and rc != -9 and abnormal_end(txt)[1] is None and tries < 5:
                log("NOTE: race pass %s: the free-running worker died in harness code (%s); running it again" % (test, abnormal_end(txt)[0]))
                tries += 1
                with open(outp + ".log", "w") as lf:
                    rc = subprocess.run(cmd, cwd=os.path.join(REPO, pkg), env=env, stdout=lf, stderr=subprocess.STDOUT, preexec_fn=limit).returncode
                txt = open(outp + ".log").read()
            results.append(race_result(prop, test, outp, rc, txt, os.path.exists(outp) and json.load(open(outp)), int(env["VERIF_FREERUN"])))
        elif os.path.exists(outp):
            results.append(json.load(open(outp)))
        else:
            crash = classify_crash(txt)
            if crash and rc != -9:
                # the code under test crashed the process: that is a violation, not a harness error
                results.append(crash_result(prop, test, outp, crash, txt, replay))
            else:
                herr.append("%s shard produced no result (exit %s): %s" % (test, rc, txt[-3000:]))
    return results, herr


STALL_S = int(os.environ.get("VERIF_STALL_S", "90"))


def cpu_ticks(pid):
    try:
        f = open("/proc/%d/stat" % pid).read().rsplit(")", 1)[1].split()
        return int(f[11]) + int(f[12])
    except Exception:
        return None


def watch_for_stalls(procs, wall_cap, t0):
    """Plain-build parts run executions inside synctest bubbles.  A goroutine of the code under test that waits
    for a sync.Mutex which another goroutine holds across a blocked operation is not "durably blocked": the
    bubble's clock cannot advance, the execution never ends and the process goes idle.  Such a worker is sent
    SIGQUIT (the Go runtime then prints every goroutine's stack) and reported; returns {pid: True}."""
    stalled = {}
    last = {}
    while time.time() - t0 < wall_cap:
        alive = [(p, outp) for p, outp, _ in procs if p.poll() is None and p.pid not in stalled]
        if not alive:
            break
        for p, outp in alive:
            try:
                m = os.path.getmtime(outp + ".current")
            except OSError:
                m = 0
            key = (cpu_ticks(p.pid), m)
            prev = last.get(p.pid)
            if prev is None or prev[0] != key:
                last[p.pid] = (key, time.time())
            elif time.time() - prev[1] > STALL_S:
                stalled[p.pid] = True
                try:
                    p.send_signal(3)  # SIGQUIT: goroutine dump, then exit
                except Exception:
                    pass
        time.sleep(0.3)
    return stalled


def classify_stall(txt):
    """In the goroutine dump of a stalled worker: the first goroutine that waits for a sync.Mutex / RWMutex on
    behalf of SDK code (first frame after sync/runtime is not harness code).  None if there is none."""
    for block in txt.split("\n\n"):
        if "sync.(*Mutex).Lock" not in block and "sync.(*RWMutex)" not in block and "sync.runtime_SemacquireMutex" not in block and "sync.runtime_SemacquireRWMutex" not in block:
            continue
        lines = block.splitlines()
        for i, l in enumerate(lines):
            m = l.strip()
            if m.startswith("/") and ".go:" in m:
                if "/golang.org/toolchain@" in m or "/go/src/" in m or "/veriftools/go" in m or "/pkg/mod/" in m:
                    continue  # the Go distribution and third-party modules: look further up this goroutine's stack
                if any(h in m for h in HARNESS_MARKS):
                    break  # the wait is the harness's own (its goroutines contending for a pipe, say)
                fn = lines[i - 1].strip().rsplit("(", 1)[0] if i > 0 else ""
                return "a goroutine of the code under test waits for a lock that is held across an operation that never completes (%s at %s); the execution cannot come to rest" % (fn.split("/")[-1], m.split(" ")[0].split("/")[-1])
    return None


HARNESS_MARKS = ("zz_verif_", "/internal/vsched/", "/internal/verifx/", "/verif/harness/", "/verif/engine/")


def parse_races(text):
    """Splits race-detector output into reports; returns [(top frames of the two accesses, full text)]."""
    out = []
    for block in text.split("WARNING: DATA RACE")[1:]:
        block = block.split("==================")[0]
        tops = []
        lines = block.splitlines()
        for i, l in enumerate(lines):
            if re.match(r"^(Read|Write|Previous read|Previous write|Atomic|Previous atomic)", l.strip(), re.I) and " by " in l:
                # the first source line outside the Go runtime / standard library after the header is the accessing frame
                for m in lines[i + 1:i + 40]:
                    m = m.strip()
                    if not m:
                        break
                    if m.startswith("/") and ".go:" in m:
                        if "/golang.org/toolchain@" in m or "/go/src/" in m or "/veriftools/go" in m:
                            continue
                        tops.append(m.split(" ")[0])
                        break
        out.append((tops[:2], "WARNING: DATA RACE" + block))
    return out


def race_result(prop, test, outp, rc, txt, res, nruns):
    """The free-running -race pass: only data races whose two accesses are both in SDK code count."""
    text = txt
    for f in sorted(glob.glob(outp + ".race.*")):
        text += open(f, errors="replace").read()
    sdk, harness_side = {}, 0
    if os.environ.get("VERIF_KEEP_RACE_LOG"):  # development aid: the worker's output and every race report, kept
        open(os.environ["VERIF_KEEP_RACE_LOG"] + ".%s.%d" % (test, os.getpid()), "w").write(text)
    for tops, block in parse_races(text):
        if len(tops) < 2 or any(any(h in t for h in HARNESS_MARKS) for t in tops):
            harness_side += 1
            continue
        key = " / ".join(sorted(re.sub(r"^.*?/(mcp|internal|auth|jsonrpc|oauthex)/", r"\1/", t) for t in tops))
        sdk.setdefault(key, block)
    scen_name = "free-race/" + test
    notes = []
    scenarios = []
    if res:
        for s in res.get("scenarios") or []:
            s["name"] = "free-race/" + s["name"]
            for k in (s.get("outcomes") or {}):
                if "abandoned" in k:
                    notes.append("%s: %s" % (s["name"], k))
                    log("NOTE: race pass %s: %s" % (s["name"], k))
            s["outcomes"] = {"free-running (-race), verdicts not evaluated": s.get("execs", 1)}
            s["execs"] = s.get("steps", nruns) // max(1, s.get("execs", 1))  # one free run = one execution (steps are summed over repeated reads of the cached outcome)
            s["choice_nodes"] = 0
            scenarios.append(s)
    else:
        notes.append("the free-running worker ended abnormally (exit %s: %s); its race reports up to that point were read" % (rc, abnormal_end(txt)[0]))
        scenarios.append({"name": scen_name, "execs": 0, "steps": 0, "outcomes": {}, "complete": True})
    viols = []
    kf = known_file()
    head, frame = abnormal_end(txt) if not res else ("", None)
    if frame and head.startswith("fatal error: concurrent map"):
        # the runtime's own detector of unsynchronised map accesses fired with the accessing frame in SDK code:
        # the same finding as a race report (a worker that dies in harness bookkeeping is re-run, see run_part)
        sdk.setdefault(head + " at " + re.sub(r"^.*?/(mcp|internal|auth|jsonrpc|oauthex)/", r"\1/", frame).rsplit(":", 1)[0], txt[:4000])
    for key, block in sorted(sdk.items()):
        sig = "data-race " + key
        os.makedirs(os.path.join(VERIF, "replays"), exist_ok=True)
        rp = os.path.join(VERIF, "replays", "%s-race-%s.txt" % (prop, hashlib.sha1(sig.encode()).hexdigest()[:12]))
        open(rp, "w").write(block)
        known = False
        if kf:
            for line in open(kf):
                if line.startswith("known:") and ("property=%s " % prop) in line and ("sig=" + sig) in line:
                    known = True
        viols.append({"scenario": scen_name, "sig": sig, "known": known, "replay": rp,
                      "msg": "the race detector reports unsynchronised accesses in SDK code during a free-running execution of this property's harness "
                             "(the controlled scheduler assumes data-race freedom between its scheduling points):\n" + block[:1500]})
    return {"scenarios": scenarios, "violations": viols,
            "extra": {"race_pass_free_runs": sum(s["execs"] for s in scenarios), "race_pass_sdk_races": len(sdk),
                      "race_pass_reports_with_a_harness_side_access_ignored": harness_side,
                      **({"race_pass_notes": "; ".join(notes)} if notes else {})}}


def abnormal_end(txt):
    """Why a free-running worker died: (the panic / fatal line, the first frame of the crashing goroutine outside the
    Go distribution if that frame is SDK code, else None)."""
    lines = txt.splitlines()
    for i, l in enumerate(lines):
        if l.startswith("panic: ") or l.startswith("fatal error: "):
            started = False
            for m in lines[i + 1:i + 120]:
                m = m.strip()
                if m.startswith("goroutine "):
                    if started:
                        break
                    started = True
                if m.startswith("/") and ".go:" in m:
                    if "/golang.org/toolchain@" in m or "/go/src/" in m or "/veriftools/go" in m:
                        continue
                    f = m.split(" ")[0]
                    return l.strip(), (None if any(h in f for h in HARNESS_MARKS) or "/pkg/mod/" in f else f)
            return l.strip(), None
    return "no panic or fatal error in its output", None


def classify_crash(txt):
    """Returns the panic/fatal line if the process was crashed by code under test (not by harness code)."""
    lines = txt.splitlines()
    for i, l in enumerate(lines):
        if l.startswith("panic: ") or l.startswith("fatal error: "):
            head = l
            # the first source frame of the crashing goroutine
            for m in lines[i + 1:i + 80]:
                m = m.strip()
                if m.startswith("/") and ".go:" in m:
                    if "/src/runtime/" in m or "/src/testing/" in m:
                        continue
                    if "zz_verif_" in m or "/internal/vsched/" in m or "/internal/verifx/" in m:
                        return None
                    return head + " at " + m.split(" ")[0]
            return head
    return None


def crash_result(prop, test, outp, crash, txt, replay, kind="process-crash"):
    sig = kind + ": " + crash[:200]
    rp = replay
    scen = test
    cur = outp + ".current"
    if os.path.exists(cur):
        try:
            d = json.load(open(cur))
            scen = d.get("scenario", test)
            d["sig"], d["msg"] = sig, crash
            d["log"] = txt[-6000:].splitlines()
            if not replay:
                os.makedirs(os.path.join(VERIF, "replays"), exist_ok=True)
                rp = os.path.join(VERIF, "replays", "%s-crash-%s.json" % (prop, hashlib.sha1((scen + sig).encode()).hexdigest()[:12]))
                json.dump(d, open(rp, "w"), indent=1)
        except Exception:
            pass
    known = False
    kf = known_file()
    if kf:
        for line in open(kf):
            if line.startswith("known:") and ("property=%s " % prop) in line and ("sig=" + sig) in line:
                known = True
    return {"scenarios": [{"name": scen, "execs": 1, "steps": 1, "outcomes": {"VIOLATION: " + sig: 1}, "complete": False}],
            "violations": [{"scenario": scen, "sig": sig, "msg": ("the code under test crashed the worker process: " if kind == "process-crash" else "the execution never came to rest: ") + crash + "\n" + txt[-1500:], "known": known, "replay": rp}]}


def merge(prop, tier, seed, level, parts_results, herr, wall):
    """Merges shard results into the evidence record; returns (evidence, violations)."""
    scen = {}
    viols = {}
    extra = {}
    for res in parts_results:
        for e in res.get("harness_errors") or []:
            herr.append(e)
        for k, v in (res.get("extra") or {}).items():
            if isinstance(v, (int, float)) and not isinstance(v, bool):
                extra[k] = extra.get(k, 0) + v
            else:
                extra.setdefault(k, v)
        for s in res.get("scenarios") or []:
            m = scen.setdefault(s["name"], {"name": s["name"], "budget": s.get("budget", 0), "execs": 0, "steps": 0,
                                            "choice_nodes": 0, "max_trace": 0, "outcomes": {}, "complete": True,
                                            "deviations_by_kind": {}, "sample": [], "cap_hit": ""})
            m["execs"] += s["execs"]
            m["steps"] += s["steps"]
            m["choice_nodes"] += s.get("choice_nodes", 0)
            m["max_trace"] = max(m["max_trace"], s.get("max_trace", 0))
            for k, v in (s.get("outcomes") or {}).items():
                m["outcomes"][k] = m["outcomes"].get(k, 0) + v
            for k, v in (s.get("deviations_by_kind") or {}).items():
                m["deviations_by_kind"][k] = m["deviations_by_kind"].get(k, 0) + v
            if not s.get("complete", True):
                m["complete"] = False
                m["cap_hit"] = s.get("cap_hit") or m["cap_hit"]
            for x in s.get("sample") or []:
                if len(m["sample"]) < 3 and x not in m["sample"]:
                    m["sample"].append(x)
        for v in res.get("violations") or []:
            viols.setdefault((v["scenario"], v["sig"]), v)
    if os.environ.get("VERIF_DEBUG_SHARDS"):
        log("shard walls: " + " ".join("%.1f" % r.get("wall_s", 0) for r in parts_results))
    execs = sum(m["execs"] for m in scen.values())
    steps = sum(m["steps"] for m in scen.values())
    nodes = sum(m["choice_nodes"] for m in scen.values())
    distinct = sum(len(m["outcomes"]) for m in scen.values())
    samples = []
    table = []
    for m in scen.values():
        for x in m["sample"][:2]:
            samples.append({"scenario": m["name"], "execution": x})
        outs = m["outcomes"]
        top = sorted(outs.items(), key=lambda kv: -kv[1])[:6]
        table.append({"scenario": m["name"], "budget_completed" if m["complete"] else "budget_attempted": m["budget"],
                      "executions": m["execs"], "steps": m["steps"], "choice_nodes": m["choice_nodes"],
                      "max_choice_points_per_execution": m["max_trace"], "distinct_outcomes": len(outs),
                      "deviations_by_kind": m["deviations_by_kind"], "complete": m["complete"], "cap_hit": m["cap_hit"],
                      "top_outcomes": [{"obs": k[:300], "n": v} for k, v in top]})
    exhaustive = all(m["complete"] for m in scen.values()) and not herr and bool(scen)
    unknown = [v for v in viols.values() if not v.get("known")]
    cov = {
        "evaluations": execs,
        "distinct_nontrivial": distinct,
        "rule": "every execution is one complete run of the real SDK code for one choice list (schedule / fault / input choices); "
                "executions are enumerated exhaustively by DFS over the choice tree within the deviation budget per scenario; "
                "distinct = distinct canonical observation strings per scenario (summed over scenarios)",
        "states": max(nodes, 1),
        "transitions": max(steps, 1),
        "traces_validated_against_impl": execs,
        "samples": samples[:12] or [{"note": "no scenario produced a sample"}],
        "exhaustive": exhaustive,
        "scenarios": table,
    }
    cov.update(extra)
    ev = {"property_id": prop, "tier": tier, "seed": seed, "level": level, "coverage": cov,
          "assumptions": PROPS[prop].get("assumptions", []), "wall_s": round(wall, 2), "violations": len(unknown)}
    if herr:
        ev["coverage"]["harness_errors"] = herr[:10]
    return ev, list(viols.values())


def known_file():
    p = os.path.join(VERIF, "known_findings.txt")
    return p if os.path.exists(p) else None


def check(prop, tier, replay=None, quiet=False):
    cfg = PROPS[prop]
    seed = int(os.environ.get("VERIF_SEED", "0") or 0)
    t0 = time.time()
    all_res, herr = [], []
    rundir = os.path.join(BUILD, "run-%d" % os.getpid())
    try:
        for part in cfg["parts"]:
            if part.get("tier_only") and part["tier_only"] != tier:
                continue
            if os.environ.get("VERIF_COVER") and part["mode"] == "instr":
                continue  # coverage is measured on the uninstrumented sources only
            if os.environ.get("VERIF_ONLY_MODE") and part["mode"] != os.environ["VERIF_ONLY_MODE"]:
                continue  # debugging aid: run only the parts of one build mode
            if replay:
                scen = json.load(open(replay)).get("scenario", "")
                pref = part.get("scenario_prefix")
                if pref and not scen.startswith(tuple(pref) if isinstance(pref, list) else pref):
                    continue
                excl = part.get("scenario_exclude")
                if excl and scen.startswith(tuple(excl) if isinstance(excl, list) else excl):
                    continue
            res, he = run_part(prop, part, tier, replay=replay, seed=seed, known_file=known_file())
            all_res += res
            herr += he
    finally:
        wall = time.time() - t0
    ev, viols = merge(prop, tier, seed, cfg["level"], all_res, herr, wall)
    if BUILD_NOTES:
        ev["coverage"]["build_notes"] = sorted(set(BUILD_NOTES))
    if not replay and not os.environ.get("VERIF_NO_EVIDENCE"):
        os.makedirs(os.path.join(VERIF, "evidence"), exist_ok=True)
        json.dump(ev, open(os.path.join(VERIF, "evidence", prop + ".json"), "w"), indent=1)
    shutil.rmtree(rundir, ignore_errors=True)
    rc = 0
    for v in viols:
        if v.get("known"):
            print("KNOWN-FINDING: property=%s %s :: %s" % (prop, v["sig"], v["msg"][:300]))
        else:
            print("VIOLATION property=%s replay=%s" % (prop, v.get("replay") or "-"))
            print("  scenario=%s sig=%s\n  %s" % (v["scenario"], v["sig"], v["msg"][:1000]))
            rc = 1
    if herr:
        for e in herr[:10]:
            log("HARNESS-ERROR: " + e[:3000])
        if rc == 0:
            rc = 2
    if not quiet:
        c = ev["coverage"]
        print("%s %s: executions=%d choice_nodes=%d steps=%d distinct_outcomes=%d exhaustive=%s violations=%d wall=%.1fs" % (
            prop, tier, c["evaluations"], c["states"], c["transitions"], c["distinct_nontrivial"], c["exhaustive"], ev["violations"], wall))
        for s in c["scenarios"]:
            print("   %-40s B=%s execs=%-7d steps=%-9d outcomes=%-4d complete=%s %s" % (
                s["scenario"], s.get("budget_completed", s.get("budget_attempted")), s["executions"], s["steps"], s["distinct_outcomes"], s["complete"], s["cap_hit"]))
    return rc


def setup():
    build_instr()
    # warm the build cache for every binary the checks use
    seen = set()
    for prop, cfg in PROPS.items():
        for part in cfg["parts"]:
            key = (part["mode"], part["pkg"], part.get("race", False))
            if key in seen:
                continue
            seen.add(key)
            build_test(*key)
    shutil.rmtree(os.path.join(BUILD, "run-%d" % os.getpid()), ignore_errors=True)
    print("setup ok: %d binaries built" % len(seen))
    return 0


def selftest(ids):
    """Runs each property's quick check against its mutants (overlay replacements); every mutant must be reported."""
    mdir = os.path.join(VERIF, "mutants")
    os.makedirs(BUILD, exist_ok=True)
    bad = 0
    for prop in sorted(os.listdir(mdir)):
        if ids and prop not in ids:
            continue
        pd = os.path.join(mdir, prop)
        if not os.path.isdir(pd) or prop not in PROPS:
            continue
        for m in sorted(os.listdir(pd)):
            if not m.endswith(".diff"):
                continue
            # the mutated tree is a shadow copy of /repo with the diff applied; the check runs with VERIF_REPO pointing to it
            shadow = os.path.join(BUILD, "shadow-%d" % os.getpid())
            shutil.rmtree(shadow, ignore_errors=True)
            run(["rsync", "-a", "--exclude", ".git", REPO + "/", shadow + "/"])
            r = run(["patch", "-p1", "-s", "-d", shadow, "-i", os.path.join(pd, m)], capture_output=True, text=True)
            if r.returncode != 0:
                print("SELFTEST %s %s: patch does not apply: %s" % (prop, m, r.stdout + r.stderr))
                bad += 1
                shutil.rmtree(shadow, ignore_errors=True)
                continue
            env = dict(os.environ)
            env["VERIF_REPO"] = shadow
            env["VERIF_NO_EVIDENCE"] = "1"
            r = run([sys.executable, os.path.abspath(__file__), prop, "quick"], env=env, capture_output=True, text=True)
            caught = r.returncode == 1 and "VIOLATION property=" + prop in r.stdout
            print("SELFTEST %s %-40s %s" % (prop, m, "caught" if caught else "MISSED (rc=%d)" % r.returncode))
            if not caught:
                bad += 1
                print(r.stdout[-1500:], r.stderr[-1500:])
            shutil.rmtree(shadow, ignore_errors=True)
    return 1 if bad else 0


def main():
    a = sys.argv[1:]
    if not a:
        print(__doc__)
        return 2
    if a[0] == "setup":
        return setup()
    if a[0] == "selftest":
        return selftest(a[1:])
    prop = a[0]
    if prop not in PROPS:
        print("unknown property", prop)
        return 2
    tier = os.environ.get("VERIF_TIER") or "quick"
    replay = None
    i = 1
    while i < len(a):
        if a[i] in ("quick", "thorough"):
            tier = a[i]
        elif a[i] == "--replay":
            replay = a[i + 1]
            i += 1
        i += 1
    return check(prop, tier, replay)


if __name__ == "__main__":
    sys.exit(main())
