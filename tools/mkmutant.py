#!/usr/bin/env python3
"""mkmutant.py PROP NAME FILE  (stdin: blocks 'OLD\n=====\nNEW' separated by lines '#####')
Creates /verif/mutants/PROP/NAME.diff from /repo/FILE with the replacements applied (each OLD must occur exactly once)."""
import sys, os, subprocess, tempfile
prop, name, rel = sys.argv[1:4]
src = open(os.path.join('/repo', rel)).read()
out = src
for blk in sys.stdin.read().split('\n#####\n'):
    old, new = blk.split('\n=====\n')
    old = old.strip('\n'); new = new.strip('\n')
    if out.count(old) != 1:
        sys.exit('OLD occurs %d times: %r' % (out.count(old), old[:60]))
    out = out.replace(old, new)
d = tempfile.mkdtemp()
os.makedirs(os.path.join(d, 'a', os.path.dirname(rel))); os.makedirs(os.path.join(d, 'b', os.path.dirname(rel)))
open(os.path.join(d, 'a', rel), 'w').write(src); open(os.path.join(d, 'b', rel), 'w').write(out)
r = subprocess.run(['diff', '-u', os.path.join('a', rel), os.path.join('b', rel)], cwd=d, capture_output=True, text=True)
os.makedirs('/verif/mutants/' + prop, exist_ok=True)
p = '/verif/mutants/%s/%s.diff' % (prop, name)
mode = 'a' if os.path.exists(p) and os.environ.get('APPEND') else 'w'
open(p, mode).write(r.stdout)
print(p, len(r.stdout.splitlines()), 'lines')
