#!/usr/bin/env python3
"""Regenerates /verif/MANIFEST.json from tools/properties.py (claimed checks) and properties.jsonl (ids)."""
import json, os, sys
VERIF = os.path.dirname(os.path.dirname(os.path.abspath(__file__)))
sys.path.insert(0, os.path.join(VERIF, "tools"))
from properties import PROPS, NOT_APPLICABLE

ids = [json.loads(l)["id"] for l in open(os.path.join(VERIF, "properties.jsonl")) if l.strip()]
checks = []
for pid in ids:
    if pid not in PROPS:
        continue
    c = PROPS[pid]
    checks.append({
        "property_id": pid,
        "quick_cmd": "./check %s quick" % pid,
        "thorough_cmd": "./check %s thorough" % pid,
        "evidence_file": "/verif/evidence/%s.json" % pid,
        "replay_cmd_template": "./check %s --replay {path}" % pid,
        "engine": c.get("engine", "explore+vsched"),
        "level_claimed": {"category": c["level"], "text": c["claim"], "design_ref": c.get("design_ref", "DESIGN.md §3 " + pid)},
        "level_note": c["note"],
        "technique": c["technique"],
    })
na = [{"property_id": pid, "reason": NOT_APPLICABLE.get(pid, "check not built yet in this snapshot; see DESIGN.md §3 for the planned exploration")} for pid in ids if pid not in PROPS]
m = {
    "version": 1,
    "setup_cmd": "./check setup",
    "hooks": {
        "guard": "verif",
        "enable": "no source hooks: checks build /repo's working tree under a go build -overlay that adds instrumented copies of internal/jsonrpc2 and mcp, the virtual packages internal/vsched and internal/verifx, and the harness _test.go files (see tools/driver.py)",
        "baseline_off_cmd": "cd /repo && GOFLAGS=-mod=mod GOPROXY=off go test -vet=off -count=1 -timeout 25m ./...",
        "source_commits": [],
        "add_only": True,
    },
    "engines": [
        {"name": "explore", "path": "engine/verifx", "serves_properties": ids, "kind_free_text": "choice-tree DFS with a single deviation budget (delay-bounded schedules, timer placements, environment faults), free menus as full products; sharded over processes; replay files; known-finding handling"},
        {"name": "vsched", "path": "engine/vsched", "serves_properties": [p for p in ids if PROPS.get(p, {}).get("uses_vsched")], "kind_free_text": "controlled cooperative scheduler for the real goroutines inside testing/synctest bubbles (virtual time owned by the explorer); sync/chan/select/go/timer/map-order operations of the SDK are routed to it by engine/instr (AST instrumentation via build overlay)"},
        {"name": "instr", "path": "engine/instr", "serves_properties": [p for p in ids if PROPS.get(p, {}).get("uses_vsched")], "kind_free_text": "go/packages + go/ast instrumenter producing the overlay on every check from /repo's working tree"},
    ],
    "checks": checks,
    "not_applicable": na,
    "notes": "All checks run the real SDK code; exploration is exhaustive within the bounds each evidence file states (budget per scenario, alphabets). Exit 2 (harness error) is never accompanied by a VIOLATION line.",
}
json.dump(m, open(os.path.join(VERIF, "MANIFEST.json"), "w"), indent=1)
print("MANIFEST.json: %d checks, %d not_applicable" % (len(checks), len(na)))
