package mcp

// C06 over HTTP: a stateful streamable endpoint serves a request only on a session that went
// through the initialize handshake, and never serves a request carrying 2026-07-28 per-request
// metadata (that revision has no stateful binding) - whatever the Mcp-Protocol-Version header
// says or omits, and without any such request leaving an "initialized" session behind.
// History search over POSTs against the real handler, with a reference gate.

import (
	"context"
	"fmt"
	"net/http"
	"net/http/httptest"
	"strings"
	"testing"
	"testing/synctest"

	"github.com/modelcontextprotocol/go-sdk/internal/verifx"
)

type c06hOp struct {
	name   string
	kind   string // init, initd, legacy, modern, modern-incomplete, discover
	method string
	useSID bool
	header string // Mcp-Protocol-Version ("" = absent)
}

func c06hOps() []c06hOp {
	ops := []c06hOp{
		{name: "POST initialize(2025-06-18) without session id", kind: "init"},
		{name: "POST notifications/initialized on the session", kind: "initd", useSID: true, header: "2025-06-18"},
		{name: "POST tools/list (legacy) on the session", kind: "legacy", method: "tools/list", useSID: true, header: "2025-06-18"},
		{name: "POST tools/call (legacy) on the session, no version header", kind: "legacy", method: "tools/call", useSID: true},
		{name: "POST tools/list (legacy) without session id", kind: "legacy", method: "tools/list", header: "2025-06-18"},
	}
	for _, sid := range []bool{false, true} {
		for _, hdr := range []string{"", "2025-06-18", "2026-07-28"} {
			where := "without session id"
			if sid {
				where = "on the session"
			}
			h := "no version header"
			if hdr != "" {
				h = "header " + hdr
			}
			ops = append(ops, c06hOp{name: fmt.Sprintf("POST tools/call with complete 2026-07-28 _meta %s, %s", where, h), kind: "modern", method: "tools/call", useSID: sid, header: hdr})
		}
	}
	ops = append(ops,
		c06hOp{name: "POST tools/list with incomplete 2026-07-28 _meta without session id, no version header", kind: "modern-incomplete", method: "tools/list"},
		c06hOp{name: "POST server/discover (2026-07-28 _meta, header 2026-07-28) without session id", kind: "discover", method: "server/discover", header: "2026-07-28"},
	)
	return ops
}

func c06hRun(t *testing.T, ops []c06hOp, hist []int) (out verifx.SearchResult) {
	defer func() {
		if r := recover(); r != nil {
			out = verifx.SearchResult{Bad: fmt.Sprintf("panic / bubble failure: %v", r), Sig: "c06 http panic-or-leak"}
		}
	}()
	synctest.Test(t, func(t *testing.T) { out = c06hInBubble(ops, hist) })
	return out
}

func c06hInBubble(ops []c06hOp, hist []int) verifx.SearchResult {
	bad := func(sig, format string, a ...any) verifx.SearchResult {
		return verifx.SearchResult{Bad: fmt.Sprintf(format, a...), Sig: "c06 http " + sig}
	}
	served := 0 // requests that reached the feature handlers
	s := NewServer(&Implementation{Name: "srv", Version: "1"}, &ServerOptions{Logger: quietLogger})
	AddTool(s, &Tool{Name: "t"}, func(ctx context.Context, r *CallToolRequest, in map[string]any) (*CallToolResult, any, error) {
		return &CallToolResult{}, nil, nil
	})
	s.AddReceivingMiddleware(func(next MethodHandler) MethodHandler {
		return func(ctx context.Context, method string, req Request) (Result, error) {
			if strings.HasPrefix(method, "tools/") {
				served++
			}
			return next(ctx, method, req)
		}
	})
	h := NewStreamableHTTPHandler(func(*http.Request) *Server { return s }, &StreamableHTTPOptions{Logger: quietLogger})
	defer func() {
		for ss := range s.Sessions() {
			ss.Close()
		}
	}()
	post := func(sid, header, body string) *httptest.ResponseRecorder {
		r := httptest.NewRequest("POST", "http://example.test/mcp", strings.NewReader(body))
		r.Header.Set("Content-Type", "application/json")
		r.Header.Set("Accept", "application/json, text/event-stream")
		if sid != "" {
			r.Header.Set("Mcp-Session-Id", sid)
		}
		if header != "" {
			r.Header.Set("Mcp-Protocol-Version", header)
		}
		w := httptest.NewRecorder()
		done := make(chan struct{})
		go func() { defer close(done); h.ServeHTTP(w, r) }()
		synctest.Wait()
		select {
		case <-done:
		default:
			w.Code = -1
		}
		return w
	}
	sid := ""
	inited := false
	obs := ""
	for step, oi := range hist {
		op := ops[oi]
		where := fmt.Sprintf("step %d (%s)", step, op.name)
		if op.useSID && sid == "" {
			return verifx.SearchResult{Skip: true}
		}
		useSID := ""
		if op.useSID {
			useSID = sid
		}
		before := served
		switch op.kind {
		case "init":
			if sid != "" {
				return verifx.SearchResult{Skip: true}
			}
			w := post("", "", `{"jsonrpc":"2.0","id":1,"method":"initialize","params":{"protocolVersion":"2025-06-18","capabilities":{},"clientInfo":{"name":"c","version":"1"}}}`)
			sid = w.Header().Get("Mcp-Session-Id")
			if w.Code != 200 || sid == "" {
				return bad("initialize-failed", "%s: status %d, session id %q", where, w.Code, sid)
			}
			inited = true
			obs = "init"
		case "initd":
			w := post(useSID, op.header, `{"jsonrpc":"2.0","method":"notifications/initialized","params":{}}`)
			if w.Code >= 300 {
				return bad("initialized-rejected", "%s: status %d", where, w.Code)
			}
			obs = "initd"
		default:
			meta := ""
			switch op.kind {
			case "modern", "discover":
				meta = c06ModernMeta
			case "modern-incomplete":
				meta = `"_meta":{"io.modelcontextprotocol/protocolVersion":"2026-07-28"}`
			}
			params := "{" + meta + "}"
			if op.method == "tools/call" {
				params = `{"name":"t","arguments":{}`
				if meta != "" {
					params += "," + meta
				}
				params += "}"
			}
			w := post(useSID, op.header, fmt.Sprintf(`{"jsonrpc":"2.0","id":%d,"method":%q,"params":%s}`, 10+step, op.method, params))
			if w.Code < 0 {
				return bad("request-hangs", "%s: the POST did not complete", where)
			}
			legit := op.kind == "legacy" && op.useSID && inited
			ran := served - before
			switch {
			case legit && (ran != 1 || w.Code != 200):
				return bad("legitimate-request-refused "+op.kind, "%s: a legacy request on an initialized session was not served (status %d, handler reached %d times)", where, w.Code, ran)
			case !legit && ran != 0:
				why := "the session was never initialized"
				if op.kind != "legacy" {
					why = "2026-07-28 per-request metadata has no binding on a stateful endpoint"
				} else if !op.useSID {
					why = "it names no session"
				}
				return bad(fmt.Sprintf("served-without-handshake %s sid=%v header=%q", op.kind, op.useSID, op.header), "%s: the request reached the feature handlers (status %d) although %s", where, w.Code, why)
			case !legit && w.Code == 200 && strings.Contains(w.Body.String(), `"result"`) && op.kind != "discover":
				return bad("refusable-request-answered-with-result", "%s: answered with a result: %s", where, w.Body.String())
			}
			obs = fmt.Sprintf("%s-%d", op.kind, w.Code)
		}
		synctest.Wait()
		// no request other than the handshake leaves an initialized session behind
		for ss := range s.Sessions() {
			if ss.InitializeParams() != nil && (ss.ID() != sid || !inited) {
				return bad("session-initialized-without-handshake", "after %s: the server holds a session (id %q) marked initialized although no initialize handshake created it", where, ss.ID())
			}
		}
	}
	return verifx.SearchResult{Key: fmt.Sprintf("sid=%v inited=%v last=%d", sid != "", inited, hist[len(hist)-1]), Obs: obs}
}

func TestVerifC06HTTP(t *testing.T) {
	env := verifx.LoadEnv("C06")
	res := env.NewResult()
	ops := c06hOps()
	env.RunSearch(res, &verifx.Search{
		Name: "http-stateful-history-search", NumOps: len(ops), OpName: func(i int) string { return ops[i].name },
		MaxDepth: env.Pick(3, 4), ShallowDepth: env.Pick(3, 4),
		Run: func(h []int) verifx.SearchResult { return c06hRun(t, ops, h) },
	})
	env.Finish(res)
}
