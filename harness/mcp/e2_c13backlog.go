package mcp

// C13, "a peer that answers is never closed by keep-alive" when the session is busy.  A raw peer answers
// every ping the moment it reads it.  It also sends a progress notification whose handler on the real
// session takes longer than threshold x interval, and right behind it a burst of n further notifications
// (n from a handful to several thousand) that queue up behind that handler.  The ping answers travel on
// the same connection as the burst: they must still reach their pings, and keep-alive must not close the
// session - not during the slow handler, not while the backlog is worked off.

import (
	"bufio"
	"context"
	"encoding/json"
	"fmt"
	"io"
	"testing"
	"testing/synctest"
	"time"

	"github.com/modelcontextprotocol/go-sdk/internal/verifx"
)

func c13BacklogCase(side string, n, threshold int, slow time.Duration) (obs, sig, msg string) {
	const interval = 2 * time.Second
	desc := fmt.Sprintf("real %s session, keep-alive %v threshold %d, a notification handler busy for %v, %d notifications queued behind it, every ping answered at once", side, interval, threshold, slow, n)
	fail := func(s, format string, a ...any) (string, string, string) {
		return "", "c13 busy-session " + s, fmt.Sprintf(format, a...) + " [" + desc + "]"
	}
	ctx := context.Background()
	ct, st := NewInMemoryTransports()
	handled := 0
	onProgress := func() {
		handled++
		if handled == 1 {
			time.Sleep(slow)
		}
	}
	var peer io.ReadWriteCloser
	handshake := make(chan struct{})
	pings := 0
	// everything the peer writes goes through one goroutine (a peer has one output stream)
	out := make(chan string, 1<<16)
	go func() {
		for l := range out {
			if _, err := io.WriteString(peer, l); err != nil {
				return
			}
		}
	}()
	scan := func() {
		sc := bufio.NewScanner(peer)
		sc.Buffer(make([]byte, 1<<20), 1<<20)
		for sc.Scan() {
			var m struct {
				ID     json.RawMessage `json:"id"`
				Method string          `json:"method"`
			}
			json.Unmarshal(sc.Bytes(), &m)
			switch m.Method {
			case "initialize":
				out <- `{"jsonrpc":"2.0","id":` + string(m.ID) + `,"result":{"protocolVersion":"2025-06-18","capabilities":{},"serverInfo":{"name":"peer","version":"1"}}}` + "\n"
			case "notifications/initialized":
				close(handshake)
			case "ping":
				pings++
				out <- `{"jsonrpc":"2.0","id":` + string(m.ID) + `,"result":{}}` + "\n"
			}
		}
	}
	closedAt := time.Duration(-1)
	t0 := time.Now()
	var closeSession func() error
	switch side {
	case "client":
		peer = st.rwc
		go scan()
		c := NewClient(&Implementation{Name: "cli", Version: "1"}, &ClientOptions{Logger: quietLogger, KeepAlive: interval, KeepAliveFailureThreshold: threshold,
			ProgressNotificationHandler: func(context.Context, *ProgressNotificationClientRequest) { onProgress() }})
		cs, err := c.Connect(ctx, ct, &ClientSessionOptions{ProtocolVersion: "2025-06-18"})
		if err != nil {
			return fail("setup", "%v", err)
		}
		<-handshake
		go func() { cs.Wait(); closedAt = time.Since(t0) }()
		closeSession = cs.Close
	case "server":
		peer = ct.rwc
		go scan()
		s := NewServer(&Implementation{Name: "srv", Version: "1"}, &ServerOptions{Logger: quietLogger, KeepAlive: interval, KeepAliveFailureThreshold: threshold,
			ProgressNotificationHandler: func(context.Context, *ProgressNotificationServerRequest) { onProgress() }})
		ss, err := s.Connect(ctx, st, nil)
		if err != nil {
			return fail("setup", "%v", err)
		}
		out <- `{"jsonrpc":"2.0","id":"i","method":"initialize","params":{"protocolVersion":"2025-06-18","capabilities":{},"clientInfo":{"name":"peer","version":"1"}}}` + "\n"
		out <- `{"jsonrpc":"2.0","method":"notifications/initialized","params":{}}` + "\n"
		go func() { ss.Wait(); closedAt = time.Since(t0) }()
		closeSession = ss.Close
	}
	synctest.Wait()
	for i := 0; i <= n; i++ {
		out <- `{"jsonrpc":"2.0","method":"notifications/progress","params":{"progressToken":"t","progress":` + fmt.Sprint(i+1) + `}}` + "\n"
	}
	horizon := slow + time.Duration(threshold+3)*interval
	time.Sleep(horizon)
	synctest.Wait()
	defer func() { close(out); peer.Close(); closeSession() }()
	switch {
	case closedAt >= 0:
		return fail("live-session-closed", "keep-alive closed the session at %v although the peer answered every ping it received (%d pings reached it)", closedAt, pings)
	case handled != n+1:
		return fail("backlog-not-worked-off", "%d of %d notifications handled after %v", handled, n+1, horizon)
	case pings < int(horizon/interval)-1:
		return fail("pings-missing", "only %d pings reached the peer in %v", pings, horizon)
	}
	return fmt.Sprintf("%s open, %d pings", side, pings), "", ""
}

func TestVerifC13Backlog(t *testing.T) {
	env := verifx.LoadEnv("C13")
	res := env.NewResult()
	cases := env.NewCases(res, "busy-session/slow-handler-and-backlog")
	for _, side := range []string{"client", "server"} {
		for _, threshold := range []int{1, 2, 3} {
			for _, slow := range []time.Duration{0, 3 * time.Second, 9 * time.Second} {
				for _, n := range []int{0, 10, 1000, 1023, 1024, 1025, 1100, 3000} {
					idx, mine := cases.Next()
					if !mine {
						continue
					}
					var obs, sig, msg string
					func() {
						defer func() {
							if r := recover(); r != nil && sig == "" {
								sig, msg = "c13 busy-session panic-or-leak", fmt.Sprintf("%v [%s th=%d slow=%v n=%d]", r, side, threshold, slow, n)
							}
						}()
						synctest.Test(t, func(t *testing.T) { obs, sig, msg = c13BacklogCase(side, n, threshold, slow) })
					}()
					if sig != "" {
						cases.Violate(idx, sig, msg, n+3)
						continue
					}
					cases.Record(idx, obs, n+3, func() string { return fmt.Sprintf("%s th=%d slow=%v n=%d", side, threshold, slow, n) })
				}
			}
		}
	}
	env.Finish(res)
}
