package mcp

// C06 (E1): a request carrying complete 2026-07-28 _meta arrives over HTTP+SSE while the session
// is still being set up (the peer POSTs the moment it has seen the endpoint event; Server.Connect
// is still running inside the GET).  HTTP+SSE does not serve 2026-07-28: whenever it arrives, the
// request must be refused with -32022 listing the legacy versions - it must not be served without a
// handshake, and it must not leave the session marked initialized.

import (
	"context"
	"encoding/json"
	"fmt"
	"net/http"
	"net/http/httptest"
	"slices"
	"strings"
	"testing"

	"github.com/modelcontextprotocol/go-sdk/internal/verifx"
	vs "github.com/modelcontextprotocol/go-sdk/internal/vsched"
)

func c06ModernRequestRacesSetup() vs.Verdict {
	f := &e1Fail{prefix: "c06 sse-setup-race"}
	served := 0
	s := NewServer(&Implementation{Name: "srv", Version: "1"}, &ServerOptions{Logger: quietLogger})
	AddTool(s, &Tool{Name: "t"}, func(ctx context.Context, r *CallToolRequest, in map[string]any) (*CallToolResult, any, error) {
		served++
		return &CallToolResult{}, nil, nil
	})
	h := NewSSEHandler(func(*http.Request) *Server { return s }, nil)
	ctx, cancel := context.WithCancel(context.Background())
	stream := &c07Stream{ResponseRecorder: httptest.NewRecorder(), first: make(chan struct{})}
	getDone := make(chan struct{})
	vs.Go(func() {
		defer close(getDone)
		h.ServeHTTP(stream, httptest.NewRequest("GET", "http://example.test/sse", nil).WithContext(ctx))
	})
	endpoint := ""
	post := func(body string) int {
		r := httptest.NewRequest("POST", "http://example.test"+endpoint, strings.NewReader(body))
		r.Header.Set("Content-Type", "application/json")
		w := httptest.NewRecorder()
		h.ServeHTTP(w, r)
		return w.Code
	}
	const meta = `"_meta":{"io.modelcontextprotocol/protocolVersion":"2026-07-28","io.modelcontextprotocol/clientInfo":{"name":"c","version":"1"},"io.modelcontextprotocol/clientCapabilities":{}}`
	postDone := make(chan int, 1)
	vs.Go(func() {
		<-stream.first
		for _, evt := range hxParseSSE(stream.Body.Bytes()) {
			if evt.Name == "endpoint" {
				endpoint = string(evt.Data)
			}
		}
		postDone <- post(`{"jsonrpc":"2.0","id":1,"method":"tools/call","params":{"name":"t","arguments":{},` + meta + `}}`)
	})
	code := <-postDone
	vs.WaitIdle()
	vs.Quiet(true)
	// afterwards: a legacy request without any handshake must still be refused
	post(`{"jsonrpc":"2.0","id":2,"method":"tools/list","params":{}}`)
	vs.WaitIdle()
	cancel()
	<-getDone
	vs.WaitIdle()
	vs.Quiet(false)
	if code != 202 {
		return f.verdict(fmt.Sprintf("POST answered %d", code))
	}
	obs := ""
	for _, evt := range hxParseSSE(stream.Body.Bytes()) {
		var m struct {
			ID     any             `json:"id"`
			Result json.RawMessage `json:"result"`
			Error  *struct {
				Code int             `json:"code"`
				Data json.RawMessage `json:"data"`
			} `json:"error"`
		}
		if evt.Name == "endpoint" || json.Unmarshal(evt.Data, &m) != nil || m.ID == nil {
			continue
		}
		id := fmt.Sprint(m.ID)
		switch {
		case id == "1" && m.Error == nil:
			f.failf("served-modern-request-on-legacy-transport", "a tools/call with 2026-07-28 _meta, POSTed as soon as the endpoint was known, was served over HTTP+SSE (handler ran %d times): %s", served, m.Result)
		case id == "1" && m.Error.Code != -32022:
			f.failf("modern-request-wrong-code", "refused with %d, want -32022", m.Error.Code)
		case id == "1":
			var d struct {
				Supported []string `json:"supported"`
			}
			json.Unmarshal(m.Error.Data, &d)
			if slices.Contains(d.Supported, "2026-07-28") || len(d.Supported) == 0 {
				f.failf("unsupported-version-list-wrong", "-32022 lists the supported versions %v over HTTP+SSE", d.Supported)
			}
			obs += " modern:-32022"
		case id == "2" && m.Error == nil:
			f.failf("served-legacy-request-without-handshake", "after the refused modern request a legacy tools/list without any handshake was served: %s", m.Result)
		case id == "2":
			obs += fmt.Sprintf(" legacy:%d", m.Error.Code)
		}
	}
	if served != 0 {
		f.failf("served-modern-request-on-legacy-transport", "the tool handler ran %d times", served)
	}
	return f.verdict(strings.TrimSpace(obs))
}

func TestVerifC06Race(t *testing.T) {
	env := verifx.LoadEnv("C06")
	env.Run([]*verifx.Scenario{
		vs.E1(t, "race/modern-request-races-sse-session-setup", env.Pick(4, 5), vs.Options{}, func() vs.Verdict { return c06ModernRequestRacesSetup() }),
	})
}
