package mcp

// C06 (E1): a request carrying complete 2026-07-28 _meta arrives over HTTP+SSE while the session
// is still being set up (the peer POSTs the moment it has seen the endpoint event; Server.Connect
// is still running inside the GET).  HTTP+SSE does not serve 2026-07-28: whenever it arrives, the
// request must be refused with -32022 listing the legacy versions - it must not be served without a
// handshake, and it must not leave the session marked initialized.

import (
	"bufio"
	"context"
	"encoding/json"
	"fmt"
	"io"
	"net/http"
	"net/http/httptest"
	"slices"
	"strings"
	"sync"
	"testing"

	"github.com/modelcontextprotocol/go-sdk/internal/verifx"
	vs "github.com/modelcontextprotocol/go-sdk/internal/vsched"
)

func c06ModernRequestRacesSetup() vs.Verdict {
	f := &e1Fail{prefix: "c06 sse-setup-race"}
	served := 0
	s := NewServer(&Implementation{Name: "srv", Version: "1"}, &ServerOptions{Logger: quietLogger})
	AddTool(s, &Tool{Name: "t"}, func(ctx context.Context, r *CallToolRequest, in map[string]any) (*CallToolResult, any, error) {
		served++
		return &CallToolResult{}, nil, nil
	})
	h := NewSSEHandler(func(*http.Request) *Server { return s }, nil)
	ctx, cancel := context.WithCancel(context.Background())
	stream := &c07Stream{ResponseRecorder: httptest.NewRecorder(), first: make(chan struct{})}
	getDone := make(chan struct{})
	vs.Go(func() {
		defer close(getDone)
		h.ServeHTTP(stream, httptest.NewRequest("GET", "http://example.test/sse", nil).WithContext(ctx))
	})
	endpoint := ""
	post := func(body string) int {
		r := httptest.NewRequest("POST", "http://example.test"+endpoint, strings.NewReader(body))
		r.Header.Set("Content-Type", "application/json")
		w := httptest.NewRecorder()
		h.ServeHTTP(w, r)
		return w.Code
	}
	const meta = `"_meta":{"io.modelcontextprotocol/protocolVersion":"2026-07-28","io.modelcontextprotocol/clientInfo":{"name":"c","version":"1"},"io.modelcontextprotocol/clientCapabilities":{}}`
	postDone := make(chan int, 1)
	vs.Go(func() {
		<-stream.first
		for _, evt := range hxParseSSE(stream.Body.Bytes()) {
			if evt.Name == "endpoint" {
				endpoint = string(evt.Data)
			}
		}
		postDone <- post(`{"jsonrpc":"2.0","id":1,"method":"tools/call","params":{"name":"t","arguments":{},` + meta + `}}`)
	})
	code := <-postDone
	vs.WaitIdle()
	vs.Quiet(true)
	// afterwards: a legacy request without any handshake must still be refused
	post(`{"jsonrpc":"2.0","id":2,"method":"tools/list","params":{}}`)
	vs.WaitIdle()
	cancel()
	<-getDone
	vs.WaitIdle()
	vs.Quiet(false)
	if code != 202 {
		return f.verdict(fmt.Sprintf("POST answered %d", code))
	}
	obs := ""
	for _, evt := range hxParseSSE(stream.Body.Bytes()) {
		var m struct {
			ID     any             `json:"id"`
			Result json.RawMessage `json:"result"`
			Error  *struct {
				Code int             `json:"code"`
				Data json.RawMessage `json:"data"`
			} `json:"error"`
		}
		if evt.Name == "endpoint" || json.Unmarshal(evt.Data, &m) != nil || m.ID == nil {
			continue
		}
		id := fmt.Sprint(m.ID)
		switch {
		case id == "1" && m.Error == nil:
			f.failf("served-modern-request-on-legacy-transport", "a tools/call with 2026-07-28 _meta, POSTed as soon as the endpoint was known, was served over HTTP+SSE (handler ran %d times): %s", served, m.Result)
		case id == "1" && m.Error.Code != -32022:
			f.failf("modern-request-wrong-code", "refused with %d, want -32022", m.Error.Code)
		case id == "1":
			var d struct {
				Supported []string `json:"supported"`
			}
			json.Unmarshal(m.Error.Data, &d)
			if slices.Contains(d.Supported, "2026-07-28") || len(d.Supported) == 0 {
				f.failf("unsupported-version-list-wrong", "-32022 lists the supported versions %v over HTTP+SSE", d.Supported)
			}
			obs += " modern:-32022"
		case id == "2" && m.Error == nil:
			f.failf("served-legacy-request-without-handshake", "after the refused modern request a legacy tools/list without any handshake was served: %s", m.Result)
		case id == "2":
			obs += fmt.Sprintf(" legacy:%d", m.Error.Code)
		}
	}
	if served != 0 {
		f.failf("served-modern-request-on-legacy-transport", "the tool handler ran %d times", served)
	}
	return f.verdict(strings.TrimSpace(obs))
}

// c06StateRace: the lifecycle transitions are atomic.  Several writers of the session state run on
// goroutines of their own (logging/setLevel, server/discover, the take-back of a refused 2026-07-28
// request) and can overlap the gate's serial ones; whatever the schedule, a repeated initialized is
// rejected, and a session whose only requests were refused serves nothing.
//
//	kind "initialized-vs-setlevel": initialize, then - written back to back - logging/setLevel,
//	initialized, initialized.  The InitializedHandler runs exactly once and the level is set.
//	kind "takeback-vs-initialize": on a fresh session a 2026-07-28 call of an unknown tool (refused,
//	its marking taken back) and a legacy initialize, back to back; then a legacy tools/list.  The list
//	is served iff the initialize was accepted.
func c06StateRace(kind string) vs.Verdict {
	f := &e1Fail{prefix: "c06 state-race " + kind}
	ctx := context.Background()
	vs.Quiet(true)
	inits, lists := 0, 0
	s := NewServer(&Implementation{Name: "srv", Version: "1"}, &ServerOptions{Logger: quietLogger,
		InitializedHandler: func(context.Context, *InitializedRequest) { inits++ }})
	AddTool(s, &Tool{Name: "t"}, func(ctx context.Context, r *CallToolRequest, in map[string]any) (*CallToolResult, any, error) {
		return &CallToolResult{}, nil, nil
	})
	s.AddReceivingMiddleware(func(next MethodHandler) MethodHandler {
		return func(ctx context.Context, method string, req Request) (Result, error) {
			if method == "tools/list" {
				lists++
			}
			return next(ctx, method, req)
		}
	})
	ct, st := NewInMemoryTransports()
	ss, err := s.Connect(ctx, st, nil)
	if err != nil {
		return vs.Verdict{Bad: "connect failed: " + err.Error(), Sig: "c06 state-race connect-failed"}
	}
	peer := ct.rwc
	var mu sync.Mutex
	replies := map[string]bool{} // id -> answered with an error
	drained := make(chan struct{})
	vs.Go(func() {
		defer close(drained)
		sc := bufio.NewScanner(peer)
		sc.Buffer(make([]byte, 1<<20), 1<<20)
		for sc.Scan() {
			var m struct {
				ID    json.RawMessage `json:"id"`
				Error json.RawMessage `json:"error"`
			}
			if json.Unmarshal(sc.Bytes(), &m) == nil && m.ID != nil {
				mu.Lock()
				replies[string(m.ID)] = m.Error != nil
				mu.Unlock()
			}
		}
	})
	// The reader of the peer's end is up before anything is sent: free-running (race pass) a thread's
	// start may be delayed in virtual time, and two responses queued behind an unread pipe leave the
	// second writer waiting for the connection's write mutex, which a bubble cannot wait out.
	vs.WaitIdle()
	send := func(line string) { io.WriteString(peer, line+"\n") }
	const meta = `"_meta":{"io.modelcontextprotocol/protocolVersion":"2026-07-28","io.modelcontextprotocol/clientInfo":{"name":"c","version":"1"},"io.modelcontextprotocol/clientCapabilities":{}}`
	const initialize = `{"jsonrpc":"2.0","id":1,"method":"initialize","params":{"protocolVersion":"2025-06-18","capabilities":{},"clientInfo":{"name":"peer","version":"1"}}}`
	obs := ""
	switch kind {
	case "initialized-vs-setlevel":
		send(initialize)
		vs.WaitIdle()
		vs.Quiet(false)
		send(`{"jsonrpc":"2.0","id":2,"method":"logging/setLevel","params":{"level":"debug"}}`)
		send(`{"jsonrpc":"2.0","method":"notifications/initialized","params":{}}`)
		send(`{"jsonrpc":"2.0","method":"notifications/initialized","params":{}}`)
		vs.WaitIdle()
		vs.Quiet(true)
		_, ipSet, lvl, privOK := privSessionState(ss)
		var ip any
		if ipSet || !privOK {
			ip = true // (without the private view the two state items below are not judged)
		}
		if !privOK {
			lvl = "debug"
		}
		switch {
		case inits != 1:
			f.failf("initialized-handler-ran-twice", "initialize, then setLevel, initialized, initialized back to back: the InitializedHandler ran %d times", inits)
		case ip == nil:
			f.failf("initialized-forgotten", "the accepted initialized notification is no longer recorded in the session state")
		case lvl != "debug":
			f.failf("level-lost", "the log level reads %q after logging/setLevel debug was answered", lvl)
		}
		obs = fmt.Sprintf("inits=%d level=%s", inits, lvl)
	case "takeback-vs-initialize":
		vs.Quiet(false)
		send(`{"jsonrpc":"2.0","id":7,"method":"tools/call","params":{"name":"no-such-tool","arguments":{},` + meta + `}}`)
		send(initialize)
		vs.WaitIdle()
		send(`{"jsonrpc":"2.0","id":9,"method":"tools/list","params":{}}`)
		vs.WaitIdle()
		vs.Quiet(true)
		mu.Lock()
		refused7, ok7 := replies["7"]
		initRefused, ok1 := replies["1"]
		listRefused, ok9 := replies["9"]
		mu.Unlock()
		switch {
		case !ok7 || !ok1 || !ok9:
			f.failf("unanswered", "answers: %v", replies)
		case !refused7:
			f.failf("unknown-tool-served", "the call of an unknown tool was answered with a result")
		case initRefused && !listRefused:
			f.failf("served-without-handshake", "the 2026-07-28 call was refused and the initialize was refused (as a duplicate, while the refused call's marking was still in place): no request was ever accepted on this session, yet a legacy tools/list was served")
		case initRefused && lists > 0:
			f.failf("served-without-handshake", "the refused legacy tools/list reached the handler layer")
		case !initRefused && listRefused:
			f.failf("rejected-after-handshake", "initialize was accepted but tools/list was refused")
		}
		obs = fmt.Sprintf("initialize-refused=%v list-refused=%v", initRefused, listRefused)
	}
	peer.Close()
	ss.Close()
	<-drained
	vs.Quiet(false)
	return f.verdict(obs)
}

func TestVerifC06Race(t *testing.T) {
	env := verifx.LoadEnv("C06")
	env.Run([]*verifx.Scenario{
		vs.E1(t, "race/modern-request-races-sse-session-setup", env.Pick(4, 5), vs.Options{}, func() vs.Verdict { return c06ModernRequestRacesSetup() }),
		vs.E1(t, "race/initialized-vs-setlevel", env.Pick(2, 3), vs.Options{}, func() vs.Verdict { return c06StateRace("initialized-vs-setlevel") }),
		vs.E1(t, "race/takeback-vs-initialize", env.Pick(2, 3), vs.Options{}, func() vs.Verdict { return c06StateRace("takeback-vs-initialize") }),
	})
}
