package mcp

// C03: in-order dispatch - a notification's handler (and initialize / initialized)
// finishes before the handler of any later message from the same peer starts.

import (
	"context"
	"encoding/json"
	"fmt"
	"io"
	"net/http"
	"net/http/httptest"
	"strings"
	"testing"

	"github.com/modelcontextprotocol/go-sdk/internal/verifx"
	vs "github.com/modelcontextprotocol/go-sdk/internal/vsched"
)

// all sequences of length 1..3 over an alphabet of 3 message kinds
func c03Sequences(alpha string) []string {
	var out []string
	var rec func(cur string)
	rec = func(cur string) {
		if len(cur) > 0 {
			out = append(out, cur)
		}
		if len(cur) == 3 {
			return
		}
		for _, ch := range alpha {
			rec(cur + string(ch))
		}
	}
	rec("")
	return out
}

type c03Args struct {
	K int `json:"k"`
}

// c03Run: dir "c2s" (client sends N=progress notification, T=tool call, P=ping)
// or "s2c" (server sends N=progress, L=log message, M=create-message call).
func c03Run(dir, version string, maxLen int) vs.Verdict {
	return c03RunNested(dir, version, maxLen, false)
}

// c03RunNested: with nested set, every notification handler (and the initialized handler) first calls
// the peer back under its own context - what a roots/list_changed handler calling ListRoots or a
// list_changed handler re-listing does - and only then parks on its gate: it is still the running
// handler of a notification, so nothing later may start.
var c03Background bool

func c03RunBackground(dir, version string, maxLen int) vs.Verdict {
	c03Background = true
	defer func() { c03Background = false }()
	return c03RunNested(dir, version, maxLen, false)
}

func c03RunNested(dir, version string, maxLen int, nested bool) vs.Verdict {
	f := &e1Fail{prefix: "c03 " + dir}
	if nested {
		f.prefix += " nested"
	}
	ctx := context.Background()
	alpha := "NTP"
	if dir == "s2c" {
		alpha = "NLM"
	}
	var seqs []string
	for _, s := range c03Sequences(alpha) {
		if len(s) <= maxLen {
			seqs = append(seqs, s)
		}
	}
	seq := seqs[vs.Choose("sequence", len(seqs), 0)]
	ctl := vs.NewController()
	// c03Background: another goroutine has a call of its own in flight (handler parked on a gate like the
	// others, index len(seq)) when the sender starts; it ends whenever the controller lets it
	nGates := len(seq)
	if c03Background {
		nGates++
	}
	gates := make([]*vs.Gate, nGates)
	for i := range gates {
		gates[i] = ctl.Gate(fmt.Sprint(i))
	}
	initGate := ctl.Gate("initialized")
	handle := func(k int) {
		if k < 0 || k >= len(gates) {
			f.failf("unknown-message", "handler invoked for unknown message index %d", k)
			return
		}
		vs.Event("start %d", k)
		gates[k].Wait()
		vs.Event("finish %d", k)
	}
	tokenIndex := func(tok any) int {
		switch v := tok.(type) {
		case float64:
			return int(v)
		case int:
			return v
		case int64:
			return int(v)
		}
		return -1
	}
	sopts := &ServerOptions{
		InitializedHandler: func(ctx context.Context, r *InitializedRequest) {
			vs.Event("start init")
			if nested {
				if err := r.Session.Ping(ctx, nil); err != nil {
					f.failf("nested-call-failed", "ping from the initialized handler: %v", err)
				}
			}
			initGate.Wait()
			vs.Event("finish init")
		},
		ProgressNotificationHandler: func(ctx context.Context, r *ProgressNotificationServerRequest) {
			if nested {
				vs.Event("start %d", tokenIndex(r.Params.ProgressToken))
				if err := r.Session.Ping(ctx, nil); err != nil {
					f.failf("nested-call-failed", "ping from a notification handler: %v", err)
				}
			}
			handle(tokenIndex(r.Params.ProgressToken))
		},
	}
	copts := &ClientOptions{
		ProgressNotificationHandler: func(ctx context.Context, r *ProgressNotificationClientRequest) {
			if nested {
				vs.Event("start %d", tokenIndex(r.Params.ProgressToken))
				if err := r.Session.Ping(ctx, nil); err != nil {
					f.failf("nested-call-failed", "ping from a notification handler: %v", err)
				}
			}
			handle(tokenIndex(r.Params.ProgressToken))
		},
		LoggingMessageHandler: func(ctx context.Context, r *LoggingMessageRequest) {
			var k int
			fmt.Sscanf(fmt.Sprint(r.Params.Data), "k=%d", &k)
			if nested {
				vs.Event("start %d", k)
				if err := r.Session.Ping(ctx, nil); err != nil {
					f.failf("nested-call-failed", "ping from a notification handler: %v", err)
				}
			}
			handle(k)
		},
		CreateMessageHandler: func(ctx context.Context, r *CreateMessageRequest) (*CreateMessageResult, error) {
			var k int
			fmt.Sscanf(r.Params.SystemPrompt, "k=%d", &k)
			handle(k)
			return &CreateMessageResult{Model: "m", Role: "assistant", Content: &TextContent{Text: "ok"}}, nil
		},
	}
	p, err := e1Connect(ctx, sopts, copts, version, false, func(s *Server) {
		AddTool(s, &Tool{Name: "t"}, func(ctx context.Context, r *CallToolRequest, in c03Args) (*CallToolResult, any, error) {
			handle(in.K)
			return &CallToolResult{}, nil, nil
		})
	})
	if err != nil {
		ctl.Stop()
		return vs.Verdict{Bad: "connect failed: " + err.Error(), Sig: "c03 connect-failed"}
	}
	if dir == "s2c" {
		vs.Quiet(true)
		if err := p.cs.SetLoggingLevel(ctx, &SetLoggingLevelParams{Level: "debug"}); err != nil {
			f.failf("setlevel", "SetLoggingLevel: %v", err)
		}
		vs.Quiet(false)
	}
	bgDone := make(chan struct{})
	if c03Background {
		vs.Go(func() {
			defer close(bgDone)
			if dir == "c2s" {
				p.cs.CallTool(ctx, &CallToolParams{Name: "t", Arguments: c03Args{K: len(seq)}})
			} else {
				p.ss.CreateMessage(ctx, &CreateMessageParams{SystemPrompt: fmt.Sprintf("k=%d", len(seq)), MaxTokens: 1})
			}
		})
		vs.WaitIdle() // the background call's handler is parked
	} else {
		close(bgDone)
	}
	for i, op := range seq {
		var err error
		switch {
		case dir == "c2s" && op == 'N':
			err = p.cs.NotifyProgress(ctx, &ProgressNotificationParams{ProgressToken: i, Progress: 1})
		case dir == "c2s" && op == 'T':
			_, err = p.cs.CallTool(ctx, &CallToolParams{Name: "t", Arguments: c03Args{K: i}})
		case dir == "c2s" && op == 'P':
			err = p.cs.Ping(ctx, nil)
		case dir == "s2c" && op == 'N':
			err = p.ss.NotifyProgress(ctx, &ProgressNotificationParams{ProgressToken: i, Progress: 1})
		case dir == "s2c" && op == 'L':
			err = p.ss.Log(ctx, &LoggingMessageParams{Level: "error", Data: fmt.Sprintf("k=%d", i)})
		case dir == "s2c" && op == 'M':
			_, err = p.ss.CreateMessage(ctx, &CreateMessageParams{SystemPrompt: fmt.Sprintf("k=%d", i), MaxTokens: 1})
		}
		vs.Event("sent %d", i)
		if err != nil {
			f.failf("send-failed", "sending message %d (%c) failed: %v", i, op, err)
		}
	}
	// let everything drain: the controller opens the remaining gates when idle
	vs.Quiet(true)
	if dir == "c2s" {
		if err := p.cs.Ping(ctx, nil); err != nil {
			f.failf("final-ping", "final ping failed: %v", err)
		}
	} else {
		if err := p.ss.Ping(ctx, nil); err != nil {
			f.failf("final-ping", "final ping failed: %v", err)
		}
	}
	<-bgDone
	p.cs.Close()
	p.ss.Wait()
	ctl.Stop()
	evs := vs.Events()
	// oracle: every notification's handler finished before any later message's handler started
	finInit, start0 := evIndex(evs, "finish init"), -1
	for i := range seq {
		if j := evIndex(evs, fmt.Sprintf("start %d", i)); j >= 0 && (start0 < 0 || j < start0) {
			start0 = j
		}
	}
	if dir == "c2s" {
		if finInit < 0 {
			f.failf("initialized-handler-not-run", "the initialized handler never finished: %s", evJoin(evs))
		} else if start0 >= 0 && start0 < finInit {
			f.failf("overtakes-initialized", "a handler started before the initialized handler finished: %s", evJoin(evs))
		}
	}
	for i, op := range seq {
		isNotif := op == 'N' || op == 'L'
		hasHandler := op != 'P'
		if hasHandler && (evIndex(evs, fmt.Sprintf("start %d", i)) < 0 || evIndex(evs, fmt.Sprintf("finish %d", i)) < 0) {
			f.failf("handler-not-run", "message %d (%c) of %q was never handled: %s", i, op, seq, evJoin(evs))
		}
		if !isNotif {
			continue
		}
		fin := evIndex(evs, fmt.Sprintf("finish %d", i))
		for j := i + 1; j < len(seq); j++ {
			st := evIndex(evs, fmt.Sprintf("start %d", j))
			if st >= 0 && fin >= 0 && st < fin {
				f.failf(fmt.Sprintf("later-message-overtakes-notification %c then %c", op, seq[j]), "in %q the handler of message %d started before the handler of notification %d finished: %s", seq, j, i, evJoin(evs))
			}
		}
	}
	return f.verdict(seq + ": " + strings.Join(evs, ","))
}

// c03FanOut: notifying methods that address several sessions at once.  dir "server": a Server with two
// legacy sessions subscribed to one resource; one goroutine calls Server.ResourceUpdated and then, once
// it has returned, sends a progress notification to each session.  dir "client": a Client with two
// sessions; one goroutine calls Client.AddRoots and then a tool on each session.  On every session the
// handler of the fanned-out notification (parked on a gate) finishes before the later message's
// handler starts.
func c03FanOut(dir string) vs.Verdict {
	f := &e1Fail{prefix: "c03 fan-out " + dir}
	ctx := context.Background()
	vs.Quiet(true)
	ctl := vs.NewController()
	gates := []*vs.Gate{ctl.Gate("0"), ctl.Gate("1")}
	const uri = "file:///shared"
	var css []*ClientSession
	var sss []*ServerSession
	var srv *Server
	var cli *Client
	mkServer := func(i int) *Server {
		s := NewServer(&Implementation{Name: "srv", Version: "1"}, &ServerOptions{Logger: quietLogger,
			SubscribeHandler:   func(context.Context, *SubscribeRequest) error { return nil },
			UnsubscribeHandler: func(context.Context, *UnsubscribeRequest) error { return nil },
			RootsListChangedHandler: func(context.Context, *RootsListChangedRequest) {
				vs.Event("start first %d", i)
				gates[i].Wait()
				vs.Event("finish first %d", i)
			}})
		s.AddResource(&Resource{URI: uri, Name: "shared"}, func(context.Context, *ReadResourceRequest) (*ReadResourceResult, error) {
			return &ReadResourceResult{}, nil
		})
		AddTool(s, &Tool{Name: "t"}, func(ctx context.Context, r *CallToolRequest, in c03Args) (*CallToolResult, any, error) {
			vs.Event("start second %d", in.K)
			return &CallToolResult{}, nil, nil
		})
		return s
	}
	mkClient := func(i int) *Client {
		return NewClient(&Implementation{Name: "cli", Version: "1"}, &ClientOptions{Logger: quietLogger,
			ResourceUpdatedHandler: func(context.Context, *ResourceUpdatedNotificationRequest) {
				vs.Event("start first %d", i)
				gates[i].Wait()
				vs.Event("finish first %d", i)
			},
			ProgressNotificationHandler: func(ctx context.Context, r *ProgressNotificationClientRequest) {
				vs.Event("start second %d", i)
			}})
	}
	if dir == "server" {
		srv = mkServer(0)
	} else {
		cli = mkClient(0)
	}
	for i := 0; i < 2; i++ {
		s, c := srv, cli
		if s == nil {
			s = mkServer(i)
		}
		if c == nil {
			c = mkClient(i)
		}
		ct, st := NewInMemoryTransports()
		ss, err := s.Connect(ctx, st, nil)
		if err != nil {
			ctl.Stop()
			return vs.Verdict{Bad: "connect failed: " + err.Error(), Sig: "c03 connect-failed"}
		}
		cs, err := c.Connect(ctx, ct, &ClientSessionOptions{ProtocolVersion: "2025-06-18"})
		if err != nil {
			ctl.Stop()
			return vs.Verdict{Bad: "connect failed: " + err.Error(), Sig: "c03 connect-failed"}
		}
		if dir == "server" {
			if err := cs.Subscribe(ctx, &SubscribeParams{URI: uri}); err != nil {
				f.failf("setup", "subscribe: %v", err)
			}
		}
		css, sss = append(css, cs), append(sss, ss)
	}
	vs.WaitIdle()
	vs.Quiet(false)
	if dir == "server" {
		if err := srv.ResourceUpdated(ctx, &ResourceUpdatedNotificationParams{URI: uri}); err != nil {
			f.failf("send-failed", "ResourceUpdated: %v", err)
		}
		vs.Event("first returned")
		for i, ss := range sss {
			if err := ss.NotifyProgress(ctx, &ProgressNotificationParams{ProgressToken: "p", Progress: float64(i)}); err != nil {
				f.failf("send-failed", "NotifyProgress: %v", err)
			}
		}
	} else {
		cli.AddRoots(&Root{URI: "file:///new", Name: "new"})
		vs.Event("first returned")
		for i, cs := range css {
			if _, err := cs.CallTool(ctx, &CallToolParams{Name: "t", Arguments: c03Args{K: i}}); err != nil {
				f.failf("send-failed", "CallTool: %v", err)
			}
		}
	}
	vs.Quiet(true)
	for i := range css {
		if err := css[i].Ping(ctx, nil); err != nil {
			f.failf("final-ping", "final ping: %v", err)
		}
	}
	for i := range css {
		css[i].Close()
		sss[i].Wait()
	}
	ctl.Stop()
	vs.Quiet(false)
	evs := vs.Events()
	for i := 0; i < 2; i++ {
		fin, st := evIndex(evs, fmt.Sprintf("finish first %d", i)), evIndex(evs, fmt.Sprintf("start second %d", i))
		switch {
		case fin < 0 || st < 0:
			f.failf("handler-not-run", "session %d: a handler never ran: %s", i, evJoin(evs))
		case st < fin:
			f.failf("later-message-overtakes-fanned-out-notification", "session %d: the handler of the message sent after the notifying method had returned started before the notification's handler finished: %s", i, evJoin(evs))
		}
	}
	return f.verdict(strings.Join(evs, ","))
}

// c03Concurrent: ordinary calls may run concurrently - the first tool call's handler
// only returns once the second call's handler has started; a dispatcher that
// serialised calls would deadlock here.
func c03Concurrent(version string) vs.Verdict {
	f := &e1Fail{prefix: "c03 concurrent"}
	ctx := context.Background()
	second := make(chan struct{})
	p, err := e1Connect(ctx, nil, nil, version, false, func(s *Server) {
		AddTool(s, &Tool{Name: "t"}, func(ctx context.Context, r *CallToolRequest, in c03Args) (*CallToolResult, any, error) {
			vs.Event("start %d", in.K)
			if in.K == 0 {
				<-second
			} else {
				close(second)
			}
			vs.Event("finish %d", in.K)
			return &CallToolResult{}, nil, nil
		})
	})
	if err != nil {
		return vs.Verdict{Bad: "connect failed: " + err.Error(), Sig: "c03 connect-failed"}
	}
	done := make(chan error, 2)
	vs.Go(func() {
		_, err := p.cs.CallTool(ctx, &CallToolParams{Name: "t", Arguments: c03Args{K: 0}})
		done <- err
	})
	// the second call is issued once the first handler is running
	vs.Go(func() {
		for evIndex(vs.Events(), "start 0") < 0 {
			vs.WaitIdle()
		}
		_, err := p.cs.CallTool(ctx, &CallToolParams{Name: "t", Arguments: c03Args{K: 1}})
		done <- err
	})
	for i := 0; i < 2; i++ {
		if err := <-done; err != nil {
			f.failf("call-failed", "call failed: %v", err)
		}
	}
	p.cs.Close()
	p.ss.Wait()
	return f.verdict(strings.Join(vs.Events(), ","))
}

// c03RawInit: a raw peer sends initialize (whose handling is slow), then makes the call's context
// end - by cancelling the call or by disconnecting - and sends a later message.  The later
// message's handler must still not start before the initialize handler has finished.
func c03RawInit(version string) vs.Verdict {
	f := &e1Fail{prefix: "c03 raw-init"}
	ctx := context.Background()
	variants := []string{"cancelled;ping", "cancelled;notification", "ping;eof", "notification;eof", "cancelled;call"}
	variant := variants[vs.Choose("variant", len(variants), 0)]
	ctl := vs.NewController()
	gate := ctl.Gate("initialize")
	s := NewServer(&Implementation{Name: "srv", Version: "1"}, &ServerOptions{Logger: quietLogger})
	AddTool(s, &Tool{Name: "t"}, func(ctx context.Context, r *CallToolRequest, in c03Args) (*CallToolResult, any, error) {
		return &CallToolResult{}, nil, nil
	})
	s.AddReceivingMiddleware(func(next MethodHandler) MethodHandler {
		return func(ctx context.Context, method string, req Request) (Result, error) {
			vs.Event("start %s", method)
			if method == "initialize" {
				gate.Wait() // slow, and not interruptible
			}
			res, err := next(ctx, method, req)
			vs.Event("finish %s", method)
			return res, err
		}
	})
	ct, st := NewInMemoryTransports()
	ss, err := s.Connect(ctx, st, nil)
	if err != nil {
		ctl.Stop()
		return vs.Verdict{Bad: "connect failed: " + err.Error(), Sig: "c03 connect-failed"}
	}
	peer := ct.rwc
	drained := make(chan struct{})
	vs.Go(func() {
		io.Copy(io.Discard, peer)
		close(drained)
	})
	send := func(line string) { io.WriteString(peer, line+"\n") }
	send(`{"jsonrpc":"2.0","id":1,"method":"initialize","params":{"protocolVersion":"` + version + `","capabilities":{},"clientInfo":{"name":"peer","version":"1"}}}`)
	later := ""
	for _, step := range strings.Split(variant, ";") {
		switch step {
		case "cancelled":
			send(`{"jsonrpc":"2.0","method":"notifications/cancelled","params":{"requestId":1,"reason":"changed my mind"}}`)
		case "ping":
			send(`{"jsonrpc":"2.0","id":2,"method":"ping"}`)
			later = "ping"
		case "call":
			send(`{"jsonrpc":"2.0","id":2,"method":"tools/call","params":{"name":"t","arguments":{"k":0}}}`)
			later = "tools/call"
		case "notification":
			send(`{"jsonrpc":"2.0","method":"notifications/roots/list_changed","params":{}}`)
			later = "notifications/roots/list_changed"
		case "eof":
			peer.Close()
		}
	}
	vs.WaitIdle()
	ctl.Stop()
	vs.Quiet(true)
	peer.Close()
	ss.Close()
	<-drained
	vs.Quiet(false)
	evs := vs.Events()
	// (a call cancelled before its handler started is legitimately never handled)
	fin, st2 := evIndex(evs, "finish initialize"), evIndex(evs, "start "+later)
	if evIndex(evs, "start initialize") < 0 {
		return f.verdict(variant + ": " + strings.Join(evs, ","))
	}
	if fin < 0 {
		f.failf("initialize-handler-not-finished", "variant %s: %s", variant, evJoin(evs))
	} else if st2 >= 0 && (fin < 0 || st2 < fin) {
		f.failf("later-message-overtakes-initialize", "variant %s: the handler of %s started before the initialize handler finished: %s", variant, later, evJoin(evs))
	}
	return f.verdict(variant + ": " + strings.Join(evs, ","))
}

// c03RawBatch: a raw peer on protocol 2025-03-26 sends one JSON-RPC batch of three messages over the
// in-memory pipe (every sequence over {progress notification, tool call, ping}); the members are
// dispatched in the order they appear in the batch, with the same handler-ordering rule as for
// messages sent one by one.
func c03RawBatch() vs.Verdict {
	f := &e1Fail{prefix: "c03 raw-batch"}
	ctx := context.Background()
	var seqs []string
	for _, s := range c03Sequences("NTP") {
		if len(s) == 3 {
			seqs = append(seqs, s)
		}
	}
	seq := seqs[vs.Choose("batch", len(seqs), 0)]
	ctl := vs.NewController()
	gates := make([]*vs.Gate, len(seq))
	for i := range gates {
		gates[i] = ctl.Gate(fmt.Sprint(i))
	}
	handle := func(k int) {
		if k < 0 || k >= len(gates) {
			return
		}
		vs.Event("start %d", k)
		gates[k].Wait()
		vs.Event("finish %d", k)
	}
	vs.Quiet(true)
	s := NewServer(&Implementation{Name: "srv", Version: "1"}, &ServerOptions{Logger: quietLogger,
		ProgressNotificationHandler: func(ctx context.Context, r *ProgressNotificationServerRequest) {
			if v, ok := r.Params.ProgressToken.(float64); ok {
				handle(int(v))
			}
		}})
	AddTool(s, &Tool{Name: "t"}, func(ctx context.Context, r *CallToolRequest, in c03Args) (*CallToolResult, any, error) {
		handle(in.K)
		return &CallToolResult{}, nil, nil
	})
	ct, st := NewInMemoryTransports()
	ss, err := s.Connect(ctx, st, nil)
	if err != nil {
		ctl.Stop()
		return vs.Verdict{Bad: "connect failed: " + err.Error(), Sig: "c03 connect-failed"}
	}
	peer := ct.rwc
	drained := make(chan struct{})
	vs.Go(func() {
		io.Copy(io.Discard, peer)
		close(drained)
	})
	send := func(line string) { io.WriteString(peer, line+"\n") }
	send(`{"jsonrpc":"2.0","id":"i","method":"initialize","params":{"protocolVersion":"2025-03-26","capabilities":{},"clientInfo":{"name":"peer","version":"1"}}}`)
	send(`{"jsonrpc":"2.0","method":"notifications/initialized","params":{}}`)
	vs.WaitIdle()
	vs.Quiet(false)
	var members []string
	for i, op := range seq {
		switch op {
		case 'N':
			members = append(members, fmt.Sprintf(`{"jsonrpc":"2.0","method":"notifications/progress","params":{"progressToken":%d,"progress":1}}`, i))
		case 'T':
			members = append(members, fmt.Sprintf(`{"jsonrpc":"2.0","id":%d,"method":"tools/call","params":{"name":"t","arguments":{"k":%d}}}`, 10+i, i))
		case 'P':
			members = append(members, fmt.Sprintf(`{"jsonrpc":"2.0","id":%d,"method":"ping"}`, 10+i))
		}
	}
	send("[" + strings.Join(members, ",") + "]")
	vs.WaitIdle()
	ctl.Stop()
	vs.Quiet(true)
	send(`{"jsonrpc":"2.0","id":"final","method":"ping"}`)
	vs.WaitIdle()
	peer.Close()
	ss.Close()
	<-drained
	vs.Quiet(false)
	evs := vs.Events()
	for i, op := range seq {
		if op == 'P' {
			continue
		}
		if evIndex(evs, fmt.Sprintf("start %d", i)) < 0 || evIndex(evs, fmt.Sprintf("finish %d", i)) < 0 {
			f.failf("handler-not-run", "member %d (%c) of batch %q was never handled: %s", i, op, seq, evJoin(evs))
		}
		if op != 'N' {
			continue
		}
		fin := evIndex(evs, fmt.Sprintf("finish %d", i))
		for j := i + 1; j < len(seq); j++ {
			if st := evIndex(evs, fmt.Sprintf("start %d", j)); st >= 0 && fin >= 0 && st < fin {
				f.failf(fmt.Sprintf("later-batch-member-overtakes-notification %c then %c", op, seq[j]), "batch %q: the handler of member %d started before the handler of the notification at position %d finished: %s", seq, j, i, evJoin(evs))
			}
		}
	}
	// members handled in batch order: the first start events appear in index order for notifications
	last := -1
	for i, op := range seq {
		if op != 'N' {
			continue
		}
		st := evIndex(evs, fmt.Sprintf("start %d", i))
		if st >= 0 && st < last {
			f.failf("batch-order-not-preserved", "batch %q: notification %d was dispatched before an earlier one: %s", seq, i, evJoin(evs))
		}
		last = max(last, st)
	}
	return f.verdict(seq + ": " + strings.Join(evs, ","))
}

// c03HTTP: client-to-server order over the streamable HTTP server.  One client thread POSTs a
// progress notification (its handler is slow) and, once that POST has been answered, a tool call.
// The notification must be handled at all, and the call's handler must not start before the
// notification's handler has finished.  kind: stateful (one session), stateless-legacy and
// stateless-modern (every POST is served by its own short-lived session).
// c03Writer reports the moment the response status is committed (what the client sees first).
type c03Writer struct {
	*httptest.ResponseRecorder
	committed chan int
	once      bool
}

func (w *c03Writer) commit(code int) {
	if !w.once {
		w.once = true
		w.committed <- code
	}
}
func (w *c03Writer) WriteHeader(code int) {
	w.ResponseRecorder.WriteHeader(code)
	w.commit(code)
}
func (w *c03Writer) Write(p []byte) (int, error) {
	w.commit(http.StatusOK)
	return w.ResponseRecorder.Write(p)
}
func (w *c03Writer) Flush() { w.commit(http.StatusOK) }

func c03HTTP(kind string) vs.Verdict {
	f := &e1Fail{prefix: "c03 http " + kind}
	ctl := vs.NewController()
	gate := ctl.Gate("notification-handler")
	vs.Quiet(true)
	s := NewServer(&Implementation{Name: "srv", Version: "1"}, &ServerOptions{Logger: quietLogger,
		ProgressNotificationHandler: func(ctx context.Context, r *ProgressNotificationServerRequest) {
			vs.Event("start N")
			gate.Wait()
			vs.Event("finish N")
		}})
	AddTool(s, &Tool{Name: "t"}, func(ctx context.Context, r *CallToolRequest, in c03Args) (*CallToolResult, any, error) {
		vs.Event("start T")
		return &CallToolResult{}, nil, nil
	})
	stateless := kind != "stateful"
	version := "2025-11-25"
	meta := ""
	if kind == "stateless-modern" {
		version = "2026-07-28"
		meta = `,"_meta":{"io.modelcontextprotocol/protocolVersion":"2026-07-28","io.modelcontextprotocol/clientInfo":{"name":"c","version":"1"},"io.modelcontextprotocol/clientCapabilities":{}}`
	}
	h := NewStreamableHTTPHandler(func(*http.Request) *Server { return s }, &StreamableHTTPOptions{Stateless: stateless, Logger: quietLogger})
	sid := ""
	postW := func(body string, w http.ResponseWriter) *httptest.ResponseRecorder {
		r := httptest.NewRequest("POST", "http://example.test/mcp", strings.NewReader(body))
		r.Header.Set("Content-Type", "application/json")
		r.Header.Set("Accept", "application/json, text/event-stream")
		if sid != "" {
			r.Header.Set("Mcp-Session-Id", sid)
		}
		if sid != "" || stateless {
			r.Header.Set("Mcp-Protocol-Version", version)
		}
		if kind == "stateless-modern" {
			var m struct {
				Method string `json:"method"`
				Params struct {
					Name string `json:"name"`
				} `json:"params"`
			}
			json.Unmarshal([]byte(body), &m)
			r.Header.Set("Mcp-Method", m.Method)
			if m.Params.Name != "" {
				r.Header.Set("Mcp-Name", m.Params.Name)
			}
		}
		if w != nil {
			h.ServeHTTP(w, r)
			return nil
		}
		rec := httptest.NewRecorder()
		h.ServeHTTP(rec, r)
		return rec
	}
	post := func(body string) *httptest.ResponseRecorder { return postW(body, nil) }
	if !stateless {
		w := post(`{"jsonrpc":"2.0","id":"i","method":"initialize","params":{"protocolVersion":"` + version + `","capabilities":{},"clientInfo":{"name":"c","version":"1"}}}`)
		sid = w.Header().Get("Mcp-Session-Id")
		post(`{"jsonrpc":"2.0","method":"notifications/initialized","params":{}}`)
	}
	vs.Quiet(false)
	done := make(chan string, 1)
	// The client regards the notification's POST as answered the moment the status line is on the
	// wire (WriteHeader / Flush), which may be before the server's ServeHTTP has returned: the call is
	// sent from then on.
	answered := make(chan int, 1)
	vs.Go(func() {
		postW(`{"jsonrpc":"2.0","method":"notifications/progress","params":{"progressToken":1,"progress":1`+meta+`}}`, &c03Writer{ResponseRecorder: httptest.NewRecorder(), committed: answered})
	})
	vs.Go(func() {
		code := <-answered
		vs.Event("notification POST answered %d", code)
		w := post(`{"jsonrpc":"2.0","id":5,"method":"tools/call","params":{"name":"t","arguments":{"k":0}` + meta + `}}`)
		done <- fmt.Sprintf("call POST answered %d", w.Code)
	})
	res := <-done
	vs.Event("%s", res)
	vs.WaitIdle()
	ctl.Stop()
	vs.Quiet(true)
	for ss := range s.Sessions() {
		ss.Close()
	}
	vs.WaitIdle()
	vs.Quiet(false)
	evs := vs.Events()
	if i := evIndex(evs, "notification POST answered 202"); i < 0 {
		return f.verdict("notification refused: " + evJoin(evs)) // nothing is owed for a notification the server refused
	}
	sN, fN, sT := evIndex(evs, "start N"), evIndex(evs, "finish N"), evIndex(evs, "start T")
	switch {
	case sN < 0:
		f.failf("accepted-notification-never-handled", "the server accepted the notification (202) but never dispatched it to its handler: %s", evJoin(evs))
	case sT >= 0 && (fN < 0 || sT < fN):
		f.failf("later-call-overtakes-notification", "the tool call sent after the notification was handled before the notification's handler finished: %s", evJoin(evs))
	}
	return f.verdict(strings.Join(evs, ","))
}

func TestVerifC03(t *testing.T) {
	env := verifx.LoadEnv("C03")
	b := env.Pick(1, 2)
	scs := []*verifx.Scenario{
		vs.E1(t, "inmem/c2s/2025-06-18", b, vs.Options{}, func() vs.Verdict { return c03Run("c2s", "2025-06-18", 3) }),
		vs.E1(t, "inmem/s2c/2025-06-18", b, vs.Options{}, func() vs.Verdict { return c03Run("s2c", "2025-06-18", 3) }),
		vs.E1(t, "inmem/c2s/nested-calls-in-notification-handlers", b, vs.Options{}, func() vs.Verdict { return c03RunNested("c2s", "2025-06-18", env.Pick(2, 3), true) }),
		vs.E1(t, "inmem/s2c/nested-calls-in-notification-handlers", b, vs.Options{}, func() vs.Verdict { return c03RunNested("s2c", "2025-06-18", env.Pick(2, 3), true) }),
		vs.E1(t, "inmem/c2s/another-call-in-flight", b, vs.Options{}, func() vs.Verdict { return c03RunBackground("c2s", "2025-06-18", env.Pick(2, 3)) }),
		vs.E1(t, "inmem/s2c/another-call-in-flight", b, vs.Options{}, func() vs.Verdict { return c03RunBackground("s2c", "2025-06-18", env.Pick(2, 3)) }),
		vs.E1(t, "inmem/fan-out-to-two-sessions/server", b, vs.Options{}, func() vs.Verdict { return c03FanOut("server") }),
		vs.E1(t, "inmem/fan-out-to-two-sessions/client", b, vs.Options{}, func() vs.Verdict { return c03FanOut("client") }),
		vs.E1(t, "inmem/concurrent-calls", b, vs.Options{}, func() vs.Verdict { return c03Concurrent("2025-06-18") }),
		vs.E1(t, "http/stateful", b, vs.Options{}, func() vs.Verdict { return c03HTTP("stateful") }),
		vs.E1(t, "http/stateless-legacy", b, vs.Options{}, func() vs.Verdict { return c03HTTP("stateless-legacy") }),
		vs.E1(t, "http/stateless-modern", b, vs.Options{}, func() vs.Verdict { return c03HTTP("stateless-modern") }),
		vs.E1(t, "raw/batch-of-three/2025-03-26", b, vs.Options{}, func() vs.Verdict { return c03RawBatch() }),
		vs.E1(t, "raw/initialize-context-ends/2025-06-18", env.Pick(2, 3), vs.Options{}, func() vs.Verdict { return c03RawInit("2025-06-18") }),
	}
	env.Run(scs)
}
