package mcp

// C04: cancelling a call returns promptly and cancels only the matching peer handler.
//  (i)  real client+server sessions over the in-memory transport: which of two
//       in-flight tool calls is cancelled, and when, is enumerated; exactly the
//       matching handler may observe ctx.Done().
//  (ii) mcp's call() over a scripted transport whose peer answers, answers late,
//       never answers, or stops draining (writes park until their context ends).

import (
	"context"
	"encoding/json"
	"errors"
	"fmt"
	"io"
	"net/http"
	"net/http/httptest"
	"strings"
	"testing"
	"time"

	"github.com/modelcontextprotocol/go-sdk/internal/jsonrpc2"
	"github.com/modelcontextprotocol/go-sdk/internal/verifx"
	vs "github.com/modelcontextprotocol/go-sdk/internal/vsched"
)

func c04Sessions(version string) vs.Verdict {
	f := &e1Fail{prefix: "c04 session"}
	ctx := context.Background()
	ctl := vs.NewController()
	gates := []*vs.Gate{ctl.Gate("0"), ctl.Gate("1")}
	p, err := e1Connect(ctx, nil, nil, version, false, func(s *Server) {
		AddTool(s, &Tool{Name: "t"}, func(ctx context.Context, r *CallToolRequest, in c03Args) (*CallToolResult, any, error) {
			vs.Event("start %d", in.K)
			if gates[in.K].WaitOr(ctx.Done()) {
				vs.Event("finish %d", in.K)
				return &CallToolResult{Content: []Content{&TextContent{Text: fmt.Sprint(in.K)}}}, nil, nil
			}
			vs.Event("cancelled %d", in.K)
			return nil, nil, ctx.Err()
		})
	})
	if err != nil {
		ctl.Stop()
		return vs.Verdict{Bad: "connect failed: " + err.Error(), Sig: "c04 connect-failed"}
	}
	target := vs.Choose("cancel-target", 2, 0)
	stage := vs.Choose("cancel-stage", 3, 0) // 0: as soon as scheduled, 1: when everything else is idle, 2: after the call returned
	ctxs := make([]context.Context, 2)
	cancels := make([]context.CancelFunc, 2)
	for i := range ctxs {
		ctxs[i], cancels[i] = context.WithCancel(ctx)
	}
	type outcome struct {
		err     error
		text    string
		retTime time.Time
	}
	outs := make([]outcome, 2)
	done := make(chan int, 4)
	returned := make(chan struct{})
	var cancelTime time.Time
	cancelled := false
	for i := 0; i < 2; i++ {
		vs.Go(func() {
			res, err := p.cs.CallTool(ctxs[i], &CallToolParams{Name: "t", Arguments: c03Args{K: i}})
			outs[i].err, outs[i].retTime = err, time.Now()
			if err == nil && len(res.Content) == 1 {
				outs[i].text = res.Content[0].(*TextContent).Text
			}
			vs.Event("returned %d", i)
			if i == target {
				close(returned)
			}
			done <- i
		})
	}
	vs.Go(func() {
		switch stage {
		case 1:
			vs.WaitIdle()
		case 2:
			<-returned
		}
		cancelTime = time.Now()
		cancelled = true
		vs.Event("cancel %d", target)
		cancels[target]()
		done <- -1
	})
	for i := 0; i < 3; i++ {
		<-done
	}
	// the session stays usable
	vs.Quiet(true)
	if err := p.cs.Ping(ctx, nil); err != nil {
		f.failf("session-unusable", "ping after the cancellation failed: %v", err)
	}
	if res, err := p.cs.CallTool(ctx, &CallToolParams{Name: "t", Arguments: c03Args{K: 1 - target}}); err != nil && outs[1-target].err != nil {
		_ = res
		f.failf("session-unusable", "tool call after the cancellation failed: %v", err)
	}
	vs.Quiet(false)
	evs := vs.Events()
	p.cs.Close()
	p.ss.Wait()
	ctl.Stop()
	for _, c := range cancels {
		c()
	}
	_ = cancelled
	other := 1 - target
	// the other call is never cancelled and returns its own result
	if evIndex(evs, fmt.Sprintf("cancelled %d", other)) >= 0 {
		f.failf("wrong-handler-cancelled", "cancelling call %d cancelled the handler of call %d: %s", target, other, evJoin(evs))
	}
	if outs[other].err != nil || outs[other].text != fmt.Sprint(other) {
		f.failf("other-call-disturbed", "the uncancelled call %d returned (%q, %v)", other, outs[other].text, outs[other].err)
	}
	// the cancelled call: ctx error promptly, or its real result if the response won the race
	switch {
	case outs[target].err == nil:
		if outs[target].text != fmt.Sprint(target) {
			f.failf("wrong-result", "call %d returned the result %q", target, outs[target].text)
		}
	case errors.Is(outs[target].err, context.Canceled):
		if d := outs[target].retTime.Sub(cancelTime); d != 0 {
			f.failf("cancel-not-prompt", "the cancelled call returned %v of virtual time after the cancellation", d)
		}
		// while the connection is healthy the matching handler (if it was running) observes the cancellation
		st, fin := evIndex(evs, fmt.Sprintf("start %d", target)), evIndex(evs, fmt.Sprintf("finish %d", target))
		if st >= 0 && fin < 0 && evIndex(evs, fmt.Sprintf("cancelled %d", target)) < 0 {
			f.failf("handler-not-cancelled", "the handler of the cancelled call %d was running but its context was never cancelled: %s", target, evJoin(evs))
		}
	default:
		f.failf("wrong-error", "the cancelled call returned %v, want context.Canceled", outs[target].err)
	}
	cls := "ok"
	if outs[target].err != nil {
		cls = "cancelled"
	}
	return f.verdict(fmt.Sprintf("target=%d stage=%d result=%s handlerCancelled=%v", target, stage, cls, evIndex(evs, fmt.Sprintf("cancelled %d", target)) >= 0))
}

// ---- (ii) scripted peer

type c04T struct {
	outbox    chan *jsonrpc2.Request
	notes     chan *jsonrpc2.Request
	inbox     chan jsonrpc2.Message
	closed    chan struct{}
	once      bool
	stallCall string // method whose request write parks until its context ends
	stallNote bool   // notification writes park until their context ends
	notesSeen []string
}

func (f *c04T) Read(ctx context.Context) (jsonrpc2.Message, error) {
	select {
	case m := <-f.inbox:
		return m, nil
	case <-f.closed:
		return nil, io.EOF
	}
}

func (f *c04T) Write(ctx context.Context, m jsonrpc2.Message) error {
	if err := ctx.Err(); err != nil {
		return err
	}
	r, ok := m.(*jsonrpc2.Request)
	if !ok {
		return nil
	}
	if (r.IsCall() && r.Method == f.stallCall) || (!r.IsCall() && f.stallNote) {
		// the peer stopped draining: the write can only end with its context
		vs.Event("stalled-write %s", r.Method)
		select {
		case <-ctx.Done():
			return ctx.Err()
		case <-f.closed:
			return io.ErrClosedPipe
		}
	}
	if !r.IsCall() {
		f.notesSeen = append(f.notesSeen, r.Method+":"+string(r.Params))
		return nil
	}
	select {
	case f.outbox <- r:
		return nil
	case <-f.closed:
		return io.ErrClosedPipe
	}
}

func (f *c04T) Close() error {
	if !f.once {
		f.once = true
		close(f.closed)
	}
	return nil
}

func c04Scripted() vs.Verdict {
	f := &e1Fail{prefix: "c04 scripted"}
	ft := &c04T{outbox: make(chan *jsonrpc2.Request, 8), inbox: make(chan jsonrpc2.Message, 16), closed: make(chan struct{})}
	// peer behaviour for the cancelled call m0
	mode := vs.Choose("peer-mode", 5, 0)
	modes := []string{"answers", "answers-after-cancel", "never-answers", "request-write-stalls", "cancel-notice-stalls"}
	switch modes[mode] {
	case "request-write-stalls":
		ft.stallCall = "m0"
	case "cancel-notice-stalls":
		ft.stallNote = true
	}
	var internalErr string
	c := jsonrpc2.NewConnection(context.Background(), jsonrpc2.ConnectionConfig{
		Reader: ft, Writer: ft, Closer: ft,
		Bind: func(*jsonrpc2.Connection) jsonrpc2.Handler {
			return jsonrpc2.HandlerFunc(func(ctx context.Context, r *jsonrpc2.Request) (any, error) { return nil, jsonrpc2.ErrNotHandled })
		},
		OnInternalError: func(err error) { internalErr = err.Error() },
	})
	payload := func(tag string) json.RawMessage {
		return json.RawMessage(`{"content":[{"type":"text","text":"` + tag + `"}]}`)
	}
	quit := make(chan struct{})
	cancelDone := make(chan struct{})
	var held *jsonrpc2.Request
	vs.GoDaemon(func() {
		for {
			select {
			case r := <-ft.outbox:
				switch {
				case r.Method == "m0" && modes[mode] == "answers-after-cancel":
					held = r
					vs.GoDaemon(func() {
						select {
						case <-cancelDone:
							vs.WaitIdle() // the caller has been and gone: this response is late
							ft.inbox <- &jsonrpc2.Response{ID: held.ID, Result: payload("m0")}
						case <-quit:
						}
					})
				case r.Method == "m0" && modes[mode] != "answers":
					// never answered
				default:
					ft.inbox <- &jsonrpc2.Response{ID: r.ID, Result: payload(r.Method)}
				}
			case <-quit:
				return
			case <-ft.closed:
				return
			}
		}
	})
	ctx0, cancel0 := context.WithCancel(context.Background())
	type outcome struct {
		err  error
		text string
		ret  time.Time
	}
	outs := make([]outcome, 2)
	done := make(chan int, 4)
	doCall := func(i int, ctx context.Context) {
		var r CallToolResult
		tag := fmt.Sprintf("m%d", i)
		err := call(ctx, c, tag, &CallToolParams{Name: tag}, &r)
		outs[i].err, outs[i].ret = err, time.Now()
		if err == nil && len(r.Content) == 1 {
			outs[i].text = r.Content[0].(*TextContent).Text
		}
	}
	// the second in-flight call is held by the peer until the end (answered when everything is idle)
	vs.Go(func() { doCall(0, ctx0); done <- 0 })
	vs.Go(func() { doCall(1, context.Background()); done <- 1 })
	var cancelTime time.Time
	vs.Go(func() {
		if vs.Choose("cancel-when", 2, 0) == 1 {
			vs.WaitIdle()
		}
		cancelTime = time.Now()
		vs.Event("cancel")
		cancel0()
		close(cancelDone)
		done <- -1
	})
	for i := 0; i < 3; i++ {
		<-done
	}
	// the session stays usable for further calls
	var r2 CallToolResult
	err := call(context.Background(), c, "m2", &CallToolParams{Name: "m2"}, &r2)
	if err != nil {
		f.failf("session-unusable after "+modes[mode], "a call after the cancellation failed: %v", err)
	} else if len(r2.Content) != 1 || r2.Content[0].(*TextContent).Text != "m2" {
		f.failf("wrong-result", "the follow-up call got %+v", r2.Content)
	}
	if outs[1].err != nil || outs[1].text != "m1" {
		f.failf("other-call-disturbed after "+modes[mode], "the uncancelled call returned (%q, %v)", outs[1].text, outs[1].err)
	}
	switch {
	case outs[0].err == nil:
		if outs[0].text != "m0" {
			f.failf("wrong-result", "the cancelled call returned %q", outs[0].text)
		}
	case errors.Is(outs[0].err, context.Canceled):
		if d := outs[0].ret.Sub(cancelTime); d != 0 {
			f.failf("cancel-not-prompt with "+modes[mode], "the cancelled call returned %v of virtual time after the cancellation", d)
		}
	default:
		f.failf("wrong-error", "the cancelled call returned %v, want context.Canceled", outs[0].err)
	}
	// let the late response and the best-effort notice run their course, then shut down
	vs.WaitIdle()
	if modes[mode] == "cancel-notice-stalls" {
		time.Sleep(6 * time.Second) // the notice gives up after its bounded timeout
	}
	close(quit)
	c.Close()
	c.Wait()
	if internalErr != "" {
		f.failf("internal-error", "internal error: %s", internalErr)
	}
	cls := "ok"
	if outs[0].err != nil {
		cls = "cancelled"
	}
	return f.verdict(fmt.Sprintf("mode=%s result=%s notices=%s", modes[mode], cls, strings.Join(ft.notesSeen, "|")))
}

// c04RawServer: a raw peer has two tool calls in flight on a server session, optionally sends a
// third request that reuses the id of one of them (refused as a duplicate), and then cancels one
// call by id: exactly that call's handler observes ctx.Done, the other keeps running and both
// are answered.
func c04RawServer(version string) vs.Verdict {
	f := &e1Fail{prefix: "c04 raw-server"}
	ctx := context.Background()
	dup := vs.Choose("duplicate-request", 3, 0) // 0: none, 1: reuses the id of call 1, 2: of call 2
	target := 1 + vs.Choose("cancel-target", 2, 0)
	// the two calls carry the ids 1 and 2, or two neighbouring ids beyond 2^53 (exact int64 ids)
	ids := [][]string{{"", "1", "2"}, {"", "9007199254740992", "9007199254740993"}}[vs.Choose("id-range", 2, 0)]
	ctl := vs.NewController()
	gates := map[int]*vs.Gate{1: ctl.Gate("1"), 2: ctl.Gate("2")}
	vs.Quiet(true)
	s := NewServer(&Implementation{Name: "srv", Version: "1"}, &ServerOptions{Logger: quietLogger})
	AddTool(s, &Tool{Name: "t"}, func(ctx context.Context, r *CallToolRequest, in c03Args) (*CallToolResult, any, error) {
		vs.Event("start %d", in.K)
		if gates[in.K].WaitOr(ctx.Done()) {
			vs.Event("finish %d", in.K)
			return &CallToolResult{Content: []Content{&TextContent{Text: fmt.Sprint(in.K)}}}, nil, nil
		}
		vs.Event("cancelled %d", in.K)
		return nil, nil, ctx.Err()
	})
	ct, st := NewInMemoryTransports()
	ss, err := s.Connect(ctx, st, nil)
	if err != nil {
		ctl.Stop()
		return vs.Verdict{Bad: "connect failed: " + err.Error(), Sig: "c04 connect-failed"}
	}
	peer := ct.rwc
	var lines []string
	drained := make(chan struct{})
	vs.Go(func() {
		defer close(drained)
		buf := make([]byte, 0, 1<<16)
		tmp := make([]byte, 4096)
		for {
			n, err := peer.Read(tmp)
			buf = append(buf, tmp[:n]...)
			for {
				i := strings.IndexByte(string(buf), '\n')
				if i < 0 {
					break
				}
				lines = append(lines, string(buf[:i]))
				buf = buf[i+1:]
			}
			if err != nil {
				return
			}
		}
	})
	send := func(line string) { io.WriteString(peer, line+"\n") }
	send(`{"jsonrpc":"2.0","id":"i","method":"initialize","params":{"protocolVersion":"` + version + `","capabilities":{},"clientInfo":{"name":"peer","version":"1"}}}`)
	send(`{"jsonrpc":"2.0","method":"notifications/initialized","params":{}}`)
	vs.WaitIdle()
	vs.Quiet(false)
	send(`{"jsonrpc":"2.0","id":` + ids[1] + `,"method":"tools/call","params":{"name":"t","arguments":{"k":1}}}`)
	send(`{"jsonrpc":"2.0","id":` + ids[2] + `,"method":"tools/call","params":{"name":"t","arguments":{"k":2}}}`)
	if dup > 0 {
		send(fmt.Sprintf(`{"jsonrpc":"2.0","id":%s,"method":"ping"}`, ids[dup]))
	}
	send(fmt.Sprintf(`{"jsonrpc":"2.0","method":"notifications/cancelled","params":{"requestId":%s}}`, ids[target]))
	// the gates of handlers still parked are opened by the controller once nothing else can run
	vs.WaitIdle()
	ctl.Stop()
	vs.Quiet(true)
	send(`{"jsonrpc":"2.0","id":"final","method":"ping"}`)
	vs.WaitIdle()
	peer.Close()
	ss.Close()
	<-drained
	vs.Quiet(false)
	evs := vs.Events()
	other := 3 - target
	if evIndex(evs, fmt.Sprintf("start %d", target)) >= 0 && evIndex(evs, fmt.Sprintf("cancelled %d", target)) < 0 {
		f.failf("cancel-not-delivered", "the peer cancelled call %d (duplicate request: %d) but its handler's context was never cancelled: %s", target, dup, evJoin(evs))
	}
	if evIndex(evs, fmt.Sprintf("cancelled %d", other)) >= 0 {
		f.failf("wrong-handler-cancelled", "the peer cancelled call %d but the handler of call %d observed ctx.Done: %s", target, other, evJoin(evs))
	}
	answers := map[string]int{}
	for _, l := range lines {
		var m struct {
			ID     json.RawMessage `json:"id"`
			Method string          `json:"method"`
		}
		if json.Unmarshal([]byte(l), &m) == nil && m.Method == "" {
			answers[string(m.ID)]++
		}
	}
	for k, id := range ids[1:] {
		want := 1
		if dup == k+1 {
			want = 2 // the refused duplicate may be answered under the id it carried
		}
		if answers[id] < 1 || answers[id] > want {
			f.failf("call-answer-count", "call %s received %d responses (duplicate request: %d): %v", id, answers[id], dup, lines)
		}
	}
	if answers[`"final"`] != 1 {
		f.failf("session-unusable", "the final ping received %d responses: %v", answers[`"final"`], lines)
	}
	return f.verdict(fmt.Sprintf("ids=%s dup=%d target=%d %s", ids[1], dup, target, strings.Join(evs, ",")))
}

// c04FailingWriter is an HTTP response writer whose connection went away without the server
// noticing yet: once broken, every write fails.
type c04FailingWriter struct {
	*httptest.ResponseRecorder
	broken *bool
}

func (w *c04FailingWriter) Write(p []byte) (int, error) {
	if *w.broken {
		return 0, errors.New("verif: stream reset by peer")
	}
	return w.ResponseRecorder.Write(p)
}

// c04LateResponseWrite: two tool calls are in flight on one streamable session; the client
// abandons call A (its HTTP stream breaks: writes to it fail) and A's handler then returns.  The
// late response to A cannot be delivered; that must stay without effect: B's handler is not
// cancelled, B is answered, and the session serves further calls.
func c04LateResponseWrite() vs.Verdict {
	f := &e1Fail{prefix: "c04 late-response"}
	ctl := vs.NewController()
	gates := map[string]*vs.Gate{"A": ctl.Gate("A"), "B": ctl.Gate("B")}
	vs.Quiet(true)
	s := NewServer(&Implementation{Name: "srv", Version: "1"}, &ServerOptions{Logger: quietLogger})
	AddTool(s, &Tool{Name: "t"}, func(ctx context.Context, r *CallToolRequest, in c10Args) (*CallToolResult, any, error) {
		vs.Event("start %s", in.Tag)
		if !gates[in.Tag].WaitOr(ctx.Done()) {
			vs.Event("cancelled %s", in.Tag)
			return nil, nil, ctx.Err()
		}
		vs.Event("finish %s", in.Tag)
		return &CallToolResult{Content: []Content{&TextContent{Text: in.Tag}}}, nil, nil
	})
	h := NewStreamableHTTPHandler(func(*http.Request) *Server { return s }, &StreamableHTTPOptions{Logger: quietLogger})
	mk := func(sid, body string) *http.Request {
		r := httptest.NewRequest("POST", "http://example.test/mcp", strings.NewReader(body))
		r.Header.Set("Content-Type", "application/json")
		r.Header.Set("Accept", "application/json, text/event-stream")
		if sid != "" {
			r.Header.Set("Mcp-Session-Id", sid)
			r.Header.Set("Mcp-Protocol-Version", "2025-06-18")
		}
		return r
	}
	w0 := httptest.NewRecorder()
	h.ServeHTTP(w0, mk("", `{"jsonrpc":"2.0","id":"i","method":"initialize","params":{"protocolVersion":"2025-06-18","capabilities":{},"clientInfo":{"name":"c","version":"1"}}}`))
	sid := w0.Header().Get("Mcp-Session-Id")
	h.ServeHTTP(httptest.NewRecorder(), mk(sid, `{"jsonrpc":"2.0","method":"notifications/initialized","params":{}}`))
	broken := false
	recA := &c04FailingWriter{ResponseRecorder: httptest.NewRecorder(), broken: &broken}
	recB := httptest.NewRecorder()
	done := make(chan string, 2)
	vs.Go(func() {
		h.ServeHTTP(recA, mk(sid, `{"jsonrpc":"2.0","id":1,"method":"tools/call","params":{"name":"t","arguments":{"tag":"A"}}}`))
		done <- "A"
	})
	vs.Go(func() {
		h.ServeHTTP(recB, mk(sid, `{"jsonrpc":"2.0","id":2,"method":"tools/call","params":{"name":"t","arguments":{"tag":"B"}}}`))
		done <- "B"
	})
	vs.WaitIdle() // both handlers are parked
	vs.Quiet(false)
	broken = true
	// the controller releases A first (its response write fails), then B
	<-done
	<-done
	ctl.Stop()
	vs.Quiet(true)
	wp := httptest.NewRecorder()
	h.ServeHTTP(wp, mk(sid, `{"jsonrpc":"2.0","id":3,"method":"ping"}`))
	for ss := range s.Sessions() {
		ss.Close()
	}
	vs.WaitIdle()
	vs.Quiet(false)
	evs := vs.Events()
	if evIndex(evs, "cancelled B") >= 0 {
		f.failf("other-handler-cancelled", "call A's HTTP stream broke and its late response could not be written; the handler of the other in-flight call B was cancelled: %s", evJoin(evs))
	}
	if !strings.Contains(recB.Body.String(), `"text":"B"`) {
		f.failf("other-call-affected", "call B did not receive its response after A's stream broke: status %d body %q (%s)", recB.Code, recB.Body.String(), evJoin(evs))
	}
	if wp.Code != 200 || !strings.Contains(wp.Body.String(), `"result"`) {
		f.failf("session-unusable", "a ping after the failed late write was answered %d %q", wp.Code, wp.Body.String())
	}
	return f.verdict(strings.Join(evs, ","))
}

// c04CancelDuringPeerClose: a call is in flight, its handler running, when the peer begins a
// graceful Close (which waits for that handler); then the caller cancels.  The connection is
// healthy - it is merely draining - so the cancellation must still reach exactly that handler:
// the call returns with the context's error, the handler's context ends, and Close completes.
// closer: which side closes ("server": the side running the handler; "client": the caller's own side).
func c04CancelDuringPeerClose(closer string) vs.Verdict {
	f := &e1Fail{prefix: "c04 cancel-during-close"}
	ctx := context.Background()
	vs.Quiet(true)
	started := make(chan struct{})
	p, err := e1Connect(ctx, nil, nil, "2025-06-18", false, func(s *Server) {
		AddTool(s, &Tool{Name: "wait"}, func(hctx context.Context, r *CallToolRequest, in map[string]any) (*CallToolResult, any, error) {
			close(started)
			<-hctx.Done()
			vs.Event("handler context ended")
			return nil, nil, hctx.Err()
		})
	})
	if err != nil {
		return vs.Verdict{Bad: err.Error(), Sig: "c04 setup"}
	}
	vs.Quiet(false)
	cctx, cancel := context.WithCancel(ctx)
	done := make(chan string, 3)
	var callErr error
	vs.Go(func() {
		_, callErr = p.cs.CallTool(cctx, &CallToolParams{Name: "wait", Arguments: map[string]any{}})
		done <- "call"
	})
	<-started
	vs.Go(func() {
		if closer == "server" {
			p.ss.Close()
		} else {
			p.cs.Close()
		}
		vs.Event("close returned")
		done <- "close"
	})
	vs.Go(func() {
		vs.Point()
		vs.Event("caller cancels")
		cancel()
		done <- "cancel"
	})
	for i := 0; i < 3; i++ {
		<-done
	}
	vs.Quiet(true)
	p.cs.Close()
	p.ss.Close()
	vs.WaitIdle()
	vs.Quiet(false)
	evs := vs.Events()
	if callErr == nil {
		f.failf("cancelled-call-succeeded", "the cancelled call returned no error: %s", evJoin(evs))
	}
	if evIndex(evs, "handler context ended") < 0 {
		f.failf("handler-not-cancelled", "the handler's context never ended: %s", evJoin(evs))
	}
	return f.verdict(fmt.Sprintf("closer=%s err=%v", closer, callErr != nil))
}

func TestVerifC04(t *testing.T) {
	env := verifx.LoadEnv("C04")
	scs := []*verifx.Scenario{
		vs.E1(t, "session/2025-06-18", env.Pick(1, 2), vs.Options{}, func() vs.Verdict { return c04Sessions("2025-06-18") }),
		vs.E1(t, "scripted-peer", env.Pick(2, 3), vs.Options{}, func() vs.Verdict { return c04Scripted() }),
		vs.E1(t, "session/cancel-while-the-handler-side-closes", env.Pick(2, 3), vs.Options{}, func() vs.Verdict { return c04CancelDuringPeerClose("server") }),
		vs.E1(t, "session/cancel-while-the-caller-side-closes", env.Pick(2, 3), vs.Options{}, func() vs.Verdict { return c04CancelDuringPeerClose("client") }),
		vs.E1(t, "streamable/abandoned-nested-call/no-standalone-stream", env.Pick(1, 2), vs.Options{}, func() vs.Verdict { return c10UpcallCancel("c04 nested-cancel", false, false) }),
		vs.E1(t, "streamable/abandoned-nested-call", env.Pick(1, 2), vs.Options{}, func() vs.Verdict { return c10UpcallCancel("c04 nested-cancel", false, true) }),
		// the client cancels the outer call and abandons its exchange while the handler's nested request
		// is being handled by the client: the nested request's own cancellation must still get through
		vs.E1(t, "streamable/outer-call-cancelled-during-nested-call", env.Pick(1, 2), vs.Options{}, func() vs.Verdict {
			return c10UpcallCancelBy("c04 outer-cancel", false, true, true)
		}),
		vs.E1(t, "streamable/late-response-on-broken-stream", env.Pick(1, 2), vs.Options{}, func() vs.Verdict { return c04LateResponseWrite() }),
		vs.E1(t, "raw-server/cancel-by-id/2025-06-18", env.Pick(1, 2), vs.Options{}, func() vs.Verdict { return c04RawServer("2025-06-18") }),
	}
	env.Run(scs)
}
