package mcp

// C07: the negotiated version is supported by both sides and the transport, in every setup.
// Full configuration matrix: requested version x transport (in-memory, io pipes, SSE,
// streamable stateful/stateless x JSON responses x event store) x server-advertised set,
// each cell = Connect + ListTools + CallTool on real client and server code (HTTP in-process),
// plus scripted non-SDK servers answering discover/initialize with arbitrary version sets.

import (
	"bufio"
	"context"
	"encoding/json"
	"fmt"
	"io"
	"net/http"
	"slices"
	"strings"
	"testing"
	"testing/synctest"
	"time"

	"github.com/modelcontextprotocol/go-sdk/internal/verifx"
)

type c07Advertise struct {
	Transport
	set []string
}

func (a *c07Advertise) SupportsProtocolVersion(v string) bool { return slices.Contains(a.set, v) }

type c07Tap struct{ methods []string }

func (t *c07Tap) Write(p []byte) (int, error) {
	s := string(p)
	if strings.HasPrefix(s, "write:") {
		if i := strings.Index(s, `"method":"`); i >= 0 {
			rest := s[i+len(`"method":"`):]
			if j := strings.IndexByte(rest, '"'); j >= 0 {
				t.methods = append(t.methods, rest[:j])
			}
		}
	}
	return len(p), nil
}

type c07Cell struct {
	transport  string // inmem, io, sse, stateful, stateless
	jsonResp   bool
	store      bool
	advertised string // all, legacy, mixed, old, modern-only (only for inmem/io)
	requested  string
	// noSessionIDs: the server is configured with GetSessionID returning "" (a stateful endpoint that
	// issues no Mcp-Session-Id); it is still a stateful endpoint and cannot serve 2026-07-28
	noSessionIDs bool
	// logged: the server's transport is wrapped in the SDK's LoggingTransport (which must not hide
	// what the wrapped transport says about the versions it can serve)
	logged bool
	// opts, if set, is the options value handed to Connect (shared between several Connects)
	opts *ClientSessionOptions
	// identity: "" = the client names itself fully; "no-version", "no-name", "anonymous" = its
	// Implementation has an empty Version and/or Name (NewClient accepts that, and the wire form is valid)
	identity string
	// slow: the server needs this long to answer every request of the handshake (server/discover,
	// initialize) - a loaded or distant, but correct server; the caller's context allows for it
	slow time.Duration
}

func (c c07Cell) String() string {
	x := ""
	if c.noSessionIDs {
		x = " GetSessionID=empty"
	}
	if c.logged {
		x += " server-transport-wrapped-in-LoggingTransport"
	}
	if c.identity != "" {
		x += " client-identity=" + c.identity
	}
	if c.slow != 0 {
		x += fmt.Sprintf(" server answers the handshake after %v", c.slow)
	}
	return fmt.Sprintf("transport=%s json=%v store=%v advertised=%s requested=%q%s", c.transport, c.jsonResp, c.store, c.advertised, c.requested, x)
}

var c07Legacy = []string{"2025-11-25", "2025-06-18", "2025-03-26", "2024-11-05"}

func c07NewServer() *Server {
	s := NewServer(&Implementation{Name: "srv", Version: "1"}, &ServerOptions{Logger: quietLogger})
	AddTool(s, &Tool{Name: "t"}, func(ctx context.Context, r *CallToolRequest, in map[string]any) (*CallToolResult, any, error) {
		return &CallToolResult{Content: []Content{&TextContent{Text: "ok"}}}, nil, nil
	})
	return s
}

func c07Run(c c07Cell) (obs, sig, msg string) {
	s := c07NewServer()
	if c.slow != 0 {
		s.AddReceivingMiddleware(func(next MethodHandler) MethodHandler {
			return func(ctx context.Context, method string, req Request) (Result, error) {
				if method == "server/discover" || method == "initialize" {
					time.Sleep(c.slow)
				}
				return next(ctx, method, req)
			}
		})
	}
	if c.noSessionIDs {
		s = NewServer(&Implementation{Name: "srv", Version: "1"}, &ServerOptions{Logger: quietLogger, GetSessionID: func() string { return "" }})
		AddTool(s, &Tool{Name: "t"}, func(ctx context.Context, r *CallToolRequest, in map[string]any) (*CallToolResult, any, error) {
			return &CallToolResult{Content: []Content{&TextContent{Text: "ok"}}}, nil, nil
		})
	}
	defer func() {
		for ss := range s.Sessions() {
			ss.Close()
		}
	}()
	return c07RunOn(s, c)
}

// c07RunOn connects one client to s through the cell's transport and judges the session.
func c07RunOn(s *Server, c c07Cell) (obs, sig, msg string) {
	fail := func(s, format string, a ...any) (string, string, string) {
		return "", "c07 " + s, fmt.Sprintf(format, a...) + " [" + c.String() + "]"
	}
	ctx := context.Background()
	sdk := slices.Clone(supportedProtocolVersions)
	advertised := sdk
	switch c.advertised {
	case "legacy":
		advertised = c07Legacy
	case "mixed":
		advertised = []string{"2026-07-28", "2025-06-18"}
	case "old":
		advertised = []string{"2025-06-18", "2025-03-26"}
	case "modern-only":
		advertised = []string{"2026-07-28"}
	}
	transportSet := sdk
	if c.transport == "sse" || c.transport == "stateful" {
		transportSet = c07Legacy
	}
	// effective modern support: what discover may advertise
	modern := slices.Contains(advertised, "2026-07-28") && slices.Contains(transportSet, "2026-07-28")
	tap := &c07Tap{}
	var clientT Transport
	var hx *hxTransport
	var cleanup []func()
	switch c.transport {
	case "inmem", "io":
		var ct, st Transport
		if c.transport == "inmem" {
			ct, st = NewInMemoryTransports()
		} else {
			cr, sw := io.Pipe()
			sr, cw := io.Pipe()
			ct, st = &IOTransport{Reader: cr, Writer: cw}, &IOTransport{Reader: sr, Writer: sw}
		}
		if c.advertised != "all" {
			st = &c07Advertise{Transport: st, set: advertised}
		}
		if c.logged {
			st = &LoggingTransport{Transport: st, Writer: io.Discard}
		}
		ss, err := s.Connect(ctx, st, nil)
		if err != nil {
			return fail("server-connect", "%v", err)
		}
		cleanup = append(cleanup, func() { ss.Close() })
		clientT = &LoggingTransport{Transport: ct, Writer: tap}
	case "sse":
		h := NewSSEHandler(func(*http.Request) *Server { return s }, nil)
		hx = &hxTransport{Handler: h}
		clientT = &SSEClientTransport{Endpoint: "http://example.test/sse", HTTPClient: hx.client()}
	case "stateful", "stateless":
		opts := &StreamableHTTPOptions{Stateless: c.transport == "stateless", JSONResponse: c.jsonResp, Logger: quietLogger}
		if c.store {
			opts.EventStore = NewMemoryEventStore(nil)
		}
		h := NewStreamableHTTPHandler(func(*http.Request) *Server { return s }, opts)
		hx = &hxTransport{Handler: h}
		clientT = &StreamableClientTransport{Endpoint: "http://example.test/mcp", HTTPClient: hx.client(), MaxRetries: -1}
	}
	defer func() {
		for _, f := range cleanup {
			f()
		}
	}()
	impl := &Implementation{Name: "cli", Version: "1"}
	switch c.identity {
	case "no-version":
		impl.Version = ""
	case "no-name":
		impl.Name = ""
	case "anonymous":
		impl.Name, impl.Version = "", ""
	}
	client := NewClient(impl, &ClientOptions{Logger: quietLogger})
	cctx, cancel := context.WithTimeout(ctx, time.Minute)
	defer cancel()
	copts := c.opts // one options value may serve several Connects (it is configuration, not state)
	if copts == nil {
		copts = &ClientSessionOptions{ProtocolVersion: c.requested}
	}
	cs, err := client.Connect(cctx, clientT, copts)
	requested := c.requested
	if requested == "" {
		requested = latestProtocolVersion
	}
	mutual := slices.Contains(sdk, requested) && slices.Contains(transportSet, requested) && slices.Contains(advertised, requested) &&
		(requested < "2026-07-28" || modern)
	if err != nil {
		if mutual {
			return fail("connect-fails-for-mutually-supported-version", "Connect failed although %s is supported by both sides and the transport: %v", requested, err)
		}
		if cctx.Err() != nil {
			return fail("connect-hangs", "Connect did not return within a minute of virtual time: %v", err)
		}
		// the fallback clause: a modern request (known or unknown-newer) against a server without modern
		// overlap falls back to the initialize handshake, which succeeds when a legacy version is shared
		legacyShared := false
		for _, v := range c07Legacy {
			if slices.Contains(advertised, v) && slices.Contains(transportSet, v) {
				legacyShared = true
			}
		}
		if requested >= "2026-07-28" && !modern && legacyShared {
			return fail("fallback-to-initialize-fails "+c.transport, "requested %q, the server has no modern overlap but shares legacy versions: Connect must fall back to initialize and succeed, got: %v", requested, err)
		}
		return "connect-error", "", ""
	}
	cleanup = append(cleanup, func() { cs.Close() })
	got := cs.InitializeResult().ProtocolVersion
	methods := tap.methods
	if hx != nil {
		methods = hx.hxMethods()
	}
	sawDiscover, sawInitialize := slices.Contains(methods, "server/discover"), slices.Contains(methods, "initialize")
	if !slices.Contains(sdk, got) {
		return fail("negotiated-unsupported-by-sdk", "negotiated %q is not an SDK-supported version", got)
	}
	if !slices.Contains(transportSet, got) {
		return fail("negotiated-unsupported-by-transport "+c.transport, "negotiated %q, which the %s transport cannot serve", got, c.transport)
	}
	if !slices.Contains(advertised, got) {
		return fail("negotiated-version-not-served-by-transport", "negotiated %q, but the server's transport declares (ProtocolVersionSupporter) that it serves only %v", got, advertised)
	}
	if got >= "2026-07-28" && !modern {
		return fail("negotiated-modern-not-advertised", "negotiated %q although the server does not advertise it", got)
	}
	if mutual && got != requested {
		return fail("requested-version-not-honoured", "requested %q is mutually supported but %q was negotiated", requested, got)
	}
	if requested >= "2026-07-28" {
		if !sawDiscover {
			return fail("no-discovery", "requested %q but no server/discover was sent (%v)", requested, methods)
		}
		if modern && sawInitialize {
			return fail("needless-fallback", "the server offers a modern version but the client fell back to initialize (%v)", methods)
		}
		if !modern && !sawInitialize {
			return fail("no-fallback", "no modern overlap but the client did not fall back to initialize (%v)", methods)
		}
	} else if sawDiscover {
		return fail("discover-for-legacy-request", "requested %q but server/discover was sent (%v)", requested, methods)
	}
	// every connected session can immediately list and call tools
	lr, err := cs.ListTools(cctx, nil)
	if err != nil || len(lr.Tools) != 1 {
		return fail("list-fails-after-connect "+got, "ListTools right after Connect (negotiated %s): %v %v", got, lr, err)
	}
	cr, err := cs.CallTool(cctx, &CallToolParams{Name: "t", Arguments: map[string]any{}})
	if err != nil || cr.IsError || len(cr.Content) != 1 {
		return fail("call-fails-after-connect "+got, "CallTool right after Connect (negotiated %s): %+v %v", got, cr, err)
	}
	fb := ""
	if sawDiscover && sawInitialize {
		fb = " fallback"
	}
	return fmt.Sprintf("%s negotiated=%s%s", c.transport, got, fb), "", ""
}

// ---- scripted non-SDK servers over the in-memory pipe

type c07Peer struct {
	discover   string // "mnf" (method not found), or a JSON array of supported versions, or "unsupported:[...]" (-32022 with data)
	initialize string // "echo", or a fixed version
	requested  string
}

func (p c07Peer) String() string {
	return fmt.Sprintf("peer discover=%s initialize=%s requested=%q", p.discover, p.initialize, p.requested)
}

func c07RunPeer(p c07Peer) (obs, sig, msg string) {
	fail := func(s, format string, a ...any) (string, string, string) {
		return "", "c07 peer " + s, fmt.Sprintf(format, a...) + " [" + p.String() + "]"
	}
	ctx, cancel := context.WithTimeout(context.Background(), time.Minute)
	defer cancel()
	ct, st := NewInMemoryTransports()
	rwc := st.rwc
	var seen []string
	initVersionSent := ""
	go func() {
		sc := bufio.NewScanner(rwc)
		sc.Buffer(make([]byte, 1<<20), 1<<20)
		for sc.Scan() {
			var m struct {
				ID     json.RawMessage `json:"id"`
				Method string          `json:"method"`
				Params struct {
					ProtocolVersion string         `json:"protocolVersion"`
					Meta            map[string]any `json:"_meta"`
				} `json:"params"`
			}
			if json.Unmarshal(sc.Bytes(), &m) != nil || m.Method == "" {
				continue
			}
			seen = append(seen, m.Method)
			reply := func(body string) { io.WriteString(rwc, `{"jsonrpc":"2.0","id":`+string(m.ID)+`,`+body+"}\n") }
			switch m.Method {
			case "server/discover":
				switch {
				case p.discover == "mnf":
					reply(`"error":{"code":-32601,"message":"method not found"}`)
				case strings.HasPrefix(p.discover, "err:"):
					// servers that predate discovery refuse the unknown request with whatever code
					// their framework uses for it
					reply(`"error":{"code":` + strings.TrimPrefix(p.discover, "err:") + `,"message":"cannot serve server/discover"}`)
				case strings.HasPrefix(p.discover, "unsupported:"):
					reply(`"error":{"code":-32022,"message":"unsupported protocol version","data":{"supported":` + strings.TrimPrefix(p.discover, "unsupported:") + `,"requested":"x"}}`)
				default:
					reply(`"result":{"supportedVersions":` + p.discover + `,"capabilities":{"tools":{}},"_meta":{"io.modelcontextprotocol/serverInfo":{"name":"peer","version":"1"}}}`)
				}
			case "initialize":
				v := p.initialize
				if v == "echo" {
					v = m.Params.ProtocolVersion
				}
				initVersionSent = v
				reply(`"result":{"protocolVersion":"` + v + `","capabilities":{"tools":{}},"serverInfo":{"name":"peer","version":"1"}}`)
			case "tools/list":
				reply(`"result":{"tools":[]}`)
			case "subscriptions/listen":
				// never answered: the stream stays open
			default:
				if len(m.ID) > 0 {
					reply(`"result":{}`)
				}
			}
		}
	}()
	client := NewClient(&Implementation{Name: "cli", Version: "1"}, &ClientOptions{Logger: quietLogger})
	cs, err := client.Connect(ctx, ct, &ClientSessionOptions{ProtocolVersion: p.requested})
	defer rwc.Close()
	sdk := supportedProtocolVersions
	// reference: does discovery yield a modern version both sides support?
	requested := p.requested
	if requested == "" {
		requested = latestProtocolVersion
	}
	modernOffer := false
	if p.discover != "mnf" {
		var vs []string
		json.Unmarshal([]byte(strings.TrimPrefix(p.discover, "unsupported:")), &vs)
		for _, v := range vs {
			if v >= "2026-07-28" && slices.Contains(sdk, v) {
				modernOffer = true
			}
		}
	}
	if requested >= "2026-07-28" && !modernOffer && !slices.Contains(seen, "initialize") {
		return fail("no-fallback", "discovery is unavailable or offers no modern version both sides support, but the client never sent initialize (sent %v; Connect error: %v)", seen, err)
	}
	initAnswer := p.initialize
	if initAnswer == "echo" {
		initAnswer = initVersionSent
	}
	if err != nil {
		if ctx.Err() != nil {
			return fail("connect-hangs", "Connect did not return: %v", err)
		}
		if slices.Contains(seen, "initialize") && slices.Contains(sdk, initAnswer) && initAnswer < "2026-07-28" {
			return fail("connect-fails-after-valid-initialize", "the server answered initialize with the supported version %q but Connect failed: %v", initAnswer, err)
		}
		return "connect-error", "", ""
	}
	defer cs.Close()
	got := cs.InitializeResult().ProtocolVersion
	if !slices.Contains(sdk, got) {
		return fail("negotiated-unsupported-by-sdk", "negotiated %q, which this SDK does not support", got)
	}
	// the server must have offered it: through discover's list, or as its initialize answer
	offered := false
	if slices.Contains(seen, "initialize") {
		offered = initVersionSent == got
	} else {
		var vs []string
		json.Unmarshal([]byte(strings.TrimPrefix(p.discover, "unsupported:")), &vs)
		offered = slices.Contains(vs, got) && got >= "2026-07-28"
	}
	if !offered {
		return fail("negotiated-not-offered-by-server", "negotiated %q which the server never offered (methods seen %v, initialize answered %q)", got, seen, initVersionSent)
	}
	if _, err := cs.ListTools(ctx, nil); err != nil {
		return fail("list-fails-after-connect", "ListTools: %v", err)
	}
	return "peer negotiated=" + got, "", ""
}

// c07EditedDiscover: a server's receiving middleware edits the server/discover result it passes on -
// in place, as user code does (drop an entry with slices.DeleteFunc, sort, truncate).  That is that
// server's business; a negotiation with another, ordinary server in the same process afterwards still
// yields what the two sides and the transport support.
func c07EditedDiscover(edit, requested string) (obs, sig, msg string) {
	fail := func(s, format string, a ...any) (string, string, string) {
		return "", "c07 edited-discover " + s, fmt.Sprintf(format, a...) + fmt.Sprintf(" [an earlier server's middleware edited its discover result in place: %s; then an ordinary server, requested=%q]", edit, requested)
	}
	saved := slices.Clone(supportedProtocolVersions)
	defer func() { supportedProtocolVersions = saved }() // (whatever happens, the next case starts from the real list)
	ctx, cancel := context.WithTimeout(context.Background(), time.Minute)
	defer cancel()
	connect := func(s *Server, version string) (*ClientSession, func(), error) {
		ct, st := NewInMemoryTransports()
		ss, err := s.Connect(ctx, st, nil)
		if err != nil {
			return nil, nil, err
		}
		cs, err := NewClient(&Implementation{Name: "cli", Version: "1"}, &ClientOptions{Logger: quietLogger}).Connect(ctx, ct, &ClientSessionOptions{ProtocolVersion: version})
		if err != nil {
			ss.Close()
			return nil, func() {}, err
		}
		return cs, func() { cs.Close(); ss.Wait() }, nil
	}
	first := c07NewServer()
	first.AddReceivingMiddleware(func(next MethodHandler) MethodHandler {
		return func(ctx context.Context, method string, req Request) (Result, error) {
			res, err := next(ctx, method, req)
			if dr, ok := res.(*DiscoverResult); ok && err == nil {
				switch edit {
				case "drop-oldest":
					dr.SupportedVersions = slices.DeleteFunc(dr.SupportedVersions, func(v string) bool { return v == "2024-11-05" })
				case "drop-newest-legacy":
					dr.SupportedVersions = slices.DeleteFunc(dr.SupportedVersions, func(v string) bool { return v == "2025-11-25" })
				case "sort-ascending":
					slices.Sort(dr.SupportedVersions)
				case "blank-all-but-first":
					for i := 1; i < len(dr.SupportedVersions); i++ {
						dr.SupportedVersions[i] = "0000-00-00"
					}
				}
			}
			return res, err
		}
	})
	if _, closeFirst, err := connect(first, ""); err == nil {
		closeFirst()
	}
	second := c07NewServer()
	cs, closeSecond, err := connect(second, requested)
	if err != nil {
		return fail("connect-failed", "Connect to the ordinary server: %v", err)
	}
	defer closeSecond()
	want := requested
	if want == "" {
		want = "2026-07-28"
	}
	if got := cs.InitializeResult().ProtocolVersion; got != want {
		return fail("requested-version-not-honoured", "negotiated %q, want %q (supported by both sides and the transport)", got, want)
	}
	if _, err := cs.ListTools(ctx, nil); err != nil {
		return fail("list-failed", "ListTools: %v", err)
	}
	return "negotiated " + want, "", ""
}

func TestVerifC07(t *testing.T) {
	env := verifx.LoadEnv("C07")
	res := env.NewResult()
	cases := env.NewCases(res, "configuration-matrix")
	requested := []string{"", "2026-07-28", "2025-11-25", "2025-06-18", "2025-03-26", "2024-11-05", "1999-01-01", "2099-01-01"}
	var cells []c07Cell
	for _, r := range requested {
		for _, tr := range []string{"inmem", "io"} {
			for _, adv := range []string{"all", "legacy", "mixed", "old", "modern-only"} {
				cells = append(cells, c07Cell{transport: tr, advertised: adv, requested: r})
				if tr == "inmem" {
					cells = append(cells, c07Cell{transport: tr, advertised: adv, requested: r, logged: true})
				}
			}
		}
		cells = append(cells, c07Cell{transport: "sse", advertised: "all", requested: r})
		for _, tr := range []string{"stateful", "stateless"} {
			for _, j := range []bool{false, true} {
				for _, st := range []bool{false, true} {
					cells = append(cells, c07Cell{transport: tr, jsonResp: j, store: st, advertised: "all", requested: r})
					if tr == "stateful" {
						cells = append(cells, c07Cell{transport: tr, jsonResp: j, store: st, advertised: "all", requested: r, noSessionIDs: true})
					}
				}
			}
		}
	}
	// clients whose Implementation is incomplete: what they request and share with the server they still get
	for _, r := range []string{"", "2026-07-28", "2025-06-18"} {
		for _, id := range []string{"no-version", "no-name", "anonymous"} {
			for _, base := range []c07Cell{{transport: "inmem", advertised: "all"}, {transport: "io", advertised: "mixed"}, {transport: "sse", advertised: "all"},
				{transport: "stateful", advertised: "all"}, {transport: "stateless", advertised: "all"}, {transport: "stateless", advertised: "all", jsonResp: true}} {
				base.requested, base.identity = r, id
				cells = append(cells, base)
			}
		}
	}
	// slow but correct servers: every request of the handshake takes 5 s, 12 s or 19 s (up to three are needed); the caller allows a minute
	for _, r := range []string{"", "2026-07-28", "2025-06-18"} {
		for _, d := range []time.Duration{5 * time.Second, 12 * time.Second, 19 * time.Second} {
			for _, base := range []c07Cell{{transport: "inmem", advertised: "all"}, {transport: "io", advertised: "all"}, {transport: "sse", advertised: "all"},
				{transport: "stateful", advertised: "all"}, {transport: "stateless", advertised: "all"}, {transport: "stateless", advertised: "all", jsonResp: true}} {
				base.requested, base.slow = r, d
				cells = append(cells, base)
			}
		}
	}
	run := func(f func() (string, string, string), desc string, idx int, c *verifx.Cases) {
		var obs, sig, msg string
		func() {
			defer func() {
				if r := recover(); r != nil {
					sig, msg = "c07 panic-or-leak", fmt.Sprintf("%v [%s]", r, desc)
				}
			}()
			synctest.Test(t, func(t *testing.T) { obs, sig, msg = f() })
		}()
		if sig != "" {
			c.Violate(idx, sig, msg, 3)
			return
		}
		c.Record(idx, obs, 3, func() string { return desc })
	}
	for _, c := range cells {
		idx, mine := cases.Next()
		if !mine {
			continue
		}
		run(func() (string, string, string) { return c07Run(c) }, c.String(), idx, cases)
	}
	// one Server serving several transports in turn: what one session negotiated must not leak into the next
	edited := env.NewCases(res, "discover-result-edited-by-another-server")
	for _, edit := range []string{"none", "drop-oldest", "drop-newest-legacy", "sort-ascending", "blank-all-but-first"} {
		for _, r := range []string{"", "2026-07-28", "2025-11-25", "2025-06-18", "2025-03-26", "2024-11-05"} {
			idx, mine := edited.Next()
			if !mine {
				continue
			}
			run(func() (string, string, string) { return c07EditedDiscover(edit, r) }, fmt.Sprintf("edit=%s requested=%q", edit, r), idx, edited)
		}
	}
	shared := env.NewCases(res, "one-server-two-transports")
	kinds := []c07Cell{{transport: "inmem", advertised: "all"}, {transport: "stateless", advertised: "all"}, {transport: "sse", advertised: "all"},
		{transport: "stateful", advertised: "all"}, {transport: "inmem", advertised: "legacy"}, {transport: "stateless", advertised: "all", jsonResp: true, store: true}}
	for _, a := range kinds {
		for _, b := range kinds {
			for ri, r := range []string{"", "2025-06-18", "", "2026-07-28"} {
				idx, mine := shared.Next()
				if !mine {
					continue
				}
				a2, b2 := a, b
				a2.requested, b2.requested = r, r
				desc := "first " + a2.String() + " then " + b2.String()
				if ri >= 2 {
					// both Connects are given the same *ClientSessionOptions
					o := &ClientSessionOptions{ProtocolVersion: r}
					a2.opts, b2.opts = o, o
					desc += " (one ClientSessionOptions value for both)"
				}
				run(func() (string, string, string) {
					s := c07NewServer()
					defer func() {
						for ss := range s.Sessions() {
							ss.Close()
						}
					}()
					o1, sig, msg := c07RunOn(s, a2)
					if sig != "" {
						return "", sig, "first session: " + msg
					}
					o2, sig, msg := c07RunOn(s, b2)
					if sig != "" {
						return "", sig + " (second transport on the same Server)", "second session after [" + a2.String() + "]: " + msg
					}
					return o1 + " ; " + o2, "", ""
				}, desc, idx, shared)
			}
		}
	}
	peers := env.NewCases(res, "scripted-non-sdk-servers")
	for _, d := range []string{"mnf", "err:-32602", "err:-32600", "err:-32603", "err:0", "err:-32000", "err:-32001", "err:-32700", "err:1", `["2026-07-28"]`, `["2026-07-28","2025-06-18"]`, `["2025-06-18"]`, `["2027-01-01"]`, `["2099-01-01"]`, `["2099-01-01","2026-07-28"]`, `[]`, `unsupported:["2026-07-28"]`, `unsupported:["2025-03-26"]`, `unsupported:["2031-01-01"]`} {
		for _, i := range []string{"echo", "2025-03-26", "1990-01-01", "2025-01-01", "2030-01-01", "2026-07-28", ""} {
			for _, r := range []string{"", "2025-06-18", "2099-01-01"} {
				idx, mine := peers.Next()
				if !mine {
					continue
				}
				p := c07Peer{discover: d, initialize: i, requested: r}
				run(func() (string, string, string) { return c07RunPeer(p) }, p.String(), idx, peers)
			}
		}
	}
	// ---- scripted legacy servers behind HTTP: discovery is refused at the HTTP level in the ways
	// servers that predate server/discover do it; the client must fall back to initialize
	httpPeers := env.NewCases(res, "scripted-legacy-http-servers")
	for _, kind := range []string{"streamable", "sse"} {
		for _, d := range []string{"404-bare", "404-jsonrpc-mnf", "400-plain", "400-jsonrpc-mnf", "405-bare", "200-jsonrpc-mnf",
			"400-jsonrpc-code-32602", "400-jsonrpc-code-32600", "400-jsonrpc-code-32603", "200-jsonrpc-code-32602", "200-jsonrpc-code-32600", "200-jsonrpc-code-32603", "200-jsonrpc-code0"} {
			for _, r := range []string{"", "2026-07-28", "2099-01-01"} {
				idx, mine := httpPeers.Next()
				if !mine {
					continue
				}
				desc := fmt.Sprintf("legacy %s server answering server/discover with %s, requested=%q", kind, d, r)
				run(func() (string, string, string) { return c07RunHTTPPeer(kind, d, r) }, desc, idx, httpPeers)
			}
		}
	}
	for _, kind := range []string{"streamable", "sse"} {
		for _, d := range []string{"404-bare", "200-jsonrpc-mnf", "400-jsonrpc-code-32602"} {
			for _, r := range []string{"", "2025-06-18", "2026-07-28"} {
				idx, mine := httpPeers.Next()
				if !mine {
					continue
				}
				desc := fmt.Sprintf("%s server answering initialize with 2026-07-28, discover answered %s, requested=%q", kind, d, r)
				run(func() (string, string, string) { return c07RunHTTPPeerX(kind, d, r, "2026-07-28") }, desc, idx, httpPeers)
			}
		}
	}
	env.Finish(res)
}

// c07RunHTTPPeer: a scripted server that implements the legacy handshake only and refuses
// server/discover at the HTTP level (or with a JSON-RPC method-not-found).
func c07RunHTTPPeer(kind, discover, requested string) (obs, sig, msg string) {
	return c07RunHTTPPeerX(kind, discover, requested, "")
}

// initAnswer: "" - the server answers initialize with a legacy version; otherwise with this version whatever
// was asked (a foreign or newer server that names 2026-07-28 in the legacy handshake): over HTTP+SSE and on a
// stateful streamable endpoint that version is never the outcome - Connect fails, or settles on another one
func c07RunHTTPPeerX(kind, discover, requested, initAnswer string) (obs, sig, msg string) {
	fail := func(s, format string, a ...any) (string, string, string) {
		return "", "c07 http-peer " + kind + " " + s, fmt.Sprintf(format, a...) + fmt.Sprintf(" [legacy %s server, discover answered %s, requested=%q, initialize answered %q]", kind, discover, requested, initAnswer)
	}
	ctx, cancel := context.WithTimeout(context.Background(), time.Minute)
	defer cancel()
	mk := func(status int, ctype, body string) *http.Response {
		h := http.Header{}
		if ctype != "" {
			h.Set("Content-Type", ctype)
		}
		return &http.Response{StatusCode: status, Status: fmt.Sprint(status), Header: h, Body: io.NopCloser(strings.NewReader(body)), Proto: "HTTP/1.1", ProtoMajor: 1, ProtoMinor: 1}
	}
	var seen []string
	// the SSE server's event stream
	pr, pw := io.Pipe()
	defer pw.Close()
	event := func(name, data string) { go fmt.Fprintf(pw, "event: %s\ndata: %s\n\n", name, data) }
	answer := func(id, method, version string) (jsonBody string, handled bool) {
		switch method {
		case "initialize":
			v := version
			if !slices.Contains(c07Legacy, v) {
				v = "2025-06-18"
			}
			if initAnswer != "" {
				v = initAnswer
			}
			return `{"jsonrpc":"2.0","id":` + id + `,"result":{"protocolVersion":"` + v + `","capabilities":{"tools":{}},"serverInfo":{"name":"legacy","version":"1"}}}`, true
		case "tools/list":
			return `{"jsonrpc":"2.0","id":` + id + `,"result":{"tools":[]}}`, true
		}
		return "", false
	}
	hx := &hxTransport{Intercept: func(req *http.Request, n int) (*http.Response, error) {
		body, _ := io.ReadAll(req.Body)
		var m struct {
			ID     json.RawMessage `json:"id"`
			Method string          `json:"method"`
			Params struct {
				ProtocolVersion string `json:"protocolVersion"`
			} `json:"params"`
		}
		json.Unmarshal(body, &m)
		if m.Method != "" {
			seen = append(seen, m.Method)
		}
		mnf := `{"jsonrpc":"2.0","id":` + string(m.ID) + `,"error":{"code":-32601,"message":"method not found"}}`
		if i := strings.Index(discover, "jsonrpc-code"); i >= 0 {
			// (the same refusals carrying another JSON-RPC error code)
			mnf = `{"jsonrpc":"2.0","id":` + string(m.ID) + `,"error":{"code":` + discover[i+len("jsonrpc-code"):] + `,"message":"cannot serve server/discover"}}`
		}
		switch {
		case req.Method == "GET" && kind == "sse" && strings.HasSuffix(req.URL.Path, "/sse"):
			r := mk(200, "text/event-stream", "")
			r.Body = pr
			event("endpoint", "/messages?sessionid=1")
			return r, nil
		case req.Method == "GET":
			return mk(405, "", ""), nil
		case req.Method == "DELETE":
			return mk(204, "", ""), nil
		case m.Method == "server/discover":
			switch discover {
			case "404-bare":
				return mk(404, "", ""), nil
			case "404-jsonrpc-mnf":
				return mk(404, "application/json", mnf), nil
			case "400-plain":
				return mk(400, "text/plain", "unknown method\n"), nil
			case "400-jsonrpc-mnf", "400-jsonrpc-code-32602", "400-jsonrpc-code-32600", "400-jsonrpc-code-32603":
				return mk(400, "application/json", mnf), nil
			case "405-bare":
				return mk(405, "", ""), nil
			default:
				if kind == "sse" {
					event("message", mnf)
					return mk(202, "", ""), nil
				}
				return mk(200, "application/json", mnf), nil
			}
		case len(m.ID) == 0:
			return mk(202, "", ""), nil
		}
		if b, ok := answer(string(m.ID), m.Method, m.Params.ProtocolVersion); ok {
			if kind == "sse" {
				event("message", b)
				return mk(202, "", ""), nil
			}
			r := mk(200, "application/json", b)
			r.Header.Set("Mcp-Session-Id", "legacy-1")
			return r, nil
		}
		if kind == "sse" {
			event("message", `{"jsonrpc":"2.0","id":`+string(m.ID)+`,"result":{}}`)
			return mk(202, "", ""), nil
		}
		return mk(200, "application/json", `{"jsonrpc":"2.0","id":`+string(m.ID)+`,"result":{}}`), nil
	}}
	var tr Transport
	if kind == "sse" {
		tr = &SSEClientTransport{Endpoint: "http://example.test/sse", HTTPClient: hx.client()}
	} else {
		tr = &StreamableClientTransport{Endpoint: "http://example.test/mcp", HTTPClient: hx.client(), MaxRetries: -1}
	}
	client := NewClient(&Implementation{Name: "cli", Version: "1"}, &ClientOptions{Logger: quietLogger})
	cs, err := client.Connect(ctx, tr, &ClientSessionOptions{ProtocolVersion: requested})
	if err != nil {
		if ctx.Err() != nil {
			return fail("connect-hangs", "Connect did not return: %v", err)
		}
		if initAnswer != "" && slices.Contains(seen, "initialize") {
			return kind + " refused the initialize answer", "", ""
		}
		return fail("no-fallback-after-http-refusal "+discover, "discovery is unavailable on this server but Connect did not fall back to the initialize handshake (methods sent: %v): %v", seen, err)
	}
	defer cs.Close()
	got := cs.InitializeResult().ProtocolVersion
	if initAnswer != "" && got >= "2026-07-28" {
		return fail("negotiated-2026-07-28-on-a-transport-without-binding", "negotiated %q through the legacy handshake over a transport that has no binding for it", got)
	}
	if initAnswer != "" {
		return kind + " settled on " + got, "", ""
	}
	if !slices.Contains(c07Legacy, got) {
		return fail("negotiated-not-offered-by-server", "negotiated %q with a server that only implements the legacy handshake", got)
	}
	if _, err := cs.ListTools(ctx, nil); err != nil {
		return fail("list-fails-after-connect", "ListTools: %v", err)
	}
	return fmt.Sprintf("%s fallback negotiated=%s", kind, got), "", ""
}
