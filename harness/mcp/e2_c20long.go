package mcp

// C20 on long streams.  A stream that has retained n items (n around and beyond every power of two
// up to 256, and 1000) is replayed from every kind of index - far below -1, -1, 0, the middle, the
// last, beyond the end: exactly the payloads appended after that index, in order, each once.  And
// while a replay is being consumed the store is put under memory pressure (everything evictable is
// evicted after the k-th yielded item) or more is appended: the replay then is either complete (what
// was there when it began) or an events-purged error - never some of the items and then an error,
// never a gap, never an item twice.

import (
	"context"
	"errors"
	"fmt"
	"math"
	"testing"

	"github.com/modelcontextprotocol/go-sdk/internal/verifx"
)

func c20LongCase(n, index int, disturb string, at int) (obs, sig, msg string) {
	fail := func(s, format string, a ...any) (string, string, string) {
		return "", "c20 long-stream " + s, fmt.Sprintf(format, a...) + fmt.Sprintf(" [%d items retained, After(%d), %s after %d yielded items]", n, index, disturb, at)
	}
	ctx := context.Background()
	st := NewMemoryEventStore(nil)
	if err := st.Open(ctx, "S", "T"); err != nil {
		return fail("setup", "%v", err)
	}
	payload := func(i int) string { return fmt.Sprintf("item-%04d", i) }
	for i := 0; i < n; i++ {
		if err := st.Append(ctx, "S", "T", []byte(payload(i))); err != nil {
			return fail("setup", "append %d: %v", i, err)
		}
	}
	from := index + 1
	if from < 0 {
		from = 0
	}
	var want []string
	for i := from; i < n; i++ {
		want = append(want, payload(i))
	}
	var got []string
	var gotErr error
	yielded := 0
	for data, err := range st.After(ctx, "S", "T", index) {
		if err != nil {
			gotErr = err
			break
		}
		got = append(got, string(data))
		yielded++
		if len(got) > n+8 {
			return fail("replay-does-not-end", "After has yielded %d items from a stream of %d", len(got), n)
		}
		if yielded == at {
			switch disturb {
			case "evict-all":
				st.SetMaxBytes(1)
				st.SetMaxBytes(0)
			case "append-more":
				for j := 0; j < 70; j++ {
					st.Append(ctx, "S", "T", []byte(fmt.Sprintf("late-%04d", j)))
				}
			case "session-closed":
				st.SessionClosed(ctx, "S")
			}
		}
	}
	switch {
	case gotErr != nil && len(got) > 0:
		return fail("partial-sequence-then-error", "After yielded %d of %d payloads and then %v: a partial sequence", len(got), len(want), gotErr)
	case gotErr != nil && disturb == "none":
		return fail("unexpected-error", "After failed with %v although nothing was evicted", gotErr)
	case gotErr != nil && !errors.Is(gotErr, ErrEventsPurged):
		return fail("unexpected-error", "After failed with %v", gotErr)
	case gotErr != nil:
		return "purged", "", ""
	}
	// complete: what was retained when the replay began (items appended during it may follow)
	if len(got) < len(want) {
		return fail("short-sequence", "After yielded %d payloads without an error, %d were retained after index %d (first missing: %s)", len(got), len(want), index, want[len(got)])
	}
	for i := range want {
		if got[i] != want[i] {
			return fail("wrong-sequence", "item #%d of the replay is %q, appended after index %d in that place: %q (the replay has %d items, %d are due)", i, got[i], index, want[i], len(got), len(want))
		}
	}
	for i := len(want); i < len(got); i++ {
		if disturb != "append-more" || got[i] != fmt.Sprintf("late-%04d", i-len(want)) {
			return fail("wrong-sequence", "the replay goes on after the %d due items with %q", len(want), got[i])
		}
	}
	return fmt.Sprintf("complete extra=%d", len(got)-len(want)), "", ""
}

func TestVerifC20Long(t *testing.T) {
	env := verifx.LoadEnv("C20")
	res := env.NewResult()
	cases := env.NewCases(res, "long-streams")
	sizes := []int{1, 2, 15, 16, 17, 31, 32, 33, 63, 64, 65, 100, 127, 128, 129, 200, 255, 256, 257, 1000}
	for _, n := range sizes {
		indexes := []int{math.MinInt, -1000, -65, -64, -3, -2, -1, 0, 1, n / 2, n - 2, n - 1, n, n + 1}
		seen := map[int]bool{}
		for _, index := range indexes {
			if seen[index] || (index > 1 && index < 0) {
				continue
			}
			seen[index] = true
			type dist struct {
				kind string
				at   int
			}
			ds := []dist{{"none", 0}}
			if index <= 0 {
				for _, at := range []int{1, 2, 16, 32, 63, 64, 65, 128} {
					if at < n {
						for _, k := range []string{"evict-all", "append-more", "session-closed"} {
							ds = append(ds, dist{k, at})
						}
					}
				}
			}
			for _, d := range ds {
				idx, mine := cases.Next()
				if !mine {
					continue
				}
				desc := fmt.Sprintf("n=%d index=%d %s@%d", n, index, d.kind, d.at)
				var obs, sig, msg string
				func() {
					defer func() {
						if r := recover(); r != nil && sig == "" {
							sig, msg = "c20 long-stream panic", fmt.Sprintf("%v [%s]", r, desc)
						}
					}()
					obs, sig, msg = c20LongCase(n, index, d.kind, d.at)
				}()
				if sig != "" {
					cases.Violate(idx, sig, msg, 2)
					continue
				}
				cases.Record(idx, d.kind+" "+obs, 2, func() string { return desc })
			}
		}
	}
	env.Finish(res)
}

// c20RegrowCase: streams that grow, lose a prefix to memory pressure and grow again - the life of every
// stream in a store that is full.  nStreams streams get n1 one-byte-per-digit payloads each (appended in
// turns), the limit is lowered so that about k items per stream have to go, raised again, and 48 more
// items are appended to each; after the eviction and after every later append each stream must retain a
// suffix of what was appended to it, After from just before that suffix must yield exactly it, After from
// one further back must report the purge, and After(last) nothing.
func c20RegrowCase(n1, k, nStreams int) (obs, sig, msg string) {
	fail := func(s, format string, a ...any) (string, string, string) {
		return "", "c20 regrow " + s, fmt.Sprintf(format, a...) + fmt.Sprintf(" [%d stream(s), %d items each, about %d evicted, then growing]", nStreams, n1, k)
	}
	ctx := context.Background()
	st := NewMemoryEventStore(nil)
	st.SetMaxBytes(1 << 20)
	const psize = 8
	payload := func(t, i int) string { return fmt.Sprintf("%d-%06d", t, i) } // 8 bytes
	tid := func(t int) string { return fmt.Sprintf("T%d", t) }
	app := make([][]string, nStreams)
	appendOne := func(t int) error {
		p := payload(t, len(app[t]))
		app[t] = append(app[t], p)
		return st.Append(ctx, "S", tid(t), []byte(p))
	}
	replay := func(t, idx int) ([]string, error) {
		var got []string
		for d, err := range st.After(ctx, "S", tid(t), idx) {
			if err != nil {
				return got, err
			}
			got = append(got, string(d))
			if len(got) > len(app[t])+8 {
				return got, fmt.Errorf("replay does not end")
			}
		}
		return got, nil
	}
	check := func(when string) (string, string, string) {
		for t := 0; t < nStreams; t++ {
			first, items, _, ok := c20View(st, "S", tid(t), len(app[t]))
			if !ok {
				return fail("stream-missing", "%s: stream %s is gone", when, tid(t))
			}
			if first < 0 || first+len(items) != len(app[t]) {
				return fail("retained-not-suffix", "%s: stream %s retains [%d,%d), %d were appended", when, tid(t), first, first+len(items), len(app[t]))
			}
			for i, d := range items {
				if string(d) != app[t][first+i] {
					return fail("retained-not-suffix", "%s: stream %s item %d is %q, appended was %q", when, tid(t), first+i, d, app[t][first+i])
				}
			}
			for _, idx := range []int{first - 1, first, (first + len(app[t])) / 2, len(app[t]) - 2, len(app[t]) - 1} {
				if idx < first-1 || idx > len(app[t])-1 {
					continue
				}
				got, err := replay(t, idx)
				if err != nil {
					return fail("replay-fails", "%s: After(%s, %d) = %d items and error %v; retained from %d on", when, tid(t), idx, len(got), err, first)
				}
				want := app[t][idx+1:]
				if len(got) != len(want) {
					return fail("wrong-sequence", "%s: After(%s, %d) yielded %d items, %d were appended after that index", when, tid(t), idx, len(got), len(want))
				}
				for i := range want {
					if got[i] != want[i] {
						return fail("wrong-sequence", "%s: After(%s, %d) item #%d is %q, appended there: %q", when, tid(t), idx, i, got[i], want[i])
					}
				}
			}
			if first > 0 {
				if got, err := replay(t, first-2); !errors.Is(err, ErrEventsPurged) || len(got) > 0 {
					return fail("purge-not-reported", "%s: After(%s, %d) = %d items, error %v, although item %d has been evicted", when, tid(t), first-2, len(got), err, first-1)
				}
			}
		}
		return "", "", ""
	}
	for i := 0; i < n1; i++ {
		for t := 0; t < nStreams; t++ {
			if err := appendOne(t); err != nil {
				return fail("setup", "%v", err)
			}
		}
	}
	if o, s, m := check("before the eviction"); s != "" {
		return o, s, m
	}
	st.SetMaxBytes(max(1, (n1-k)*nStreams*psize))
	st.SetMaxBytes(1 << 20)
	if o, s, m := check("after the eviction"); s != "" {
		return o, s, m
	}
	evicted := 0
	for t := 0; t < nStreams; t++ {
		f, _, _, _ := c20View(st, "S", tid(t), len(app[t]))
		evicted += f
	}
	for j := 0; j < 48; j++ {
		for t := 0; t < nStreams; t++ {
			if err := appendOne(t); err != nil {
				return fail("append", "%v", err)
			}
			if o, s, m := check(fmt.Sprintf("after append #%d past the eviction", j+1)); s != "" {
				return o, s, m
			}
		}
	}
	return fmt.Sprintf("evicted=%v", evicted > 0), "", ""
}

func TestVerifC20Regrow(t *testing.T) {
	env := verifx.LoadEnv("C20")
	res := env.NewResult()
	cases := env.NewCases(res, "grow-evict-grow")
	for _, nStreams := range []int{1, 2, 3} {
		for n1 := 1; n1 <= env.Pick(40, 140); n1++ {
			for k := 0; k <= n1; k++ {
				idx, mine := cases.Next()
				if !mine {
					continue
				}
				desc := fmt.Sprintf("streams=%d n1=%d k=%d", nStreams, n1, k)
				var obs, sig, msg string
				func() {
					defer func() {
						if r := recover(); r != nil && sig == "" {
							sig, msg = "c20 regrow panic", fmt.Sprintf("%v [%s]", r, desc)
						}
					}()
					obs, sig, msg = c20RegrowCase(n1, k, nStreams)
				}()
				if sig != "" {
					cases.Violate(idx, sig, msg, 2)
					continue
				}
				cases.Record(idx, obs, 2, func() string { return desc })
			}
		}
	}
	env.Finish(res)
}
