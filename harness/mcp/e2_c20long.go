package mcp

// C20 on long streams.  A stream that has retained n items (n around and beyond every power of two
// up to 256, and 1000) is replayed from every kind of index - far below -1, -1, 0, the middle, the
// last, beyond the end: exactly the payloads appended after that index, in order, each once.  And
// while a replay is being consumed the store is put under memory pressure (everything evictable is
// evicted after the k-th yielded item) or more is appended: the replay then is either complete (what
// was there when it began) or an events-purged error - never some of the items and then an error,
// never a gap, never an item twice.

import (
	"context"
	"errors"
	"fmt"
	"math"
	"testing"

	"github.com/modelcontextprotocol/go-sdk/internal/verifx"
)

func c20LongCase(n, index int, disturb string, at int) (obs, sig, msg string) {
	fail := func(s, format string, a ...any) (string, string, string) {
		return "", "c20 long-stream " + s, fmt.Sprintf(format, a...) + fmt.Sprintf(" [%d items retained, After(%d), %s after %d yielded items]", n, index, disturb, at)
	}
	ctx := context.Background()
	st := NewMemoryEventStore(nil)
	if err := st.Open(ctx, "S", "T"); err != nil {
		return fail("setup", "%v", err)
	}
	payload := func(i int) string { return fmt.Sprintf("item-%04d", i) }
	for i := 0; i < n; i++ {
		if err := st.Append(ctx, "S", "T", []byte(payload(i))); err != nil {
			return fail("setup", "append %d: %v", i, err)
		}
	}
	from := index + 1
	if from < 0 {
		from = 0
	}
	var want []string
	for i := from; i < n; i++ {
		want = append(want, payload(i))
	}
	var got []string
	var gotErr error
	yielded := 0
	for data, err := range st.After(ctx, "S", "T", index) {
		if err != nil {
			gotErr = err
			break
		}
		got = append(got, string(data))
		yielded++
		if len(got) > n+8 {
			return fail("replay-does-not-end", "After has yielded %d items from a stream of %d", len(got), n)
		}
		if yielded == at {
			switch disturb {
			case "evict-all":
				st.SetMaxBytes(1)
				st.SetMaxBytes(0)
			case "append-more":
				for j := 0; j < 70; j++ {
					st.Append(ctx, "S", "T", []byte(fmt.Sprintf("late-%04d", j)))
				}
			case "session-closed":
				st.SessionClosed(ctx, "S")
			}
		}
	}
	switch {
	case gotErr != nil && len(got) > 0:
		return fail("partial-sequence-then-error", "After yielded %d of %d payloads and then %v: a partial sequence", len(got), len(want), gotErr)
	case gotErr != nil && disturb == "none":
		return fail("unexpected-error", "After failed with %v although nothing was evicted", gotErr)
	case gotErr != nil && !errors.Is(gotErr, ErrEventsPurged):
		return fail("unexpected-error", "After failed with %v", gotErr)
	case gotErr != nil:
		return "purged", "", ""
	}
	// complete: what was retained when the replay began (items appended during it may follow)
	if len(got) < len(want) {
		return fail("short-sequence", "After yielded %d payloads without an error, %d were retained after index %d (first missing: %s)", len(got), len(want), index, want[len(got)])
	}
	for i := range want {
		if got[i] != want[i] {
			return fail("wrong-sequence", "item #%d of the replay is %q, appended after index %d in that place: %q (the replay has %d items, %d are due)", i, got[i], index, want[i], len(got), len(want))
		}
	}
	for i := len(want); i < len(got); i++ {
		if disturb != "append-more" || got[i] != fmt.Sprintf("late-%04d", i-len(want)) {
			return fail("wrong-sequence", "the replay goes on after the %d due items with %q", len(want), got[i])
		}
	}
	return fmt.Sprintf("complete extra=%d", len(got)-len(want)), "", ""
}

func TestVerifC20Long(t *testing.T) {
	env := verifx.LoadEnv("C20")
	res := env.NewResult()
	cases := env.NewCases(res, "long-streams")
	sizes := []int{1, 2, 15, 16, 17, 31, 32, 33, 63, 64, 65, 100, 127, 128, 129, 200, 255, 256, 257, 1000}
	for _, n := range sizes {
		indexes := []int{math.MinInt, -1000, -65, -64, -3, -2, -1, 0, 1, n / 2, n - 2, n - 1, n, n + 1}
		seen := map[int]bool{}
		for _, index := range indexes {
			if seen[index] || (index > 1 && index < 0) {
				continue
			}
			seen[index] = true
			type dist struct {
				kind string
				at   int
			}
			ds := []dist{{"none", 0}}
			if index <= 0 {
				for _, at := range []int{1, 2, 16, 32, 63, 64, 65, 128} {
					if at < n {
						for _, k := range []string{"evict-all", "append-more", "session-closed"} {
							ds = append(ds, dist{k, at})
						}
					}
				}
			}
			for _, d := range ds {
				idx, mine := cases.Next()
				if !mine {
					continue
				}
				desc := fmt.Sprintf("n=%d index=%d %s@%d", n, index, d.kind, d.at)
				var obs, sig, msg string
				func() {
					defer func() {
						if r := recover(); r != nil && sig == "" {
							sig, msg = "c20 long-stream panic", fmt.Sprintf("%v [%s]", r, desc)
						}
					}()
					obs, sig, msg = c20LongCase(n, index, d.kind, d.at)
				}()
				if sig != "" {
					cases.Violate(idx, sig, msg, 2)
					continue
				}
				cases.Record(idx, d.kind+" "+obs, 2, func() string { return desc })
			}
		}
	}
	env.Finish(res)
}
