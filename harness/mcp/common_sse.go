package mcp

import "strings"

// hxEvent is one server-sent event as parsed by the harness's own reader (the E1 harnesses read
// live httptest recorders with it, not with the SDK's scanEvents: in the free-running race pass a
// read of a recorder that the server still writes to must be attributed to the harness).
type hxEvent struct {
	Name, ID string
	Data     []byte
}

// hxParseSSE parses complete events (terminated by a blank line); a trailing partial event is dropped.
func hxParseSSE(body []byte) []hxEvent {
	var out []hxEvent
	var cur hxEvent
	var data []string
	has := false
	for _, line := range strings.SplitAfter(string(body), "\n") {
		if !strings.HasSuffix(line, "\n") {
			break // unterminated tail
		}
		line = strings.TrimRight(line, "\r\n")
		if line == "" {
			if has {
				cur.Data = []byte(strings.Join(data, "\n"))
				out = append(out, cur)
			}
			cur, data, has = hxEvent{}, nil, false
			continue
		}
		field, value, _ := strings.Cut(line, ":")
		value = strings.TrimPrefix(value, " ")
		switch field {
		case "event":
			cur.Name, has = value, true
		case "id":
			cur.ID, has = value, true
		case "data":
			data, has = append(data, value), true
		}
	}
	return out
}
