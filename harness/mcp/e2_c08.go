package mcp

// C08: server-side stream resumption is exactly-once, in order, with stable event ids.
// Explicit-state search over histories of {server writes the next message, client cuts the
// exchange, client resumes with any event id issued so far, a second concurrent resume}
// against the real StreamableHTTPHandler with a recording EventStore (ground truth = append
// order), for a request stream and for the standalone stream, with and without priming events.

import (
	"context"
	"fmt"
	"io"
	"net/http"
	"strings"
	"testing"
	"testing/synctest"
	"time"

	"github.com/modelcontextprotocol/go-sdk/internal/verifx"
)

type c08Event struct{ id, name, data string }

type c08Exchange struct {
	startIdx int // events with a higher index are expected on this exchange (-1: from the beginning)
	status   int
	events   []c08Event
	cancel   context.CancelFunc
	body     io.Closer
	cut      bool
	ended    bool // the server ended the response
	n        int
	// breakAfter > 0: the connection breaks once that many events have arrived
	breakAfter int
}

type c08Op struct {
	kind string // write, cut, resume, resume2
	k    int    // resume: index into the list of ids issued so far
	name string
}

func c08Ops() []c08Op {
	ops := []c08Op{{kind: "write", name: "server writes the next message"}, {kind: "cut", name: "client cuts the attached exchange"}}
	for k := 0; k < 5; k++ {
		ops = append(ops, c08Op{kind: "resume", k: k, name: fmt.Sprintf("client resumes with the id of event #%d", k)})
	}
	ops = append(ops, c08Op{kind: "resume2", name: "a second, concurrent resume with the latest id"})
	ops = append(ops, c08Op{kind: "ping", name: "server sends a request of its own (ping) on the stream"})
	ops = append(ops, c08Op{kind: "write-done-ctx", name: "server writes the next message under a context that has already ended"})
	ops = append(ops, c08Op{kind: "fresh", name: "client opens the standalone stream anew, without Last-Event-ID"})
	ops = append(ops, c08Op{kind: "purge", name: "memory pressure: the event store evicts what it can"})
	ops = append(ops, c08Op{kind: "server-close", name: "the handler ends the exchange itself (CloseSSEStream with a retry hint); the call goes on"})
	ops = append(ops, c08Op{kind: "resume-broken", k: 0, name: "client resumes with the id of event #0 over a connection that breaks after the first replayed event"})
	ops = append(ops, c08Op{kind: "resume-store-fault", k: 0, name: "client resumes with the id of event #0 while the event store fails that one read"})
	return ops
}

type c08Opts struct {
	version    string
	standalone bool
	maxBytes   int // 0 = unlimited (default)
	// purge: the history may contain "memory pressure" steps (the in-memory store is squeezed to one
	// byte and released again); a resume whose messages were evicted may then be refused, but a resume
	// that is served still delivers exactly what was written after its resume point
	purge bool
	// jsonResponse: the server answers POSTs with application/json (StreamableHTTPOptions.JSONResponse);
	// its standalone stream is an SSE stream all the same and must be just as resumable
	jsonResponse bool
	// lateOpen: the standalone stream is not opened at the start: the first GET comes whenever the
	// history says so, possibly after the server has written to the stream
	lateOpen bool
}

func c08Run(t *testing.T, o c08Opts, ops []c08Op, hist []int) (out verifx.SearchResult) {
	defer func() {
		if r := recover(); r != nil {
			out = verifx.SearchResult{Bad: fmt.Sprintf("panic / bubble failure: %v", r), Sig: "c08 panic-or-leak"}
		}
	}()
	synctest.Test(t, func(t *testing.T) { out = c08InBubble(o, ops, hist) })
	return out
}

func c08InBubble(o c08Opts, ops []c08Op, hist []int) verifx.SearchResult {
	bad := func(sig, format string, a ...any) verifx.SearchResult {
		return verifx.SearchResult{Bad: fmt.Sprintf(format, a...), Sig: "c08 " + sig}
	}
	ctx := context.Background()
	mem := NewMemoryEventStore(nil)
	if o.maxBytes > 0 {
		mem.SetMaxBytes(o.maxBytes)
	}
	store := &c08Store{inner: mem, appended: map[string][]string{}}
	cmds := make(chan string)
	handlerDone := make(chan struct{})
	s := NewServer(&Implementation{Name: "srv", Version: "1"}, &ServerOptions{Logger: quietLogger})
	AddTool(s, &Tool{Name: "t"}, func(ctx context.Context, r *CallToolRequest, in map[string]any) (*CallToolResult, any, error) {
		defer close(handlerDone)
		n := 0
		for cmd := range cmds {
			if cmd == "respond" {
				break
			}
			if cmd == "close" {
				// a server-initiated disconnect: the client is asked to come back later, the call goes on
				if r.Extra != nil && r.Extra.CloseSSEStream != nil {
					r.Extra.CloseSSEStream(CloseSSEStreamArgs{RetryAfter: time.Second})
				}
				continue
			}
			if cmd == "ping" {
				// a request of the server's, issued while handling the call: it travels on the call's stream
				// like the notifications (nobody answers it here; it is abandoned after a minute)
				pctx, pcancel := context.WithTimeout(ctx, time.Minute)
				go func() { defer pcancel(); r.Session.Ping(pctx, nil) }()
				continue
			}
			n++
			nctx := ctx
			if cmd == "notify-done-ctx" {
				// (a handler reporting "timed out" with the expired context of the step that timed out)
				c2, cancel := context.WithCancel(ctx)
				cancel()
				nctx = c2
			}
			r.Session.NotifyProgress(nctx, &ProgressNotificationParams{ProgressToken: "tok", Progress: float64(n), Message: fmt.Sprintf("note %d", n)})
		}
		return &CallToolResult{Content: []Content{&TextContent{Text: "final"}}}, nil, nil
	})
	h := NewStreamableHTTPHandler(func(*http.Request) *Server { return s }, &StreamableHTTPOptions{EventStore: store, Logger: quietLogger, JSONResponse: o.jsonResponse})
	hx := &hxTransport{Handler: h}
	defer func() {
		select {
		case <-handlerDone:
		default:
			close(cmds)
		}
		for ss := range s.Sessions() {
			ss.Close()
		}
	}()
	var exchanges []*c08Exchange
	breakNext := 0
	open := func(method, body, sid, lastID string) (*c08Exchange, error) {
		cctx, cancel := context.WithCancel(ctx)
		var rd io.Reader
		if body != "" {
			rd = strings.NewReader(body)
		}
		req, _ := http.NewRequestWithContext(cctx, method, "http://example.test/mcp", rd)
		req.Header.Set("Accept", "application/json, text/event-stream")
		if body != "" {
			req.Header.Set("Content-Type", "application/json")
		}
		if sid != "" {
			req.Header.Set("Mcp-Session-Id", sid)
			req.Header.Set("Mcp-Protocol-Version", o.version)
		}
		if lastID != "" {
			req.Header.Set("Last-Event-ID", lastID)
		}
		x := &c08Exchange{cancel: cancel, n: len(exchanges), startIdx: -1, breakAfter: breakNext}
		breakNext = 0
		exchanges = append(exchanges, x)
		go func() {
			// like a real client, this blocks until the server sends the response headers,
			// which for a hanging SSE response may be only when the first event is written
			resp, err := hx.RoundTrip(req)
			if err != nil {
				x.status = -1
				return
			}
			x.status, x.body = resp.StatusCode, resp.Body
			for evt, err := range scanEvents(resp.Body) {
				if err != nil {
					return
				}
				x.events = append(x.events, c08Event{id: evt.ID, name: evt.Name, data: string(evt.Data)})
				if x.breakAfter > 0 && len(x.events) >= x.breakAfter {
					x.cut = true
					resp.Body.Close()
					cancel()
					return
				}
			}
			x.ended = true
		}()
		synctest.Wait()
		return x, nil
	}
	// handshake
	ix, err := open("POST", `{"jsonrpc":"2.0","id":"i","method":"initialize","params":{"protocolVersion":"`+o.version+`","capabilities":{},"clientInfo":{"name":"c","version":"1"}}}`, "", "")
	if err != nil || ix.status != 200 {
		return bad("handshake", "initialize failed: %v %v", err, ix)
	}
	sid := hx.exchanges()[0].RespHdr.Get("Mcp-Session-Id")
	if x, err := open("POST", `{"jsonrpc":"2.0","method":"notifications/initialized","params":{}}`, sid, ""); err != nil || x.status >= 300 {
		return bad("handshake", "initialized failed")
	}
	exchanges = nil
	// the logical stream under test
	var first *c08Exchange
	streamKey := ""
	before := map[string]bool{}
	for k := range store.appended {
		before[k] = true
	}
	if o.standalone && o.lateOpen {
		first = nil
	} else if o.standalone {
		first, err = open("GET", "", sid, "")
	} else {
		first, err = open("POST", `{"jsonrpc":"2.0","id":7,"method":"tools/call","params":{"name":"t","arguments":{},"_meta":{"progressToken":"tok"}}}`, sid, "")
	}
	if first != nil && (err != nil || (first.status != 200 && first.status != 0)) {
		return bad("open-stream", "opening the stream failed: %v %+v", err, first)
	}
	var sess *ServerSession
	for ss := range s.Sessions() {
		sess = ss
	}
	findKey := func() string {
		for k := range store.appended {
			if o.standalone && strings.HasSuffix(k, "|") {
				return k
			}
			if !o.standalone && !strings.HasSuffix(k, "|") && !before[k] {
				return k
			}
		}
		return ""
	}
	writes := 0
	doneCtxWrites := 0
	pings := 0
	purges := 0
	closes := 0
	responded := false
	var attached *c08Exchange = first
	idToData := map[string]string{}
	obs := ""
	check := func(where string) *verifx.SearchResult {
		synctest.Wait()
		if streamKey == "" {
			streamKey = findKey()
		}
		gt := store.appended[streamKey]
		streamID := ""
		if i := strings.LastIndex(streamKey, "|"); i >= 0 {
			streamID = streamKey[i+1:]
		}
		for _, x := range exchanges {
			if x.status != 200 && x.status != 0 {
				continue
			}
			idx := x.startIdx
			for _, ev := range x.events {
				if ev.id == "" && ev.data == "" {
					continue // comments / keep-alives carry neither
				}
				idx++
				wantID := formatEventID(streamID, idx)
				if ev.id != wantID {
					r := bad("event-id-not-consecutive", "%s: exchange %d (resumed after index %d) delivered event id %q where %q is due (events %v)", where, x.n, x.startIdx, ev.id, wantID, x.events)
					return &r
				}
				if idx >= len(gt) {
					r := bad("event-never-appended", "%s: exchange %d delivered %q (%q) but only %d messages were written to the stream", where, x.n, ev.id, ev.data, len(gt))
					return &r
				}
				if ev.data != gt[idx] {
					r := bad("event-payload-differs-from-append-order", "%s: exchange %d delivered id %q with payload %q, message #%d written to the stream is %q", where, x.n, ev.id, ev.data, idx, gt[idx])
					return &r
				}
				if d, ok := idToData[ev.id]; ok && d != ev.data {
					r := bad("event-id-not-stable", "%s: id %q denoted %q before and %q now", where, ev.id, d, ev.data)
					return &r
				}
				idToData[ev.id] = ev.data
			}
			// an exchange that is still attached, or that the server ended itself, is fully caught up
			if (x == attached && !x.cut) || (x.ended && !x.cut) {
				if idx != len(gt)-1 {
					r := bad("message-missing-on-stream", "%s: exchange %d (resumed after index %d) has received up to index %d but %d messages were written to the stream", where, x.n, x.startIdx, idx, len(gt))
					return &r
				}
			}
		}
		return nil
	}
	if r := check("after opening the stream"); r != nil {
		return *r
	}
	issuedIDs := func() []string {
		gt := store.appended[streamKey]
		streamID := streamKey[strings.LastIndex(streamKey, "|")+1:]
		var ids []string
		for i := range gt {
			ids = append(ids, formatEventID(streamID, i))
		}
		return ids
	}
	for step, oi := range hist {
		op := ops[oi]
		where := fmt.Sprintf("step %d (%s)", step, op.name)
		switch op.kind {
		case "write-done-ctx":
			if responded || writes >= 3 || doneCtxWrites >= 1 {
				return verifx.SearchResult{Skip: true}
			}
			writes++
			doneCtxWrites++
			if o.standalone {
				c2, cancel := context.WithCancel(ctx)
				cancel()
				sess.NotifyProgress(c2, &ProgressNotificationParams{ProgressToken: "tok", Progress: float64(writes), Message: fmt.Sprintf("note %d", writes)})
			} else {
				cmds <- "notify-done-ctx"
			}
			obs = "write-done-ctx"
		case "write":
			if responded || writes >= 4 || (o.standalone && writes >= 3) {
				return verifx.SearchResult{Skip: true}
			}
			writes++
			if o.standalone {
				if err := sess.NotifyProgress(ctx, &ProgressNotificationParams{ProgressToken: "tok", Progress: float64(writes), Message: fmt.Sprintf("note %d", writes)}); err != nil {
					return bad("write-rejected", "%s: the server could not write to the standalone stream although an event store is configured: %v", where, err)
				}
			} else if writes <= 3 {
				cmds <- "notify"
			} else {
				cmds <- "respond"
				responded = true
			}
			obs = "write"
		case "ping":
			if responded || pings >= 1 {
				return verifx.SearchResult{Skip: true}
			}
			pings++
			if o.standalone {
				pctx, pcancel := context.WithTimeout(ctx, time.Minute)
				go func() { defer pcancel(); sess.Ping(pctx, nil) }()
			} else {
				cmds <- "ping"
			}
			obs = "ping"
		case "server-close":
			if o.standalone || responded || closes >= 2 || attached == nil || attached.cut || attached.ended {
				return verifx.SearchResult{Skip: true}
			}
			closes++
			cmds <- "close"
			synctest.Wait()
			if !attached.ended {
				return bad("server-close-leaves-exchange-open", "%s: the handler closed its stream, exchange %d is still open", where, attached.n)
			}
			obs = "server-close"
		case "purge":
			if !o.purge || purges >= 2 {
				return verifx.SearchResult{Skip: true}
			}
			purges++
			mem.SetMaxBytes(1)
			mem.SetMaxBytes(0)
			obs = "purge"
		case "cut":
			if attached == nil || attached.cut || attached.ended {
				return verifx.SearchResult{Skip: true}
			}
			attached.cut = true
			attached.cancel()
			if attached.body != nil {
				attached.body.Close()
			}
			attached = nil
			obs = "cut"
		case "resume-broken", "resume-store-fault":
			// a resume that fails half way must not spoil the stream for later resumes
			if streamKey == "" {
				streamKey = findKey()
			}
			if streamKey == "" || (attached != nil && !attached.ended && !attached.cut) {
				return verifx.SearchResult{Skip: true}
			}
			ids := issuedIDs()
			if op.k >= len(ids) || len(ids)-op.k < 3 {
				return verifx.SearchResult{Skip: true} // at least two events to replay
			}
			if op.kind == "resume-broken" {
				breakNext = 1
			} else {
				store.failNextRead = true
			}
			x, err := open("GET", "", sid, ids[op.k])
			store.failNextRead = false
			if err != nil {
				return bad("resume-failed", "%s: %v", where, err)
			}
			x.startIdx = op.k
			x.cut = true // whatever arrived is a prefix; nothing more is owed to this exchange
			x.cancel()
			attached = nil
			obs = op.kind
		case "fresh":
			// a GET without Last-Event-ID: the whole logical stream from its beginning
			if !o.standalone {
				return verifx.SearchResult{Skip: true}
			}
			wasAttached := attached != nil && !attached.ended && !attached.cut
			x, err := open("GET", "", sid, "")
			if err != nil {
				return bad("resume-failed", "%s: %v", where, err)
			}
			x.startIdx = -1
			switch {
			case wasAttached:
				if x.status != http.StatusConflict {
					return bad("concurrent-resume-not-refused", "%s: the stream is attached to exchange %d, a second GET got status %d", where, attached.n, x.status)
				}
				obs = "fresh-409"
			case x.status != 200 && x.status != 0:
				return bad(fmt.Sprintf("fresh-get-status-%d", x.status), "%s: a GET for the standalone stream answered %d", where, x.status)
			default:
				if !x.ended {
					attached = x
				}
				obs = "fresh-200"
			}
		case "resume", "resume2":
			if streamKey == "" {
				streamKey = findKey()
			}
			if streamKey == "" {
				return verifx.SearchResult{Skip: true}
			}
			ids := issuedIDs()
			k := op.k
			if op.kind == "resume2" {
				if attached == nil || attached.ended || len(ids) == 0 {
					return verifx.SearchResult{Skip: true}
				}
				k = len(ids) - 1
			}
			if k >= len(ids) {
				return verifx.SearchResult{Skip: true}
			}
			wasAttached := attached != nil && !attached.ended && !attached.cut
			x, err := open("GET", "", sid, ids[k])
			if err != nil {
				return bad("resume-failed", "%s: %v", where, err)
			}
			x.startIdx = k
			switch {
			case wasAttached:
				if x.status != http.StatusConflict {
					return bad("concurrent-resume-not-refused", "%s: the stream is attached to exchange %d, a second resume got status %d", where, attached.n, x.status)
				}
				obs = "resume-409"
			case x.status != 200 && x.status != 0 && purges > 0:
				obs = "resume-refused-after-eviction"
			case x.status != 200 && x.status != 0:
				return bad(fmt.Sprintf("resume-status-%d", x.status), "%s: resume from an issued id answered %d", where, x.status)
			default:
				if !x.ended {
					attached = x
				}
				obs = "resume-200"
			}
		}
		if r := check(where); r != nil {
			return *r
		}
		if op.kind == "server-close" {
			// (it was caught up when it ended; what is written from now on is owed to a later resume)
			attached.cut = true
			attached = nil
		}
	}
	// final: whatever happened, the complete stream is obtainable by one more resume from the first id
	if streamKey != "" && (attached == nil || attached.ended) {
		ids := issuedIDs()
		if len(ids) > 0 {
			x, err := open("GET", "", sid, ids[0])
			if err == nil && x.status != 200 && x.status != 0 && purges > 0 {
				return verifx.SearchResult{Key: fmt.Sprintf("evicted appended=%d writes=%d last=%s", len(store.appended[streamKey]), writes, obs), Obs: "final-resume-refused-after-eviction"}
			}
			if err != nil || (x.status != 200 && x.status != 0) {
				return bad("final-resume-failed", "a final resume from %q answered %v %v", ids[0], x.status, err)
			}
			x.startIdx = 0
			attached = x
			if r := check("final resume from the first id"); r != nil {
				return *r
			}
			if responded && !x.ended {
				return bad("finished-stream-stays-open", "the stream's response was written, yet a resume of it stays open")
			}
			x.cancel()
		}
	}
	for _, x := range exchanges {
		x.cancel()
	}
	gt := store.appended[streamKey]
	att := "detached"
	if attached != nil && !attached.ended && !attached.cut {
		att = fmt.Sprintf("attached@%d", attached.startIdx)
	}
	return verifx.SearchResult{Key: fmt.Sprintf("appended=%d responded=%v %s writes=%d/%d pings=%d purges=%d closes=%d last=%s", len(gt), responded, att, writes, doneCtxWrites, pings, purges, closes, obs), Obs: obs}
}

func TestVerifC08(t *testing.T) {
	env := verifx.LoadEnv("C08")
	res := env.NewResult()
	ops := c08Ops()
	for _, o := range []struct {
		name string
		o    c08Opts
	}{
		{"request-stream/2025-06-18", c08Opts{version: "2025-06-18"}},
		{"request-stream/2025-11-25-priming", c08Opts{version: "2025-11-25"}},
		{"standalone-stream/2025-06-18", c08Opts{version: "2025-06-18", standalone: true}},
		{"standalone-stream/2025-06-18/json-response-mode", c08Opts{version: "2025-06-18", standalone: true, jsonResponse: true}},
		{"request-stream/2025-06-18+memory-pressure", c08Opts{version: "2025-06-18", purge: true}},
		{"standalone-stream/2025-11-25", c08Opts{version: "2025-11-25", standalone: true}},
		{"standalone-stream/2025-11-25/opened-late", c08Opts{version: "2025-11-25", standalone: true, lateOpen: true}},
		{"standalone-stream/2025-06-18/opened-late", c08Opts{version: "2025-06-18", standalone: true, lateOpen: true}},
	} {
		env.RunSearch(res, &verifx.Search{
			Name: o.name, NumOps: len(ops), OpName: func(i int) string { return ops[i].name },
			MaxDepth: env.Pick(6, 8), ShallowDepth: env.Pick(3, 5),
			Run: func(h []int) verifx.SearchResult { return c08Run(t, o.o, ops, h) },
		})
	}
	env.Finish(res)
}
