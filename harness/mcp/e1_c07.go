package mcp

// C07 (E1): the version list a session advertises through server/discover is the transport's from the
// first message on.  A raw HTTP+SSE peer POSTs server/discover the moment it has seen the endpoint
// event, while the GET that created the session is still inside Server.Connect; every schedule
// within the budget is explored.

import (
	"bytes"
	"context"
	"encoding/json"
	"fmt"
	"net/http"
	"net/http/httptest"
	"slices"
	"strings"
	"testing"

	"github.com/modelcontextprotocol/go-sdk/internal/verifx"
	vs "github.com/modelcontextprotocol/go-sdk/internal/vsched"
)

// c07Stream is the hanging GET's response writer: it tells the peer when the first event is out.
type c07Stream struct {
	*httptest.ResponseRecorder
	first chan struct{}
	told  bool
}

func (r *c07Stream) Write(p []byte) (int, error) {
	n, err := r.ResponseRecorder.Write(p)
	if !r.told && bytes.Contains(r.Body.Bytes(), []byte("\n\n")) {
		r.told = true
		close(r.first)
	}
	return n, err
}

func c07DiscoverRace() vs.Verdict {
	f := &e1Fail{prefix: "c07 sse-discover-race"}
	s := NewServer(&Implementation{Name: "srv", Version: "1"}, &ServerOptions{Logger: quietLogger})
	h := NewSSEHandler(func(*http.Request) *Server { return s }, nil)
	ctx, cancel := context.WithCancel(context.Background())
	stream := &c07Stream{ResponseRecorder: httptest.NewRecorder(), first: make(chan struct{})}
	getDone := make(chan struct{})
	vs.Go(func() {
		defer close(getDone)
		h.ServeHTTP(stream, httptest.NewRequest("GET", "http://example.test/sse", nil).WithContext(ctx))
	})
	postDone := make(chan int, 1)
	vs.Go(func() {
		<-stream.first
		endpoint := ""
		for _, evt := range hxParseSSE(stream.Body.Bytes()) {
			if evt.Name == "endpoint" {
				endpoint = string(evt.Data)
			}
		}
		body := `{"jsonrpc":"2.0","id":1,"method":"server/discover","params":{"_meta":{"io.modelcontextprotocol/protocolVersion":"2026-07-28","io.modelcontextprotocol/clientInfo":{"name":"c","version":"1"},"io.modelcontextprotocol/clientCapabilities":{}}}}`
		r := httptest.NewRequest("POST", "http://example.test"+endpoint, strings.NewReader(body))
		r.Header.Set("Content-Type", "application/json")
		w := httptest.NewRecorder()
		h.ServeHTTP(w, r)
		postDone <- w.Code
	})
	code := <-postDone
	vs.WaitIdle()
	vs.Quiet(true)
	cancel()
	<-getDone
	vs.WaitIdle()
	vs.Quiet(false)
	if code != 202 {
		return f.verdict(fmt.Sprintf("discover POST answered %d", code))
	}
	obs := "no-answer"
	for _, evt := range hxParseSSE(stream.Body.Bytes()) {
		var m struct {
			ID     any `json:"id"`
			Result *struct {
				SupportedVersions []string `json:"supportedVersions"`
			} `json:"result"`
			Error *struct {
				Code int             `json:"code"`
				Data json.RawMessage `json:"data"`
			} `json:"error"`
		}
		if evt.Name == "endpoint" || json.Unmarshal(evt.Data, &m) != nil || m.ID == nil {
			continue
		}
		switch {
		case m.Result != nil:
			obs = fmt.Sprintf("discover-result %v", m.Result.SupportedVersions)
			if slices.Contains(m.Result.SupportedVersions, "2026-07-28") {
				f.failf("discover-advertises-version-the-transport-cannot-serve", "server/discover over HTTP+SSE answered supportedVersions %v: 2026-07-28 has no SSE binding", m.Result.SupportedVersions)
			}
		case m.Error != nil:
			obs = fmt.Sprintf("discover-error %d %s", m.Error.Code, m.Error.Data)
			var d struct {
				Supported []string `json:"supported"`
			}
			json.Unmarshal(m.Error.Data, &d)
			if slices.Contains(d.Supported, "2026-07-28") {
				f.failf("discover-advertises-version-the-transport-cannot-serve", "server/discover over HTTP+SSE was rejected with supported versions %v: 2026-07-28 has no SSE binding", d.Supported)
			}
		}
	}
	return f.verdict(obs)
}

func TestVerifC07Race(t *testing.T) {
	env := verifx.LoadEnv("C07")
	env.Run([]*verifx.Scenario{
		vs.E1(t, "sse/discover-races-session-setup", env.Pick(4, 5), vs.Options{}, func() vs.Verdict { return c07DiscoverRace() }),
	})
}
