package mcp

// C04 for many calls at once.  n tool calls share one context and are in flight together with one
// bystander call; the context is cancelled.  Every one of the n callers returns at once (no virtual
// time passes) with the context's error, exactly the n matching handlers observe their cancellation
// - none is forgotten, however many notices are under way at the same moment -, the bystander's
// handler is untouched, and the session stays usable.  Both directions (client calls a tool n
// times; the server issues n sampling requests to the client).

import (
	"context"
	"errors"
	"fmt"
	"sync"
	"testing"
	"testing/synctest"
	"time"

	"github.com/modelcontextprotocol/go-sdk/internal/verifx"
)

// how the shared context ends: "cancel" (context.WithCancel), "cancel-cause" (WithCancelCause with an
// error of the caller's), "parent-cancel-cause" (an ancestor is cancelled with a cause, as errgroup
// does), "timeout-cause" (WithTimeoutCause: the deadline passes).  The call returns the context's
// error - ctx.Err() - in every case.
func c04BurstCase(dir string, n int, how string) (obs, sig, msg string) {
	fail := func(s, format string, a ...any) (string, string, string) {
		return "", "c04 burst " + s, fmt.Sprintf(format, a...) + fmt.Sprintf(" [%s, %d calls cancelled together, context ended by %s]", dir, n, how)
	}
	ctx := context.Background()
	var mu sync.Mutex
	started, cancelled := map[string]bool{}, map[string]bool{}
	release := make(chan struct{})
	park := func(hctx context.Context, tag string) {
		mu.Lock()
		started[tag] = true
		mu.Unlock()
		select {
		case <-hctx.Done():
			mu.Lock()
			cancelled[tag] = true
			mu.Unlock()
		case <-release:
		}
	}
	s := NewServer(&Implementation{Name: "srv", Version: "1"}, &ServerOptions{Logger: quietLogger})
	var ssRef *ServerSession
	AddTool(s, &Tool{Name: "park"}, func(hctx context.Context, r *CallToolRequest, in struct {
		Tag string `json:"tag"`
	}) (*CallToolResult, any, error) {
		park(hctx, in.Tag)
		return &CallToolResult{}, nil, nil
	})
	c := NewClient(&Implementation{Name: "cli", Version: "1"}, &ClientOptions{Logger: quietLogger,
		CreateMessageHandler: func(hctx context.Context, r *CreateMessageRequest) (*CreateMessageResult, error) {
			park(hctx, r.Params.SystemPrompt)
			return &CreateMessageResult{Model: "m", Role: "assistant", Content: &TextContent{Text: "ok"}}, nil
		}})
	ct, st := NewInMemoryTransports()
	ss, err := s.Connect(ctx, st, nil)
	if err != nil {
		return fail("setup", "%v", err)
	}
	ssRef = ss
	cs, err := c.Connect(ctx, ct, &ClientSessionOptions{ProtocolVersion: "2025-06-18"})
	if err != nil {
		return fail("setup", "%v", err)
	}
	defer func() {
		close(release)
		synctest.Wait()
		cs.Close()
		ss.Wait()
	}()
	issue := func(cctx context.Context, tag string) error {
		if dir == "client-calls" {
			_, err := cs.CallTool(cctx, &CallToolParams{Name: "park", Arguments: map[string]any{"tag": tag}})
			return err
		}
		_, err := ssRef.CreateMessage(cctx, &CreateMessageParams{SystemPrompt: tag, MaxTokens: 1})
		return err
	}
	var shared context.Context
	var cancel func()
	cause := errors.New("the user pressed stop")
	switch how {
	case "cancel":
		shared, cancel = context.WithCancel(ctx)
	case "cancel-cause":
		c2, cc := context.WithCancelCause(ctx)
		shared, cancel = c2, func() { cc(cause) }
	case "parent-cancel-cause":
		parent, cc := context.WithCancelCause(ctx)
		c2, cancel2 := context.WithCancel(parent)
		defer cancel2()
		shared, cancel = c2, func() { cc(cause) }
	case "timeout-cause":
		c2, cancel2 := context.WithTimeoutCause(ctx, time.Hour, cause)
		defer cancel2()
		shared, cancel = c2, func() { time.Sleep(time.Hour); synctest.Wait() }
	}
	defer cancel()
	errs := make([]error, n)
	done := make([]bool, n)
	for i := 0; i < n; i++ {
		go func() {
			errs[i] = issue(shared, fmt.Sprintf("c%d", i))
			done[i] = true
		}()
	}
	byDone := false
	var byErr error
	go func() { byErr = issue(ctx, "bystander"); byDone = true }()
	synctest.Wait()
	mu.Lock()
	nStarted := len(started)
	mu.Unlock()
	if nStarted != n+1 {
		return fail("setup", "%d of %d handlers started", nStarted, n+1)
	}
	t0 := time.Now()
	cancel()
	synctest.Wait()
	if how == "timeout-cause" {
		t0 = time.Now() // (the deadline has just passed)
	}
	for i := 0; i < n; i++ {
		switch {
		case !done[i]:
			return fail("caller-not-prompt", "call %d has not returned once everything settled after the cancellation (no time has passed)", i)
		case !errors.Is(errs[i], shared.Err()) || errors.Is(errs[i], cause):
			return fail("wrong-error", "call %d returned %q, want the context's error %q", i, errs[i], shared.Err())
		}
	}
	if !time.Now().Equal(t0) {
		return fail("caller-not-prompt", "virtual time advanced by %v before the callers had returned", time.Since(t0))
	}
	// handlers learn of the cancellation through the notices; give the (detached) notice senders their time
	time.Sleep(10 * time.Second)
	synctest.Wait()
	mu.Lock()
	var missing []string
	for i := 0; i < n; i++ {
		if !cancelled[fmt.Sprintf("c%d", i)] {
			missing = append(missing, fmt.Sprintf("c%d", i))
		}
	}
	byCancelled := cancelled["bystander"]
	mu.Unlock()
	switch {
	case len(missing) > 0:
		return fail("handler-not-cancelled", "%d of the %d handlers whose calls were cancelled never saw their context end on a healthy connection (first: %s)", len(missing), n, missing[0])
	case byCancelled:
		return fail("other-handler-cancelled", "the bystander's handler was cancelled")
	case byDone:
		return fail("bystander-ended", "the bystander call returned early: %v", byErr)
	}
	if dir == "client-calls" {
		if err := cs.Ping(ctx, nil); err != nil {
			return fail("session-unusable", "ping afterwards: %v", err)
		}
	} else if err := ss.Ping(ctx, nil); err != nil {
		return fail("session-unusable", "ping afterwards: %v", err)
	}
	return "all cancelled, bystander untouched", "", ""
}

func TestVerifC04Burst(t *testing.T) {
	env := verifx.LoadEnv("C04")
	res := env.NewResult()
	cases := env.NewCases(res, "burst/many-calls-cancelled-together")
	for _, dir := range []string{"client-calls", "server-calls"} {
		for _, n := range []int{1, 2, 3, 5, 9, 16, 17, 33, 65, 129, 300} {
			idx, mine := cases.Next()
			if !mine {
				continue
			}
			desc := fmt.Sprintf("%s, %d calls cancelled together", dir, n)
			var obs, sig, msg string
			func() {
				defer func() {
					if r := recover(); r != nil && sig == "" {
						sig, msg = "c04 burst panic-or-leak", fmt.Sprintf("%v [%s]", r, desc)
					}
				}()
				synctest.Test(t, func(t *testing.T) { obs, sig, msg = c04BurstCase(dir, n, "cancel") })
			}()
			if sig != "" {
				cases.Violate(idx, sig, msg, 3)
				continue
			}
			cases.Record(idx, obs, 3, func() string { return desc })
		}
		// the ways a context can end (1 and 3 calls)
		for _, how := range []string{"cancel-cause", "parent-cancel-cause", "timeout-cause"} {
			for _, n := range []int{1, 3} {
				idx, mine := cases.Next()
				if !mine {
					continue
				}
				desc := fmt.Sprintf("%s, %d calls, context ended by %s", dir, n, how)
				var obs, sig, msg string
				func() {
					defer func() {
						if r := recover(); r != nil && sig == "" {
							sig, msg = "c04 burst panic-or-leak", fmt.Sprintf("%v [%s]", r, desc)
						}
					}()
					synctest.Test(t, func(t *testing.T) { obs, sig, msg = c04BurstCase(dir, n, how) })
				}()
				if sig != "" {
					cases.Violate(idx, sig, msg, 3)
					continue
				}
				cases.Record(idx, obs+" "+how, 3, func() string { return desc })
			}
		}
	}
	env.Finish(res)
}
