package mcp

// C17, client-side iterators whose traversals overlap in time.  An iterator is a value that can be
// ranged over whenever and however often its holder likes: a loop nested in another loop over the
// same list, two pull-style traversals advanced in turns, a traversal of another session's list begun
// while the first is half way, a traversal abandoned half way and a new one begun.  Every traversal
// yields exactly what manual paging yields - the traversals do not move one another's position.
// Iterators obtained by separate calls, and one iterator value used for both traversals; nil
// parameters and a parameters value of the caller's.

import (
	"context"
	"fmt"
	"iter"
	"slices"
	"testing"

	"github.com/modelcontextprotocol/go-sdk/internal/verifx"
)

func c17IDs[T any](sq iter.Seq2[*T, error], id func(*T) string) iter.Seq2[string, error] {
	return func(yield func(string, error) bool) {
		for t, err := range sq {
			s := ""
			if t != nil {
				s = id(t)
			}
			if !yield(s, err) {
				return
			}
		}
	}
}

// c17Seq returns one iterator value of the kind over the session (as ids).  params: "nil", "fresh"
// (a parameters value made for this call).
func c17Seq(kind string, ctx context.Context, cs *ClientSession, params string) iter.Seq2[string, error] {
	switch kind {
	case "tools":
		var p *ListToolsParams
		if params != "nil" {
			p = &ListToolsParams{}
		}
		return c17IDs(cs.Tools(ctx, p), func(t *Tool) string { return t.Name })
	case "prompts":
		var p *ListPromptsParams
		if params != "nil" {
			p = &ListPromptsParams{}
		}
		return c17IDs(cs.Prompts(ctx, p), func(t *Prompt) string { return t.Name })
	case "resources":
		var p *ListResourcesParams
		if params != "nil" {
			p = &ListResourcesParams{}
		}
		return c17IDs(cs.Resources(ctx, p), func(t *Resource) string { return t.URI })
	default:
		var p *ListResourceTemplatesParams
		if params != "nil" {
			p = &ListResourceTemplatesParams{}
		}
		return c17IDs(cs.ResourceTemplates(ctx, p), func(t *ResourceTemplate) string { return t.URITemplate })
	}
}

func c17Collect(sq iter.Seq2[string, error]) ([]string, error) {
	var out []string
	for id, err := range sq {
		if err != nil {
			return out, err
		}
		out = append(out, id)
	}
	return out, nil
}

func c17OverlapCase(k c17Kind, pageSize int, params, shape string, sameValue bool, at int) (obs, sig, msg string) {
	fail := func(s, format string, a ...any) (string, string, string) {
		which := "iterators from separate calls"
		if sameValue {
			which = "one iterator value"
		}
		return "", "c17 overlap " + s, fmt.Sprintf(format, a...) + fmt.Sprintf(" [%s, page size %d, %s params, %s, %s, second traversal begins after %d items of the first]", k.name, pageSize, params, shape, which, at)
	}
	ctx := context.Background()
	connect := func(n int, prefix string) (*Server, *ClientSession, error) {
		s := NewServer(&Implementation{Name: "srv", Version: "1"}, &ServerOptions{PageSize: pageSize, Logger: quietLogger})
		for i := 0; i < n; i++ {
			k.add(s, fmt.Sprintf("%s%d", prefix, i), 1)
		}
		ct, st := NewInMemoryTransports()
		if _, err := s.Connect(ctx, st, nil); err != nil {
			return nil, nil, err
		}
		cs, err := NewClient(&Implementation{Name: "cli", Version: "1"}, &ClientOptions{Logger: quietLogger}).Connect(ctx, ct, &ClientSessionOptions{ProtocolVersion: "2025-06-18"})
		return s, cs, err
	}
	_, csA, err := connect(5, "item")
	if err != nil {
		return fail("setup", "%v", err)
	}
	defer csA.Close()
	manual := func(cs *ClientSession) ([]string, error) {
		var all []string
		cursor := ""
		for {
			ids, next, err := k.list(ctx, cs, cursor)
			if err != nil {
				return nil, err
			}
			all = append(all, ids...)
			if next == "" {
				return all, nil
			}
			cursor = next
		}
	}
	wantA, err := manual(csA)
	if err != nil || len(wantA) != 5 {
		return fail("setup", "manual paging: %v %v", wantA, err)
	}
	shared := c17Seq(k.name, ctx, csA, params)
	mk := func() iter.Seq2[string, error] {
		if sameValue {
			return shared
		}
		return c17Seq(k.name, ctx, csA, params)
	}
	judge := func(what string, got []string, err error, want []string) (string, string, string) {
		if err != nil {
			return fail("traversal-error "+what, "%s failed: %v (yielded %v)", what, err, got)
		}
		if !slices.Equal(got, want) {
			return fail("wrong-sequence "+what, "%s yielded %v, manual paging yields %v", what, got, want)
		}
		return "", "", ""
	}
	switch shape {
	case "nested":
		var outer []string
		n := 0
		for id, err := range mk() {
			if err != nil {
				return fail("traversal-error outer", "outer traversal: %v", err)
			}
			outer = append(outer, id)
			n++
			if n == at {
				inner, ierr := c17Collect(mk())
				if _, s, m := judge("the inner traversal", inner, ierr, wantA); s != "" {
					return "", s, m
				}
			}
		}
		if _, s, m := judge("the outer traversal", outer, nil, wantA); s != "" {
			return "", s, m
		}
	case "pulled-pair":
		next1, stop1 := iter.Pull2(mk())
		defer stop1()
		var first, second []string
		for i := 0; i < at; i++ {
			id, err, ok := next1()
			if !ok {
				break
			}
			if err != nil {
				return fail("traversal-error first", "first traversal: %v", err)
			}
			first = append(first, id)
		}
		next2, stop2 := iter.Pull2(mk())
		defer stop2()
		// from here on the two advance in turns
		done1, done2 := false, false
		for !done1 || !done2 {
			if !done2 {
				id, err, ok := next2()
				switch {
				case !ok:
					done2 = true
				case err != nil:
					return fail("traversal-error second", "second traversal: %v", err)
				default:
					second = append(second, id)
				}
			}
			if !done1 {
				id, err, ok := next1()
				switch {
				case !ok:
					done1 = true
				case err != nil:
					return fail("traversal-error first", "first traversal: %v", err)
				default:
					first = append(first, id)
				}
			}
		}
		if _, s, m := judge("the first traversal", first, nil, wantA); s != "" {
			return "", s, m
		}
		if _, s, m := judge("the second traversal", second, nil, wantA); s != "" {
			return "", s, m
		}
	case "other-session":
		_, csB, err := connect(3, "other")
		if err != nil {
			return fail("setup", "%v", err)
		}
		defer csB.Close()
		wantB, err := manual(csB)
		if err != nil {
			return fail("setup", "%v", err)
		}
		next1, stop1 := iter.Pull2(mk())
		defer stop1()
		var first []string
		pull := func(n int) (string, string, string) {
			for i := 0; n < 0 || i < n; i++ {
				id, err, ok := next1()
				if !ok {
					return "", "", ""
				}
				if err != nil {
					return fail("traversal-error first", "first traversal: %v", err)
				}
				first = append(first, id)
			}
			return "", "", ""
		}
		if _, s, m := pull(at); s != "" {
			return "", s, m
		}
		gotB, berr := c17Collect(c17Seq(k.name, ctx, csB, params))
		if _, s, m := judge("the traversal of the other session's list", gotB, berr, wantB); s != "" {
			return "", s, m
		}
		if _, s, m := pull(-1); s != "" {
			return "", s, m
		}
		if _, s, m := judge("the first traversal", first, nil, wantA); s != "" {
			return "", s, m
		}
	case "abandoned":
		n := 0
		for _, err := range mk() {
			if err != nil {
				return fail("traversal-error first", "first traversal: %v", err)
			}
			n++
			if n == at {
				break
			}
		}
		got, gerr := c17Collect(mk())
		if _, s, m := judge("the traversal after an abandoned one", got, gerr, wantA); s != "" {
			return "", s, m
		}
	}
	return "all traversals equal manual paging", "", ""
}

func TestVerifC17Overlap(t *testing.T) {
	env := verifx.LoadEnv("C17")
	res := env.NewResult()
	cases := env.NewCases(res, "overlapping-traversals")
	for _, k := range c17KindsRaw() {
		for _, ps := range []int{1, 2, 3, 5} {
			for _, params := range []string{"nil", "fresh"} {
				for _, shape := range []string{"nested", "pulled-pair", "other-session", "abandoned"} {
					for _, same := range []bool{false, true} {
						for at := 0; at <= 5; at++ {
							if shape == "nested" && at == 0 {
								continue
							}
							idx, mine := cases.Next()
							if !mine {
								continue
							}
							desc := fmt.Sprintf("%s ps=%d params=%s %s same-value=%v at=%d", k.name, ps, params, shape, same, at)
							var obs, sig, msg string
							func() {
								defer func() {
									if r := recover(); r != nil && sig == "" {
										sig, msg = "c17 overlap panic", fmt.Sprintf("%v [%s]", r, desc)
									}
								}()
								obs, sig, msg = c17OverlapCase(k, ps, params, shape, same, at)
							}()
							if sig != "" {
								cases.Violate(idx, sig, msg, 3)
								continue
							}
							cases.Record(idx, shape+" "+obs, 3, func() string { return desc })
						}
					}
				}
			}
		}
	}
	env.Finish(res)
}
