package mcp

// C16: typed tools see only schema-valid input and emit only schema-valid output.
// A generated family of input schemas x every argument object over per-field alphabets,
// and a family of output types/schemas x handler return values, through a real
// client/server session, compared with an independent reference validator for exactly
// this schema family.

import (
	"context"
	"encoding/json"
	"fmt"
	"math"
	"reflect"
	"slices"
	"sort"
	"strings"
	"testing"

	"github.com/modelcontextprotocol/go-sdk/internal/verifx"
)

// ---- reference validator for the schema family used here
// supported: type (object, integer, string, boolean, array), properties, required,
// additionalProperties (bool), minimum, maximum, enum, items, default (top-level properties only).

type c16Schema = map[string]any

func c16Validate(s c16Schema, v any) bool {
	switch s["type"] {
	case "integer":
		f, ok := v.(float64)
		if !ok || f != float64(int64(f)) {
			return false
		}
		if m, ok := s["minimum"].(float64); ok && f < m {
			return false
		}
		if m, ok := s["maximum"].(float64); ok && f > m {
			return false
		}
	case "string":
		if _, ok := v.(string); !ok {
			return false
		}
	case "boolean":
		if _, ok := v.(bool); !ok {
			return false
		}
	case "array":
		arr, ok := v.([]any)
		if !ok {
			return false
		}
		if items, ok := s["items"].(c16Schema); ok {
			for _, e := range arr {
				if !c16Validate(items, e) {
					return false
				}
			}
		}
	case "object":
		obj, ok := v.(map[string]any)
		if !ok {
			return false
		}
		props, _ := s["properties"].(c16Schema)
		if req, ok := s["required"].([]any); ok {
			for _, r := range req {
				if _, present := obj[r.(string)]; !present {
					return false
				}
			}
		}
		for k, val := range obj {
			if ps, ok := props[k].(c16Schema); ok {
				if !c16Validate(ps, val) {
					return false
				}
			} else if ap, ok := s["additionalProperties"].(bool); ok && !ap {
				return false
			}
		}
	}
	if enum, ok := s["enum"].([]any); ok {
		found := false
		for _, e := range enum {
			if reflect.DeepEqual(e, v) {
				found = true
			}
		}
		if !found {
			return false
		}
	}
	return true
}

// c16Defaults returns a copy of obj with property defaults applied (non-required, missing keys), recursively into present nested objects.
func c16Defaults(s c16Schema, obj map[string]any) map[string]any {
	out := map[string]any{}
	for k, v := range obj {
		out[k] = v
	}
	props, _ := s["properties"].(c16Schema)
	required := map[string]bool{}
	if req, ok := s["required"].([]any); ok {
		for _, r := range req {
			required[r.(string)] = true
		}
	}
	for k, ps := range props {
		if d, ok := ps.(c16Schema)["default"]; ok && !required[k] {
			if _, present := out[k]; !present {
				out[k] = d
			}
		}
		// defaults of a nested object's properties are applied to the nested object; an absent
		// (optional) nested object whose properties carry defaults is materialised to hold them
		if sub, ok := ps.(c16Schema); ok && sub["type"] == "object" {
			if inner, ok := out[k].(map[string]any); ok {
				out[k] = c16Defaults(sub, inner)
			} else if _, present := out[k]; !present && !required[k] && c16HasDefaults(sub) {
				out[k] = c16Defaults(sub, map[string]any{})
			}
		}
	}
	return out
}

func c16HasDefaults(s c16Schema) bool {
	props, _ := s["properties"].(c16Schema)
	for _, ps := range props {
		sub := ps.(c16Schema)
		if _, ok := sub["default"]; ok {
			return true
		}
		if c16HasDefaults(sub) {
			return true
		}
	}
	return false
}

// ---- the typed input: pointers + omitempty, so re-marshalling the received value shows exactly what the handler saw

type c16Nested struct {
	X *int `json:"x,omitempty"`
}

type c16In struct {
	A *int       `json:"a,omitempty"`
	S *string    `json:"s,omitempty"`
	B *bool      `json:"b,omitempty"`
	N *c16Nested `json:"n,omitempty"`
	L []int      `json:"l,omitempty"`
}

type c16InputSchema struct {
	name   string
	schema c16Schema
}

func c16Num(f float64) any { return f }

func c16InputSchemas() []c16InputSchema {
	obj := func(props c16Schema, required []any, extra c16Schema) c16Schema {
		s := c16Schema{"type": "object", "properties": props}
		if required != nil {
			s["required"] = required
		}
		for k, v := range extra {
			s[k] = v
		}
		return s
	}
	intAB := c16Schema{"type": "integer", "minimum": c16Num(0), "maximum": c16Num(10)}
	return []c16InputSchema{
		{"a-required-bounded", obj(c16Schema{"a": intAB}, []any{"a"}, nil)},
		{"a-optional-default5", obj(c16Schema{"a": c16Schema{"type": "integer", "minimum": c16Num(0), "maximum": c16Num(10), "default": c16Num(5)}}, nil, nil)},
		{"s-enum-optional", obj(c16Schema{"s": c16Schema{"type": "string", "enum": []any{"x", "y"}}}, nil, nil)},
		{"s-enum-default", obj(c16Schema{"s": c16Schema{"type": "string", "enum": []any{"x", "y"}, "default": "y"}, "a": intAB}, nil, nil)},
		{"nested-required", obj(c16Schema{"n": c16Schema{"type": "object", "properties": c16Schema{"x": c16Schema{"type": "integer", "minimum": c16Num(1)}}, "required": []any{"x"}}}, []any{"n"}, nil)},
		{"nested-default-x", obj(c16Schema{"n": c16Schema{"type": "object", "properties": c16Schema{"x": c16Schema{"type": "integer", "minimum": c16Num(1), "default": c16Num(4)}}}}, nil, nil)},
		{"nested-default-x+top-default-a", obj(c16Schema{"n": c16Schema{"type": "object", "properties": c16Schema{"x": c16Schema{"type": "integer", "minimum": c16Num(1), "default": c16Num(4)}}}, "a": c16Schema{"type": "integer", "default": c16Num(2)}}, nil, nil)},
		// an optional nested object that has a defaulted member and a required one: leaving the object out
		// materialises it for the default's sake - without its required member
		{"nested-optional-default-x-required-y", obj(c16Schema{"n": c16Schema{"type": "object", "properties": c16Schema{"x": c16Schema{"type": "integer", "minimum": c16Num(1), "default": c16Num(4)}, "y": c16Schema{"type": "integer"}}, "required": []any{"y"}}, "a": intAB}, nil, nil)},
		{"array-of-positive", obj(c16Schema{"l": c16Schema{"type": "array", "items": c16Schema{"type": "integer", "minimum": c16Num(1)}}}, nil, nil)},
		{"closed-a-b", obj(c16Schema{"a": intAB, "b": c16Schema{"type": "boolean"}}, []any{"b"}, c16Schema{"additionalProperties": false})},
		{"open-a-s", obj(c16Schema{"a": intAB, "s": c16Schema{"type": "string", "enum": []any{"x", "y"}}}, nil, c16Schema{"additionalProperties": true})},
		{"open-default-a", obj(c16Schema{"a": c16Schema{"type": "integer", "minimum": c16Num(0), "maximum": c16Num(10), "default": c16Num(3)}, "b": c16Schema{"type": "boolean", "default": true}}, nil, nil)},
	}
}

// per-field value alphabets; the marker c16Absent means "key not present"
type c16AbsentT struct{}

var c16Absent = c16AbsentT{}

func c16FieldValues(field string) []any {
	switch field {
	case "a":
		return []any{c16Absent, nil, "3", c16Num(-1), c16Num(0), c16Num(7), c16Num(10), c16Num(11), c16Num(1.5), true}
	case "s":
		return []any{c16Absent, nil, c16Num(1), "x", "y", "z", ""}
	case "b":
		return []any{c16Absent, nil, true, false, "true", c16Num(0)}
	case "n":
		return []any{c16Absent, nil, c16Num(1), map[string]any{}, map[string]any{"x": c16Num(1)}, map[string]any{"x": c16Num(0)}, map[string]any{"x": "1"}, map[string]any{"x": c16Num(2), "y": c16Num(1)}}
	case "l":
		return []any{c16Absent, nil, []any{}, []any{c16Num(1), c16Num(2)}, []any{c16Num(0)}, []any{c16Num(1), "2"}, c16Num(1)}
	}
	return nil
}

// extra (undeclared) keys, including case variants of declared ones
func c16Extras() []map[string]any {
	return []map[string]any{
		{},
		{"zzz": c16Num(1)},
		{"A": c16Num(5000)},
		{"S": "z"},
		{"B": "nope"},
	}
}

// ---- outputs

type c16OutStruct struct {
	N int    `json:"n"`
	T string `json:"t,omitempty"`
}

type c16OutCase struct {
	name    string
	tool    string
	ret     string // which value the handler returns
	content bool   // the handler supplies its own Content
	shared  bool   // the handler returns one and the same (empty) *CallToolResult on every call
}

func c16AddOutputTools(s *Server, plan map[string]*c16OutCase) {
	pick := func(name string) *c16OutCase { return plan[name] }
	sharedResults := map[string]*CallToolResult{}
	content := func(c *c16OutCase) *CallToolResult {
		if c.shared {
			if sharedResults[c.tool] == nil {
				sharedResults[c.tool] = &CallToolResult{}
			}
			return sharedResults[c.tool]
		}
		if c.content {
			return &CallToolResult{Content: []Content{&TextContent{Text: "own"}}}
		}
		return nil
	}
	AddTool(s, &Tool{Name: "out-struct"}, func(ctx context.Context, r *CallToolRequest, in map[string]any) (*CallToolResult, c16OutStruct, error) {
		c := pick("out-struct")
		return content(c), c16OutStruct{N: 7, T: c.ret}, nil
	})
	AddTool(s, &Tool{Name: "out-pointer"}, func(ctx context.Context, r *CallToolRequest, in map[string]any) (*CallToolResult, *c16OutStruct, error) {
		c := pick("out-pointer")
		if c.ret == "nil" {
			return content(c), nil, nil
		}
		return content(c), &c16OutStruct{N: 1, T: c.ret}, nil
	})
	AddTool(s, &Tool{Name: "out-map"}, func(ctx context.Context, r *CallToolRequest, in map[string]any) (*CallToolResult, map[string]int, error) {
		c := pick("out-map")
		if c.ret == "nil" {
			return content(c), nil, nil
		}
		return content(c), map[string]int{"k": 1}, nil
	})
	AddTool(s, &Tool{Name: "out-slice"}, func(ctx context.Context, r *CallToolRequest, in map[string]any) (*CallToolResult, []int, error) {
		c := pick("out-slice")
		if c.ret == "empty" {
			return content(c), []int{}, nil
		}
		return content(c), []int{1, 2}, nil
	})
	AddTool(s, &Tool{Name: "out-int"}, func(ctx context.Context, r *CallToolRequest, in map[string]any) (*CallToolResult, int, error) {
		c := pick("out-int")
		return content(c), 42, nil
	})
	// explicit output schema with a bound and a default
	explicit := c16Schema{"type": "object", "properties": c16Schema{
		"n": c16Schema{"type": "integer", "minimum": c16Num(0), "maximum": c16Num(10)},
		"d": c16Schema{"type": "string", "default": "dflt"},
	}, "required": []any{"n"}}
	AddTool(s, &Tool{Name: "out-explicit", OutputSchema: explicit}, func(ctx context.Context, r *CallToolRequest, in map[string]any) (*CallToolResult, map[string]any, error) {
		c := pick("out-explicit")
		switch c.ret {
		case "valid":
			return content(c), map[string]any{"n": 3}, nil
		case "valid-with-d":
			return content(c), map[string]any{"n": 3, "d": "set"}, nil
		case "too-big":
			return content(c), map[string]any{"n": 11}, nil
		case "wrong-type":
			return content(c), map[string]any{"n": "3"}, nil
		case "missing-required":
			return content(c), map[string]any{"d": "x"}, nil
		}
		return content(c), nil, nil
	})
	nestedOut := c16Schema{"type": "object", "properties": c16Schema{
		"o": c16Schema{"type": "object", "properties": c16Schema{"d": c16Schema{"type": "string", "enum": []any{"dflt", "set"}, "default": "dflt"}}},
	}}
	AddTool(s, &Tool{Name: "out-nested-default", OutputSchema: nestedOut}, func(ctx context.Context, r *CallToolRequest, in map[string]any) (*CallToolResult, map[string]any, error) {
		c := pick("out-nested-default")
		switch c.ret {
		case "inner-empty":
			return content(c), map[string]any{"o": map[string]any{}}, nil
		case "inner-set":
			return content(c), map[string]any{"o": map[string]any{"d": "set"}}, nil
		case "inner-bad":
			return content(c), map[string]any{"o": map[string]any{"d": "other"}}, nil
		}
		return content(c), map[string]any{}, nil
	})
	// the same with a required member next to the defaulted one: an output that leaves "o" out gets
	// it materialised for the default's sake, without its required member - not a valid output
	nestedReqOut := c16Schema{"type": "object", "properties": c16Schema{
		"o": c16Schema{"type": "object", "properties": c16Schema{"d": c16Schema{"type": "string", "default": "dflt"}, "k": c16Schema{"type": "integer"}}, "required": []any{"k"}},
	}}
	AddTool(s, &Tool{Name: "out-nested-default-required", OutputSchema: nestedReqOut}, func(ctx context.Context, r *CallToolRequest, in map[string]any) (*CallToolResult, map[string]any, error) {
		c := pick("out-nested-default-required")
		switch c.ret {
		case "inner-complete":
			return content(c), map[string]any{"o": map[string]any{"k": 1}}, nil
		case "inner-empty":
			return content(c), map[string]any{"o": map[string]any{}}, nil
		}
		return content(c), map[string]any{}, nil
	})
	// an object output schema without required members, and an output type that can hold any JSON value
	loose := c16Schema{"type": "object", "properties": c16Schema{"unit": c16Schema{"type": "string", "default": "C"}}}
	AddTool(s, &Tool{Name: "out-any-object-schema", OutputSchema: loose}, func(ctx context.Context, r *CallToolRequest, in map[string]any) (*CallToolResult, any, error) {
		c := pick("out-any-object-schema")
		switch c.ret {
		case "string":
			return content(c), "twenty degrees", nil
		case "number":
			return content(c), 20, nil
		case "bool":
			return content(c), true, nil
		case "array":
			return content(c), []int{20}, nil
		case "empty-array":
			return content(c), []int{}, nil
		}
		return content(c), map[string]any{"t": 20}, nil
	})
	AddTool(s, &Tool{Name: "out-any-required", OutputSchema: explicit}, func(ctx context.Context, r *CallToolRequest, in map[string]any) (*CallToolResult, any, error) {
		c := pick("out-any-required")
		if c.ret == "nil" {
			return content(c), nil, nil
		}
		return content(c), map[string]any{"n": 3}, nil
	})
	AddTool(s, &Tool{Name: "out-any"}, func(ctx context.Context, r *CallToolRequest, in map[string]any) (*CallToolResult, any, error) {
		c := pick("out-any")
		if c.ret == "nil" {
			return content(c), nil, nil
		}
		return content(c), map[string]any{"free": true}, nil
	})
}

func c16OutCases() []*c16OutCase {
	var out []*c16OutCase
	add := func(tool string, rets ...string) {
		for _, r := range rets {
			for _, c := range []bool{false, true} {
				out = append(out, &c16OutCase{name: fmt.Sprintf("%s ret=%s content=%v", tool, r, c), tool: tool, ret: r, content: c})
			}
			out = append(out, &c16OutCase{name: fmt.Sprintf("%s ret=%s shared-result-object", tool, r), tool: tool, ret: r, shared: true})
		}
	}
	add("out-struct", "", "t")
	add("out-pointer", "nil", "p")
	add("out-map", "nil", "m")
	add("out-slice", "empty", "two")
	add("out-int", "42")
	add("out-explicit", "valid", "valid-with-d", "too-big", "wrong-type", "missing-required", "nil")
	add("out-nested-default", "inner-empty", "inner-set", "inner-bad", "outer-empty")
	add("out-nested-default-required", "inner-complete", "inner-empty", "outer-empty")
	add("out-any", "nil", "obj")
	add("out-any-object-schema", "object", "string", "number", "bool", "array", "empty-array")
	add("out-any-required", "valid", "nil")
	return out
}

// expected structured content per output case ("" = no structured content; "ERR" = must be an error)
func c16ExpectedOutput(c *c16OutCase) string {
	switch c.tool {
	case "out-struct":
		if c.ret == "" {
			return `{"n":7}`
		}
		return `{"n":7,"t":"t"}`
	case "out-pointer":
		if c.ret == "nil" {
			return `{"n":0}`
		}
		return `{"n":1,"t":"p"}`
	case "out-map":
		if c.ret == "nil" {
			return `{}`
		}
		return `{"k":1}`
	case "out-slice":
		if c.ret == "empty" {
			return `[]`
		}
		return `[1,2]`
	case "out-int":
		return `42`
	case "out-explicit":
		switch c.ret {
		case "valid":
			return `{"d":"dflt","n":3}`
		case "valid-with-d":
			return `{"d":"set","n":3}`
		}
		return "ERR"
	case "out-nested-default":
		switch c.ret {
		case "inner-empty":
			return `{"o":{"d":"dflt"}}`
		case "inner-set":
			return `{"o":{"d":"set"}}`
		case "outer-empty":
			return `{"o":{"d":"dflt"}}`
		}
		return "ERR"
	case "out-nested-default-required":
		if c.ret == "inner-complete" {
			return `{"o":{"d":"dflt","k":1}}`
		}
		return "ERR"
	case "out-any-required":
		if c.ret == "valid" {
			return `{"d":"dflt","n":3}`
		}
		return "ERR" // no output at all under a schema with a required member
	case "out-any-object-schema":
		if c.ret == "object" {
			return `{"t":20,"unit":"C"}`
		}
		return "ERR" // not an object: violates the declared output schema
	case "out-any":
		if c.ret == "nil" {
			return ""
		}
		return `{"free":true}`
	}
	return "?"
}

func c16Canon(raw []byte) string {
	if len(raw) == 0 {
		return ""
	}
	var v any
	if json.Unmarshal(raw, &v) != nil {
		return "UNPARSABLE:" + string(raw)
	}
	b, _ := json.Marshal(v)
	return string(b)
}

// ---- integers beyond 2^53: "receives exactly those values" / "equal to the JSON of the handler's output"

type c16Big struct {
	N int64  `json:"n"`
	T string `json:"t,omitempty"`
}

func c16BigInts(t *testing.T, env *verifx.Env, res *verifx.Result) {
	cases := env.NewCases(res, "integers-beyond-2^53")
	ctx := context.Background()
	var seen []int64
	var ret int64
	s := NewServer(&Implementation{Name: "srv", Version: "1"}, &ServerOptions{Logger: quietLogger})
	record := func(ctx context.Context, r *CallToolRequest, v c16Big) (*CallToolResult, any, error) {
		seen = append(seen, v.N)
		return &CallToolResult{}, nil, nil
	}
	AddTool(s, &Tool{Name: "in-inferred"}, record)
	AddTool(s, &Tool{Name: "in-explicit-with-default", InputSchema: c16Schema{"type": "object", "properties": c16Schema{"n": c16Schema{"type": "integer"}, "t": c16Schema{"type": "string", "default": "d"}}, "required": []any{"n"}}}, record)
	AddTool(s, &Tool{Name: "out-struct"}, func(ctx context.Context, r *CallToolRequest, v map[string]any) (*CallToolResult, c16Big, error) {
		return nil, c16Big{N: ret}, nil
	})
	AddTool(s, &Tool{Name: "out-map"}, func(ctx context.Context, r *CallToolRequest, v map[string]any) (*CallToolResult, map[string]int64, error) {
		return nil, map[string]int64{"n": ret}, nil
	})
	// what the server puts on the wire (the client's StructuredContent is an `any`, whose
	// numbers a Go client decodes as float64: that is the client's business, not the tool's)
	var sent string
	s.AddReceivingMiddleware(func(next MethodHandler) MethodHandler {
		return func(ctx context.Context, method string, req Request) (Result, error) {
			res, err := next(ctx, method, req)
			if r, ok := res.(*CallToolResult); ok && err == nil {
				b, _ := json.Marshal(r.StructuredContent)
				sent = string(b)
			}
			return res, err
		}
	})
	ct, st := NewInMemoryTransports()
	ss, err := s.Connect(ctx, st, nil)
	if err != nil {
		t.Fatal(err)
	}
	defer ss.Close()
	c := NewClient(&Implementation{Name: "cli", Version: "1"}, &ClientOptions{Logger: quietLogger})
	cs, err := c.Connect(ctx, ct, &ClientSessionOptions{ProtocolVersion: "2025-06-18"})
	if err != nil {
		t.Fatal(err)
	}
	defer cs.Close()
	values := []int64{1<<53 - 1, 1 << 53, 1<<53 + 1, -(1<<53 + 1), 1<<62 + 1, math.MaxInt64, math.MinInt64, math.MinInt64 + 1}
	// other spellings of integers (valid for an integer schema) and non-integers, as raw JSON text
	for _, sp := range []struct {
		text  string
		valid bool
		n     int64
	}{{"7.0", true, 7}, {"7.00", true, 7}, {"1e1", true, 10}, {"1E1", true, 10}, {"-0", true, 0}, {"-0.0", true, 0}, {"120e-1", true, 12}, {"9007199254740992.0", true, 1 << 53},
		{"1.5", false, 0}, {"1e-1", false, 0}, {`"7"`, false, 0}} {
		for _, tool := range []string{"in-inferred", "in-explicit-with-default"} {
			idx, mine := cases.Next()
			if !mine {
				continue
			}
			desc := fmt.Sprintf("tool=%s arguments={\"n\":%s}", tool, sp.text)
			seen = nil
			r, err := cs.CallTool(ctx, &CallToolParams{Name: tool, Arguments: json.RawMessage(`{"n":` + sp.text + `}`)})
			switch {
			case err != nil:
				cases.Violate(idx, "c16 number-spelling call-failed "+tool, fmt.Sprintf("%v [%s]", err, desc), 1)
			case sp.valid && (r.IsError || len(seen) != 1 || seen[0] != sp.n):
				cases.Violate(idx, "c16 number-spelling valid-integer-rejected-or-altered "+tool, fmt.Sprintf("%s is an integer under JSON Schema; IsError=%v, the handler saw %v, want %d [%s]", sp.text, r.IsError, seen, sp.n, desc), 1)
			case !sp.valid && (!r.IsError || len(seen) != 0):
				cases.Violate(idx, "c16 number-spelling invalid-reached-handler "+tool, fmt.Sprintf("%s is not an integer; IsError=%v, the handler saw %v [%s]", sp.text, r.IsError, seen, desc), 1)
			default:
				cases.Record(idx, fmt.Sprintf("spelling valid=%v %s", sp.valid, tool), 1, func() string { return desc })
			}
		}
	}
	for _, tool := range []string{"in-inferred", "in-explicit-with-default", "out-struct", "out-map"} {
		for _, n := range values {
			idx, mine := cases.Next()
			if !mine {
				continue
			}
			desc := fmt.Sprintf("tool=%s n=%d", tool, n)
			seen, ret = nil, n
			args := json.RawMessage(fmt.Sprintf(`{"n":%d}`, n))
			if strings.HasPrefix(tool, "out-") {
				args = json.RawMessage(`{}`)
			}
			r, err := cs.CallTool(ctx, &CallToolParams{Name: tool, Arguments: args})
			switch {
			case err != nil || r.IsError:
				cases.Violate(idx, "c16 big-integer call-failed "+tool, fmt.Sprintf("%v %+v [%s]", err, r, desc), 1)
			case strings.HasPrefix(tool, "in-"):
				if len(seen) != 1 || seen[0] != n {
					cases.Violate(idx, "c16 big-integer handler-saw-other-value "+tool, fmt.Sprintf("arguments {\"n\":%d} are valid under the schema; the handler saw n=%v [%s]", n, seen, desc), 1)
				} else {
					cases.Record(idx, "exact "+tool, 1, func() string { return desc })
				}
			default:
				sc := sent
				want := fmt.Sprintf(`"n":%d`, n)
				text := ""
				if len(r.Content) == 1 {
					if tc, ok := r.Content[0].(*TextContent); ok {
						text = tc.Text
					}
				}
				if !strings.Contains(sc, want) || !strings.Contains(text, want) {
					cases.Violate(idx, "c16 big-integer output-altered "+tool, fmt.Sprintf("the handler returned n=%d; the structured content sent is %s, text rendering %q [%s]", n, sc, text, desc), 1)
				} else {
					cases.Record(idx, "exact "+tool, 1, func() string { return desc })
				}
			}
		}
	}
}

func TestVerifC16(t *testing.T) {
	env := verifx.LoadEnv("C16")
	res := env.NewResult()
	// The whole family runs twice: on a plain server, and on a server configured with a SchemaCache
	// on which tools with *inferred* schemas for the same Go input/output types were registered
	// first (an explicit schema must still be the one that is enforced).
	c16Suite(t, env, res, "", false)
	c16Suite(t, env, res, "/schema-cache", true)
	c16Suite(t, env, res, "/retry-round-with-input-responses", false)
	c16Suite(t, env, res, "/server-driven-retry", false)
	c16BigInts(t, env, res)
	env.Finish(res)
}

func c16Suite(t *testing.T, env *verifx.Env, res *verifx.Result, suffix string, withCache bool) {
	retryRound := strings.Contains(suffix, "retry-round")
	// serverRetry: the session speaks a legacy protocol and the tool answers its first invocation with an
	// input request; the server's middleware asks the client itself and invokes the tool again - with the
	// same arguments, validated the same way (the handler counts, and is judged by, the final invocation)
	serverRetry := strings.Contains(suffix, "server-driven-retry")
	ctx := context.Background()

	// ---------- inputs
	in := env.NewCases(res, "input-schemas-x-arguments"+suffix)
	var seen *c16In
	handlerRuns := 0
	sopts := &ServerOptions{Logger: quietLogger}
	if withCache {
		sopts.SchemaCache = NewSchemaCache()
	}
	s := NewServer(&Implementation{Name: "srv", Version: "1"}, sopts)
	if withCache {
		AddTool(s, &Tool{Name: "inferred-in"}, func(ctx context.Context, r *CallToolRequest, v c16In) (*CallToolResult, any, error) {
			return &CallToolResult{}, nil, nil
		})
		AddTool(s, &Tool{Name: "inferred-out"}, func(ctx context.Context, r *CallToolRequest, v map[string]any) (*CallToolResult, map[string]any, error) {
			return nil, map[string]any{}, nil
		})
	}
	schemas := c16InputSchemas()
	for _, sc := range schemas {
		AddTool(s, &Tool{Name: sc.name, InputSchema: sc.schema}, func(ctx context.Context, r *CallToolRequest, v c16In) (*CallToolResult, any, error) {
			if serverRetry && len(r.Params.InputResponses) == 0 {
				return &CallToolResult{InputRequests: InputRequestMap{"q": &ElicitParams{Message: "go on?"}}}, nil, nil
			}
			handlerRuns++
			seen = &v
			return &CallToolResult{}, nil, nil
		})
	}
	plan := map[string]*c16OutCase{}
	c16AddOutputTools(s, plan)
	// a receiving middleware (metrics, auditing, rate limiting ...) may take its time with a result: when
	// asked to, this one holds the result of the next tools/call until the harness lets go
	holdNext := false
	held, letGo := make(chan struct{}), make(chan struct{})
	s.AddReceivingMiddleware(func(next MethodHandler) MethodHandler {
		return func(ctx context.Context, method string, req Request) (Result, error) {
			res, err := next(ctx, method, req)
			if method == "tools/call" && holdNext {
				holdNext = false
				held <- struct{}{}
				<-letGo
			}
			return res, err
		}
	})
	ct, st := NewInMemoryTransports()
	ss, err := s.Connect(ctx, st, nil)
	if err != nil {
		t.Fatal(err)
	}
	defer ss.Close()
	c := NewClient(&Implementation{Name: "cli", Version: "1"}, &ClientOptions{Logger: quietLogger,
		ElicitationHandler: func(context.Context, *ElicitRequest) (*ElicitResult, error) {
			return &ElicitResult{Action: "accept", Content: map[string]any{}}, nil
		}})
	cs, err := c.Connect(ctx, ct, &ClientSessionOptions{ProtocolVersion: "2025-06-18"})
	if err != nil {
		t.Fatal(err)
	}
	defer cs.Close()

	for _, sc := range schemas {
		props, _ := sc.schema["properties"].(c16Schema)
		var fields []string
		for k := range props {
			fields = append(fields, k)
		}
		sort.Strings(fields)
		// all combinations of the declared fields' alphabets x extras
		var rec func(i int, obj map[string]any)
		rec = func(i int, obj map[string]any) {
			if i == len(fields) {
				for _, extra := range c16Extras() {
					args := map[string]any{}
					for k, v := range obj {
						args[k] = v
					}
					for k, v := range extra {
						args[k] = v
					}
					idx, mine := in.Next()
					if !mine {
						continue
					}
					raw, _ := json.Marshal(args)
					desc := func() string { return fmt.Sprintf("schema=%s arguments=%s", sc.name, raw) }
					// reference
					defaulted := c16Defaults(sc.schema, args)
					valid := c16Validate(sc.schema, defaulted)
					expect := map[string]any{}
					for _, f := range []string{"a", "s", "b", "n", "l"} {
						if v, ok := defaulted[f]; ok {
							if _, declared := props[f]; declared {
								expect[f] = v
							}
						}
					}
					// (l: empty arrays are dropped by omitempty; n: undeclared inner keys are dropped by the struct)
					if l, ok := expect["l"].([]any); ok && len(l) == 0 {
						delete(expect, "l")
					}
					if n, ok := expect["n"].(map[string]any); ok {
						nn := map[string]any{}
						if x, ok := n["x"]; ok {
							nn["x"] = x
						}
						expect["n"] = nn
					}
					expJSON, _ := json.Marshal(expect)
					handlerRuns, seen = 0, nil
					var resT *CallToolResult
					var callErr error
					func() {
						defer func() {
							if r := recover(); r != nil {
								callErr = fmt.Errorf("panic: %v", r)
							}
						}()
						params := &CallToolParams{Name: sc.name, Arguments: json.RawMessage(raw)}
						if retryRound {
							// the request is the second round of a multi round-trip call: it carries the client's
							// answers to earlier input requests - and is validated like any other tools/call
							params.InputResponses = InputResponseMap{"r1": &ListRootsResult{Roots: []*Root{}}}
						}
						resT, callErr = cs.CallTool(ctx, params)
					}()
					switch {
					case callErr != nil:
						in.Violate(idx, "c16 input call-failed", fmt.Sprintf("CallTool failed: %v [%s]", callErr, desc()), 1)
					case valid && (handlerRuns != 1 || resT.IsError):
						in.Violate(idx, "c16 valid-arguments-rejected "+sc.name, fmt.Sprintf("arguments are valid under the schema (after defaults) but the handler ran %d times, IsError=%v [%s]", handlerRuns, resT.IsError, desc()), 1)
					case !valid && handlerRuns != 0:
						got, _ := json.Marshal(seen)
						in.Violate(idx, "c16 invalid-arguments-reached-handler "+sc.name, fmt.Sprintf("arguments violate the schema but the handler ran and saw %s [%s]", got, desc()), 1)
					case !valid && !resT.IsError:
						in.Violate(idx, "c16 invalid-arguments-no-error "+sc.name, fmt.Sprintf("arguments violate the schema but the result is not a tool error [%s]", desc()), 1)
					case valid:
						got, _ := json.Marshal(seen)
						if c16Canon(got) != c16Canon(expJSON) {
							in.Violate(idx, "c16 handler-saw-other-values "+sc.name, fmt.Sprintf("the handler saw %s, the validated (defaulted) arguments are %s [%s]", got, expJSON, desc()), 1)
						} else {
							in.Record(idx, "valid "+sc.name, 1, desc)
						}
					default:
						in.Record(idx, "rejected "+sc.name, 1, desc)
					}
				}
				return
			}
			for _, v := range c16FieldValues(fields[i]) {
				o2 := map[string]any{}
				for k, vv := range obj {
					o2[k] = vv
				}
				if v != c16Absent {
					o2[fields[i]] = v
				}
				rec(i+1, o2)
			}
		}
		rec(0, map[string]any{})
		// the "arguments" member as a whole: null, a non-object, an empty object.  null stands for "no
		// arguments" (= {}); a non-object is never valid for an object schema.
		// (strings that *spell* JSON values - arguments left serialized by a sloppy client - are strings: not objects)
		for _, rawArgs := range []string{"null", "{}", "5", `"x"`, "[]", "true", `"{}"`, `" {} "`, `"{\"a\":5}"`, `"{\"a\":5,\"s\":\"x\",\"b\":true}"`, `"null"`, `"[]"`, `""`, `[{}]`, "0", "false", "1.5"} {
			idx, mine := in.Next()
			if !mine {
				continue
			}
			desc := func() string { return fmt.Sprintf("schema=%s arguments=%s", sc.name, rawArgs) }
			valid := false
			if rawArgs == "null" || rawArgs == "{}" {
				valid = c16Validate(sc.schema, c16Defaults(sc.schema, map[string]any{}))
			}
			handlerRuns, seen = 0, nil
			var resT *CallToolResult
			var callErr error
			func() {
				defer func() {
					if r := recover(); r != nil {
						callErr = fmt.Errorf("panic: %v", r)
					}
				}()
				resT, callErr = cs.CallTool(ctx, &CallToolParams{Name: sc.name, Arguments: json.RawMessage(rawArgs)})
			}()
			switch {
			case callErr != nil && valid:
				in.Violate(idx, "c16 input call-failed", fmt.Sprintf("CallTool failed: %v [%s]", callErr, desc()), 1)
			case callErr != nil:
				in.Record(idx, "rejected-as-protocol-error "+sc.name, 1, desc) // refusing a non-object outright is fine too
			case valid && (handlerRuns != 1 || resT.IsError):
				in.Violate(idx, "c16 valid-arguments-rejected "+sc.name, fmt.Sprintf("no arguments are valid under the schema (after defaults) but the handler ran %d times, IsError=%v [%s]", handlerRuns, resT.IsError, desc()), 1)
			case !valid && handlerRuns != 0:
				in.Violate(idx, "c16 invalid-arguments-reached-handler "+sc.name, fmt.Sprintf("arguments %s violate the schema but the handler ran [%s]", rawArgs, desc()), 1)
			case !valid && !resT.IsError:
				in.Violate(idx, "c16 invalid-arguments-no-error "+sc.name, fmt.Sprintf("arguments %s violate the schema but the result is not a tool error [%s]", rawArgs, desc()), 1)
			default:
				in.Record(idx, fmt.Sprintf("whole-arguments valid=%v %s", valid, sc.name), 1, desc)
			}
		}
	}

	// ---------- outputs
	out := env.NewCases(res, "output-types-x-returns"+suffix)
	for _, oc := range c16OutCases() {
		idx, mine := out.Next()
		if !mine {
			continue
		}
		want := c16ExpectedOutput(oc)
		desc := func() string { return oc.name }
		if oc.shared {
			// an earlier call of the same tool, with another return value, got the same result object
			for _, other := range c16OutCases() {
				if other.tool == oc.tool && other.shared && other.ret != oc.ret && c16ExpectedOutput(other) != "ERR" {
					plan[oc.tool] = other
					cs.CallTool(ctx, &CallToolParams{Name: oc.tool, Arguments: json.RawMessage(`{}`)})
					desc = func() string { return oc.name + " after a call that returned " + other.ret }
					break
				}
			}
		}
		plan[oc.tool] = oc
		resT, callErr := cs.CallTool(ctx, &CallToolParams{Name: oc.tool, Arguments: json.RawMessage(`{}`)})
		c16JudgeOutput(out, idx, oc, want, resT, callErr, desc)
	}
	if suffix != "" {
		return
	}
	// ---------- the same outputs with the result held in a middleware while other typed tool calls
	// (outputs of every shape and length) run to completion: a result is a value of its own
	heldCases := env.NewCases(res, "output-types-x-returns/result-held-while-other-calls-complete")
	disturbers := []*c16OutCase{}
	for _, d := range c16OutCases() {
		if !d.shared && !d.content && c16ExpectedOutput(d) != "ERR" && c16ExpectedOutput(d) != "" {
			disturbers = append(disturbers, d)
		}
	}
	for _, oc := range c16OutCases() {
		if oc.shared {
			continue
		}
		idx, mine := heldCases.Next()
		if !mine {
			continue
		}
		want := c16ExpectedOutput(oc)
		desc := func() string { return oc.name + ", result held in a middleware while other calls complete" }
		plan[oc.tool] = oc
		holdNext = true
		type ret struct {
			res *CallToolResult
			err error
		}
		done := make(chan ret, 1)
		go func() {
			r, err := cs.CallTool(ctx, &CallToolParams{Name: oc.tool, Arguments: json.RawMessage(`{}`)})
			done <- ret{r, err}
		}()
		select {
		case <-held:
			for _, d := range disturbers {
				plan[d.tool] = d
				cs.CallTool(ctx, &CallToolParams{Name: d.tool, Arguments: json.RawMessage(`{}`)})
			}
			letGo <- struct{}{}
		case r := <-done:
			// (refused before it reached the middleware's hold)
			holdNext = false
			done <- r
		}
		r := <-done
		c16JudgeOutput(heldCases, idx, oc, want, r.res, r.err, desc)
	}
}

func c16JudgeOutput(out *verifx.Cases, idx int, oc *c16OutCase, want string, resT *CallToolResult, callErr error, desc func() string) {
	for range 1 {
		switch {
		case want == "ERR":
			if callErr == nil && !resT.IsError {
				out.Violate(idx, "c16 invalid-output-returned "+oc.tool+" "+oc.ret, fmt.Sprintf("the output violates the output schema but was returned: %s [%s]", resT.StructuredContent, desc()), 1)
			} else {
				out.Record(idx, "output-error", 1, desc)
			}
		case callErr != nil || resT.IsError:
			out.Violate(idx, "c16 valid-output-rejected "+oc.tool+" "+oc.ret, fmt.Sprintf("valid output rejected: %v %+v [%s]", callErr, resT, desc()), 1)
		default:
			var sc string
			if resT.StructuredContent != nil {
				b, _ := json.Marshal(resT.StructuredContent)
				sc = c16Canon(b)
			}
			if sc != c16Canon([]byte(want)) {
				out.Violate(idx, "c16 wrong-structured-content "+oc.tool+" "+oc.ret, fmt.Sprintf("structuredContent %s, want %s [%s]", sc, want, desc()), 1)
				continue
			}
			// text rendering when the handler supplied no content of its own
			var texts []string
			for _, cc := range resT.Content {
				if tc, ok := cc.(*TextContent); ok {
					texts = append(texts, tc.Text)
				}
			}
			if want != "" && !oc.content {
				if len(texts) != 1 || c16Canon([]byte(texts[0])) != c16Canon([]byte(want)) {
					out.Violate(idx, "c16 missing-text-rendering "+oc.tool, fmt.Sprintf("no content of its own, but the text rendering is %q, want the JSON %s [%s]", texts, want, desc()), 1)
					continue
				}
			}
			if oc.content && !slices.Contains(texts, "own") {
				out.Violate(idx, "c16 own-content-lost "+oc.tool, fmt.Sprintf("the handler's own content is gone: %q [%s]", texts, desc()), 1)
				continue
			}
			out.Record(idx, "output-ok "+strings.TrimPrefix(oc.tool, "out-"), 1, desc)
		}
	}
}
