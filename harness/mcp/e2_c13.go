package mcp

// C13: keep-alive closes dead sessions after the configured misses, never live ones.
// Every pattern of ping outcomes (answered / swallowed -> timeout / error / method-not-found /
// connection break / the write of the ping itself stalls until the ping deadline) up to threshold+2 pings, for thresholds 0..3, two intervals, client and
// server sessions, against a scripted raw-wire peer under virtual time.

import (
	"bufio"
	"context"
	"encoding/json"
	"fmt"
	"io"
	"runtime"
	"strings"
	"testing"
	"testing/synctest"
	"time"

	"github.com/modelcontextprotocol/go-sdk/internal/verifx"
	"github.com/modelcontextprotocol/go-sdk/jsonrpc"
)

const c13Symbols = "AETMBW" // Answer, Error, Timeout (swallowed), Method-not-found, Break, Write stalls until the ping deadline

// c13Transport wraps the session's transport: it sees every keep-alive ping on its way out,
// notes the time, decides the ping's fate from the pattern and, for 'W', lets the write itself
// run into the caller's deadline (as an HTTP POST hitting its request deadline would) without
// writing anything; the connection underneath stays healthy.
type c13Transport struct {
	Transport
	onPing func() byte
	late   time.Duration // how long an 'L' write takes
}

func (t *c13Transport) Connect(ctx context.Context) (Connection, error) {
	c, err := t.Transport.Connect(ctx)
	if err != nil {
		return nil, err
	}
	return &c13Conn{Connection: c, t: t}, nil
}

type c13Conn struct {
	Connection
	t *c13Transport
}

func (c *c13Conn) Write(ctx context.Context, msg jsonrpc.Message) error {
	if req, ok := msg.(*jsonrpc.Request); ok && req.IsCall() && req.Method == "ping" {
		switch c.t.onPing() {
		case 'W':
			<-ctx.Done()
			return ctx.Err()
		case 'L':
			// a write that does not look at its context (a blocking pipe, a slow middleware) and takes
			// longer than the ping may, and then some: the loop misses the next tick
			time.Sleep(c.t.late)
		}
	}
	return c.Connection.Write(ctx, msg)
}

type c13Session interface {
	Wait() error
	Close() error
	Ping(context.Context, *PingParams) error
}

type c13Obs struct {
	pingTimes []time.Duration // arrival of each keep-alive ping at the peer
	closedAt  time.Duration   // when Wait returned (-1: still open at the horizon)
	closedBy  string
}

// pending: a user call without a deadline is outstanding (the peer never answers it) while the
// pings meet their fates -- the situation keep-alive exists for.  It must not delay the closing
// of a dead session, and it must have failed by the time the session counts as closed.
func c13Case(side string, interval time.Duration, threshold int, pattern string, pendingKind string) (obs c13Obs, bad, sig string) {
	pending := pendingKind != ""
	fail := func(s, format string, a ...any) {
		if bad == "" {
			sig, bad = "c13 "+s, fmt.Sprintf(format, a...)
		}
	}
	ctx := context.Background()
	base := runtime.NumGoroutine()
	ct, st := NewInMemoryTransports()
	peerRWC := ct.rwc // the scripted peer's end
	t0 := time.Now()
	horizonReached := false
	var acts []byte // fates of the pings that were written, in order, for the peer to apply
	k := 0
	var sessT Transport = &c13Transport{Transport: st, onPing: func() byte {
		act := byte('A')
		if !horizonReached {
			obs.pingTimes = append(obs.pingTimes, time.Since(t0))
			if k < len(pattern) {
				act = pattern[k]
			}
			k++
		}
		if act != 'W' {
			acts = append(acts, act)
		}
		return act
	}}
	broke := false
	obs.closedAt = -1
	parkedDone := time.Duration(-1)
	handshake := make(chan struct{})
	// scripted peer
	go func() {
		sc := bufio.NewScanner(peerRWC)
		sc.Buffer(make([]byte, 1<<20), 1<<20)
		write := func(s string) { io.WriteString(peerRWC, s+"\n") }
		if side == "server" && pendingKind != "no-initialize" && pendingKind != "restored-state" && pendingKind != "restored-empty-state" {
			write(`{"jsonrpc":"2.0","id":"init","method":"initialize","params":{"protocolVersion":"2025-06-18","capabilities":{},"clientInfo":{"name":"peer","version":"1"}}}`)
		}
		for sc.Scan() {
			var m struct {
				ID     json.RawMessage `json:"id"`
				Method string          `json:"method"`
				Result json.RawMessage `json:"result"`
			}
			if json.Unmarshal(sc.Bytes(), &m) != nil {
				continue
			}
			switch {
			case m.Method == "" && string(m.ID) == `"init"`:
				if pendingKind == "no-initialized" {
					close(handshake)
					continue
				}
				write(`{"jsonrpc":"2.0","method":"notifications/initialized","params":{}}`)
				if pendingKind == "handler" {
					// a request of the peer whose handler runs until its context ends
					write(`{"jsonrpc":"2.0","id":"park","method":"tools/call","params":{"name":"park","arguments":{}}}`)
				}
				close(handshake)
			case m.Method == "initialize":
				write(`{"jsonrpc":"2.0","id":` + string(m.ID) + `,"result":{"protocolVersion":"2025-06-18","capabilities":{},"serverInfo":{"name":"peer","version":"1"}}}`)
			case m.Method == "ping":
				act := acts[0]
				acts = acts[1:]
				switch act {
				case 'A':
					write(`{"jsonrpc":"2.0","id":` + string(m.ID) + `,"result":{}}`)
				case 'E':
					write(`{"jsonrpc":"2.0","id":` + string(m.ID) + `,"error":{"code":-32000,"message":"busy"}}`)
				case 'M':
					write(`{"jsonrpc":"2.0","id":` + string(m.ID) + `,"error":{"code":-32601,"message":"method not found"}}`)
				case 'T':
					// swallowed
				case 'B':
					broke = true
					peerRWC.Close()
					return
				}
			}
		}
	}()
	var sess c13Session
	if side == "server" {
		s := NewServer(&Implementation{Name: "srv", Version: "1"}, &ServerOptions{KeepAlive: interval, KeepAliveFailureThreshold: threshold, Logger: quietLogger})
		s.AddTool(&Tool{Name: "park", InputSchema: map[string]any{"type": "object"}}, func(hctx context.Context, _ *CallToolRequest) (*CallToolResult, error) {
			<-hctx.Done()
			parkedDone = time.Since(t0)
			return nil, hctx.Err()
		})
		cctx, release := context.WithCancel(ctx)
		var sopts *ServerSessionOptions
		switch pendingKind {
		case "restored-state":
			// a session restored from saved state (a server resuming after a restart): live from the start
			sopts = &ServerSessionOptions{State: &ServerSessionState{
				InitializeParams:  &InitializeParams{ProtocolVersion: "2025-06-18", ClientInfo: &Implementation{Name: "peer", Version: "1"}, Capabilities: &ClientCapabilities{}},
				InitializedParams: &InitializedParams{}, LogLevel: "info"}}
		case "restored-empty-state":
			sopts = &ServerSessionOptions{State: &ServerSessionState{}}
		}
		ss, err := s.Connect(cctx, sessT, sopts)
		if err != nil {
			release()
			return obs, "connect: " + err.Error(), "c13 connect-failed"
		}
		if pendingKind == "connect-ctx-released" {
			release() // the context given to Connect is for connecting; the session outlives it
		}
		defer release()
		sess = ss
		if pendingKind != "no-initialize" && sopts == nil {
			<-handshake
		}
	} else {
		c := NewClient(&Implementation{Name: "cli", Version: "1"}, &ClientOptions{KeepAlive: interval, KeepAliveFailureThreshold: threshold, Logger: quietLogger})
		cctx, release := context.WithCancel(ctx)
		cs, err := c.Connect(cctx, sessT, &ClientSessionOptions{ProtocolVersion: "2025-06-18"})
		if err != nil {
			release()
			return obs, "connect: " + err.Error(), "c13 connect-failed"
		}
		if pendingKind == "connect-ctx-released" {
			release() // ctx, cancel := context.WithTimeout(...); defer cancel() around Connect is the usual idiom
		}
		defer release()
		sess = cs
	}
	go func() {
		sess.Wait()
		obs.closedAt = time.Since(t0)
	}()
	pendingDone := time.Duration(-1)
	if pendingKind == "call" {
		go func() {
			if cs, ok := sess.(*ClientSession); ok {
				cs.ListTools(ctx, nil)
			} else {
				sess.(*ServerSession).ListRoots(ctx, nil)
			}
			pendingDone = time.Since(t0)
		}()
	}
	horizon := time.Duration(len(pattern)+3) * interval
	time.Sleep(horizon - time.Since(t0))
	synctest.Wait()
	horizonReached = true

	c13Judge(pattern, interval, threshold, horizon, obs, broke, func() error {
		pctx, cancel := context.WithTimeout(ctx, interval)
		defer cancel()
		return sess.Ping(pctx, nil)
	}, fail)
	if pendingKind == "call" && obs.closedAt >= 0 && pendingDone < 0 {
		fail("pending-call-outlives-session", "pattern %q: the session was closed at %v but the call that was outstanding is still blocked", pattern, obs.closedAt)
	}
	if pendingKind == "handler" && obs.closedAt >= 0 && parkedDone < 0 {
		fail("handler-outlives-session", "pattern %q: the session was closed at %v but the context of the handler that was running has not ended", pattern, obs.closedAt)
	}
	if pendingKind == "handler" && obs.closedAt < 0 && parkedDone >= 0 {
		fail("handler-cancelled-on-live-session", "pattern %q: the session is open but the running handler's context was ended at %v", pattern, parkedDone)
	}
	if broke && !pending && bad == "" {
		// the peer hung up: the session has ended by itself (Wait has returned), and keep-alive ends with
		// it - without a Close of ours, without waiting for further ticks
		synctest.Wait()
		if obs.closedAt < 0 {
			fail("session-outlives-connection", "pattern %q: the peer closed the connection but the session's Wait has not returned", pattern)
		} else if n := runtime.NumGoroutine() - base; n > 0 {
			buf := make([]byte, 1<<15)
			buf = buf[:runtime.Stack(buf, true)]
			fail("keepalive-outlives-session", "pattern %q: the peer hung up and the session ended at %v, but %d goroutine(s) are still there (no Close was called; keep-alive has nothing left to watch):\n%s", pattern, obs.closedAt, n, buf)
		}
	}
	// shut down and check that nothing is left behind
	if pending {
		peerRWC.Close() // Close is graceful: it would wait for the outstanding call of a connected peer
		synctest.Wait()
	}
	sess.Close()
	peerRWC.Close()
	synctest.Wait() // no virtual time may be needed for keep-alive to end
	if obs.closedAt < 0 {
		fail("wait-never-returned", "pattern %q: Wait did not return after Close", pattern)
	}
	if n := runtime.NumGoroutine() - base; n > 0 {
		buf := make([]byte, 1<<15)
		buf = buf[:runtime.Stack(buf, true)]
		fail("goroutine-left-behind", "pattern %q: %d goroutine(s) left after Close:\n%s", pattern, n, buf)
	}
	return obs, bad, sig
}

// c13Judge is the reference failure detector: given the fates of the pings (alphabet of
// c13Symbols) it decides whether and when keep-alive must have closed the session and compares
// that with what was observed.
func c13Judge(pattern string, interval time.Duration, threshold int, horizon time.Duration, obs c13Obs, broke bool, ping func() error, fail func(s, format string, a ...any)) {
	// ---- reference detector
	th := max(threshold, 1)
	expectClose := time.Duration(-1)
	lastOK := time.Duration(0) // when the peer last answered (or the start)
	run := 0
	stopped, broken := false, false
	expectPings := 0
	for j := 1; ; j++ {
		tick := time.Duration(j) * interval
		if tick > horizon {
			break
		}
		act := byte('A')
		if j-1 < len(pattern) {
			act = pattern[j-1]
		}
		expectPings++
		switch act {
		case 'A':
			run, lastOK = 0, tick
		case 'M':
			stopped = true
		case 'B':
			broken = true
		case 'E', 'T', 'W':
			run++
			if run >= th {
				expectClose = tick
				if act == 'T' || act == 'W' {
					expectClose += interval / 2
				}
			}
		}
		if stopped || broken || expectClose >= 0 {
			break
		}
	}
	switch {
	case broken:
		// the peer vanished: terminal, only the leak oracle applies
		if !broke {
			fail("harness", "pattern says break but the peer never broke the connection")
		}
	case expectClose >= 0:
		if obs.closedAt < 0 {
			fail(fmt.Sprintf("dead-session-not-closed th=%d", threshold), "pattern %q: %d consecutive failed pings but the session is still open at %v", pattern, th, horizon)
		} else {
			if obs.closedAt < expectClose {
				fail(fmt.Sprintf("closed-too-early th=%d", threshold), "pattern %q: closed at %v, before the %d-th consecutive miss completed (%v)", pattern, obs.closedAt, th, expectClose)
			}
			if limit := lastOK + time.Duration(th)*interval + interval/2; obs.closedAt > limit {
				fail(fmt.Sprintf("closed-too-late th=%d", threshold), "pattern %q: closed at %v, later than %d intervals plus one ping timeout after the peer stopped answering (%v)", pattern, obs.closedAt, th, limit)
			}
			if len(obs.pingTimes) != expectPings {
				fail(fmt.Sprintf("wrong-number-of-pings th=%d", threshold), "pattern %q: session closed after %d pings, want exactly %d", pattern, len(obs.pingTimes), expectPings)
			}
		}
	default:
		if obs.closedAt >= 0 {
			fail(fmt.Sprintf("live-session-closed th=%d", threshold), "pattern %q never has %d consecutive misses but the session was closed at %v", pattern, th, obs.closedAt)
		} else {
			if stopped && len(obs.pingTimes) != expectPings {
				fail("pings-after-method-not-found", "pattern %q: keep-alive continued after method-not-found: %d pings, want %d", pattern, len(obs.pingTimes), expectPings)
			}
			// still usable
			if err := ping(); err != nil {
				fail("live-session-unusable", "pattern %q: session open at the horizon but a ping fails: %v", pattern, err)
			}
		}
	}
	// pings are issued on the interval grid while keep-alive runs
	for i, pt := range obs.pingTimes {
		if pt != time.Duration(i+1)*interval {
			fail("ping-off-schedule", "pattern %q: ping %d seen at %v, want %v", pattern, i+1, pt, time.Duration(i+1)*interval)
			break
		}
	}
}

// c13LateCase: pings whose write overruns (fate 'L': the write ignores its context for 1.6
// intervals, then goes through and is answered - too late, that ping is a miss) between pings that
// are answered at once ('A').  The loop comes back late and finds a stale tick waiting; the ping it
// sends then is a ping like any other: it reaches the peer and its answer counts.  So the session is
// closed iff `threshold` L's come in a row.
func c13LateCase(side string, threshold int, pattern string) (bad, sig string) {
	fail := func(s, format string, a ...any) {
		if bad == "" {
			sig, bad = "c13 late-tick "+s, fmt.Sprintf(format, a...)
		}
	}
	const interval = 2 * time.Second
	ctx := context.Background()
	ct, st := NewInMemoryTransports()
	peerRWC := ct.rwc
	k, seen := 0, 0
	horizonReached := false
	sessT := &c13Transport{Transport: st, late: interval * 16 / 10, onPing: func() byte {
		act := byte('A')
		if !horizonReached && k < len(pattern) {
			act = pattern[k]
		}
		k++
		return act
	}}
	handshake := make(chan struct{})
	go func() {
		sc := bufio.NewScanner(peerRWC)
		sc.Buffer(make([]byte, 1<<20), 1<<20)
		write := func(s string) { io.WriteString(peerRWC, s+"\n") }
		if side == "server" {
			write(`{"jsonrpc":"2.0","id":"init","method":"initialize","params":{"protocolVersion":"2025-06-18","capabilities":{},"clientInfo":{"name":"peer","version":"1"}}}`)
		}
		for sc.Scan() {
			var m struct {
				ID     json.RawMessage `json:"id"`
				Method string          `json:"method"`
			}
			if json.Unmarshal(sc.Bytes(), &m) != nil {
				continue
			}
			switch {
			case m.Method == "" && string(m.ID) == `"init"`:
				write(`{"jsonrpc":"2.0","method":"notifications/initialized","params":{}}`)
				close(handshake)
			case m.Method == "initialize":
				write(`{"jsonrpc":"2.0","id":` + string(m.ID) + `,"result":{"protocolVersion":"2025-06-18","capabilities":{},"serverInfo":{"name":"peer","version":"1"}}}`)
			case m.Method == "ping":
				seen++
				write(`{"jsonrpc":"2.0","id":` + string(m.ID) + `,"result":{}}`)
			}
		}
	}()
	var sess c13Session
	if side == "server" {
		s := NewServer(&Implementation{Name: "srv", Version: "1"}, &ServerOptions{KeepAlive: interval, KeepAliveFailureThreshold: threshold, Logger: quietLogger})
		ss, err := s.Connect(ctx, sessT, nil)
		if err != nil {
			return "connect: " + err.Error(), "c13 connect-failed"
		}
		sess = ss
		<-handshake
	} else {
		c := NewClient(&Implementation{Name: "cli", Version: "1"}, &ClientOptions{KeepAlive: interval, KeepAliveFailureThreshold: threshold, Logger: quietLogger})
		cs, err := c.Connect(ctx, sessT, &ClientSessionOptions{ProtocolVersion: "2025-06-18"})
		if err != nil {
			return "connect: " + err.Error(), "c13 connect-failed"
		}
		sess = cs
	}
	closed := false
	go func() { sess.Wait(); closed = true }()
	time.Sleep(time.Duration(3*len(pattern)+4) * interval)
	synctest.Wait()
	horizonReached = true
	run, maxRun := 0, 0
	for _, c := range pattern {
		if c == 'L' {
			run++
			maxRun = max(maxRun, run)
		} else {
			run = 0
		}
	}
	th := max(threshold, 1)
	switch {
	case maxRun >= th && !closed:
		fail(fmt.Sprintf("dead-session-not-closed th=%d", threshold), "fates %q: %d pings in a row overran their deadline but the session is still open", pattern, maxRun)
	case maxRun < th && closed:
		fail(fmt.Sprintf("live-session-closed th=%d", threshold), "fates %q (L = the ping's write takes 1.6 intervals and is then answered, A = answered at once): never %d misses in a row, yet keep-alive closed the session; the peer saw %d pings", pattern, th, seen)
	case maxRun < th:
		pctx, cancel := context.WithTimeout(ctx, interval)
		if err := sess.Ping(pctx, nil); err != nil {
			fail("live-session-unusable", "fates %q: session open but a ping fails: %v", pattern, err)
		}
		cancel()
	}
	sess.Close()
	peerRWC.Close()
	synctest.Wait()
	return bad, sig
}

// c13HangUpCase: the peer hangs up (closes the connection) at a moment of its own choosing, not in
// answer to a ping.  The session ends by itself - its Wait returns - and keep-alive ends with it, at
// once and silently: no goroutine or ticker stays behind waiting for further ticks, although nobody
// calls Close.
func c13HangUpCase(side string, threshold int, after time.Duration) (bad, sig string) {
	fail := func(s, format string, a ...any) {
		if bad == "" {
			sig, bad = "c13 hang-up "+s, fmt.Sprintf(format, a...)
		}
	}
	const interval = 4 * time.Second
	ctx := context.Background()
	base := runtime.NumGoroutine()
	ct, st := NewInMemoryTransports()
	peerRWC := ct.rwc
	handshake := make(chan struct{})
	go func() {
		sc := bufio.NewScanner(peerRWC)
		sc.Buffer(make([]byte, 1<<20), 1<<20)
		write := func(s string) { io.WriteString(peerRWC, s+"\n") }
		if side == "server" {
			write(`{"jsonrpc":"2.0","id":"init","method":"initialize","params":{"protocolVersion":"2025-06-18","capabilities":{},"clientInfo":{"name":"peer","version":"1"}}}`)
		}
		for sc.Scan() {
			var m struct {
				ID     json.RawMessage `json:"id"`
				Method string          `json:"method"`
			}
			if json.Unmarshal(sc.Bytes(), &m) != nil {
				continue
			}
			switch {
			case m.Method == "" && string(m.ID) == `"init"`:
				write(`{"jsonrpc":"2.0","method":"notifications/initialized","params":{}}`)
				close(handshake)
			case m.Method == "initialize":
				write(`{"jsonrpc":"2.0","id":` + string(m.ID) + `,"result":{"protocolVersion":"2025-06-18","capabilities":{},"serverInfo":{"name":"peer","version":"1"}}}`)
			case m.Method == "ping":
				write(`{"jsonrpc":"2.0","id":` + string(m.ID) + `,"result":{}}`)
			}
		}
	}()
	var sess c13Session
	if side == "server" {
		s := NewServer(&Implementation{Name: "srv", Version: "1"}, &ServerOptions{KeepAlive: interval, KeepAliveFailureThreshold: threshold, Logger: quietLogger})
		ss, err := s.Connect(ctx, st, nil)
		if err != nil {
			return "connect: " + err.Error(), "c13 connect-failed"
		}
		sess = ss
		<-handshake
	} else {
		c := NewClient(&Implementation{Name: "cli", Version: "1"}, &ClientOptions{KeepAlive: interval, KeepAliveFailureThreshold: threshold, Logger: quietLogger})
		cs, err := c.Connect(ctx, st, &ClientSessionOptions{ProtocolVersion: "2025-06-18"})
		if err != nil {
			return "connect: " + err.Error(), "c13 connect-failed"
		}
		sess = cs
	}
	waited := false
	go func() { sess.Wait(); waited = true }()
	time.Sleep(after)
	synctest.Wait()
	peerRWC.Close() // the peer is gone
	synctest.Wait()
	switch {
	case !waited:
		fail("session-outlives-connection", "the peer closed the connection but the session's Wait has not returned")
	case runtime.NumGoroutine()-base > 0:
		buf := make([]byte, 1<<15)
		buf = buf[:runtime.Stack(buf, true)]
		fail("keepalive-outlives-session "+side, "the peer hung up and the session has ended (Wait returned), but %d goroutine(s) are still there although no time has passed since - keep-alive has nothing left to watch:\n%s", runtime.NumGoroutine()-base, buf)
	}
	sess.Close()
	synctest.Wait()
	return bad, sig
}

func TestVerifC13(t *testing.T) {
	env := verifx.LoadEnv("C13")
	res := env.NewResult()
	cases := env.NewCases(res, "ping-outcome-patterns")
	var gen func(prefix string, n int, f func(string))
	gen = func(prefix string, n int, f func(string)) {
		f(prefix)
		if n == 0 {
			return
		}
		for _, c := range c13Symbols {
			if strings.ContainsAny(prefix, "MB") {
				continue // terminal symbols end the pattern
			}
			gen(prefix+string(c), n-1, f)
		}
	}
	// (server+pending-no-initialize / no-initialized: the peer has connected but never sends initialize,
	// or never follows it with notifications/initialized - a peer that hangs or dies during the handshake
	// is a peer that stops answering like any other)
	for _, side := range []string{"server", "client", "server+pending-call", "client+pending-call", "server+pending-handler", "server+pending-no-initialize", "server+pending-no-initialized", "client+pending-connect-ctx-released", "server+pending-connect-ctx-released", "server+pending-restored-state", "server+pending-restored-empty-state"} {
		pendingKind := ""
		if i := strings.Index(side, "+pending-"); i >= 0 {
			pendingKind = side[i+len("+pending-"):]
		}
		pending := pendingKind != ""
		for _, interval := range []time.Duration{2 * time.Second, 7 * time.Second} {
			if pending && interval != 2*time.Second {
				continue
			}
			for th := 0; th <= 3; th++ {
				gen("", th+2, func(p string) {
					idx, mine := cases.Next()
					if !mine {
						return
					}
					var obs c13Obs
					var bad, sig string
					func() {
						defer func() {
							if r := recover(); r != nil {
								bad, sig = fmt.Sprintf("pattern %q: panic / bubble failure: %v", p, r), "c13 panic-or-leak"
							}
						}()
						synctest.Test(t, func(t *testing.T) {
							obs, bad, sig = c13Case(strings.Split(side, "+")[0], interval, th, p, pendingKind)
						})
					}()
					desc := func() string {
						return fmt.Sprintf("side=%s interval=%v threshold=%d pattern=%q", side, interval, th, p)
					}
					if bad != "" {
						cases.Violate(idx, sig, bad+" ["+desc()+"]", len(p)+1)
						return
					}
					cls := "open"
					if obs.closedAt >= 0 {
						cls = fmt.Sprintf("closed-after-%d-pings", len(obs.pingTimes))
					}
					cases.Record(idx, fmt.Sprintf("th=%d %s", th, cls), len(p)+1, desc)
				})
			}
		}
	}
	hang := env.NewCases(res, "peer-hangs-up")
	for _, side := range []string{"server", "client"} {
		for _, th := range []int{1, 2, 3} {
			for _, after := range []time.Duration{time.Second, 4 * time.Second, 5 * time.Second, 9 * time.Second} {
				idx, mine := hang.Next()
				if !mine {
					continue
				}
				var bad, sig string
				desc := fmt.Sprintf("side=%s threshold=%d interval=4s peer hangs up after %v", side, th, after)
				func() {
					defer func() {
						if r := recover(); r != nil && bad == "" {
							bad, sig = fmt.Sprintf("panic / bubble failure: %v", r), "c13 hang-up panic-or-leak"
						}
					}()
					synctest.Test(t, func(t *testing.T) { bad, sig = c13HangUpCase(side, th, after) })
				}()
				if bad != "" {
					hang.Violate(idx, sig, bad+" ["+desc+"]", 2)
					continue
				}
				hang.Record(idx, "ended with the session", 2, func() string { return desc })
			}
		}
	}
	late := env.NewCases(res, "late-tick-patterns")
	var genL func(p string, n int, f func(string))
	genL = func(p string, n int, f func(string)) {
		f(p)
		if n == 0 {
			return
		}
		for _, c := range "AL" {
			genL(p+string(c), n-1, f)
		}
	}
	for _, side := range []string{"server", "client"} {
		for th := 1; th <= 3; th++ {
			genL("", 4, func(p string) {
				idx, mine := late.Next()
				if !mine {
					return
				}
				var bad, sig string
				func() {
					defer func() {
						if r := recover(); r != nil {
							bad, sig = fmt.Sprintf("fates %q: panic / bubble failure: %v", p, r), "c13 late-tick panic-or-leak"
						}
					}()
					synctest.Test(t, func(t *testing.T) { bad, sig = c13LateCase(side, th, p) })
				}()
				desc := fmt.Sprintf("side=%s threshold=%d fates=%q", side, th, p)
				if bad != "" {
					late.Violate(idx, sig, bad+" ["+desc+"]", len(p)+1)
					return
				}
				late.Record(idx, fmt.Sprintf("late th=%d", th), len(p)+1, func() string { return desc })
			})
		}
	}
	env.Finish(res)
}
