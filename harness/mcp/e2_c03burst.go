package mcp

// C03, bursts of one notifying method in (virtual) time.  One goroutine calls a notifying method k
// times - Server.ResourceUpdated for one URI towards a subscribed session, or ServerSession.NotifyProgress /
// Log, or on the other side ClientSession.NotifyProgress - with a chosen gap between the calls, and then,
// after a chosen pause, sends one more message of another kind.  Every notifying method that returned nil
// has handed its notification over: the peer observes the k notifications and then the later message, in
// the order sent, each notification's handler finished before the next message's starts.  The gaps sit
// around the 10 ms the server uses to coalesce feature-list changes - no such window may apply to a
// notifying method.

import (
	"context"
	"fmt"
	"strings"
	"testing"
	"testing/synctest"
	"time"

	"github.com/modelcontextprotocol/go-sdk/internal/verifx"
)

func c03BurstCase(first string, k int, gap, pause time.Duration, later, version string, handlerTakes time.Duration) (obs, sig, msg string) {
	desc := fmt.Sprintf("%d x %s %v apart, then after %v %s; protocol %s; handlers take %v", k, first, gap, pause, later, version, handlerTakes)
	fail := func(s, format string, a ...any) (string, string, string) {
		return "", "c03 timed-bursts " + s, fmt.Sprintf(format, a...) + " [" + desc + "]"
	}
	ctx := context.Background()
	const uri = "file:///r"
	var events []string
	mark := func(what string) {
		events = append(events, what+":start")
		time.Sleep(handlerTakes)
		events = append(events, what+":end")
	}
	s := NewServer(&Implementation{Name: "srv", Version: "1"}, &ServerOptions{Logger: quietLogger,
		SubscribeHandler:   func(context.Context, *SubscribeRequest) error { return nil },
		UnsubscribeHandler: func(context.Context, *UnsubscribeRequest) error { return nil },
		ProgressNotificationHandler: func(_ context.Context, r *ProgressNotificationServerRequest) {
			mark(r.Params.Message)
		}})
	s.AddResource(&Resource{URI: uri, Name: "r"}, func(context.Context, *ReadResourceRequest) (*ReadResourceResult, error) {
		return &ReadResourceResult{Contents: []*ResourceContents{{URI: uri, Text: "x"}}}, nil
	})
	AddTool(s, &Tool{Name: "probe"}, func(ctx context.Context, r *CallToolRequest, in struct{}) (*CallToolResult, any, error) {
		events = append(events, "later:start")
		return &CallToolResult{Content: []Content{&TextContent{Text: "ok"}}}, nil, nil
	})
	nUpdated := 0
	c := NewClient(&Implementation{Name: "cli", Version: "1"}, &ClientOptions{Logger: quietLogger,
		ResourceUpdatedHandler: func(context.Context, *ResourceUpdatedNotificationRequest) {
			nUpdated++
			mark(fmt.Sprintf("n%d", nUpdated))
		},
		ProgressNotificationHandler: func(_ context.Context, r *ProgressNotificationClientRequest) { mark(r.Params.Message) },
		CreateMessageHandler: func(context.Context, *CreateMessageRequest) (*CreateMessageResult, error) {
			events = append(events, "later:start")
			return &CreateMessageResult{Model: "m", Role: "assistant", Content: &TextContent{Text: "ok"}}, nil
		},
		LoggingMessageHandler: func(_ context.Context, r *LoggingMessageRequest) {
			mark(fmt.Sprint(r.Params.Data))
		}})
	ct, st := NewInMemoryTransports()
	ss, err := s.Connect(ctx, st, nil)
	if err != nil {
		return fail("setup", "%v", err)
	}
	cs, err := c.Connect(ctx, ct, &ClientSessionOptions{ProtocolVersion: version})
	if err != nil {
		return fail("setup", "%v", err)
	}
	defer func() { cs.Close(); ss.Wait() }()
	if err := cs.Subscribe(ctx, &SubscribeParams{URI: uri}); err != nil {
		return fail("setup", "subscribe: %v", err)
	}
	if err := cs.SetLoggingLevel(ctx, &SetLoggingLevelParams{Level: "debug"}); err != nil && version != "2026-07-28" {
		return fail("setup", "setLevel: %v", err)
	}
	time.Sleep(time.Second)
	synctest.Wait()
	events = nil
	send := func(kind, name string) error {
		switch kind {
		case "Server.ResourceUpdated":
			return s.ResourceUpdated(ctx, &ResourceUpdatedNotificationParams{URI: uri})
		case "ServerSession.NotifyProgress":
			return ss.NotifyProgress(ctx, &ProgressNotificationParams{ProgressToken: "p", Progress: 1, Message: name})
		case "ServerSession.Log":
			return ss.Log(ctx, &LoggingMessageParams{Level: "error", Data: name})
		case "ServerSession.CreateMessage":
			_, err := ss.CreateMessage(ctx, &CreateMessageParams{MaxTokens: 5, Messages: []*SamplingMessage{{Role: "user", Content: &TextContent{Text: "hi"}}}})
			return err
		case "ClientSession.NotifyProgress":
			return cs.NotifyProgress(ctx, &ProgressNotificationParams{ProgressToken: "p", Progress: 1, Message: name})
		case "ClientSession.CallTool":
			_, err := cs.CallTool(ctx, &CallToolParams{Name: "probe", Arguments: map[string]any{}})
			return err
		}
		return fmt.Errorf("harness: unknown kind %s", kind)
	}
	var want []string
	for i := 1; i <= k; i++ {
		name := fmt.Sprintf("n%d", i)
		if err := send(first, name); err != nil {
			return fail("send-failed", "%s #%d: %v", first, i, err)
		}
		want = append(want, name+":start", name+":end")
		if i < k {
			time.Sleep(gap)
		}
	}
	time.Sleep(pause)
	if err := send(later, "later"); err != nil {
		return fail("send-failed", "%s: %v", later, err)
	}
	want = append(want, "later:start")
	time.Sleep(time.Minute)
	synctest.Wait()
	got := []string{}
	for _, e := range events {
		if e != "later:end" {
			got = append(got, e)
		}
	}
	if strings.Join(got, ",") != strings.Join(want, ",") {
		s := "order-or-loss"
		li := -1
		for i, e := range got {
			if e == "later:start" {
				li = i
			}
		}
		if li >= 0 && li < len(got)-1 {
			s = "later-message-observed-first"
		} else if len(got) < len(want) {
			s = "notification-lost"
		}
		return fail(s, "the peer observed %v, sent: %v", got, want)
	}
	return fmt.Sprintf("%s then %s in order", first, later), "", ""
}

func TestVerifC03Bursts(t *testing.T) {
	env := verifx.LoadEnv("C03")
	res := env.NewResult()
	cases := env.NewCases(res, "timed-bursts/one-notifying-method-then-another-message")
	ms := time.Millisecond
	type pair struct{ first, later string }
	pairs := []pair{
		{"Server.ResourceUpdated", "ServerSession.NotifyProgress"},
		{"Server.ResourceUpdated", "ServerSession.Log"},
		{"Server.ResourceUpdated", "ServerSession.CreateMessage"},
		{"ServerSession.NotifyProgress", "ServerSession.Log"},
		{"ServerSession.Log", "ServerSession.NotifyProgress"},
		{"ServerSession.NotifyProgress", "ServerSession.CreateMessage"},
		{"ClientSession.NotifyProgress", "ClientSession.CallTool"},
	}
	for _, p := range pairs {
		for _, version := range []string{"2025-06-18", "2026-07-28"} {
			if version == "2026-07-28" && (p.later == "ServerSession.CreateMessage" || strings.Contains(p.first+p.later, "Log")) {
				continue // server-initiated requests and log levels are not part of that protocol generation
			}
			for k := 1; k <= 3; k++ {
				for _, gap := range []time.Duration{0, ms, 9 * ms, 10 * ms, 11 * ms, 100 * ms} {
					if k == 1 && gap != 0 {
						continue
					}
					for _, pause := range []time.Duration{0, ms, 10 * ms, 20 * ms} {
						for _, takes := range []time.Duration{0, 50 * ms} {
							idx, mine := cases.Next()
							if !mine {
								continue
							}
							var obs, sig, msg string
							func() {
								defer func() {
									if r := recover(); r != nil && sig == "" {
										sig, msg = "c03 timed-bursts panic-or-leak", fmt.Sprintf("%v [%s then %s]", r, p.first, p.later)
									}
								}()
								synctest.Test(t, func(t *testing.T) { obs, sig, msg = c03BurstCase(p.first, k, gap, pause, p.later, version, takes) })
							}()
							if sig != "" {
								cases.Violate(idx, sig, msg, k+1)
								continue
							}
							cases.Record(idx, obs, k+1, func() string {
								return fmt.Sprintf("%dx %s gap=%v pause=%v then %s, %s, handlers %v", k, p.first, gap, pause, p.later, version, takes)
							})
						}
					}
				}
			}
		}
	}
	env.Finish(res)
}
