package mcp

// C17: paginated listing returns every registered feature exactly once, stably ordered.
// Choice-tree enumeration: feature kind x page size x initial subset of 5 names x every
// placement of <=2 mutations (add/remove/replace) in the gaps between page fetches, over a
// real client/server session; plus a case enumeration of malformed and stale cursors.

import (
	"context"
	"encoding/base64"
	"errors"
	"fmt"
	"iter"
	"math"
	"slices"
	"sort"
	"strings"
	"testing"
	"testing/synctest"
	"time"

	"github.com/modelcontextprotocol/go-sdk/internal/verifx"
	"github.com/modelcontextprotocol/go-sdk/jsonrpc"
)

// The first name is the empty string: a prompt may be registered under it (its uid is then ""),
// the other kinds register it as "a" (tool names and URIs may not be empty).
// Upper- and lower-case names are mixed: the one stable order is the byte order of the ids.
var c17Names = []string{"", "b", "C", "d", "E"}

func c17Alias(n string) string {
	if n == "" {
		return "a"
	}
	return n
}

type c17Kind struct {
	name   string
	id     func(n string) string
	add    func(s *Server, n string, version int)
	remove func(s *Server, n string)
	list   func(ctx context.Context, cs *ClientSession, cursor string) (ids []string, next string, err error)
	iter   func(ctx context.Context, cs *ClientSession) ([]string, error)
}

// c17Long: the name "b" (which has successors in the listing order) stands for a long one - as long as a tool name may be (128 characters), and
// 300 characters for the other kinds (URIs and prompt names have no limit): cursors are made from ids.
func c17Long(kind, n string) string {
	if n != "b" {
		return n
	}
	if kind == "tools" {
		return "b" + strings.Repeat("x", 127)
	}
	return "b" + strings.Repeat("x", 299)
}

func c17Kinds() []c17Kind {
	ks := c17KindsRaw()
	for i := range ks {
		k := ks[i]
		alias := c17Alias
		if k.name == "prompts" {
			alias = func(n string) string { return n }
		}
		ks[i].id = func(n string) string { return k.id(c17Long(k.name, alias(n))) }
		ks[i].add = func(s *Server, n string, v int) { k.add(s, c17Long(k.name, alias(n)), v) }
		ks[i].remove = func(s *Server, n string) { k.remove(s, c17Long(k.name, alias(n))) }
	}
	return ks
}

// c17Ranges uses a client iterator the ways a caller may: the same iter.Seq2 ranged twice, and a
// second iterator made from the same params value.  Each must yield the full sequence.
func c17Ranges[T any](mk func() iter.Seq2[*T, error], id func(*T) string) ([]string, error) {
	var first []string
	seq := mk()
	for round, sq := range []iter.Seq2[*T, error]{seq, seq, mk()} {
		var ids []string
		for t, err := range sq {
			if err != nil {
				return ids, err
			}
			ids = append(ids, id(t))
		}
		if round == 0 {
			first = ids
		} else if !slices.Equal(ids, first) {
			return ids, fmt.Errorf("%s yielded %v, the first ranging yielded %v", []string{"", "ranging the same iterator again", "a second iterator made from the same params"}[round], ids, first)
		}
	}
	return first, nil
}

func c17KindsRaw() []c17Kind {
	return []c17Kind{
		{
			name: "tools", id: func(n string) string { return n },
			add: func(s *Server, n string, v int) {
				s.AddTool(&Tool{Name: n, Description: fmt.Sprint("v", v), InputSchema: map[string]any{"type": "object"}}, func(context.Context, *CallToolRequest) (*CallToolResult, error) {
					return &CallToolResult{}, nil
				})
			},
			remove: func(s *Server, n string) { s.RemoveTools(n) },
			list: func(ctx context.Context, cs *ClientSession, cursor string) ([]string, string, error) {
				r, err := cs.ListTools(ctx, &ListToolsParams{Cursor: cursor})
				if err != nil {
					return nil, "", err
				}
				var ids []string
				for _, t := range r.Tools {
					ids = append(ids, t.Name)
				}
				return ids, r.NextCursor, nil
			},
			iter: func(ctx context.Context, cs *ClientSession) ([]string, error) {
				params := &ListToolsParams{}
				return c17Ranges(func() iter.Seq2[*Tool, error] { return cs.Tools(ctx, params) }, func(t *Tool) string { return t.Name })
			},
		},
		{
			name: "prompts", id: func(n string) string { return n },
			add: func(s *Server, n string, v int) {
				s.AddPrompt(&Prompt{Name: n, Description: fmt.Sprint("v", v)}, func(context.Context, *GetPromptRequest) (*GetPromptResult, error) {
					return &GetPromptResult{}, nil
				})
			},
			remove: func(s *Server, n string) { s.RemovePrompts(n) },
			list: func(ctx context.Context, cs *ClientSession, cursor string) ([]string, string, error) {
				r, err := cs.ListPrompts(ctx, &ListPromptsParams{Cursor: cursor})
				if err != nil {
					return nil, "", err
				}
				var ids []string
				for _, t := range r.Prompts {
					ids = append(ids, t.Name)
				}
				return ids, r.NextCursor, nil
			},
			iter: func(ctx context.Context, cs *ClientSession) ([]string, error) {
				params := &ListPromptsParams{}
				return c17Ranges(func() iter.Seq2[*Prompt, error] { return cs.Prompts(ctx, params) }, func(t *Prompt) string { return t.Name })
			},
		},
		{
			name: "resources", id: func(n string) string { return "file:///" + n },
			add: func(s *Server, n string, v int) {
				s.AddResource(&Resource{URI: "file:///" + n, Name: n, Description: fmt.Sprint("v", v)}, func(context.Context, *ReadResourceRequest) (*ReadResourceResult, error) {
					return &ReadResourceResult{}, nil
				})
			},
			remove: func(s *Server, n string) { s.RemoveResources("file:///" + n) },
			list: func(ctx context.Context, cs *ClientSession, cursor string) ([]string, string, error) {
				r, err := cs.ListResources(ctx, &ListResourcesParams{Cursor: cursor})
				if err != nil {
					return nil, "", err
				}
				var ids []string
				for _, t := range r.Resources {
					ids = append(ids, t.URI)
				}
				return ids, r.NextCursor, nil
			},
			iter: func(ctx context.Context, cs *ClientSession) ([]string, error) {
				params := &ListResourcesParams{}
				return c17Ranges(func() iter.Seq2[*Resource, error] { return cs.Resources(ctx, params) }, func(t *Resource) string { return t.URI })
			},
		},
		{
			name: "resource-templates", id: func(n string) string { return "file:///" + n + "/{x}" },
			add: func(s *Server, n string, v int) {
				s.AddResourceTemplate(&ResourceTemplate{URITemplate: "file:///" + n + "/{x}", Name: n, Description: fmt.Sprint("v", v)}, func(context.Context, *ReadResourceRequest) (*ReadResourceResult, error) {
					return &ReadResourceResult{}, nil
				})
			},
			remove: func(s *Server, n string) { s.RemoveResourceTemplates("file:///" + n + "/{x}") },
			list: func(ctx context.Context, cs *ClientSession, cursor string) ([]string, string, error) {
				r, err := cs.ListResourceTemplates(ctx, &ListResourceTemplatesParams{Cursor: cursor})
				if err != nil {
					return nil, "", err
				}
				var ids []string
				for _, t := range r.ResourceTemplates {
					ids = append(ids, t.URITemplate)
				}
				return ids, r.NextCursor, nil
			},
			iter: func(ctx context.Context, cs *ClientSession) ([]string, error) {
				params := &ListResourceTemplatesParams{}
				return c17Ranges(func() iter.Seq2[*ResourceTemplate, error] { return cs.ResourceTemplates(ctx, params) }, func(t *ResourceTemplate) string { return t.URITemplate })
			},
		},
	}
}

type c17Env struct {
	s  *Server
	cs *ClientSession
	ss *ServerSession
}

var c17PageSizes = []int{1, 2, 3, 4, 5, 6, math.MaxInt}

var c17Sessions = map[string]*c17Env{} // one long-lived session per (kind, page size): states reached from elsewhere, not only from the initial state

func c17Session(kind string, pageSize int) (*c17Env, error) {
	key := fmt.Sprintf("%s/%d", kind, pageSize)
	if e := c17Sessions[key]; e != nil {
		return e, nil
	}
	ctx := context.Background()
	s := NewServer(&Implementation{Name: "srv", Version: "1"}, &ServerOptions{PageSize: pageSize, Logger: quietLogger})
	ct, st := NewInMemoryTransports()
	ss, err := s.Connect(ctx, st, nil)
	if err != nil {
		return nil, err
	}
	c := NewClient(&Implementation{Name: "cli", Version: "1"}, &ClientOptions{Logger: quietLogger})
	cs, err := c.Connect(ctx, ct, &ClientSessionOptions{ProtocolVersion: "2025-06-18"})
	if err != nil {
		return nil, err
	}
	e := &c17Env{s: s, cs: cs, ss: ss}
	c17Sessions[key] = e
	return e, nil
}

func c17Traversal(ch *verifx.Chooser) (obs, bad, sig string, steps int) {
	fail := func(s, format string, a ...any) {
		if bad == "" {
			sig, bad = "c17 "+s, fmt.Sprintf(format, a...)
		}
	}
	defer func() {
		if r := recover(); r != nil {
			fail("panic", "panic: %v", r)
		}
	}()
	ctx := context.Background()
	kinds := c17Kinds()
	kind := kinds[ch.Free("kind", len(kinds))]
	// page sizes: small ones, the number of items (5) and its neighbours, and the largest value the option admits
	pageSize := c17PageSizes[ch.Free("page-size", len(c17PageSizes))]
	subset := ch.Free("initial-subset", 32)
	env, err := c17Session(kind.name, pageSize)
	if err != nil {
		return "", "session: " + err.Error(), "c17 session", 0
	}
	// reset to the initial subset
	registered := map[string]bool{}
	for i, n := range c17Names {
		kind.remove(env.s, n)
		if subset&(1<<i) != 0 {
			kind.add(env.s, n, 0)
			registered[kind.id(n)] = true
		}
	}
	always := map[string]bool{} // registered throughout the traversal
	ever := map[string]bool{}   // registered at some point during the traversal
	for id := range registered {
		always[id], ever[id] = true, true
	}
	mutations := 0
	var seen []string
	cursor := ""
	pages := 0
	var desc []string
	for {
		ids, next, err := kind.list(ctx, env.cs, cursor)
		steps++
		pages++
		if err != nil {
			fail("list-error", "%s page %d (cursor issued by the server) failed: %v [%s]", kind.name, pages, err, strings.Join(desc, " "))
			break
		}
		if len(ids) > pageSize {
			fail("page-too-large", "%s page %d has %d items, page size %d", kind.name, pages, len(ids), pageSize)
		}
		seen = append(seen, ids...)
		desc = append(desc, fmt.Sprintf("page%v", ids))
		if next == "" {
			break
		}
		if pages > 12 {
			fail("traversal-does-not-end", "%s: more than 12 pages for at most 5 items [%s]", kind.name, strings.Join(desc, " "))
			break
		}
		cursor = next
		// between two page fetches: up to 2 mutations over the whole traversal
		for mutations < 2 {
			m := ch.Choose("mutation", 1+3*len(c17Names), 1)
			if m == 0 {
				break
			}
			mutations++
			n := c17Names[(m-1)%len(c17Names)]
			id := kind.id(n)
			switch (m - 1) / len(c17Names) {
			case 0: // add (or replace if present)
				kind.add(env.s, n, mutations)
				registered[id], ever[id] = true, true
				desc = append(desc, "add("+n+")")
			case 1: // remove
				kind.remove(env.s, n)
				delete(registered, id)
				delete(always, id)
				desc = append(desc, "remove("+n+")")
			case 2: // replace only if present
				if registered[id] {
					kind.add(env.s, n, 10+mutations)
				}
				desc = append(desc, "replace("+n+")")
			}
			steps++
		}
	}
	// ---- oracle
	for i := 1; i < len(seen); i++ {
		if seen[i-1] >= seen[i] {
			fail("not-strictly-ordered", "%s: items are not in one stable order without duplicates: %v [%s]", kind.name, seen, strings.Join(desc, " "))
		}
	}
	for id := range always {
		if n := len(slices.DeleteFunc(slices.Clone(seen), func(s string) bool { return s != id })); n != 1 {
			fail("registered-item-not-exactly-once", "%s: %s stayed registered throughout but appears %d times: %v [%s]", kind.name, id, n, seen, strings.Join(desc, " "))
		}
	}
	for _, id := range seen {
		if !ever[id] {
			fail("phantom-item", "%s: %s was never registered during the traversal but was listed [%s]", kind.name, id, strings.Join(desc, " "))
		}
	}
	if mutations == 0 && bad == "" {
		// no mutation: exact set, and the client iterator yields the same sequence
		if len(seen) != len(registered) {
			fail("wrong-set", "%s: listed %v, registered %d items", kind.name, seen, len(registered))
		}
		it, err := kind.iter(ctx, env.cs)
		steps++
		if err != nil || !slices.Equal(it, seen) {
			fail("iterator-differs", "%s: iterator yielded %v (%v), manual paging %v", kind.name, it, err, seen)
		}
	}
	return fmt.Sprintf("%s ps=%d n=%d pages=%d mutations=%d", kind.name, pageSize, len(registered), pages, mutations), bad, sig, steps
}

func c17BadCursors(env *verifx.Env, res *verifx.Result) {
	cases := env.NewCases(res, "bad-cursors")
	ctx := context.Background()
	junkGob, _ := encodeCursor("zzz")
	raw, _ := base64.URLEncoding.DecodeString(junkGob)
	cursors := map[string]string{
		"bang":           "!",
		"not-base64":     "%%%",
		"base64-of-junk": base64.URLEncoding.EncodeToString([]byte("hello world")),
		"truncated-gob":  base64.URLEncoding.EncodeToString(raw[:len(raw)/2]),
		"gob-one-byte":   base64.URLEncoding.EncodeToString(raw[:1]),
		"4k-of-0xff":     base64.URLEncoding.EncodeToString([]byte(strings.Repeat("\xff", 4096))),
		"huge-length":    base64.URLEncoding.EncodeToString([]byte{0xf8, 0x7f, 0xff, 0xff, 0xff, 0xff, 0xff, 0xff, 0xff}),
		"std-base64":     "+/+/",
		"whitespace":     " ",
	}
	names := verifx.SortedKeys(cursors)
	for _, kind := range c17Kinds() {
		for _, name := range names {
			idx, mine := cases.Next()
			if !mine {
				continue
			}
			e, err := c17Session(kind.name, 2)
			if err != nil {
				cases.Violate(idx, "c17 session", err.Error(), 0)
				continue
			}
			for _, n := range c17Names {
				kind.add(e.s, n, 0)
			}
			_, _, err = kind.list(ctx, e.cs, cursors[name])
			var werr *jsonrpc.Error
			switch {
			case err == nil:
				cases.Violate(idx, "c17 bad-cursor-accepted "+name, fmt.Sprintf("%s: cursor %s (%q) was accepted", kind.name, name, cursors[name]), 1)
				continue
			case !errors.As(err, &werr) || werr.Code != jsonrpc.CodeInvalidParams:
				cases.Violate(idx, "c17 bad-cursor-wrong-error "+name, fmt.Sprintf("%s: cursor %s rejected with %v, want invalid params (-32602)", kind.name, name, err), 1)
				continue
			}
			// the server still answers
			if ids, _, err := kind.list(ctx, e.cs, ""); err != nil || len(ids) != 2 {
				cases.Violate(idx, "c17 server-dead-after-bad-cursor "+name, fmt.Sprintf("%s: after cursor %s a plain list returns %v, %v", kind.name, name, ids, err), 2)
				continue
			}
			cases.Record(idx, "rejected-32602", 2, func() string { return kind.name + " cursor=" + name })
		}
		// stale cursors: issued in an earlier state, pointing at an item that no longer exists
		idx, mine := cases.Next()
		if mine {
			e, _ := c17Session(kind.name, 2)
			for _, n := range c17Names {
				kind.add(e.s, n, 0)
			}
			_, next, err := kind.list(ctx, e.cs, "")
			if err != nil || next == "" {
				cases.Violate(idx, "c17 stale-setup", fmt.Sprintf("%s: %v", kind.name, err), 1)
				continue
			}
			// (page size 2: the cursor points at the second item in id order; the third comes next)
			byID := map[string]string{}
			var sortedIDs []string
			for _, n := range c17Names {
				byID[kind.id(n)] = n
				sortedIDs = append(sortedIDs, kind.id(n))
			}
			sort.Strings(sortedIDs)
			kind.remove(e.s, byID[sortedIDs[1]]) // the cursor's own item disappears
			ids, _, err := kind.list(ctx, e.cs, next)
			if err != nil || len(ids) == 0 || ids[0] != sortedIDs[2] {
				cases.Violate(idx, "c17 stale-cursor", fmt.Sprintf("%s: a cursor whose item was removed yields %v, %v; want the items after it", kind.name, ids, err), 3)
				continue
			}
			cases.Record(idx, "stale-cursor-continues", 3, func() string { return kind.name + " stale cursor" })
		}
	}
}

// c17Filtered: listings seen through a server-side receiving middleware that hides some of the
// registered items (per-user visibility) and leaves the cursors alone: pages may come out short or
// empty while carrying a next cursor.  Manual paging follows the cursors to the end; the client
// iterators yield the same sequence.
func c17Filtered(cases *verifx.Cases) {
	ctx := context.Background()
	for _, kind := range c17Kinds() {
		for _, pageSize := range []int{1, 2, 3} {
			for hidden := 0; hidden < 32; hidden++ {
				idx, mine := cases.Next()
				if !mine {
					continue
				}
				hide := map[string]bool{}
				for i, n := range c17Names {
					if hidden&(1<<i) != 0 {
						hide[kind.id(n)] = true
					}
				}
				s := NewServer(&Implementation{Name: "srv", Version: "1"}, &ServerOptions{PageSize: pageSize, Logger: quietLogger})
				s.AddReceivingMiddleware(func(next MethodHandler) MethodHandler {
					return func(ctx context.Context, method string, req Request) (Result, error) {
						res, err := next(ctx, method, req)
						switch r := res.(type) {
						case *ListToolsResult:
							r.Tools = slices.DeleteFunc(slices.Clone(r.Tools), func(t *Tool) bool { return hide[t.Name] })
						case *ListPromptsResult:
							r.Prompts = slices.DeleteFunc(slices.Clone(r.Prompts), func(t *Prompt) bool { return hide[t.Name] })
						case *ListResourcesResult:
							r.Resources = slices.DeleteFunc(slices.Clone(r.Resources), func(t *Resource) bool { return hide[t.URI] })
						case *ListResourceTemplatesResult:
							r.ResourceTemplates = slices.DeleteFunc(slices.Clone(r.ResourceTemplates), func(t *ResourceTemplate) bool { return hide[t.URITemplate] })
						}
						return res, err
					}
				})
				for _, n := range c17Names {
					kind.add(s, n, 0)
				}
				desc := fmt.Sprintf("%s page size %d, hidden %v", kind.name, pageSize, hide)
				ct, st := NewInMemoryTransports()
				ss, err := s.Connect(ctx, st, nil)
				if err != nil {
					cases.Violate(idx, "c17 session", err.Error(), 1)
					continue
				}
				cs, err := NewClient(&Implementation{Name: "cli", Version: "1"}, &ClientOptions{Logger: quietLogger}).Connect(ctx, ct, &ClientSessionOptions{ProtocolVersion: "2025-06-18"})
				if err != nil {
					cases.Violate(idx, "c17 session", err.Error(), 1)
					continue
				}
				var manual []string
				cursor, pages, bad := "", 0, ""
				for {
					ids, next, err := kind.list(ctx, cs, cursor)
					pages++
					if err != nil {
						bad = fmt.Sprintf("page %d failed: %v", pages, err)
						break
					}
					manual = append(manual, ids...)
					if next == "" || pages > 12 {
						break
					}
					cursor = next
				}
				it, iterErr := kind.iter(ctx, cs)
				cs.Close()
				ss.Wait()
				switch {
				case bad != "":
					cases.Violate(idx, "c17 filtered list-error", bad+" ["+desc+"]", pages)
				case len(manual) != 5-len(hide):
					cases.Violate(idx, "c17 filtered wrong-set", fmt.Sprintf("manual paging listed %v; %d of 5 items are visible [%s]", manual, 5-len(hide), desc), pages)
				case iterErr != nil || !slices.Equal(it, manual):
					cases.Violate(idx, "c17 filtered iterator-differs", fmt.Sprintf("the iterator yielded %v (%v), manual paging over %d pages %v [%s]", it, iterErr, pages, manual, desc), pages)
				default:
					cases.Record(idx, fmt.Sprintf("%s visible=%d", kind.name, len(manual)), pages, func() string { return desc })
				}
			}
		}
	}
}

// c17Configured: what gets listed does not depend on how the server is configured otherwise.  Every
// capability configuration a server may be given (none, list_changed switched off or on for every kind,
// the legacy Has* switches, resources with subscription support) x items registered before the session
// exists, one more added and one removed while it exists: manual paging lists exactly what is registered,
// the client iterator the same.
func c17Configured(t *testing.T, cases *verifx.Cases) {
	type cfg struct {
		name string
		mk   func() *ServerOptions
	}
	subH := func(context.Context, *SubscribeRequest) error { return nil }
	unsubH := func(context.Context, *UnsubscribeRequest) error { return nil }
	cfgs := []cfg{
		{"default", func() *ServerOptions { return &ServerOptions{} }},
		{"list_changed off", func() *ServerOptions {
			return &ServerOptions{Capabilities: &ServerCapabilities{Tools: &ToolCapabilities{}, Prompts: &PromptCapabilities{}, Resources: &ResourceCapabilities{}}}
		}},
		{"list_changed on", func() *ServerOptions {
			return &ServerOptions{Capabilities: &ServerCapabilities{Tools: &ToolCapabilities{ListChanged: true}, Prompts: &PromptCapabilities{ListChanged: true}, Resources: &ResourceCapabilities{ListChanged: true}}}
		}},
		{"empty capabilities", func() *ServerOptions { return &ServerOptions{Capabilities: &ServerCapabilities{}} }},
		{"logging only", func() *ServerOptions {
			return &ServerOptions{Capabilities: &ServerCapabilities{Logging: &LoggingCapabilities{}}}
		}},
		{"legacy Has* switches", func() *ServerOptions { return &ServerOptions{HasTools: true, HasPrompts: true, HasResources: true} }},
		{"resource subscriptions", func() *ServerOptions {
			return &ServerOptions{SubscribeHandler: subH, UnsubscribeHandler: unsubH, Capabilities: &ServerCapabilities{Resources: &ResourceCapabilities{Subscribe: true}}}
		}},
	}
	for _, kind := range c17Kinds() {
		for _, c := range cfgs {
			for _, pageSize := range []int{0, 2} {
				for _, version := range []string{"2025-06-18", "2026-07-28"} {
					for initial := 0; initial < 32; initial += 3 {
						idx, mine := cases.Next()
						if !mine {
							continue
						}
						var obs, sig, msg string
						func() {
							defer func() {
								if r := recover(); r != nil && sig == "" {
									sig, msg = "c17 configured panic-or-leak", fmt.Sprint(r)
								}
							}()
							synctest.Test(t, func(t *testing.T) {
								obs, sig, msg = c17ConfiguredCase(kind, c.name, c.mk(), pageSize, version, initial)
							})
						}()
						if sig != "" {
							cases.Violate(idx, sig, msg, 3)
							continue
						}
						cases.Record(idx, obs, 3, func() string {
							return fmt.Sprintf("%s %s page size %d %s initial=%05b", kind.name, c.name, pageSize, version, initial)
						})
					}
				}
			}
		}
	}
}

func c17ConfiguredCase(kind c17Kind, cname string, opts *ServerOptions, pageSize int, version string, initial int) (obs, sig, msg string) {
	ctx := context.Background()
	{
		{
			{
				{
					{

						opts.PageSize, opts.Logger = pageSize, quietLogger
						s := NewServer(&Implementation{Name: "srv", Version: "1"}, opts)
						want := map[string]bool{}
						for i, n := range c17Names {
							if initial&(1<<i) != 0 {
								kind.add(s, n, 0)
								want[kind.id(n)] = true
							}
						}
						desc := fmt.Sprintf("%s, server configured with %s, page size %d, protocol %s, initially %v", kind.name, cname, pageSize, version, want)
						ct, st := NewInMemoryTransports()
						ss, err := s.Connect(ctx, st, nil)
						if err != nil {
							return "", "c17 session", err.Error()
						}
						cs, err := NewClient(&Implementation{Name: "cli", Version: "1"}, &ClientOptions{Logger: quietLogger}).Connect(ctx, ct, &ClientSessionOptions{ProtocolVersion: version})
						if err != nil {
							return "", "c17 session", err.Error() + " [" + desc + "]"
						}
						bad := ""
						listAll := func(when string) {
							var manual []string
							cursor, pages := "", 0
							for bad == "" {
								ids, next, err := kind.list(ctx, cs, cursor)
								pages++
								if err != nil {
									bad = fmt.Sprintf("%s: page %d failed: %v", when, pages, err)
									return
								}
								manual = append(manual, ids...)
								if next == "" || pages > 12 {
									break
								}
								cursor = next
							}
							var reg []string
							for id := range want {
								reg = append(reg, id)
							}
							slices.Sort(reg)
							got := slices.Clone(manual)
							slices.Sort(got)
							if !slices.Equal(got, reg) {
								bad = fmt.Sprintf("%s: listed %v, registered %v", when, manual, reg)
								return
							}
							it, iterErr := kind.iter(ctx, cs)
							if iterErr != nil || !slices.Equal(it, manual) {
								bad = fmt.Sprintf("%s: the iterator yielded %v (%v), manual paging %v", when, it, iterErr, manual)
							}
						}
						listAll("registered before the session")
						// one more while the session exists (the first name that is not registered), one less
						for i, n := range c17Names {
							if initial&(1<<i) == 0 {
								kind.add(s, n, 0)
								want[kind.id(n)] = true
								break
							}
						}
						time.Sleep(time.Second) // (virtual: past the debounce timer)
						listAll("after one more was added")
						for i, n := range c17Names {
							if initial&(1<<i) != 0 {
								kind.remove(s, n)
								delete(want, kind.id(n))
								break
							}
						}
						time.Sleep(time.Second)
						listAll("after one was removed")
						cs.Close()
						ss.Wait()
						if bad != "" {
							return "", "c17 configured wrong-set " + cname, bad + " [" + desc + "]"
						}
						return fmt.Sprintf("%s %s ok", kind.name, cname), "", ""
					}
				}
			}
		}
	}
}

func TestVerifC17(t *testing.T) {
	env := verifx.LoadEnv("C17")
	res := env.NewResult()
	env.RunScenarios(res, []*verifx.Scenario{{
		Name: "traversals-with-mutations", Budget: 2,
		Exec: func(prefix []verifx.Point) *verifx.Outcome {
			ch := &verifx.Chooser{Prefix: prefix}
			obs, bad, sig, steps := c17Traversal(ch)
			return &verifx.Outcome{Trace: ch.Trace, Steps: steps, Obs: obs, Bad: bad, Sig: sig}
		},
	}})
	c17BadCursors(env, res)
	c17Filtered(env.NewCases(res, "filtered-listings"))
	c17Configured(t, env.NewCases(res, "server-configurations"))
	// a client that caches list pages (2026-07-28, positive TTL): a traversal begun after it has handled
	// the list-changed notification yields every registered item exactly once (the scenario is C18's)
	cached := env.NewCases(res, "cached-pages-after-list-changed")
	for _, k := range c18kKinds() {
		for _, ps := range []int{1, 2, 3} {
			idx, mine := cached.Next()
			if !mine {
				continue
			}
			var obs, sig, msg string
			func() {
				defer func() {
					if r := recover(); r != nil && sig == "" {
						sig, msg = "c17 cached-pages panic-or-leak", fmt.Sprint(r)
					}
				}()
				synctest.Test(t, func(t *testing.T) { obs, sig, msg = c18kPagedCase(k, "2026-07-28", 60000, ps) })
			}()
			if sig != "" {
				cached.Violate(idx, "c17"+strings.TrimPrefix(sig, "c18"), msg, 8)
				continue
			}
			cached.Record(idx, obs, 8, func() string { return fmt.Sprintf("%s page size %d", k.name, ps) })
		}
	}
	env.Finish(res)
}
