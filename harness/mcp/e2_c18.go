package mcp

// C18 (E2): resources/updated reaches exactly the sessions currently subscribed to the URI.
// Explicit-state search over subscribe / unsubscribe / update / close histories for two legacy
// sessions and one 2026-07-28 session, against a reference subscription set.

import (
	"context"
	"fmt"
	"net/http"
	"slices"
	"sort"
	"strings"
	"testing"
	"testing/synctest"

	"github.com/modelcontextprotocol/go-sdk/internal/verifx"
)

type c18rOp struct {
	kind string // subscribe, unsubscribe, update, close
	sess int
	uri  string
	name string
	// via: an update announced from inside a tool handler of session via-1, under that handler's context
	// (0: announced by the server outside any request)
	via int
}

func c18rOps() []c18rOp {
	var ops []c18rOp
	names := []string{"legacy-A", "legacy-B", "modern-C"}
	for i, n := range names {
		for _, u := range []string{"file:///r1", "file:///r2"} {
			ops = append(ops, c18rOp{kind: "subscribe", sess: i, uri: u, name: fmt.Sprintf("%s subscribes %s", n, u)})
			ops = append(ops, c18rOp{kind: "unsubscribe", sess: i, uri: u, name: fmt.Sprintf("%s unsubscribes %s", n, u)})
		}
		ops = append(ops, c18rOp{kind: "close", sess: i, name: n + " closes"})
	}
	ops = append(ops, c18rOp{kind: "update", uri: "file:///r1", name: "server: resource r1 updated"})
	ops = append(ops, c18rOp{kind: "update", uri: "file:///r2", name: "server: resource r2 updated"})
	// the same announcement made from inside a request handler, with the handler's context (a tool that
	// edits the resource): whose request it was has no bearing on who is told
	ops = append(ops, c18rOp{kind: "update", uri: "file:///r1", via: 1, name: "a tool called by legacy-A updates r1 (handler context)"})
	ops = append(ops, c18rOp{kind: "update", uri: "file:///r1", via: 3, name: "a tool called by modern-C updates r1 (handler context)"})
	// a subscription is to a URI, not to an entry of the resource list: taking the resource off the list
	// (and putting it back) neither ends nor changes anybody's subscription
	ops = append(ops, c18rOp{kind: "unpublish", uri: "file:///r1", name: "server: RemoveResources(r1)"})
	ops = append(ops, c18rOp{kind: "publish", uri: "file:///r1", name: "server: AddResource(r1) again"})
	return ops
}

func c18rRun(t *testing.T, ops []c18rOp, hist []int, transport string) (out verifx.SearchResult) {
	defer func() {
		if r := recover(); r != nil {
			out = verifx.SearchResult{Bad: fmt.Sprintf("panic / bubble failure: %v", r), Sig: "c18 resources panic-or-leak"}
		}
	}()
	synctest.Test(t, func(t *testing.T) { out = c18rInBubble(ops, hist, transport) })
	return out
}

func c18rInBubble(ops []c18rOp, hist []int, transport string) verifx.SearchResult {
	bad := func(sig, format string, a ...any) verifx.SearchResult {
		return verifx.SearchResult{Bad: fmt.Sprintf(format, a...), Sig: "c18 resources " + sig}
	}
	ctx := context.Background()
	s := NewServer(&Implementation{Name: "srv", Version: "1"}, &ServerOptions{Logger: quietLogger,
		SubscribeHandler:   func(context.Context, *SubscribeRequest) error { return nil },
		UnsubscribeHandler: func(context.Context, *UnsubscribeRequest) error { return nil },
	})
	for _, u := range []string{"file:///r1", "file:///r2"} {
		s.AddResource(&Resource{URI: u, Name: u}, func(context.Context, *ReadResourceRequest) (*ReadResourceResult, error) {
			return &ReadResourceResult{Contents: []*ResourceContents{{URI: u, Text: "x"}}}, nil
		})
	}
	AddTool(s, &Tool{Name: "touch"}, func(hctx context.Context, r *CallToolRequest, in struct {
		URI string `json:"uri"`
	}) (*CallToolResult, any, error) {
		return &CallToolResult{}, nil, s.ResourceUpdated(hctx, &ResourceUpdatedNotificationParams{URI: in.URI})
	})
	versions := []string{"2025-06-18", "2025-06-18", "2026-07-28"}
	got := make([][]string, 3) // URIs of the resources/updated notifications each client received
	var sessions []*ClientSession
	handlers := map[bool]*hxTransport{}
	for i, v := range versions {
		cl := NewClient(&Implementation{Name: fmt.Sprint("c", i), Version: "1"}, &ClientOptions{Logger: quietLogger,
			ResourceUpdatedHandler: func(ctx context.Context, r *ResourceUpdatedNotificationRequest) {
				got[i] = append(got[i], r.Params.URI)
			}})
		var cs *ClientSession
		var err error
		if transport == "http" {
			// one stateful handler for the legacy sessions, a stateless one for the 2026-07-28 session
			if handlers[v >= "2026-07-28"] == nil {
				handlers[v >= "2026-07-28"] = &hxTransport{Handler: NewStreamableHTTPHandler(func(*http.Request) *Server { return s }, &StreamableHTTPOptions{Stateless: v >= "2026-07-28", Logger: quietLogger})}
			}
			cs, err = cl.Connect(ctx, &StreamableClientTransport{Endpoint: "http://srv.test/mcp", HTTPClient: handlers[v >= "2026-07-28"].client(), MaxRetries: -1}, &ClientSessionOptions{ProtocolVersion: v})
		} else {
			ct, st := NewInMemoryTransports()
			if _, err := s.Connect(ctx, st, nil); err != nil {
				return bad("setup", "%v", err)
			}
			cs, err = cl.Connect(ctx, ct, &ClientSessionOptions{ProtocolVersion: v})
		}
		if err != nil {
			return bad("setup", "%v", err)
		}
		sessions = append(sessions, cs)
	}
	defer func() {
		for _, cs := range sessions {
			cs.Close()
		}
	}()
	synctest.Wait()
	subscribed := map[string]map[int]bool{"file:///r1": {}, "file:///r2": {}}
	closed := map[int]bool{}
	unpublished := false
	obs := ""
	for step, oi := range hist {
		op := ops[oi]
		where := fmt.Sprintf("step %d (%s)", step, op.name)
		if op.kind != "update" && op.kind != "publish" && op.kind != "unpublish" && closed[op.sess] {
			return verifx.SearchResult{Skip: true}
		}
		if op.via > 0 && closed[op.via-1] {
			return verifx.SearchResult{Skip: true}
		}
		switch op.kind {
		case "subscribe":
			if err := sessions[op.sess].Subscribe(ctx, &SubscribeParams{URI: op.uri}); err != nil {
				return bad("subscribe-failed", "%s: %v", where, err)
			}
			synctest.Wait()
			subscribed[op.uri][op.sess] = true
			obs = "subscribe"
		case "unsubscribe":
			if err := sessions[op.sess].Unsubscribe(ctx, &UnsubscribeParams{URI: op.uri}); err != nil {
				return bad("unsubscribe-failed", "%s: %v", where, err)
			}
			synctest.Wait()
			delete(subscribed[op.uri], op.sess)
			obs = "unsubscribe"
		case "close":
			sessions[op.sess].Close()
			synctest.Wait()
			closed[op.sess] = true
			for _, m := range subscribed {
				delete(m, op.sess)
			}
			obs = "close"
		case "unpublish":
			s.RemoveResources(op.uri)
			synctest.Wait()
			unpublished = true
			obs = "unpublish"
		case "publish":
			s.AddResource(&Resource{URI: op.uri, Name: op.uri}, func(context.Context, *ReadResourceRequest) (*ReadResourceResult, error) {
				return &ReadResourceResult{Contents: []*ResourceContents{{URI: op.uri, Text: "x"}}}, nil
			})
			synctest.Wait()
			unpublished = false
			obs = "publish"
		case "update":
			before := make([]int, 3)
			for i := range got {
				before[i] = len(got[i])
			}
			if op.via > 0 {
				if res, err := sessions[op.via-1].CallTool(ctx, &CallToolParams{Name: "touch", Arguments: map[string]any{"uri": op.uri}}); err != nil || res.IsError {
					return bad("update-failed", "%s: the tool call failed: %v %+v", where, err, res)
				}
			} else if err := s.ResourceUpdated(ctx, &ResourceUpdatedNotificationParams{URI: op.uri}); err != nil {
				return bad("update-failed", "%s: %v", where, err)
			}
			synctest.Wait()
			var reached, want []int
			for i := range got {
				n := len(got[i]) - before[i]
				if n > 1 {
					return bad("duplicate-notification", "%s: session %d received %d notifications for one update", where, i, n)
				}
				if n == 1 {
					if got[i][len(got[i])-1] != op.uri {
						return bad("wrong-uri", "%s: session %d was notified about %s", where, i, got[i][len(got[i])-1])
					}
					reached = append(reached, i)
				}
			}
			for i := range subscribed[op.uri] {
				want = append(want, i)
			}
			sort.Ints(want)
			if !slices.Equal(reached, want) {
				return bad(fmt.Sprintf("updated-reached-%v-subscribed-%v", reached, want), "%s: resources/updated for %s reached sessions %v, currently subscribed: %v", where, op.uri, reached, want)
			}
			obs = fmt.Sprintf("update->%d", len(reached))
		}
		// the server's table mentions no closed session
		if uri, found, ok := privStaleResourceSubscription(s); ok && found {
			return bad("subscription-of-closed-session-kept", "after %s: the subscription table for %s still mentions a session that is gone", where, uri)
		}
	}
	var parts []string
	for _, u := range []string{"file:///r1", "file:///r2"} {
		var ks []int
		for i := range subscribed[u] {
			ks = append(ks, i)
		}
		sort.Ints(ks)
		parts = append(parts, fmt.Sprint(ks))
	}
	var cl []int
	for i := range closed {
		cl = append(cl, i)
	}
	sort.Ints(cl)
	last := ""
	if len(hist) > 0 {
		last = ops[hist[len(hist)-1]].name
	}
	return verifx.SearchResult{Key: strings.Join(parts, "|") + fmt.Sprint(cl, unpublished) + "<" + last + ">", Obs: obs}
}

func TestVerifC18Resources(t *testing.T) {
	env := verifx.LoadEnv("C18")
	res := env.NewResult()
	ops := c18rOps()
	env.RunSearch(res, &verifx.Search{
		Name: "resource-subscription-histories", NumOps: len(ops), OpName: func(i int) string { return ops[i].name },
		MaxDepth: env.Pick(4, 6), ShallowDepth: env.Pick(2, 3),
		Run: func(h []int) verifx.SearchResult { return c18rRun(t, ops, h, "inmem") },
	})
	env.RunSearch(res, &verifx.Search{
		Name: "resource-subscription-histories/http", NumOps: len(ops), OpName: func(i int) string { return ops[i].name },
		MaxDepth: env.Pick(3, 5), ShallowDepth: env.Pick(2, 3),
		Run: func(h []int) verifx.SearchResult { return c18rRun(t, ops, h, "http") },
	})
	env.Finish(res)
}
