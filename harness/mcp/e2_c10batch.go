package mcp

// C10 for JSON-RPC batches in JSON-response mode (protocol 2025-03-26).  Two sessions each POST a
// batch of two tool calls; the four handlers park on gates that are opened in every order, so the
// answers of a batch are produced at different times, interleaved with the other session's.  The
// body of each exchange carries exactly the two responses of its own batch - the right ids, the
// right payloads - and nothing of the other session.

import (
	"context"
	"encoding/json"
	"fmt"
	"net/http"
	"net/http/httptest"
	"strings"
	"testing"
	"testing/synctest"

	"github.com/modelcontextprotocol/go-sdk/internal/verifx"
)

type c10bArgs struct {
	Tag string `json:"tag"`
}

func c10BatchCase(order []string, store bool) (obs, sig, msg string) {
	fail := func(s, format string, a ...any) (string, string, string) {
		return "", "c10 json-batch " + s, fmt.Sprintf(format, a...) + fmt.Sprintf(" [release order %v, event store %v]", order, store)
	}
	gates := map[string]chan struct{}{}
	for _, t := range []string{"A1", "A2", "B1", "B2"} {
		gates[t] = make(chan struct{})
	}
	s := NewServer(&Implementation{Name: "srv", Version: "1"}, &ServerOptions{Logger: quietLogger})
	AddTool(s, &Tool{Name: "echo"}, func(ctx context.Context, r *CallToolRequest, in c10bArgs) (*CallToolResult, any, error) {
		<-gates[in.Tag]
		// payloads of one length, so that a mix-up yields a well-formed body
		return &CallToolResult{Content: []Content{&TextContent{Text: "answer for " + in.Tag}}}, nil, nil
	})
	hopts := &StreamableHTTPOptions{JSONResponse: true, Logger: quietLogger}
	if store {
		hopts.EventStore = NewMemoryEventStore(nil)
	}
	h := NewStreamableHTTPHandler(func(*http.Request) *Server { return s }, hopts)
	post := func(sid, body string) *httptest.ResponseRecorder {
		r := httptest.NewRequest("POST", "http://example.test/mcp", strings.NewReader(body))
		r.Header.Set("Content-Type", "application/json")
		r.Header.Set("Accept", "application/json, text/event-stream")
		if sid != "" {
			r.Header.Set("Mcp-Session-Id", sid)
			r.Header.Set("Mcp-Protocol-Version", "2025-03-26")
		}
		w := httptest.NewRecorder()
		h.ServeHTTP(w, r)
		return w
	}
	sids := map[string]string{}
	for _, lbl := range []string{"A", "B"} {
		w := post("", `{"jsonrpc":"2.0","id":"i","method":"initialize","params":{"protocolVersion":"2025-03-26","capabilities":{},"clientInfo":{"name":"c","version":"1"}}}`)
		sids[lbl] = w.Header().Get("Mcp-Session-Id")
		if w.Code != 200 || sids[lbl] == "" {
			return fail("setup", "initialize: %d %s", w.Code, w.Body.String())
		}
		post(sids[lbl], `{"jsonrpc":"2.0","method":"notifications/initialized","params":{}}`)
	}
	recs := map[string]*httptest.ResponseRecorder{}
	done := map[string]bool{}
	for _, lbl := range []string{"A", "B"} {
		go func() {
			recs[lbl] = post(sids[lbl], fmt.Sprintf(`[{"jsonrpc":"2.0","id":1,"method":"tools/call","params":{"name":"echo","arguments":{"tag":"%s1"}}},{"jsonrpc":"2.0","id":2,"method":"tools/call","params":{"name":"echo","arguments":{"tag":"%s2"}}}]`, lbl, lbl))
			done[lbl] = true
		}()
		synctest.Wait()
	}
	for _, t := range order {
		close(gates[t])
		synctest.Wait()
	}
	defer func() {
		for ss := range s.Sessions() {
			ss.Close()
		}
	}()
	for _, lbl := range []string{"A", "B"} {
		if !done[lbl] {
			return fail("exchange-never-completes", "the batch POST of session %s has not completed although all four handlers returned", lbl)
		}
		w := recs[lbl]
		if w.Code != 200 {
			return fail("batch-rejected", "session %s: status %d body %q", lbl, w.Code, w.Body.String())
		}
		var msgs []struct {
			ID     json.RawMessage `json:"id"`
			Result struct {
				Content []struct {
					Text string `json:"text"`
				} `json:"content"`
			} `json:"result"`
		}
		if err := json.Unmarshal(w.Body.Bytes(), &msgs); err != nil {
			return fail("garbage-on-exchange", "session %s: body %q: %v", lbl, w.Body.String(), err)
		}
		got := map[string]string{}
		for _, m := range msgs {
			text := ""
			if len(m.Result.Content) == 1 {
				text = m.Result.Content[0].Text
			}
			if prev, dup := got[string(m.ID)]; dup {
				return fail("response-twice-on-exchange", "session %s: two responses with id %s (%q, %q) in %q", lbl, m.ID, prev, text, w.Body.String())
			}
			got[string(m.ID)] = text
		}
		for _, id := range []string{"1", "2"} {
			want := "answer for " + lbl + id
			switch text, ok := got[id]; {
			case !ok:
				return fail("response-missing-on-exchange", "session %s: the body %q has no response with id %s", lbl, w.Body.String(), id)
			case text != want:
				return fail("response-on-foreign-exchange", "session %s: the response with id %s carries %q, want %q (body %q)", lbl, id, text, want, w.Body.String())
			}
		}
		if len(msgs) != 2 {
			return fail("extra-messages-on-exchange", "session %s: %d messages in %q", lbl, len(msgs), w.Body.String())
		}
	}
	return "each batch got its own two answers", "", ""
}

func TestVerifC10Batch(t *testing.T) {
	env := verifx.LoadEnv("C10")
	res := env.NewResult()
	cases := env.NewCases(res, "json-batch/two-sessions")
	var orders [][]string
	var perm func(cur, rest []string)
	perm = func(cur, rest []string) {
		if len(rest) == 0 {
			orders = append(orders, append([]string{}, cur...))
			return
		}
		for i := range rest {
			r2 := append(append([]string{}, rest[:i]...), rest[i+1:]...)
			perm(append(cur, rest[i]), r2)
		}
	}
	perm(nil, []string{"A1", "A2", "B1", "B2"})
	for _, store := range []bool{false, true} {
		for _, order := range orders {
			idx, mine := cases.Next()
			if !mine {
				continue
			}
			var obs, sig, msg string
			func() {
				defer func() {
					if r := recover(); r != nil && sig == "" {
						sig, msg = "c10 json-batch panic-or-leak", fmt.Sprintf("%v %v", r, order)
					}
				}()
				synctest.Test(t, func(t *testing.T) { obs, sig, msg = c10BatchCase(order, store) })
			}()
			if sig != "" {
				cases.Violate(idx, sig, msg, 4)
				continue
			}
			cases.Record(idx, obs, 4, func() string { return fmt.Sprint(order, store) })
		}
	}
	env.Finish(res)
}

// c10StoredStandaloneCase: two sessions on a handler with an event store, their standalone streams
// not attached.  The server sends each of them two messages outside any request, interleaved in the
// given order (A1 = first message for session A ...); the store keeps them.  Then each session opens
// its standalone stream: the replay carries exactly that session's own messages, in order.
func c10StoredStandaloneCase(order []string) (obs, sig, msg string) {
	fail := func(s, format string, a ...any) (string, string, string) {
		return "", "c10 stored-standalone " + s, fmt.Sprintf(format, a...) + fmt.Sprintf(" [messages written in the order %v]", order)
	}
	ctx := context.Background()
	s := NewServer(&Implementation{Name: "srv", Version: "1"}, &ServerOptions{Logger: quietLogger})
	h := NewStreamableHTTPHandler(func(*http.Request) *Server { return s }, &StreamableHTTPOptions{EventStore: NewMemoryEventStore(nil), Logger: quietLogger})
	post := func(sid, body string) *httptest.ResponseRecorder {
		r := httptest.NewRequest("POST", "http://example.test/mcp", strings.NewReader(body))
		r.Header.Set("Content-Type", "application/json")
		r.Header.Set("Accept", "application/json, text/event-stream")
		if sid != "" {
			r.Header.Set("Mcp-Session-Id", sid)
			r.Header.Set("Mcp-Protocol-Version", "2025-06-18")
		}
		w := httptest.NewRecorder()
		h.ServeHTTP(w, r)
		return w
	}
	sids := map[string]string{}
	sess := map[string]*ServerSession{}
	for _, lbl := range []string{"A", "B"} {
		before := map[*ServerSession]bool{}
		for ss := range s.Sessions() {
			before[ss] = true
		}
		w := post("", `{"jsonrpc":"2.0","id":"i","method":"initialize","params":{"protocolVersion":"2025-06-18","capabilities":{},"clientInfo":{"name":"c","version":"1"}}}`)
		sids[lbl] = w.Header().Get("Mcp-Session-Id")
		if w.Code != 200 || sids[lbl] == "" {
			return fail("setup", "initialize: %d %s", w.Code, w.Body.String())
		}
		post(sids[lbl], `{"jsonrpc":"2.0","method":"notifications/initialized","params":{}}`)
		for ss := range s.Sessions() {
			if !before[ss] {
				sess[lbl] = ss
			}
		}
	}
	defer func() {
		for ss := range s.Sessions() {
			ss.Close()
		}
	}()
	for _, m := range order {
		if err := sess[m[:1]].NotifyProgress(ctx, &ProgressNotificationParams{ProgressToken: "p", Progress: 1, Message: "for " + m}); err != nil {
			return fail("write-refused", "a notification outside any request could not be written although an event store is configured: %v", err)
		}
		synctest.Wait()
	}
	for _, lbl := range []string{"A", "B"} {
		gctx, cancel := context.WithCancel(ctx)
		r := httptest.NewRequest("GET", "http://example.test/mcp", nil).WithContext(gctx)
		r.Header.Set("Accept", "text/event-stream")
		r.Header.Set("Mcp-Session-Id", sids[lbl])
		r.Header.Set("Mcp-Protocol-Version", "2025-06-18")
		w := httptest.NewRecorder()
		done := make(chan struct{})
		go func() { defer close(done); h.ServeHTTP(w, r) }()
		synctest.Wait()
		cancel()
		<-done
		var got []string
		for _, line := range strings.Split(w.Body.String(), "\n") {
			if i := strings.Index(line, `"message":"for `); i >= 0 {
				rest := line[i+len(`"message":"for `):]
				got = append(got, rest[:strings.Index(rest, `"`)])
			}
		}
		want := []string{lbl + "1", lbl + "2"}
		for _, g := range got {
			if !strings.HasPrefix(g, lbl) {
				return fail("cross-session-delivery", "the standalone stream of session %s replays %v: %q was written for the other session", lbl, got, g)
			}
		}
		if strings.Join(got, ",") != strings.Join(want, ",") {
			return fail("message-missing-on-stream", "the standalone stream of session %s replays %v, want %v (status %d)", lbl, got, want, w.Code)
		}
	}
	return "each standalone stream replays its own messages", "", ""
}

func TestVerifC10Stored(t *testing.T) {
	env := verifx.LoadEnv("C10")
	res := env.NewResult()
	cases := env.NewCases(res, "json-batch/stored-standalone-streams")
	for _, order := range [][]string{{"A1", "A2", "B1", "B2"}, {"A1", "B1", "A2", "B2"}, {"A1", "B1", "B2", "A2"}, {"B1", "A1", "A2", "B2"}, {"B1", "A1", "B2", "A2"}, {"B1", "B2", "A1", "A2"}} {
		idx, mine := cases.Next()
		if !mine {
			continue
		}
		var obs, sig, msg string
		func() {
			defer func() {
				if r := recover(); r != nil && sig == "" {
					sig, msg = "c10 stored-standalone panic-or-leak", fmt.Sprintf("%v %v", r, order)
				}
			}()
			synctest.Test(t, func(t *testing.T) { obs, sig, msg = c10StoredStandaloneCase(order) })
		}()
		if sig != "" {
			cases.Violate(idx, sig, msg, 4)
			continue
		}
		cases.Record(idx, obs, 4, func() string { return fmt.Sprint(order) })
	}
	env.Finish(res)
}
