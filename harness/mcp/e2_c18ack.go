package mcp

// C18 for a 2026-07-28 session whose subscriptions/listen has just been acknowledged.  Once the
// client has handled the acknowledgement it is subscribed as far as it can tell: a change the
// server makes from then on is announced to it - however long the server's own sending path (a
// sending middleware that measures, logs or flushes after the message has left) keeps the
// acknowledgement's send from returning.  Kinds x changes x how long every outgoing server
// notification's send is held open after the message is out (0, less than the 10 ms debounce
// delay, more than it, much more).

import (
	"context"
	"fmt"
	"testing"
	"testing/synctest"
	"time"

	"github.com/modelcontextprotocol/go-sdk/internal/verifx"
)

func c18AckWindowCase(kind, change string, hold time.Duration, holdOnlyAck bool) (obs, sig, msg string) {
	fail := func(s, format string, a ...any) (string, string, string) {
		return "", "c18 listen-ack-window " + s, fmt.Sprintf(format, a...) + fmt.Sprintf(" [%s %s, every send of a server notification held open %v after the message left (only the acknowledgement's: %v)]", kind, change, hold, holdOnlyAck)
	}
	ctx := context.Background()
	s := NewServer(&Implementation{Name: "srv", Version: "1"}, &ServerOptions{Logger: quietLogger})
	noop := func(context.Context, *CallToolRequest) (*CallToolResult, error) { return &CallToolResult{}, nil }
	s.AddTool(&Tool{Name: "t0", InputSchema: map[string]any{"type": "object"}}, noop)
	s.AddTool(&Tool{Name: "t1", InputSchema: map[string]any{"type": "object"}}, noop)
	s.AddPrompt(&Prompt{Name: "p0"}, func(context.Context, *GetPromptRequest) (*GetPromptResult, error) { return &GetPromptResult{}, nil })
	s.AddPrompt(&Prompt{Name: "p1"}, func(context.Context, *GetPromptRequest) (*GetPromptResult, error) { return &GetPromptResult{}, nil })
	rh := func(context.Context, *ReadResourceRequest) (*ReadResourceResult, error) {
		return &ReadResourceResult{}, nil
	}
	s.AddResource(&Resource{Name: "r0", URI: "file:///r0"}, rh)
	s.AddResource(&Resource{Name: "r1", URI: "file:///r1"}, rh)
	s.AddSendingMiddleware(func(next MethodHandler) MethodHandler {
		return func(ctx context.Context, method string, req Request) (Result, error) {
			res, err := next(ctx, method, req)
			if hold > 0 && (method == notificationSubscriptionsAck || (!holdOnlyAck && len(method) > 14 && method[:14] == "notifications/")) {
				time.Sleep(hold)
			}
			return res, err
		}
	})
	var handled []string // kinds of the list-changed notifications handled, with the (virtual) time
	var changedAt time.Time
	after := map[string]int{}
	note := func(k string) {
		handled = append(handled, k)
		if !changedAt.IsZero() {
			after[k]++
		}
	}
	acked := 0
	c := NewClient(&Implementation{Name: "cli", Version: "1"}, &ClientOptions{Logger: quietLogger,
		ToolListChangedHandler:     func(context.Context, *ToolListChangedRequest) { note("tools") },
		PromptListChangedHandler:   func(context.Context, *PromptListChangedRequest) { note("prompts") },
		ResourceListChangedHandler: func(context.Context, *ResourceListChangedRequest) { note("resources") },
	})
	c.AddReceivingMiddleware(func(next MethodHandler) MethodHandler {
		return func(ctx context.Context, method string, req Request) (Result, error) {
			res, err := next(ctx, method, req)
			if method == notificationSubscriptionsAck {
				acked++
			}
			return res, err
		}
	})
	ct, st := NewInMemoryTransports()
	ss, err := s.Connect(ctx, st, nil)
	if err != nil {
		return fail("setup", "%v", err)
	}
	cs, err := c.Connect(ctx, ct, &ClientSessionOptions{ProtocolVersion: "2026-07-28"})
	if err != nil {
		return fail("setup", "connect: %v", err)
	}
	defer func() {
		cs.Close()
		ss.Wait()
	}()
	synctest.Wait()
	if acked == 0 {
		// the acknowledgement is still under way: let it arrive (no virtual time needs to pass for that
		// unless the transport itself is slow)
		time.Sleep(time.Millisecond)
		synctest.Wait()
	}
	if acked == 0 {
		return fail("setup", "the listen was never acknowledged")
	}
	// the client has handled the acknowledgement: the server changes
	changedAt = time.Now()
	switch kind + " " + change {
	case "tools add":
		s.AddTool(&Tool{Name: "t2", InputSchema: map[string]any{"type": "object"}}, noop)
	case "tools remove":
		s.RemoveTools("t1")
	case "prompts add":
		s.AddPrompt(&Prompt{Name: "p2"}, func(context.Context, *GetPromptRequest) (*GetPromptResult, error) { return &GetPromptResult{}, nil })
	case "prompts remove":
		s.RemovePrompts("p1")
	case "resources add":
		s.AddResource(&Resource{Name: "r2", URI: "file:///r2"}, rh)
	case "resources remove":
		s.RemoveResources("file:///r1")
	}
	time.Sleep(10*time.Second + 3*hold)
	synctest.Wait()
	if after[kind] == 0 {
		return fail("notification-lost "+kind, "the client had handled the listen's acknowledgement before the change, yet no %s list-changed notification reached it in the ten seconds after (handled in all: %v)", kind, handled)
	}
	n := 0
	switch kind {
	case "tools":
		r, err := cs.ListTools(ctx, nil)
		if err != nil {
			return fail("list-error", "%v", err)
		}
		n = len(r.Tools)
	case "prompts":
		r, err := cs.ListPrompts(ctx, nil)
		if err != nil {
			return fail("list-error", "%v", err)
		}
		n = len(r.Prompts)
	case "resources":
		r, err := cs.ListResources(ctx, nil)
		if err != nil {
			return fail("list-error", "%v", err)
		}
		n = len(r.Resources)
	}
	want := map[string]int{"add": 3, "remove": 1}[change]
	if n != want {
		return fail("stale-list "+kind, "a list after the handled notification has %d items, the server has %d", n, want)
	}
	return fmt.Sprintf("%s notified %d", kind, after[kind]), "", ""
}

func TestVerifC18AckWindow(t *testing.T) {
	env := verifx.LoadEnv("C18")
	res := env.NewResult()
	cases := env.NewCases(res, "change-right-after-listen-acknowledged")
	for _, kind := range []string{"tools", "prompts", "resources"} {
		for _, change := range []string{"add", "remove"} {
			for _, hold := range []time.Duration{0, 5 * time.Millisecond, 10 * time.Millisecond, 50 * time.Millisecond, 3 * time.Second} {
				for _, onlyAck := range []bool{true, false} {
					if hold == 0 && !onlyAck {
						continue
					}
					idx, mine := cases.Next()
					if !mine {
						continue
					}
					desc := fmt.Sprintf("%s %s hold=%v onlyAck=%v", kind, change, hold, onlyAck)
					var obs, sig, msg string
					func() {
						defer func() {
							if r := recover(); r != nil && sig == "" {
								sig, msg = "c18 listen-ack-window panic-or-leak", fmt.Sprintf("%v [%s]", r, desc)
							}
						}()
						synctest.Test(t, func(t *testing.T) { obs, sig, msg = c18AckWindowCase(kind, change, hold, onlyAck) })
					}()
					if sig != "" {
						cases.Violate(idx, sig, msg, 4)
						continue
					}
					cases.Record(idx, obs, 4, func() string { return desc })
				}
			}
		}
	}
	env.Finish(res)
}
