package mcp

import (
	"context"
	"errors"
	"iter"
)

// c08Store wraps an EventStore and records the ground truth: payloads in append order per stream.
type c08Store struct {
	inner EventStore
	// ground truth: payloads in append order per "session|stream"
	appended map[string][]string
	// failNextRead: the next After yields its first item (if any) and then an error, once
	failNextRead bool
}

func (s *c08Store) key(sess, stream string) string { return sess + "|" + stream }
func (s *c08Store) Open(ctx context.Context, sess, stream string) error {
	return s.inner.Open(ctx, sess, stream)
}
func (s *c08Store) Append(ctx context.Context, sess, stream string, data []byte) error {
	err := s.inner.Append(ctx, sess, stream, data)
	if err == nil {
		s.appended[s.key(sess, stream)] = append(s.appended[s.key(sess, stream)], string(data))
	}
	return err
}
func (s *c08Store) After(ctx context.Context, sess, stream string, idx int) iter.Seq2[[]byte, error] {
	if s.failNextRead {
		s.failNextRead = false
		return func(yield func([]byte, error) bool) {
			n := 0
			for d, err := range s.inner.After(ctx, sess, stream, idx) {
				if err != nil || n == 1 {
					break
				}
				n++
				if !yield(d, nil) {
					return
				}
			}
			yield(nil, errors.New("injected event store read fault"))
		}
	}
	return s.inner.After(ctx, sess, stream, idx)
}
func (s *c08Store) SessionClosed(ctx context.Context, sess string) error {
	return s.inner.SessionClosed(ctx, sess)
}
