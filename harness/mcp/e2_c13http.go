package mcp

// C13 over streamable HTTP: the keep-alive pings of a client session are HTTP POSTs; each ping's
// fate is decided by a scripted HTTP server from the pattern:
//
//	A  200 application/json with the result            -> answered
//	S  200 text/event-stream carrying the result       -> answered
//	I  200 event-stream: priming event (id, retry 10ms), stream ends; the result arrives on the
//	   stream the client resumes with Last-Event-ID    -> answered (default retries only)
//	C  200 event-stream that ends before any event     -> one miss (the connection stays usable)
//	X  200 event-stream whose body breaks (read error) -> one miss
//	5  503                                             -> one miss
//	E  200 application/json with a JSON-RPC error      -> one miss
//	T  the POST is never answered                      -> one miss at the ping deadline
//	H  200 event-stream that stays silent              -> one miss at the ping deadline
//	M  JSON-RPC method-not-found                       -> keep-alive ends silently
//
// For every pattern up to threshold+2 pings, thresholds, and reconnection settings (default
// MaxRetries, retries disabled) the reference detector of c13Judge decides whether and when the
// session must have been closed.

import (
	"context"
	"encoding/json"
	"errors"
	"fmt"
	"io"
	"net/http"
	"net/url"
	"runtime"
	"strings"
	"testing"
	"testing/synctest"
	"time"

	"github.com/modelcontextprotocol/go-sdk/internal/verifx"
)

const c13HTTPSymbols = "ASCX5ETHMID" // D: the ping's POST is dropped - its connection ends without a response (net/http reports EOF)

// c13Body is a scripted response body: data, then a clean end, an error, or silence until the
// request ends.
type c13Body struct {
	data string
	end  string // "eof", "error", "hang"
	ctx  context.Context
}

func (b *c13Body) Read(p []byte) (int, error) {
	if b.data != "" {
		n := copy(p, b.data)
		b.data = b.data[n:]
		return n, nil
	}
	switch b.end {
	case "error":
		return 0, errors.New("connection reset by peer")
	case "hang":
		<-b.ctx.Done()
		return 0, b.ctx.Err()
	}
	return 0, io.EOF
}
func (b *c13Body) Close() error { return nil }

func c13HTTPBase(c byte) byte {
	switch c {
	case 'A', 'S', 'I':
		return 'A'
	case 'C', 'X', '5', 'E', 'D':
		return 'E'
	case 'T', 'H':
		return 'T'
	}
	return c
}

func c13HTTPCase(interval time.Duration, threshold, maxRetries int, pattern string, pending bool) (obs c13Obs, bad, sig string) {
	return c13HTTPCaseX(interval, threshold, maxRetries, pattern, pending, false, false)
}

// stuckWrite: the outstanding user call's POST is never answered at all (its write is still in progress
// when the peer goes silent) instead of being answered with a silent event stream.  logged: the session
// runs through the SDK's LoggingTransport.
func c13HTTPCaseX(interval time.Duration, threshold, maxRetries int, pattern string, pending, stuckWrite, logged bool) (obs c13Obs, bad, sig string) {
	fail := func(s, format string, a ...any) {
		if bad == "" {
			sig, bad = "c13 http "+s, fmt.Sprintf(format, a...)
		}
	}
	ctx := context.Background()
	base := runtime.NumGoroutine()
	t0 := time.Now()
	horizonReached := false
	k := 0
	obs.closedAt = -1
	resumed := map[string]string{} // Last-Event-ID -> the response to deliver on the resumed stream
	mk := func(req *http.Request, status int, ctype, data, end string) *http.Response {
		h := http.Header{}
		if ctype != "" {
			h.Set("Content-Type", ctype)
		}
		h.Set("Mcp-Session-Id", "s1")
		return &http.Response{StatusCode: status, Status: fmt.Sprint(status), Header: h, Body: &c13Body{data: data, end: end, ctx: req.Context()}, Proto: "HTTP/1.1", ProtoMajor: 1, ProtoMinor: 1}
	}
	deleted := 0
	hx := &hxTransport{Intercept: func(req *http.Request, n int) (*http.Response, error) {
		body, _ := io.ReadAll(req.Body)
		var m struct {
			ID     json.RawMessage `json:"id"`
			Method string          `json:"method"`
		}
		json.Unmarshal(body, &m)
		ok := `{"jsonrpc":"2.0","id":` + string(m.ID) + `,"result":{}}`
		switch {
		case req.Method == "GET":
			if id := req.Header.Get("Last-Event-ID"); id != "" {
				if r, found := resumed[id]; found {
					delete(resumed, id)
					return mk(req, 200, "text/event-stream", "id: "+id+"-r\ndata: "+r+"\n\n", "eof"), nil
				}
				return mk(req, 404, "", "", "eof"), nil
			}
			return mk(req, 405, "", "", "eof"), nil
		case req.Method == "DELETE":
			deleted++
			return mk(req, 204, "", "", "eof"), nil
		case m.Method == "initialize":
			return mk(req, 200, "application/json", `{"jsonrpc":"2.0","id":`+string(m.ID)+`,"result":{"protocolVersion":"2025-06-18","capabilities":{},"serverInfo":{"name":"peer","version":"1"}}}`, "eof"), nil
		case m.Method == "tools/list":
			if stuckWrite {
				<-req.Context().Done() // the POST itself hangs: no response headers ever
				return nil, req.Context().Err()
			}
			return mk(req, 200, "text/event-stream", "", "hang"), nil // the outstanding user call: never answered
		case m.Method == "ping":
			act := byte('A')
			if !horizonReached {
				obs.pingTimes = append(obs.pingTimes, time.Since(t0))
				if k < len(pattern) {
					act = pattern[k]
				}
				k++
			}
			switch act {
			case 'A':
				return mk(req, 200, "application/json", ok, "eof"), nil
			case 'S':
				return mk(req, 200, "text/event-stream", "data: "+ok+"\n\n", "eof"), nil
			case 'I':
				id := fmt.Sprint("ev", k)
				resumed[id] = ok
				return mk(req, 200, "text/event-stream", "id: "+id+"\nretry: 10\n\n", "eof"), nil
			case 'C':
				return mk(req, 200, "text/event-stream", "", "eof"), nil
			case 'X':
				return mk(req, 200, "text/event-stream", "", "error"), nil
			case '5':
				return mk(req, 503, "", "", "eof"), nil
			case 'E':
				return mk(req, 200, "application/json", `{"jsonrpc":"2.0","id":`+string(m.ID)+`,"error":{"code":-32000,"message":"busy"}}`, "eof"), nil
			case 'M':
				return mk(req, 200, "application/json", `{"jsonrpc":"2.0","id":`+string(m.ID)+`,"error":{"code":-32601,"message":"method not found"}}`, "eof"), nil
			case 'D':
				return nil, &url.Error{Op: "Post", URL: req.URL.String(), Err: io.EOF}
			case 'T':
				<-req.Context().Done()
				return nil, req.Context().Err()
			case 'H':
				return mk(req, 200, "text/event-stream", "", "hang"), nil
			}
		case len(m.ID) == 0:
			return mk(req, 202, "", "", "eof"), nil // notifications
		}
		return mk(req, 200, "application/json", `{"jsonrpc":"2.0","id":`+string(m.ID)+`,"error":{"code":-32601,"message":"method not found"}}`, "eof"), nil
	}}
	c := NewClient(&Implementation{Name: "cli", Version: "1"}, &ClientOptions{KeepAlive: interval, KeepAliveFailureThreshold: threshold, Logger: quietLogger})
	var tr Transport = &StreamableClientTransport{Endpoint: "http://peer.test/mcp", HTTPClient: hx.client(), MaxRetries: maxRetries}
	if logged {
		tr = &LoggingTransport{Transport: tr, Writer: io.Discard}
	}
	cs, err := c.Connect(ctx, tr, &ClientSessionOptions{ProtocolVersion: "2025-06-18"})
	if err != nil {
		return obs, "connect: " + err.Error(), "c13 http connect-failed"
	}
	go func() {
		cs.Wait()
		obs.closedAt = time.Since(t0)
	}()
	pendingDone := time.Duration(-1)
	pctx, cancelPending := context.WithCancel(ctx)
	defer cancelPending()
	if pending {
		go func() {
			cs.ListTools(pctx, nil)
			pendingDone = time.Since(t0)
		}()
	}
	horizon := time.Duration(len(pattern)+3) * interval
	time.Sleep(horizon - time.Since(t0))
	synctest.Wait()
	horizonReached = true
	var mapped strings.Builder
	for i := range len(pattern) {
		mapped.WriteByte(c13HTTPBase(pattern[i]))
	}
	c13Judge(mapped.String(), interval, threshold, horizon, obs, false, func() error {
		pctx, cancel := context.WithTimeout(ctx, interval)
		defer cancel()
		return cs.Ping(pctx, nil)
	}, func(s, format string, a ...any) {
		fail(s, "HTTP fates %q: "+format, append([]any{pattern}, a...)...)
	})
	if pending && obs.closedAt >= 0 && pendingDone < 0 {
		fail("pending-call-outlives-session", "pattern %q: the session was closed at %v but the call that was outstanding is still blocked", pattern, obs.closedAt)
	}
	cancelPending() // Close is graceful: it would wait for the outstanding call of a connected peer
	synctest.Wait()
	cs.Close()
	synctest.Wait()
	if obs.closedAt < 0 {
		fail("wait-never-returned", "pattern %q: Wait did not return after Close", pattern)
	}
	if deleted > 1 {
		fail("session-deleted-twice", "pattern %q: %d DELETE requests for one session", pattern, deleted)
	}
	if n := runtime.NumGoroutine() - base; n > 0 {
		buf := make([]byte, 1<<15)
		buf = buf[:runtime.Stack(buf, true)]
		fail("goroutine-left-behind", "pattern %q: %d goroutine(s) left after Close:\n%s", pattern, n, buf)
	}
	return obs, bad, sig
}

func TestVerifC13HTTP(t *testing.T) {
	env := verifx.LoadEnv("C13")
	res := env.NewResult()
	cases := env.NewCases(res, "http-ping-fates")
	var gen func(prefix string, n int, syms string, f func(string))
	gen = func(prefix string, n int, syms string, f func(string)) {
		f(prefix)
		if n == 0 || strings.Contains(prefix, "M") {
			return
		}
		for _, c := range syms {
			gen(prefix+string(c), n-1, syms, f)
		}
	}
	const interval = 2 * time.Second
	for _, cfg := range []struct {
		maxRetries int
		pending    bool
		stuckWrite bool
		logged     bool
	}{{0, false, false, false}, {-1, false, false, false}, {0, true, false, false}, {0, true, true, false}, {0, true, true, true}, {0, false, false, true}} {
		maxRetries, pending := cfg.maxRetries, cfg.pending
		syms := c13HTTPSymbols
		if maxRetries < 0 {
			syms = strings.ReplaceAll(syms, "I", "") // with retries disabled a stream that needs resuming ends the connection by design
		}
		for th := env.Pick(1, 0); th <= 3; th++ {
			depth := min(th+env.Pick(1, 2), env.Pick(4, 5)-btoi(pending))
			if cfg.stuckWrite || cfg.logged {
				depth = min(depth, th+1, env.Pick(3, 4)) // the added configurations: one pattern length less
			}
			gen("", depth, syms, func(p string) {
				idx, mine := cases.Next()
				if !mine {
					return
				}
				var obs c13Obs
				var bad, sig string
				func() {
					defer func() {
						if r := recover(); r != nil {
							bad, sig = fmt.Sprintf("pattern %q: panic / bubble failure: %v", p, r), "c13 http panic-or-leak"
						}
					}()
					synctest.Test(t, func(t *testing.T) {
						obs, bad, sig = c13HTTPCaseX(interval, th, maxRetries, p, pending, cfg.stuckWrite, cfg.logged)
					})
				}()
				desc := func() string {
					return fmt.Sprintf("streamable-http client MaxRetries=%d interval=%v threshold=%d fates=%q outstanding-call=%v its-POST-unanswered=%v logging-transport=%v", maxRetries, interval, th, p, pending, cfg.stuckWrite, cfg.logged)
				}
				if bad != "" {
					cases.Violate(idx, sig, bad+" ["+desc()+"]", len(p)+1)
					return
				}
				cls := "open"
				if obs.closedAt >= 0 {
					cls = fmt.Sprintf("closed-after-%d-pings", len(obs.pingTimes))
				}
				cases.Record(idx, fmt.Sprintf("http th=%d retries=%d %s", th, maxRetries, cls), len(p)+1, desc)
			})
		}
	}
	env.Finish(res)
}

func btoi(b bool) int {
	if b {
		return 1
	}
	return 0
}
