package mcp

// C19, deeply nested documents.  "Decoding never panics on arbitrary bytes" includes the documents
// on which a recursive decoder runs out of stack - which in Go is not a panic but the end of the
// process, so every case runs in a child process (this test binary, re-executed).  For every
// place where bytes from the wire reach a decoder x both bracket kinds x nesting depths from 1 to
// 4 000 000 (an 8 MB document): the child survives; up to depth 5000 the document is decoded and the
// nested value is preserved by re-encoding; beyond that it is preserved or refused with an error.

import (
	"bytes"
	"context"
	"fmt"
	"io"
	"net/http"
	"net/http/httptest"
	"os"
	"os/exec"
	"strconv"
	"strings"
	"testing"
	"time"

	internaljson "github.com/modelcontextprotocol/go-sdk/internal/json"
	"github.com/modelcontextprotocol/go-sdk/internal/jsonrpc2"
	"github.com/modelcontextprotocol/go-sdk/internal/verifx"
	"github.com/modelcontextprotocol/go-sdk/jsonrpc"
)

var c19DeepPositions = []string{
	"request-params", "response-result", "error-data", "notification-in-batch", "whole-document",
	"unterminated-document", "tool-arguments-any", "ndjson-connection", "sse-event-data", "streamable-post-body",
	// strings on the way: one that ends in an escaped backslash, one with escaped quotes, before the
	// nested value; and a flat string that merely contains that many brackets (always to be preserved)
	"params-after-string-ending-in-backslash", "params-after-string-with-escaped-quotes", "brackets-inside-a-string",
}
var c19DeepDepths = []int{1, 100, 5000, 10001, 100000, 4000000}

const c19DeepMustDecode = 5000

func c19DeepDoc(open string, depth int) string {
	cl := "]"
	if open != "[" {
		cl = "}"
	}
	return strings.Repeat(open, depth) + "1" + strings.Repeat(cl, depth)
}

// c19DeepRun is the child's work; it returns "preserved", "decoded", "refused: <error>" or "changed: <what>".
func c19DeepRun(pos, open string, depth int) string {
	x := c19DeepDoc(open, depth)
	preserved := func(msg jsonrpc.Message, err error) string {
		if err != nil {
			return "refused: " + err.Error()
		}
		out, err := jsonrpc.EncodeMessage(msg)
		if err != nil {
			return "changed: re-encoding fails: " + err.Error()
		}
		if !bytes.Contains(out, []byte(x)) {
			return "changed: the nested value is not in the re-encoded message"
		}
		return "preserved"
	}
	switch pos {
	case "request-params":
		return preserved(jsonrpc.DecodeMessage([]byte(`{"jsonrpc":"2.0","id":1,"method":"m","params":` + x + `}`)))
	case "params-after-string-ending-in-backslash":
		return preserved(jsonrpc.DecodeMessage([]byte(`{"jsonrpc":"2.0","id":"C:\\tools\\","method":"C:\\tools\\","params":` + x + `}`)))
	case "params-after-string-with-escaped-quotes":
		return preserved(jsonrpc.DecodeMessage([]byte(`{"jsonrpc":"2.0","id":"say \"hi\"","method":"a\\\"b\"","params":` + x + `}`)))
	case "brackets-inside-a-string":
		x = `"` + strings.Repeat(open[:1], depth) + `\"` + strings.Repeat("]}", depth/2) + `"`
		return preserved(jsonrpc.DecodeMessage([]byte(`{"jsonrpc":"2.0","id":1,"method":"m","params":{"s":` + x + `}}`)))
	case "response-result":
		return preserved(jsonrpc.DecodeMessage([]byte(`{"jsonrpc":"2.0","id":1,"result":` + x + `}`)))
	case "error-data":
		return preserved(jsonrpc.DecodeMessage([]byte(`{"jsonrpc":"2.0","id":1,"error":{"code":7,"message":"m","data":` + x + `}}`)))
	case "notification-in-batch":
		msgs, _, err := readBatch([]byte(`[{"jsonrpc":"2.0","id":1,"method":"ping"},{"jsonrpc":"2.0","method":"n","params":` + x + `}]`))
		if err != nil {
			return "refused: " + err.Error()
		}
		if len(msgs) != 2 {
			return fmt.Sprintf("changed: %d messages", len(msgs))
		}
		return preserved(msgs[1], nil)
	case "whole-document":
		_, err := jsonrpc.DecodeMessage([]byte(x))
		if err == nil {
			return "changed: a document that is no message was decoded"
		}
		return "refused: " + err.Error()
	case "unterminated-document":
		_, err := jsonrpc.DecodeMessage([]byte(strings.Repeat(open, depth)))
		if err == nil {
			return "changed: an unterminated document was decoded"
		}
		return "refused: " + err.Error()
	case "tool-arguments-any":
		var p CallToolParams
		if err := internaljson.Unmarshal([]byte(`{"name":"t","arguments":`+x+`}`), &p); err != nil {
			return "refused: " + err.Error()
		}
		if p.Name != "t" || p.Arguments == nil {
			return "changed: members lost"
		}
		return "decoded"
	case "ndjson-connection":
		c := newIOConn(rwc{rc: io.NopCloser(strings.NewReader(`{"jsonrpc":"2.0","id":1,"method":"m","params":` + x + `}` + "\n")), wc: c19NopWriter{}})
		return preserved(c.Read(context.Background()))
	case "sse-event-data":
		for evt, err := range scanEvents(strings.NewReader("event: message\ndata: " + `{"jsonrpc":"2.0","id":1,"method":"m","params":` + x + `}` + "\n\n")) {
			if err != nil {
				return "refused: " + err.Error()
			}
			return preserved(jsonrpc2.DecodeMessage(evt.Data))
		}
		return "changed: no event"
	case "streamable-post-body":
		s := NewServer(&Implementation{Name: "srv", Version: "1"}, &ServerOptions{Logger: quietLogger})
		AddTool(s, &Tool{Name: "t"}, func(ctx context.Context, r *CallToolRequest, in map[string]any) (*CallToolResult, any, error) {
			return &CallToolResult{}, nil, nil
		})
		h := NewStreamableHTTPHandler(func(*http.Request) *Server { return s }, &StreamableHTTPOptions{Stateless: true, JSONResponse: true, Logger: quietLogger})
		req := httptest.NewRequest("POST", "http://127.0.0.1/mcp", strings.NewReader(`{"jsonrpc":"2.0","id":1,"method":"tools/call","params":{"name":"t","arguments":{"a":`+x+`}}}`))
		req.Header.Set("Content-Type", "application/json")
		req.Header.Set("Accept", "application/json, text/event-stream")
		req.Header.Set("Mcp-Protocol-Version", "2025-06-18")
		w := httptest.NewRecorder()
		h.ServeHTTP(w, req)
		if w.Code == 200 && strings.Contains(w.Body.String(), `"result"`) {
			return "decoded"
		}
		return fmt.Sprintf("refused: HTTP %d", w.Code)
	}
	return "changed: unknown position " + pos
}

// TestVerifC19DeepChild does one case in a process of its own; it is a no-op unless asked for.
func TestVerifC19DeepChild(t *testing.T) {
	spec := os.Getenv("VERIF_C19_DEEP")
	if spec == "" {
		return
	}
	f := strings.Split(spec, "|")
	depth, _ := strconv.Atoi(f[2])
	fmt.Printf("C19DEEP-RESULT %s\n", c19DeepRun(f[0], f[1], depth))
}

func c19Deep(cases *verifx.Cases) {
	for _, pos := range c19DeepPositions {
		for _, open := range []string{"[", `{"a":`} {
			for _, depth := range c19DeepDepths {
				idx, mine := cases.Next()
				if !mine {
					continue
				}
				desc := fmt.Sprintf("position=%s nesting=%q x %d", pos, open, depth)
				cmd := exec.Command(os.Args[0], "-test.run=^TestVerifC19DeepChild$", "-test.count=1", "-test.timeout=0")
				cmd.Env = append(os.Environ(), "VERIF_C19_DEEP="+pos+"|"+open+"|"+strconv.Itoa(depth), "VERIF_NO_EVIDENCE=1")
				var out bytes.Buffer
				cmd.Stdout, cmd.Stderr = &out, &out
				t0 := time.Now()
				err := cmd.Run()
				result := ""
				for _, line := range strings.Split(out.String(), "\n") {
					if r, ok := strings.CutPrefix(line, "C19DEEP-RESULT "); ok {
						result = r
					}
				}
				switch {
				case result == "":
					first := out.String()
					if i := strings.Index(first, "\n\n"); i > 0 {
						first = first[:i]
					}
					if len(first) > 600 {
						first = first[:600]
					}
					cases.Violate(idx, "c19 deep-nesting process-died "+pos, fmt.Sprintf("the process that decoded the document ended (%v) after %v without a result: %s [%s]", err, time.Since(t0).Round(time.Millisecond), first, desc), 1)
				case strings.HasPrefix(result, "changed"):
					cases.Violate(idx, "c19 deep-nesting value-changed "+pos, result+" ["+desc+"]", 1)
				case strings.HasPrefix(result, "refused") && (depth <= c19DeepMustDecode || pos == "brackets-inside-a-string") && pos != "whole-document" && pos != "unterminated-document":
					cases.Violate(idx, "c19 deep-nesting valid-document-refused "+pos, result+" ["+desc+"]", 1)
				default:
					cls := result
					if i := strings.Index(cls, ":"); i > 0 {
						cls = cls[:i]
					}
					cases.Record(idx, "deep-nesting "+cls, 1, func() string { return desc + " -> " + result })
				}
			}
		}
	}
}
