package mcp

// C19, JSON whitespace around a payload.  A JSON text may be preceded and followed by blanks, tabs
// and line breaks; a payload that is handed to the SDK with such insignificant whitespace decodes to
// the same messages as without it - as a single message and as a batch, in readBatch (the decoder of
// every framed payload) and in a POST body sent to the streamable HTTP handler (a file sent with a
// leading or trailing newline), where every call is then answered with its id.

import (
	"context"
	"encoding/json"
	"fmt"
	"io"
	"net/http"
	"net/http/httptest"
	"reflect"
	"sort"
	"strings"
	"testing/synctest"

	"github.com/modelcontextprotocol/go-sdk/internal/verifx"
	"github.com/modelcontextprotocol/go-sdk/jsonrpc"
)

func c19Whitespace(cases *verifx.Cases, t interface {
	Helper()
}, run func(func())) {
	pads := []string{"", " ", "\n", "\t", "\r\n", "  ", "\n\n", " \t\r\n "}
	payloads := []struct{ name, text string }{
		{"single call", `{"jsonrpc":"2.0","id":1,"method":"ping"}`},
		{"single notification", `{"jsonrpc":"2.0","method":"notifications/initialized","params":{}}`},
		{"batch of one call", `[{"jsonrpc":"2.0","id":1,"method":"ping"}]`},
		{"batch of two calls", `[{"jsonrpc":"2.0","id":1,"method":"ping"},{"jsonrpc":"2.0","id":"b","method":"ping"}]`},
		{"batch with inner whitespace", `[ {"jsonrpc":"2.0","id":1,"method":"ping"} ,` + "\n" + ` {"jsonrpc":"2.0","id":"b","method":"ping"} ]`},
		{"batch of call and notification", `[{"jsonrpc":"2.0","method":"notifications/progress","params":{"progressToken":1,"progress":1}},{"jsonrpc":"2.0","id":7,"method":"ping"}]`},
	}
	enc := func(msgs []jsonrpc.Message) []string {
		var out []string
		for _, m := range msgs {
			b, err := jsonrpc.EncodeMessage(m)
			if err != nil {
				out = append(out, "ERR "+err.Error())
				continue
			}
			out = append(out, string(b))
		}
		return out
	}
	// ---- a line on the newline-delimited transport (stdio, IOTransport): blanks and tabs before and after
	// the JSON text of a line are as insignificant as anywhere else; the line and the one after it are read
	linePads := []string{"", " ", "\t", "  ", " \t "}
	const sentinel = `{"jsonrpc":"2.0","id":99,"method":"ping"}`
	for _, p := range payloads {
		text := strings.ReplaceAll(p.text, "\n", " ")
		refMsgs, _, refErr := readBatch([]byte(text))
		for _, eol := range []string{"\n", "\r\n"} {
			for _, pre := range linePads {
				for _, suf := range linePads {
					idx, mine := cases.Next()
					if !mine {
						continue
					}
					desc := fmt.Sprintf("line %q + %s + %q + %q on the newline-delimited transport", pre, p.name, suf, eol)
					if refErr != nil {
						cases.Violate(idx, "c19 whitespace reference-undecodable", fmt.Sprintf("%s: %v", p.name, refErr), 1)
						continue
					}
					rd := io.NopCloser(strings.NewReader(pre + text + suf + eol + sentinel + eol))
					conn, _ := (&IOTransport{Reader: rd, Writer: c19NopWriter{}}).Connect(context.Background())
					sm, _, _ := readBatch([]byte(sentinel))
					want := enc(append(append([]jsonrpc.Message{}, refMsgs...), sm...))
					var got []string
					var rerr error
					for range want {
						m, err := conn.Read(context.Background())
						if err != nil {
							rerr = err
							break
						}
						got = append(got, enc([]jsonrpc.Message{m})...)
					}
					conn.Close()
					switch {
					case rerr != nil:
						cases.Violate(idx, "c19 whitespace padded-payload-refused ndjson", fmt.Sprintf("%s: after %d of %d messages the reader failed: %v (the connection is gone)", desc, len(got), len(want), rerr), 1)
					case !reflect.DeepEqual(got, want):
						cases.Violate(idx, "c19 whitespace padded-payload-decodes-differently ndjson", fmt.Sprintf("%s: read %v, want %v", desc, got, want), 1)
					default:
						cases.Record(idx, fmt.Sprintf("ndjson n=%d", len(got)), 1, func() string { return desc })
					}
				}
			}
		}
	}
	for _, p := range payloads {
		refMsgs, refBatch, refErr := readBatch([]byte(p.text))
		for _, pre := range pads {
			for _, suf := range pads {
				// ---- the payload decoder
				if idx, mine := cases.Next(); mine {
					desc := fmt.Sprintf("readBatch(%q + %s + %q)", pre, p.name, suf)
					msgs, isBatch, err := readBatch([]byte(pre + p.text + suf))
					switch {
					case refErr != nil:
						cases.Violate(idx, "c19 whitespace reference-undecodable", fmt.Sprintf("%s: %v", p.name, refErr), 1)
					case err != nil:
						cases.Violate(idx, "c19 whitespace padded-payload-refused readBatch", fmt.Sprintf("%s: %v (without the padding it decodes)", desc, err), 1)
					case isBatch != refBatch || !reflect.DeepEqual(enc(msgs), enc(refMsgs)):
						cases.Violate(idx, "c19 whitespace padded-payload-decodes-differently readBatch", fmt.Sprintf("%s: batch=%v %v, without the padding batch=%v %v", desc, isBatch, enc(msgs), refBatch, enc(refMsgs)), 1)
					default:
						cases.Record(idx, fmt.Sprintf("readBatch batch=%v n=%d", isBatch, len(msgs)), 1, func() string { return desc })
					}
				}
				// ---- a POST body to the streamable handler (stateless, JSON and SSE answers)
				for _, jsonResp := range []bool{false, true} {
					idx, mine := cases.Next()
					if !mine {
						continue
					}
					desc := fmt.Sprintf("POST body %q + %s + %q, JSONResponse=%v", pre, p.name, suf, jsonResp)
					var status int
					var ids []string
					var body string
					run(func() {
						s := NewServer(&Implementation{Name: "srv", Version: "1"}, &ServerOptions{Logger: quietLogger})
						h := NewStreamableHTTPHandler(func(*http.Request) *Server { return s }, &StreamableHTTPOptions{Stateless: true, JSONResponse: jsonResp, Logger: quietLogger})
						r := httptest.NewRequest("POST", "http://127.0.0.1/mcp", strings.NewReader(pre+p.text+suf))
						r.Header.Set("Content-Type", "application/json")
						r.Header.Set("Accept", "application/json, text/event-stream")
						w := httptest.NewRecorder()
						h.ServeHTTP(w, r)
						synctest.Wait()
						status, body = w.Code, w.Body.String()
						var docs []string
						if strings.HasPrefix(w.Header().Get("Content-Type"), "text/event-stream") {
							for _, line := range strings.Split(body, "\n") {
								if d, ok := strings.CutPrefix(line, "data: "); ok {
									docs = append(docs, d)
								}
							}
						} else if strings.TrimSpace(body) != "" {
							docs = append(docs, body)
						}
						for _, d := range docs {
							var one struct {
								ID json.RawMessage `json:"id"`
							}
							var many []struct {
								ID json.RawMessage `json:"id"`
							}
							if json.Unmarshal([]byte(d), &many) == nil {
								for _, m := range many {
									ids = append(ids, string(m.ID))
								}
							} else if json.Unmarshal([]byte(d), &one) == nil && len(one.ID) > 0 {
								ids = append(ids, string(one.ID))
							}
						}
						for ss := range s.Sessions() {
							ss.Close()
						}
					})
					var want []string
					for _, m := range refMsgs {
						if rq, ok := m.(*jsonrpc.Request); ok && rq.ID.IsValid() {
							b, _ := json.Marshal(rq.ID.Raw())
							want = append(want, string(b))
						}
					}
					sort.Strings(ids)
					sort.Strings(want)
					switch {
					case len(want) == 0 && (status == 202 || status == 200):
						cases.Record(idx, fmt.Sprintf("POST %d no calls", status), 1, func() string { return desc })
					case status != 200:
						cases.Violate(idx, fmt.Sprintf("c19 whitespace padded-payload-refused POST got %d", status), fmt.Sprintf("%s: answered %d %.200q", desc, status, body), 1)
					case !reflect.DeepEqual(ids, want):
						cases.Violate(idx, "c19 whitespace padded-payload-answers-differ POST", fmt.Sprintf("%s: responses carry ids %v, the calls have %v (%.300q)", desc, ids, want, body), 1)
					default:
						cases.Record(idx, fmt.Sprintf("POST 200 ids=%d", len(ids)), 1, func() string { return desc })
					}
				}
			}
		}
	}
}
