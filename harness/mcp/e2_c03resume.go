package mcp

// C03 over streamable HTTP with resumption: the notifications a handler sends on its request's
// stream are dispatched to the client's handler in the order they were sent - each once - however
// often the exchange carrying them is cut and resumed.  Real server (event store) and the SDK's own
// client, in process; the handler sends six progress notifications, one per step of the script.
//
// Scripts: every string over {W = the handler sends its next notification, C = the connection
// currently carrying the stream is cut, R = time passes until the client has resumed} with six W,
// at most two (thorough three) C and no more R than C.  W right after C is a write while nothing is
// attached; C while nothing is attached is a no-op.

import (
	"context"
	"fmt"
	"net/http"
	"strings"
	"testing"
	"testing/synctest"
	"time"

	"github.com/modelcontextprotocol/go-sdk/internal/verifx"
)

func c03ResumeScripts(maxCuts int) []string {
	var out []string
	var rec func(s string, w, c, r int)
	rec = func(s string, w, c, r int) {
		if w == 6 {
			out = append(out, s)
			return
		}
		rec(s+"W", w+1, c, r)
		if c < maxCuts && !strings.HasSuffix(s, "C") {
			rec(s+"C", w, c+1, r)
		}
		if r < c && !strings.HasSuffix(s, "R") {
			rec(s+"R", w, c, r+1)
		}
	}
	rec("", 0, 0, 0)
	return out
}

func c03ResumeCase(script string, version string) (obs, sig, msg string) {
	var hx *hxTransport
	fail := func(s, format string, a ...any) (string, string, string) {
		trace := ""
		if hx != nil {
			for _, x := range hx.exchanges() {
				trace += fmt.Sprintf("\n    #%d %s last-event-id=%q %.60s -> %d %.200q", x.N, x.Method, x.Header.Get("Last-Event-ID"), x.ReqBody, x.Status, x.Body())
			}
		}
		return "", "c03 resume " + s, fmt.Sprintf(format, a...) + fmt.Sprintf(" [script=%s version=%s]", script, version) + trace
	}
	ctx := context.Background()
	step := make(chan struct{})
	sent := 0
	s := NewServer(&Implementation{Name: "srv", Version: "1"}, &ServerOptions{Logger: quietLogger})
	AddTool(s, &Tool{Name: "stream"}, func(ctx context.Context, r *CallToolRequest, in struct{}) (*CallToolResult, any, error) {
		for i := 0; i < 6; i++ {
			<-step
			// the handler's own context may have ended with a cut exchange; the notification is still owed
			r.Session.NotifyProgress(context.WithoutCancel(ctx), &ProgressNotificationParams{ProgressToken: "tok", Progress: float64(i), Message: fmt.Sprint("m", i)})
			sent++
		}
		<-step
		return &CallToolResult{Content: []Content{&TextContent{Text: "done"}}}, nil, nil
	})
	hx = &hxTransport{Handler: NewStreamableHTTPHandler(func(*http.Request) *Server { return s }, &StreamableHTTPOptions{Logger: quietLogger, EventStore: NewMemoryEventStore(nil)})}
	var got []string
	c := NewClient(&Implementation{Name: "cli", Version: "1"}, &ClientOptions{Logger: quietLogger,
		ProgressNotificationHandler: func(_ context.Context, r *ProgressNotificationClientRequest) { got = append(got, r.Params.Message) }})
	cs, err := c.Connect(ctx, &StreamableClientTransport{Endpoint: "http://srv.test/mcp", HTTPClient: hx.client()}, &ClientSessionOptions{ProtocolVersion: version})
	if err != nil {
		return fail("setup", "connect: %v", err)
	}
	released := false
	cleanup := func() {
		if !released {
			released = true
			close(step) // a handler still waiting for its next step runs to its end
		}
		cs.Close()
		for x := range s.Sessions() {
			x.Close()
		}
		synctest.Wait()
	}
	var res *CallToolResult
	var callErr error
	done := false
	go func() {
		res, callErr = cs.CallTool(ctx, &CallToolParams{Name: "stream", Arguments: map[string]any{}, Meta: Meta{"progressToken": "tok"}})
		done = true
	}()
	synctest.Wait()
	// the exchange currently carrying the call's stream
	attached := func() *hxExchange {
		var last *hxExchange
		for _, x := range hx.exchanges() {
			if (x.Method == "POST" && strings.Contains(string(x.ReqBody), `"tools/call"`)) || (x.Method == "GET" && x.Header.Get("Last-Event-ID") != "") {
				last = x
			}
		}
		if last == nil {
			return nil
		}
		select {
		case <-last.Done:
			return nil
		default:
		}
		return last
	}
	cuts := 0
	for _, op := range script {
		switch op {
		case 'W':
			step <- struct{}{}
			synctest.Wait()
		case 'C':
			if x := attached(); x != nil && x.Cut != nil {
				x.Cut()
				cuts++
			}
			synctest.Wait()
		case 'R':
			time.Sleep(30 * time.Second)
			synctest.Wait()
		}
		if done {
			cleanup()
			return fail("call-ended-early", "the call ended (err=%v) while the handler was still sending; handled so far %v", callErr, got)
		}
	}
	if sent != 6 {
		cleanup()
		return fail("setup", "the handler sent %d notifications", sent)
	}
	time.Sleep(30 * time.Second) // the client resumes, if it was not attached
	synctest.Wait()
	step <- struct{}{} // the handler returns its result
	time.Sleep(time.Minute)
	synctest.Wait()
	defer cleanup()
	want := []string{"m0", "m1", "m2", "m3", "m4", "m5"}
	for i := 1; i < len(got); i++ {
		if got[i] <= got[i-1] {
			return fail("dispatched-out-of-order", "the client's handler saw %v: %q was dispatched after %q (sent in the order %v)", got, got[i], got[i-1], want)
		}
	}
	if !done {
		return fail("call-never-completes", "the handler returned a minute ago; the call is still pending (handled %v)", got)
	}
	if callErr != nil {
		return fail("call-failed", "the call failed although every cut was resumable: %v (handled %v)", callErr, got)
	}
	if len(got) != 6 {
		return fail("notification-lost", "the client's handler saw %v, sent %v", got, want)
	}
	if len(res.Content) != 1 {
		return fail("wrong-result", "result %+v", res)
	}
	return fmt.Sprintf("cuts=%d in-order", cuts), "", ""
}

func TestVerifC03Resume(t *testing.T) {
	env := verifx.LoadEnv("C03")
	res := env.NewResult()
	cases := env.NewCases(res, "http-resume/dispatch-order")
	for _, version := range []string{"2025-06-18", "2025-11-25"} {
		for _, script := range c03ResumeScripts(env.Pick(2, 3)) {
			if version < "2025-11-25" && strings.HasPrefix(script, "C") {
				continue // no priming event before 2025-11-25: a stream cut before its first event cannot be resumed
			}
			idx, mine := cases.Next()
			if !mine {
				continue
			}
			var obs, sig, msg string
			func() {
				defer func() {
					if r := recover(); r != nil {
						sig, msg = "c03 resume panic-or-leak", fmt.Sprintf("%v [script=%s version=%s]", r, script, version)
					}
				}()
				synctest.Test(t, func(t *testing.T) { obs, sig, msg = c03ResumeCase(script, version) })
			}()
			if sig != "" {
				cases.Violate(idx, sig, msg, len(script))
				continue
			}
			cases.Record(idx, version+" "+obs, len(script), func() string { return "script=" + script + " version=" + version })
		}
	}
	env.Finish(res)
}
