package mcp

// C12: HTTP preconditions hold before dispatch; the SDK client always satisfies them.
//  (a) soundness: a valid base request per endpoint kind, every combination of <=2 deviations
//      over the header/body dimensions, sent wire-faithfully (http.ReadRequest of the raw text)
//      to the real handlers: a violated precondition means a 4xx / -32020 and no dispatch.
//  (b) agreement: tool schemas with x-mcp-header annotations at depth 1..5 x schema-valid
//      argument values through the real client transport and the real handler over a
//      wire-faithful in-process round trip: the call reaches the tool with exactly those arguments.

import (
	"bufio"
	"bytes"
	"context"
	"encoding/json"
	"fmt"
	"net"
	"net/http"
	"net/http/httptest"
	"sort"
	"strings"
	"testing"
	"testing/synctest"
	"time"

	"github.com/modelcontextprotocol/go-sdk/internal/verifx"
)

// ---------- (b) agreement

// c12Schema builds {o1:{o2:{... {p:string, q:integer, r:boolean, s:string}}}} with depth-1 wrapping objects.
func c12Schema(depth int) map[string]any {
	leaf := map[string]any{
		"type": "object",
		"properties": map[string]any{
			"p": map[string]any{"type": "string", "x-mcp-header": "P"},
			"q": map[string]any{"type": "integer", "x-mcp-header": "Q"},
			"r": map[string]any{"type": "boolean", "x-mcp-header": "R"},
			"s": map[string]any{"type": "string"},
			"t": map[string]any{"type": "string", "x-mcp-header": "T"},
		},
	}
	cur := leaf
	for i := depth - 1; i >= 1; i-- {
		cur = map[string]any{"type": "object", "properties": map[string]any{
			fmt.Sprintf("o%d", i): cur,
			"sib":                 map[string]any{"type": "string", "x-mcp-header": fmt.Sprintf("Sib%d", i)},
		}}
	}
	return cur
}

// c12SchemaBefore: what the tool looked like before it was replaced - the same shape with other header
// bindings (p bound to another header name, q not bound at all, s bound where the final schema binds nothing)
func c12SchemaBefore(depth int) map[string]any {
	sc := c12Schema(depth)
	cur := sc
	for i := 1; i < depth; i++ {
		cur = cur["properties"].(map[string]any)[fmt.Sprintf("o%d", i)].(map[string]any)
	}
	props := cur["properties"].(map[string]any)
	props["p"] = map[string]any{"type": "string", "x-mcp-header": "OldP"}
	props["q"] = map[string]any{"type": "integer"}
	props["s"] = map[string]any{"type": "string", "x-mcp-header": "S"}
	return sc
}

func c12Args(depth int, leafVals map[string]any) map[string]any {
	cur := leafVals
	for i := depth - 1; i >= 1; i-- {
		cur = map[string]any{fmt.Sprintf("o%d", i): cur, "sib": fmt.Sprintf("sibling-%d", i)}
	}
	return cur
}

type c12Absent struct{}

// wireHx wraps hxTransport: every request is serialised and re-parsed like a real connection would.
type c12WireRT struct {
	inner *hxTransport
	bad   []string
}

func (w *c12WireRT) RoundTrip(req *http.Request) (*http.Response, error) {
	var buf bytes.Buffer
	if err := req.Write(&buf); err != nil {
		w.bad = append(w.bad, fmt.Sprintf("request cannot be written to the wire: %v", err))
		return nil, err
	}
	parsed, err := http.ReadRequest(bufio.NewReader(&buf))
	if err != nil {
		w.bad = append(w.bad, fmt.Sprintf("request cannot be parsed from the wire: %v", err))
		return nil, err
	}
	parsed = parsed.WithContext(req.Context())
	parsed.URL.Scheme, parsed.URL.Host = req.URL.Scheme, req.URL.Host
	return w.inner.RoundTrip(parsed)
}

func c12Agreement(t *testing.T, cases *verifx.Cases) {
	pvals := []any{c12Absent{}, "", "a", "ü", " a", "a ", "\t", "=?base64?YQ==?=", "=?base64?", "a\x7fb", "line\nbreak", "x,y", "ünï ", `"quoted"`}
	qvals := []any{c12Absent{}, 0, -1, 9007199254740991, -9007199254740991}
	rvals := []any{c12Absent{}, true, false}
	tvals := []any{c12Absent{}, "other"}
	for depth := 1; depth <= 5; depth++ {
		for _, p := range pvals {
			for _, q := range qvals {
				for _, r := range rvals {
					for _, tv := range tvals {
						idx, mine := cases.Next()
						if !mine {
							continue
						}
						leaf := map[string]any{"s": "plain"}
						for k, v := range map[string]any{"p": p, "q": q, "r": r, "t": tv} {
							if _, absent := v.(c12Absent); !absent {
								leaf[k] = v
							}
						}
						args := c12Args(depth, leaf)
						raw, _ := json.Marshal(args)
						desc := fmt.Sprintf("depth=%d arguments=%s", depth, raw)
						var sig, msg string
						func() {
							defer func() {
								if rec := recover(); rec != nil {
									sig, msg = "c12 agreement panic-or-leak", fmt.Sprintf("%v [%s]", rec, desc)
								}
							}()
							synctest.Test(t, func(t *testing.T) { sig, msg = c12AgreementCase(depth, args, desc, "listed") })
						}()
						if sig != "" {
							cases.Violate(idx, sig, msg, 2)
							continue
						}
						cases.Record(idx, fmt.Sprintf("delivered depth=%d", depth), 2, func() string { return desc })
					}
				}
			}
		}
	}
	// the same call when the client has not (or no longer) the tool's definition at hand
	for _, knowledge := range []string{"replaced-after-a-call", "never-listed", "list-invalidated", "paged-1/call-first", "paged-1/call-last", "paged-2/call-first", "paged-2/call-middle", "paged-1/relist-first-page/call-last", "paged-2/relist-first-page/call-last"} {
		for depth := 1; depth <= 2; depth++ {
			for _, leaf := range []map[string]any{{"s": "plain"}, {"s": "plain", "p": "a"}, {"s": "plain", "p": "ü", "q": 7, "r": true}} {
				idx, mine := cases.Next()
				if !mine {
					continue
				}
				args := c12Args(depth, leaf)
				raw, _ := json.Marshal(args)
				desc := fmt.Sprintf("depth=%d arguments=%s tool %s", depth, raw, knowledge)
				var sig, msg string
				func() {
					defer func() {
						if rec := recover(); rec != nil {
							sig, msg = "c12 agreement panic-or-leak", fmt.Sprintf("%v [%s]", rec, desc)
						}
					}()
					synctest.Test(t, func(t *testing.T) { sig, msg = c12AgreementCase(depth, args, desc, knowledge) })
				}()
				if sig != "" {
					cases.Violate(idx, sig, msg, 2)
					continue
				}
				cases.Record(idx, fmt.Sprintf("delivered depth=%d tool %s", depth, knowledge), 2, func() string { return desc })
			}
		}
	}
}

// knowledge: how the client learned about the tool before calling it -- "listed" (a tools/list just
// before), "never-listed" (CallTool is the first thing the session does) or "list-invalidated" (it
// listed, then another tool was added and the tools/list_changed notification was handled).
func c12AgreementCase(depth int, args map[string]any, desc string, knowledge string) (sig, msg string) {
	ctx := context.Background()
	var got []json.RawMessage
	sopts := &ServerOptions{Logger: quietLogger}
	target, nTools := "t", 1
	if strings.HasPrefix(knowledge, "paged-") {
		// the tool list spans several pages (t, u, v, w, x in this order); the client walks all of them
		// (and possibly fetches the first page once more) before it calls one of the tools
		sopts.PageSize = int(knowledge[6] - '0')
		nTools = 5
		switch {
		case strings.HasSuffix(knowledge, "call-last"):
			target = "x"
		case strings.HasSuffix(knowledge, "call-middle"):
			target = "v"
		}
	}
	s := NewServer(&Implementation{Name: "srv", Version: "1"}, sopts)
	for _, name := range []string{"t", "u", "v", "w", "x"}[:nTools] {
		schema := c12Schema(depth)
		if knowledge == "replaced-after-a-call" {
			schema = c12SchemaBefore(depth)
		}
		s.AddTool(&Tool{Name: name, InputSchema: schema}, func(ctx context.Context, r *CallToolRequest) (*CallToolResult, error) {
			if name == target {
				got = append(got, r.Params.Arguments)
			}
			return &CallToolResult{}, nil
		})
	}
	h := NewStreamableHTTPHandler(func(*http.Request) *Server { return s }, &StreamableHTTPOptions{Stateless: true, Logger: quietLogger})
	wire := &c12WireRT{inner: &hxTransport{Handler: h}}
	client := NewClient(&Implementation{Name: "cli", Version: "1"}, &ClientOptions{Logger: quietLogger})
	cs, err := client.Connect(ctx, &StreamableClientTransport{Endpoint: "http://example.test/mcp", HTTPClient: &http.Client{Transport: wire}, MaxRetries: -1}, nil)
	if err != nil {
		return "c12 agreement connect", fmt.Sprintf("connect: %v [%s]", err, desc)
	}
	defer cs.Close()
	if v := cs.InitializeResult().ProtocolVersion; v != "2026-07-28" {
		return "c12 agreement connect", fmt.Sprintf("negotiated %s, want 2026-07-28", v)
	}
	if strings.HasPrefix(knowledge, "paged-") {
		n := 0
		for _, err := range cs.Tools(ctx, nil) {
			if err != nil {
				return "c12 agreement tool-not-listed", fmt.Sprintf("Tools: %v [%s]", err, desc)
			}
			n++
		}
		if n != nTools {
			return "c12 agreement tool-not-listed", fmt.Sprintf("Tools yielded %d of %d tools [%s]", n, nTools, desc)
		}
		if strings.Contains(knowledge, "relist-first-page") {
			if _, err := cs.ListTools(ctx, nil); err != nil {
				return "c12 agreement tool-not-listed", fmt.Sprintf("ListTools: %v [%s]", err, desc)
			}
		}
	} else if knowledge != "never-listed" {
		lr, err := cs.ListTools(ctx, nil)
		if err != nil || len(lr.Tools) != 1 {
			return "c12 agreement tool-not-listed", fmt.Sprintf("ListTools: %v %v [%s]", lr, err, desc)
		}
	}
	if knowledge == "list-invalidated" {
		s.AddTool(&Tool{Name: "other", InputSchema: map[string]any{"type": "object"}}, func(context.Context, *CallToolRequest) (*CallToolResult, error) {
			return &CallToolResult{}, nil
		})
		time.Sleep(time.Second)
		synctest.Wait()
	}
	if knowledge == "replaced-after-a-call" {
		// the tool is called once as it was, then replaced by one of the same name with other header bindings;
		// the client handles the list-changed notification and lists again
		if r0, err := cs.CallTool(ctx, &CallToolParams{Name: target, Arguments: args}); err != nil || r0.IsError {
			return "c12 agreement legitimate-call-rejected before-replacement", fmt.Sprintf("the call before the replacement was rejected: %v %+v [%s]", err, r0, desc)
		}
		got = nil
		s.AddTool(&Tool{Name: target, InputSchema: c12Schema(depth)}, func(ctx context.Context, r *CallToolRequest) (*CallToolResult, error) {
			got = append(got, r.Params.Arguments)
			return &CallToolResult{}, nil
		})
		time.Sleep(time.Second)
		synctest.Wait()
		if lr, err := cs.ListTools(ctx, nil); err != nil || len(lr.Tools) != 1 {
			return "c12 agreement tool-not-listed", fmt.Sprintf("ListTools after the replacement: %v %v [%s]", lr, err, desc)
		}
	}
	res, err := cs.CallTool(ctx, &CallToolParams{Name: target, Arguments: args})
	if err != nil || res.IsError {
		var hdrs []string
		for _, x := range wire.inner.exchanges() {
			if strings.Contains(string(x.ReqBody), `"tools/call"`) {
				for k, v := range x.Header {
					if strings.HasPrefix(k, "Mcp-") {
						hdrs = append(hdrs, fmt.Sprintf("%s=%q", k, v))
					}
				}
			}
		}
		sort.Strings(hdrs)
		cls := "other"
		if err != nil && strings.Contains(err.Error(), "eader") {
			cls = "header-mismatch"
		}
		if knowledge != "listed" {
			cls += " tool-" + knowledge
		}
		return "c12 agreement legitimate-call-rejected " + cls, fmt.Sprintf("a call with schema-valid arguments was rejected: %v %+v; headers sent: %v; wire problems: %v [%s]", err, res, hdrs, wire.bad, desc)
	}
	if len(got) != 1 {
		return "c12 agreement handler-runs", fmt.Sprintf("the tool handler ran %d times [%s]", len(got), desc)
	}
	want, _ := json.Marshal(args)
	if !c19JSONEqual(got[0], want) {
		return "c12 agreement arguments-changed", fmt.Sprintf("the tool saw %s [%s]", got[0], desc)
	}
	return "", ""
}

// c12ParamsReuse: params values are data; a caller may hand the same value to several sessions.  One
// client, one session on a stateless (2026-07-28) endpoint and one on a stateful (legacy) endpoint,
// the same params value used on both, in either order: no request may be refused.
func c12ParamsReuse(modernFirst bool, op string) (obs, sig, msg string) {
	ctx := context.Background()
	desc := fmt.Sprintf("op=%s modern-session-first=%v", op, modernFirst)
	mkServer := func() *Server {
		s := NewServer(&Implementation{Name: "srv", Version: "1"}, &ServerOptions{Logger: quietLogger})
		AddTool(s, &Tool{Name: "t"}, func(ctx context.Context, r *CallToolRequest, in map[string]any) (*CallToolResult, any, error) {
			return &CallToolResult{}, nil, nil
		})
		s.AddPrompt(&Prompt{Name: "p"}, func(context.Context, *GetPromptRequest) (*GetPromptResult, error) { return &GetPromptResult{}, nil })
		s.AddResource(&Resource{URI: "file:///r", Name: "r"}, func(context.Context, *ReadResourceRequest) (*ReadResourceResult, error) {
			return &ReadResourceResult{Contents: []*ResourceContents{{URI: "file:///r", Text: "x"}}}, nil
		})
		return s
	}
	client := NewClient(&Implementation{Name: "cli", Version: "1"}, &ClientOptions{Logger: quietLogger})
	var sessions []*ClientSession
	var hxs []*hxTransport
	for _, stateless := range []bool{modernFirst, !modernFirst} {
		s := mkServer()
		h := NewStreamableHTTPHandler(func(*http.Request) *Server { return s }, &StreamableHTTPOptions{Stateless: stateless, Logger: quietLogger})
		hx := &hxTransport{Handler: h}
		cs, err := client.Connect(ctx, &StreamableClientTransport{Endpoint: "http://example.test/mcp", HTTPClient: hx.client(), MaxRetries: -1}, nil)
		if err != nil {
			return "", "c12 params-reuse connect", fmt.Sprintf("connect: %v [%s]", err, desc)
		}
		defer cs.Close()
		sessions, hxs = append(sessions, cs), append(hxs, hx)
	}
	callParams := &CallToolParams{Name: "t", Arguments: map[string]any{}}
	listParams := &ListToolsParams{}
	promptParams := &GetPromptParams{Name: "p"}
	readParams := &ReadResourceParams{URI: "file:///r"}
	for i, cs := range sessions {
		var err error
		switch op {
		case "CallTool":
			_, err = cs.CallTool(ctx, callParams)
		case "ListTools":
			_, err = cs.ListTools(ctx, listParams)
		case "GetPrompt":
			_, err = cs.GetPrompt(ctx, promptParams)
		case "ReadResource":
			_, err = cs.ReadResource(ctx, readParams)
		}
		synctest.Wait()
		version := cs.InitializeResult().ProtocolVersion
		if err != nil {
			return "", fmt.Sprintf("c12 params-reuse legitimate-request-refused %s", op), fmt.Sprintf("session %d (negotiated %s): ClientSession.%s with a params value that was used on the other session before: %v [%s]", i+1, version, op, err, desc)
		}
		for _, x := range hxs[i].exchanges() {
			if x.Method == "POST" && x.Status >= 400 {
				return "", fmt.Sprintf("c12 params-reuse legitimate-request-refused %s", op), fmt.Sprintf("session %d (negotiated %s): a POST produced by ClientSession.%s was answered %d (body %.200q) [%s]", i+1, version, op, x.Status, x.ReqBody, desc)
			}
		}
	}
	return "both sessions served", "", ""
}

// c12ClientOps: every message the SDK client's session API produces is accepted by the SDK's own HTTP
// handlers: no POST is answered with a 4xx, and the session is still usable afterwards.
func c12ClientOps(stateless bool, op string) (obs, sig, msg string) {
	ctx := context.Background()
	desc := fmt.Sprintf("stateless=%v op=%s", stateless, op)
	s := NewServer(&Implementation{Name: "srv", Version: "1"}, &ServerOptions{Logger: quietLogger,
		SubscribeHandler:   func(context.Context, *SubscribeRequest) error { return nil },
		UnsubscribeHandler: func(context.Context, *UnsubscribeRequest) error { return nil },
		CompletionHandler: func(context.Context, *CompleteRequest) (*CompleteResult, error) {
			return &CompleteResult{Completion: CompletionResultDetails{Values: []string{}}}, nil
		},
	})
	AddTool(s, &Tool{Name: "t"}, func(ctx context.Context, r *CallToolRequest, in map[string]any) (*CallToolResult, any, error) {
		return &CallToolResult{}, nil, nil
	})
	s.AddPrompt(&Prompt{Name: "p"}, func(context.Context, *GetPromptRequest) (*GetPromptResult, error) { return &GetPromptResult{}, nil })
	s.AddResource(&Resource{URI: "file:///r", Name: "r"}, func(context.Context, *ReadResourceRequest) (*ReadResourceResult, error) {
		return &ReadResourceResult{Contents: []*ResourceContents{{URI: "file:///r", Text: "x"}}}, nil
	})
	h := NewStreamableHTTPHandler(func(*http.Request) *Server { return s }, &StreamableHTTPOptions{Stateless: stateless, Logger: quietLogger})
	hx := &hxTransport{Handler: h}
	client := NewClient(&Implementation{Name: "cli", Version: "1"}, &ClientOptions{Logger: quietLogger})
	cs, err := client.Connect(ctx, &StreamableClientTransport{Endpoint: "http://example.test/mcp", HTTPClient: hx.client(), MaxRetries: -1}, nil)
	if err != nil {
		return "", "c12 client-ops connect", fmt.Sprintf("connect: %v [%s]", err, desc)
	}
	defer cs.Close()
	var opErr error
	switch op {
	case "ListTools":
		_, opErr = cs.ListTools(ctx, nil)
	case "CallTool":
		_, opErr = cs.CallTool(ctx, &CallToolParams{Name: "t", Arguments: map[string]any{}})
	case "ListPrompts":
		_, opErr = cs.ListPrompts(ctx, nil)
	case "GetPrompt":
		_, opErr = cs.GetPrompt(ctx, &GetPromptParams{Name: "p"})
	case "ListResources":
		_, opErr = cs.ListResources(ctx, nil)
	case "ListResourceTemplates":
		_, opErr = cs.ListResourceTemplates(ctx, nil)
	case "ReadResource":
		_, opErr = cs.ReadResource(ctx, &ReadResourceParams{URI: "file:///r"})
	case "Complete":
		_, opErr = cs.Complete(ctx, &CompleteParams{Ref: &CompleteReference{Type: "ref/prompt", Name: "p"}, Argument: CompleteParamsArgument{Name: "a", Value: "v"}})
	case "NotifyProgress":
		opErr = cs.NotifyProgress(ctx, &ProgressNotificationParams{ProgressToken: "tok", Progress: 1})
	case "Subscribe+Unsubscribe":
		if opErr = cs.Subscribe(ctx, &SubscribeParams{URI: "file:///r"}); opErr == nil {
			synctest.Wait()
			opErr = cs.Unsubscribe(ctx, &UnsubscribeParams{URI: "file:///r"})
		}
	case "Ping":
		opErr = cs.Ping(ctx, nil)
	case "SetLoggingLevel":
		opErr = cs.SetLoggingLevel(ctx, &SetLoggingLevelParams{Level: "debug"})
	}
	synctest.Wait()
	version := cs.InitializeResult().ProtocolVersion
	// Ping and SetLoggingLevel do not exist under 2026-07-28: the API call fails, and how the refusal is
	// conveyed is not this property's business - the session must survive it all the same
	removed := version >= "2026-07-28" && (op == "Ping" || op == "SetLoggingLevel")
	for _, x := range hx.exchanges() {
		if x.Method == "POST" && x.Status >= 400 && x.Status < 500 && !removed {
			return "", fmt.Sprintf("c12 client-ops client-message-refused %s stateless=%v", op, stateless), fmt.Sprintf("negotiated %s: a POST produced by ClientSession.%s was answered %d by the SDK's own handler (body %.200q); the operation returned %v [%s]", version, op, x.Status, x.ReqBody, opErr, desc)
		}
	}
	if _, err := cs.ListTools(ctx, nil); err != nil {
		return "", fmt.Sprintf("c12 client-ops session-unusable-after %s stateless=%v", op, stateless), fmt.Sprintf("negotiated %s: after ClientSession.%s (returned %v) the session is unusable: %v [%s]", version, op, opErr, err, desc)
	}
	cls := "ok"
	if opErr != nil {
		cls = "api-error" // e.g. a method the negotiated protocol does not have
	}
	return fmt.Sprintf("%s %s", version, cls), "", ""
}

// ---------- (a) soundness

type c12Req struct {
	kind      string // stateless-modern, stateless-modern-notification, stateful-legacy, stateful-no-session-ids, sse
	method    string
	target    string
	host      string
	localAddr string
	headers   [][2]string
	body      string
	chunked   bool // send the body with chunked transfer encoding (no Content-Length)
	// reference: names of the violated preconditions
	violated []string
	// lenient: the statement leaves open whether this request meets the precondition (an Accept that
	// admits the one response type a JSON-response endpoint uses for calls, but not the other):
	// refused with a 4xx and not dispatched, or served - both are fine
	lenient bool
}

type c12Dim struct {
	name    string
	applies func(kind string) bool
	// variants mutate the request and return the name of the precondition they violate ("" if still valid)
	variants []func(r *c12Req) string
}

func c12SetHeader(r *c12Req, k, v string) {
	for i := range r.headers {
		if strings.EqualFold(r.headers[i][0], k) {
			r.headers[i][1] = v
			return
		}
	}
	r.headers = append(r.headers, [2]string{k, v})
}

func c12DelHeader(r *c12Req, k string) {
	out := r.headers[:0]
	for _, h := range r.headers {
		if !strings.EqualFold(h[0], k) {
			out = append(out, h)
		}
	}
	r.headers = out
}

const c12BodyLimit = 400

func c12Dims() []c12Dim {
	all := func(string) bool { return true }
	modern := func(k string) bool { return k == "stateless-modern" || k == "stateless-modern-json" }
	modernAny := func(k string) bool { return strings.HasPrefix(k, "stateless-modern") } // calls and notifications
	streamable := func(k string) bool { return k != "sse" }
	hdr := func(k, v, violates string) func(*c12Req) string {
		return func(r *c12Req) string { c12SetHeader(r, k, v); return violates }
	}
	del := func(k, violates string) func(*c12Req) string {
		return func(r *c12Req) string { c12DelHeader(r, k); return violates }
	}
	return []c12Dim{
		{"host", all, []func(*c12Req) string{
			func(r *c12Req) string { r.host = "evil.example"; return "host" },
			func(r *c12Req) string { r.host = "evil.example:80"; return "host" },
			func(r *c12Req) string { r.host = "localhost.evil.example"; return "host" },
			// names that merely end in, start with or contain the letters "localhost" / a loopback address
			func(r *c12Req) string { r.host = "evillocalhost"; return "host" },
			func(r *c12Req) string { r.host = "intranet.notlocalhost:8080"; return "host" },
			func(r *c12Req) string { r.host = "127.0.0.1.evil.example:80"; return "host" },
			func(r *c12Req) string { r.host = "localhostx:80"; return "host" },
			func(r *c12Req) string { r.host = "1127.0.0.1"; return "host" },
			func(r *c12Req) string { r.host = "127.0.0.1:8080"; return "" },
			func(r *c12Req) string { r.host = "[::1]:8080"; return "" },
			func(r *c12Req) string { r.host, r.localAddr = "evil.example", "10.1.2.3:80"; return "" }, // not a loopback listener: any Host
		}},
		{"content-type", all, []func(*c12Req) string{
			hdr("Content-Type", "application/json; charset=utf-8", ""),
			hdr("Content-Type", "APPLICATION/JSON", ""),
			hdr("Content-Type", "text/plain", "content-type"),
			hdr("Content-Type", "application/jsonx", "content-type"),
			hdr("Content-Type", "application/x-www-form-urlencoded", "content-type"),
			hdr("Content-Type", "json", "content-type"),
			del("Content-Type", "content-type"),
		}},
		{"accept", streamable, []func(*c12Req) string{
			hdr("Accept", "*/*", ""),
			hdr("Accept", "application/*, text/*", ""),
			hdr("Accept", "application/json;q=0.5, text/event-stream;q=0.1", ""),
			func(r *c12Req) string {
				c12SetHeader(r, "Accept", "application/json")
				if r.kind == "stateless-modern-json" {
					r.lenient = true // its answer to a call is application/json
					return ""
				}
				return "accept"
			},
			hdr("Accept", "text/event-stream", "accept"),
			hdr("Accept", "text/html", "accept"),
			hdr("Accept", "", "accept"),
			del("Accept", "accept"),
		}},
		{"body-size", streamable, []func(*c12Req) string{
			func(r *c12Req) string { r.body = c12Pad(r.body, c12BodyLimit-1); return "" },
			func(r *c12Req) string { r.body = c12Pad(r.body, c12BodyLimit); return "" },
			func(r *c12Req) string { r.body = c12Pad(r.body, c12BodyLimit+1); return "body-size" },
			func(r *c12Req) string { r.body = c12Pad(r.body, 4*c12BodyLimit); return "body-size" },
			// the same sizes with chunked transfer encoding: no declared Content-Length
			func(r *c12Req) string { r.body, r.chunked = c12Pad(r.body, c12BodyLimit), true; return "" },
			func(r *c12Req) string { r.body, r.chunked = c12Pad(r.body, c12BodyLimit+1), true; return "body-size" },
			func(r *c12Req) string { r.body, r.chunked = c12Pad(r.body, 4*c12BodyLimit), true; return "body-size" },
		}},
		{"version-header", streamable, []func(*c12Req) string{
			func(r *c12Req) string {
				if strings.HasPrefix(r.kind, "stateless-modern") {
					c12DelHeader(r, "Mcp-Protocol-Version")
					return "version"
				}
				c12DelHeader(r, "Mcp-Protocol-Version")
				return ""
			},
			func(r *c12Req) string {
				c12SetHeader(r, "Mcp-Protocol-Version", "1999-01-01")
				return "version"
			},
			func(r *c12Req) string {
				c12SetHeader(r, "Mcp-Protocol-Version", "2099-01-01")
				return "version"
			},
			func(r *c12Req) string {
				c12SetHeader(r, "Mcp-Protocol-Version", "2025-03-26")
				if strings.HasPrefix(r.kind, "stateless-modern") {
					return "version" // the body's _meta says 2026-07-28
				}
				return ""
			},
		}},
		{"mcp-method", modernAny, []func(*c12Req) string{
			del("Mcp-Method", "mcp-method"),
			hdr("Mcp-Method", "tools/list", "mcp-method"),
			hdr("Mcp-Method", "TOOLS/CALL", "mcp-method"),
			hdr("Mcp-Method", "", "mcp-method"),
		}},
		{"mcp-name", modern, []func(*c12Req) string{
			del("Mcp-Name", "mcp-name"),
			hdr("Mcp-Name", "other", "mcp-name"),
			hdr("Mcp-Name", "T", "mcp-name"),
			hdr("Mcp-Name", "t ", ""), // trailing blank is trimmed on the wire
		}},
		{"mcp-param", modern, []func(*c12Req) string{
			del("Mcp-Param-P", "mcp-param"),
			hdr("Mcp-Param-P", "other", "mcp-param"),
			hdr("Mcp-Param-P", "=?base64?dmFs?=", ""), // base64("val")
			hdr("Mcp-Param-P", "=?base64?!!!?=", "mcp-param"),
			hdr("Mcp-Param-P", "=?base64?b3RoZXI=?=", "mcp-param"), // base64("other")
			hdr("Mcp-Param-P", "VAL", "mcp-param"),
			hdr("Mcp-Param-Q", "8", "mcp-param"),
			hdr("Mcp-Param-Q", "7.0", ""),
			hdr("Mcp-Param-Q", "seven", "mcp-param"),
			hdr("Mcp-Param-R", "false", "mcp-param"),
			hdr("Mcp-Param-R", "TRUE", "mcp-param"),
			hdr("Mcp-Param-Absent", "x", "mcp-param"), // a header for a parameter that is not in the body
		}},
		// members spelled like "name" / "arguments" in another letter case are other members (decoding is
		// case-sensitive): the name that is dispatched is the one the Mcp-Name header has to equal
		{"body-decoy-members", modern, []func(*c12Req) string{
			func(r *c12Req) string { // a decoy after the real name; the headers describe the real request
				c12Edit(r, `"name":"t",`, `"name":"t","Name":"wipe",`)
				return ""
			},
			func(r *c12Req) string { // the real name is "wipe", a decoy spells the header's value
				c12Edit(r, `"name":"t",`, `"name":"wipe","Name":"t",`)
				return "mcp-name"
			},
			func(r *c12Req) string {
				c12Edit(r, `"name":"t",`, `"NAME":"t","name":"wipe",`)
				return "mcp-name"
			},
			func(r *c12Req) string { // decoy arguments that contradict the headers; the real ones agree
				c12Edit(r, `,"_meta"`, `,"Arguments":{"p":"other","q":8,"r":false},"_meta"`)
				return ""
			},
			func(r *c12Req) string { // the headers describe the decoy arguments, not the real ones
				c12Edit(r, `,"_meta"`, `,"Arguments":{"p":"other"},"_meta"`)
				c12SetHeader(r, "Mcp-Param-P", "other")
				return "mcp-param"
			},
		}},
		{"meta-version", modern, []func(*c12Req) string{
			func(r *c12Req) string {
				r.body = strings.Replace(r.body, `"io.modelcontextprotocol/protocolVersion":"2026-07-28"`, `"io.modelcontextprotocol/protocolVersion":"2025-06-18"`, 1)
				return "version"
			},
		}},
	}
}

// c12Edit replaces old by new in the body; if the body has been padded to a size, the padding gives
// way so that the size stays what the body-size deviation made it.
func c12Edit(r *c12Req, old, new string) {
	r.body = strings.Replace(r.body, old, new, 1)
	if grow := len(new) - len(old); grow > 0 && strings.Contains(r.body, `"pad":"`+strings.Repeat("x", grow)) {
		r.body = strings.Replace(r.body, `"pad":"`+strings.Repeat("x", grow), `"pad":"`, 1)
	}
}

func c12Pad(body string, n int) string {
	// pad with blanks after the closing brace is not JSON-neutral for size limits: pad inside a string member
	if len(body) >= n {
		return body
	}
	i := strings.LastIndex(body, "}")
	pad := n - len(body) - len(`,"pad":""`)
	if pad < 0 {
		return body + strings.Repeat(" ", n-len(body))
	}
	// top-level extra member of the JSON-RPC envelope
	return body[:i] + `,"pad":"` + strings.Repeat("x", pad) + `"` + body[i:]
}

type c12Endpoint struct {
	kind     string
	handler  http.Handler
	base     func() *c12Req
	dispatch *int
	cleanup  func()
}

func c12Setup(kind string) (*c12Endpoint, error) {
	dispatched := 0
	s := NewServer(&Implementation{Name: "srv", Version: "1"}, &ServerOptions{Logger: quietLogger})
	schema := map[string]any{"type": "object", "properties": map[string]any{
		"p":      map[string]any{"type": "string", "x-mcp-header": "P"},
		"q":      map[string]any{"type": "integer", "x-mcp-header": "Q"},
		"r":      map[string]any{"type": "boolean", "x-mcp-header": "R"},
		"absent": map[string]any{"type": "string", "x-mcp-header": "Absent"},
		// an ordinary, unannotated sibling whose type is a list (what schema inference emits for a pointer field)
		"note": map[string]any{"type": []any{"string", "null"}},
	}}
	s.AddTool(&Tool{Name: "t", InputSchema: schema}, func(context.Context, *CallToolRequest) (*CallToolResult, error) {
		return &CallToolResult{}, nil
	})
	// a second tool, without header annotations
	s.AddTool(&Tool{Name: "wipe", InputSchema: map[string]any{"type": "object"}}, func(context.Context, *CallToolRequest) (*CallToolResult, error) {
		return &CallToolResult{}, nil
	})
	s.AddReceivingMiddleware(func(next MethodHandler) MethodHandler {
		return func(ctx context.Context, method string, req Request) (Result, error) {
			if method == "tools/call" || method == "notifications/progress" || method == "subscriptions/listen" {
				dispatched++
			}
			return next(ctx, method, req)
		}
	})
	e := &c12Endpoint{kind: kind, dispatch: &dispatched}
	args := `{"p":"val","q":7,"r":true}`
	switch kind {
	case "stateless-modern":
		e.handler = NewStreamableHTTPHandler(func(*http.Request) *Server { return s }, &StreamableHTTPOptions{Stateless: true, Logger: quietLogger, MaxRequestBodyBytes: c12BodyLimit})
		e.base = func() *c12Req {
			return &c12Req{kind: kind, method: "POST", target: "/mcp", host: "localhost:80", localAddr: "127.0.0.1:80",
				headers: [][2]string{{"Content-Type", "application/json"}, {"Accept", "application/json, text/event-stream"},
					{"Mcp-Protocol-Version", "2026-07-28"}, {"Mcp-Method", "tools/call"}, {"Mcp-Name", "t"},
					{"Mcp-Param-P", "val"}, {"Mcp-Param-Q", "7"}, {"Mcp-Param-R", "true"}},
				body: `{"jsonrpc":"2.0","id":1,"method":"tools/call","params":{"name":"t","arguments":` + args + `,"_meta":{"io.modelcontextprotocol/protocolVersion":"2026-07-28","io.modelcontextprotocol/clientCapabilities":{}}}}`}
		}
	case "stateless-modern-json":
		// the same endpoint configured to answer calls with application/json bodies
		e.handler = NewStreamableHTTPHandler(func(*http.Request) *Server { return s }, &StreamableHTTPOptions{Stateless: true, JSONResponse: true, Logger: quietLogger, MaxRequestBodyBytes: c12BodyLimit})
		e.base = func() *c12Req {
			return &c12Req{kind: kind, method: "POST", target: "/mcp", host: "localhost:80", localAddr: "127.0.0.1:80",
				headers: [][2]string{{"Content-Type", "application/json"}, {"Accept", "application/json, text/event-stream"},
					{"Mcp-Protocol-Version", "2026-07-28"}, {"Mcp-Method", "tools/call"}, {"Mcp-Name", "t"},
					{"Mcp-Param-P", "val"}, {"Mcp-Param-Q", "7"}, {"Mcp-Param-R", "true"}},
				body: `{"jsonrpc":"2.0","id":1,"method":"tools/call","params":{"name":"t","arguments":` + args + `,"_meta":{"io.modelcontextprotocol/protocolVersion":"2026-07-28","io.modelcontextprotocol/clientCapabilities":{}}}}`}
		}
	case "stateless-modern-listen", "stateless-modern-json-listen":
		// subscriptions/listen: a call that is always answered with an event stream, whatever the
		// handler's JSONResponse setting says about ordinary calls
		e.handler = NewStreamableHTTPHandler(func(*http.Request) *Server { return s }, &StreamableHTTPOptions{Stateless: true, JSONResponse: strings.Contains(kind, "json"), Logger: quietLogger, MaxRequestBodyBytes: c12BodyLimit})
		e.base = func() *c12Req {
			return &c12Req{kind: kind, method: "POST", target: "/mcp", host: "localhost:80", localAddr: "127.0.0.1:80",
				headers: [][2]string{{"Content-Type", "application/json"}, {"Accept", "application/json, text/event-stream"},
					{"Mcp-Protocol-Version", "2026-07-28"}, {"Mcp-Method", "subscriptions/listen"}},
				body: `{"jsonrpc":"2.0","id":1,"method":"subscriptions/listen","params":{"notifications":{"toolsListChanged":true},"_meta":{"io.modelcontextprotocol/protocolVersion":"2026-07-28","io.modelcontextprotocol/clientCapabilities":{}}}}`}
		}
	case "stateless-modern-notification":
		// the same endpoint receiving a notification: its Mcp-Method header is checked like a call's
		e.handler = NewStreamableHTTPHandler(func(*http.Request) *Server { return s }, &StreamableHTTPOptions{Stateless: true, Logger: quietLogger, MaxRequestBodyBytes: c12BodyLimit})
		e.base = func() *c12Req {
			return &c12Req{kind: kind, method: "POST", target: "/mcp", host: "localhost:80", localAddr: "127.0.0.1:80",
				headers: [][2]string{{"Content-Type", "application/json"}, {"Accept", "application/json, text/event-stream"},
					{"Mcp-Protocol-Version", "2026-07-28"}, {"Mcp-Method", "notifications/progress"}},
				body: `{"jsonrpc":"2.0","method":"notifications/progress","params":{"progressToken":1,"progress":1,"_meta":{"io.modelcontextprotocol/protocolVersion":"2026-07-28","io.modelcontextprotocol/clientCapabilities":{}}}}`}
		}
	case "stateful-legacy":
		h := NewStreamableHTTPHandler(func(*http.Request) *Server { return s }, &StreamableHTTPOptions{Logger: quietLogger, MaxRequestBodyBytes: c12BodyLimit})
		e.handler = h
		post := func(body, sid string) *httptest.ResponseRecorder {
			r := httptest.NewRequest("POST", "http://localhost/mcp", strings.NewReader(body))
			r.Header.Set("Content-Type", "application/json")
			r.Header.Set("Accept", "application/json, text/event-stream")
			if sid != "" {
				r.Header.Set("Mcp-Session-Id", sid)
				r.Header.Set("Mcp-Protocol-Version", "2025-06-18")
			}
			w := httptest.NewRecorder()
			h.ServeHTTP(w, r)
			return w
		}
		w := post(`{"jsonrpc":"2.0","id":"h","method":"initialize","params":{"protocolVersion":"2025-06-18","capabilities":{},"clientInfo":{"name":"c","version":"1"}}}`, "")
		sid := w.Header().Get("Mcp-Session-Id")
		if sid == "" {
			return nil, fmt.Errorf("no session id: %d %s", w.Code, w.Body)
		}
		post(`{"jsonrpc":"2.0","method":"notifications/initialized","params":{}}`, sid)
		e.base = func() *c12Req {
			return &c12Req{kind: kind, method: "POST", target: "/mcp", host: "localhost:80", localAddr: "127.0.0.1:80",
				headers: [][2]string{{"Content-Type", "application/json"}, {"Accept", "application/json, text/event-stream"},
					{"Mcp-Protocol-Version", "2025-06-18"}, {"Mcp-Session-Id", sid}},
				body: `{"jsonrpc":"2.0","id":1,"method":"tools/call","params":{"name":"t","arguments":` + args + `}}`}
		}
		e.cleanup = func() {
			for ss := range s.Sessions() {
				ss.Close()
			}
		}
	case "stateful-no-session-ids":
		// a stateful handler whose server suppresses session ids: every POST is served by an
		// ephemeral session (a different code path from Stateless: true)
		s.opts.GetSessionID = func() string { return "" }
		e.handler = NewStreamableHTTPHandler(func(*http.Request) *Server { return s }, &StreamableHTTPOptions{Logger: quietLogger, MaxRequestBodyBytes: c12BodyLimit})
		e.base = func() *c12Req {
			return &c12Req{kind: kind, method: "POST", target: "/mcp", host: "localhost:80", localAddr: "127.0.0.1:80",
				headers: [][2]string{{"Content-Type", "application/json"}, {"Accept", "application/json, text/event-stream"},
					{"Mcp-Protocol-Version", "2025-06-18"}},
				body: `{"jsonrpc":"2.0","id":1,"method":"tools/call","params":{"name":"t","arguments":` + args + `}}`}
		}
	case "sse":
		h := NewSSEHandler(func(*http.Request) *Server { return s }, nil)
		e.handler = h
		// open the event stream and perform the handshake through the message endpoint
		hx := &hxTransport{Handler: h}
		ctx, cancel := context.WithCancel(context.Background())
		req, _ := http.NewRequestWithContext(ctx, "GET", "http://localhost/sse", nil)
		resp, err := hx.RoundTrip(req)
		if err != nil {
			cancel()
			return nil, err
		}
		br := bufio.NewReader(resp.Body)
		endpoint := ""
		for endpoint == "" {
			line, err := br.ReadString('\n')
			if err != nil {
				cancel()
				return nil, fmt.Errorf("sse stream: %v", err)
			}
			if strings.HasPrefix(line, "data: ") {
				endpoint = strings.TrimSpace(strings.TrimPrefix(line, "data: "))
			}
		}
		go func() { // drain the stream
			for {
				if _, err := br.ReadString('\n'); err != nil {
					return
				}
			}
		}()
		post := func(body string) int {
			r := httptest.NewRequest("POST", "http://localhost"+endpoint, strings.NewReader(body))
			r.Header.Set("Content-Type", "application/json")
			w := httptest.NewRecorder()
			h.ServeHTTP(w, r)
			return w.Code
		}
		post(`{"jsonrpc":"2.0","id":"h","method":"initialize","params":{"protocolVersion":"2025-06-18","capabilities":{},"clientInfo":{"name":"c","version":"1"}}}`)
		synctest.Wait()
		post(`{"jsonrpc":"2.0","method":"notifications/initialized","params":{}}`)
		synctest.Wait()
		e.base = func() *c12Req {
			return &c12Req{kind: kind, method: "POST", target: endpoint, host: "localhost:80", localAddr: "127.0.0.1:80",
				headers: [][2]string{{"Content-Type", "application/json"}},
				body:    `{"jsonrpc":"2.0","id":1,"method":"tools/call","params":{"name":"t","arguments":` + args + `}}`}
		}
		e.cleanup = func() { cancel(); resp.Body.Close() }
	}
	return e, nil
}

func c12Send(e *c12Endpoint, r *c12Req) (status int, body string, err error) {
	var b strings.Builder
	fmt.Fprintf(&b, "%s %s HTTP/1.1\r\nHost: %s\r\n", r.method, r.target, r.host)
	for _, h := range r.headers {
		fmt.Fprintf(&b, "%s: %s\r\n", h[0], h[1])
	}
	if r.chunked {
		b.WriteString("Transfer-Encoding: chunked\r\n\r\n")
		for rest := r.body; len(rest) > 0; {
			n := min(len(rest), 1000)
			fmt.Fprintf(&b, "%x\r\n%s\r\n", n, rest[:n])
			rest = rest[n:]
		}
		b.WriteString("0\r\n\r\n")
	} else {
		fmt.Fprintf(&b, "Content-Length: %d\r\n\r\n%s", len(r.body), r.body)
	}
	req, err := http.ReadRequest(bufio.NewReader(strings.NewReader(b.String())))
	if err != nil {
		return 0, "", err
	}
	addr, _ := net.ResolveTCPAddr("tcp", r.localAddr)
	rctx, cancel := context.WithCancel(context.WithValue(context.Background(), http.LocalAddrContextKey, net.Addr(addr)))
	defer cancel()
	req = req.WithContext(rctx)
	w := httptest.NewRecorder()
	done := make(chan struct{})
	go func() { defer close(done); e.handler.ServeHTTP(w, req) }()
	synctest.Wait()
	select {
	case <-done:
	default:
		// a response that stays open (subscriptions/listen): it has been accepted and is being served;
		// hang up
		cancel()
		<-done
	}
	return w.Code, w.Body.String(), nil
}

func c12SoundnessCase(kind string, devs [][2]int) (obs, sig, msg string) {
	e, err := c12Setup(kind)
	if err != nil {
		return "", "c12 soundness setup " + kind, err.Error()
	}
	if e.cleanup != nil {
		defer e.cleanup()
	}
	dims := c12Dims()
	r := e.base()
	var names []string
	for _, d := range devs {
		dim := dims[d[0]]
		if v := dim.variants[d[1]](r); v != "" {
			r.violated = append(r.violated, v)
		}
		names = append(names, fmt.Sprintf("%s#%d", dim.name, d[1]))
	}
	// a Host deviation is only a violation on a loopback listener
	if !strings.HasPrefix(r.localAddr, "127.") {
		out := r.violated[:0]
		for _, v := range r.violated {
			if v != "host" {
				out = append(out, v)
			}
		}
		r.violated = out
	}
	desc := fmt.Sprintf("%s deviations=%v", kind, names)
	*e.dispatch = 0
	status, body, err := c12Send(e, r)
	if err != nil {
		return "unparsable-request", "", "" // the deviation produced something that is not an HTTP request at all
	}
	synctest.Wait()
	dispatched := *e.dispatch
	if len(r.violated) == 0 && kind == "stateless-modern-notification" {
		// (whether an accepted notification is then dispatched on a stateless endpoint is C03's known finding)
		if status >= 400 || dispatched > 1 {
			return "", "c12 soundness valid-request-rejected " + kind + " " + strings.Join(names, "+"), fmt.Sprintf("every precondition holds but status=%d dispatched=%d body=%.200q [%s]", status, dispatched, body, desc)
		}
		return kind + " accepted", "", ""
	}
	if len(r.violated) == 0 && r.lenient && dispatched == 0 && status >= 400 && status < 500 {
		return kind + " refused (either way is fine)", "", ""
	}
	if len(r.violated) == 0 {
		if dispatched != 1 || status >= 400 {
			return "", "c12 soundness valid-request-rejected " + kind + " " + strings.Join(names, "+"), fmt.Sprintf("every precondition holds but status=%d dispatched=%d body=%.200q [%s]", status, dispatched, body, desc)
		}
		return kind + " accepted", "", ""
	}
	if dispatched != 0 {
		return "", "c12 soundness dispatched-despite-" + strings.Join(r.violated, "+") + " " + kind, fmt.Sprintf("violated %v but the message reached the server (status %d) [%s]", r.violated, status, desc)
	}
	if status < 400 || status >= 500 {
		return "", "c12 soundness wrong-status-for-" + strings.Join(r.violated, "+") + " " + kind, fmt.Sprintf("violated %v: status %d, want a 4xx [%s]", r.violated, status, desc)
	}
	// mandated answers where exactly one precondition is violated
	if len(r.violated) == 1 && !r.lenient { // (a lenient request may legitimately have been refused for its Accept first)
		want := map[string]int{"host": 403, "content-type": 415, "body-size": 413}[r.violated[0]]
		if want != 0 && status != want {
			return "", fmt.Sprintf("c12 soundness status-%d-for-%s %s", status, r.violated[0], kind), fmt.Sprintf("violated %s: status %d, mandated %d [%s]", r.violated[0], status, want, desc)
		}
		if strings.HasPrefix(r.violated[0], "mcp-") && !strings.Contains(body, "-32020") {
			return "", "c12 soundness no-header-mismatch-code " + r.violated[0], fmt.Sprintf("violated %s: body %.200q lacks error -32020 [%s]", r.violated[0], body, desc)
		}
	}
	return fmt.Sprintf("%s rejected-%d %s", kind, status, strings.Join(r.violated, "+")), "", ""
}

func TestVerifC12(t *testing.T) {
	env := verifx.LoadEnv("C12")
	res := env.NewResult()
	sound := env.NewCases(res, "soundness-deviations")
	dims := c12Dims()
	for _, kind := range []string{"stateless-modern", "stateless-modern-notification", "stateful-legacy", "stateful-no-session-ids", "sse", "stateless-modern-json", "stateless-modern-listen", "stateless-modern-json-listen"} {
		type dv = [2]int
		var singles []dv
		for di, d := range dims {
			if !d.applies(kind) {
				continue
			}
			for vi := range d.variants {
				singles = append(singles, dv{di, vi})
			}
		}
		combos := [][][2]int{{}}
		for _, a := range singles {
			combos = append(combos, [][2]int{a})
		}
		for i, a := range singles {
			for _, b := range singles[i+1:] {
				if a[0] != b[0] {
					combos = append(combos, [][2]int{a, b})
				}
			}
		}
		for _, devs := range combos {
			idx, mine := sound.Next()
			if !mine {
				continue
			}
			var obs, sig, msg string
			func() {
				defer func() {
					if r := recover(); r != nil {
						sig, msg = "c12 soundness panic-or-leak "+kind, fmt.Sprintf("%v %v", r, devs)
					}
				}()
				synctest.Test(t, func(t *testing.T) { obs, sig, msg = c12SoundnessCase(kind, devs) })
			}()
			if sig != "" {
				sound.Violate(idx, sig, msg, 1)
				continue
			}
			sound.Record(idx, obs, 1, func() string { return fmt.Sprintf("%s %v", kind, devs) })
		}
	}
	// ---- one handler, connections arriving on different local addresses in every order: the Host
	// check is a function of the connection it arrives on, not of what the handler saw before
	seqs := env.NewCases(res, "host-check-sequences")
	type conn struct{ local, host string }
	conns := []conn{
		{"127.0.0.1:80", "localhost:80"}, {"127.0.0.1:80", "evil.example"}, {"[::1]:80", "[::1]:80"}, {"[::1]:80", "evil.example"},
		{"192.168.1.5:80", "lan-host.example"}, {"192.168.1.5:80", "localhost:80"},
	}
	for _, kind := range []string{"stateless-modern", "sse"} {
		var rec func(cur []int)
		rec = func(cur []int) {
			if len(cur) >= 2 {
				if idx, mine := seqs.Next(); mine {
					var sig, msg string
					func() {
						defer func() {
							if r := recover(); r != nil {
								sig, msg = "c12 host-sequence panic-or-leak "+kind, fmt.Sprint(r)
							}
						}()
						synctest.Test(t, func(t *testing.T) {
							e, err := c12Setup(kind)
							if err != nil {
								sig, msg = "c12 host-sequence setup", err.Error()
								return
							}
							if e.cleanup != nil {
								defer e.cleanup()
							}
							var desc []string
							for _, ci := range cur {
								desc = append(desc, fmt.Sprintf("%s Host=%s", conns[ci].local, conns[ci].host))
							}
							for step, ci := range cur {
								c := conns[ci]
								r := e.base()
								r.localAddr, r.host = c.local, c.host
								loopbackListener := strings.HasPrefix(c.local, "127.") || strings.HasPrefix(c.local, "[::1]")
								loopbackHost := strings.HasPrefix(c.host, "localhost") || strings.HasPrefix(c.host, "127.") || strings.HasPrefix(c.host, "[::1]")
								mustReject := loopbackListener && !loopbackHost
								*e.dispatch = 0
								status, _, err := c12Send(e, r)
								if err != nil {
									sig, msg = "c12 host-sequence harness", err.Error()
									return
								}
								synctest.Wait()
								switch {
								case mustReject && (*e.dispatch != 0 || status != 403):
									sig = "c12 host-sequence dispatched-despite-host " + kind
									msg = fmt.Sprintf("request #%d arrived on the loopback address %s with Host %s: status %d, dispatched %d, want 403 and nothing dispatched [%s: %s]", step+1, c.local, c.host, status, *e.dispatch, kind, strings.Join(desc, " ; "))
									return
								case !mustReject && (*e.dispatch != 1 || status >= 400):
									sig = "c12 host-sequence valid-request-rejected " + kind
									msg = fmt.Sprintf("request #%d arrived on %s with Host %s, which meets the Host precondition: status %d, dispatched %d [%s: %s]", step+1, c.local, c.host, status, *e.dispatch, kind, strings.Join(desc, " ; "))
									return
								}
							}
						})
					}()
					if sig != "" {
						seqs.Violate(idx, sig, msg, len(cur))
					} else {
						seqs.Record(idx, fmt.Sprintf("%s sequence of %d", kind, len(cur)), len(cur), func() string { return fmt.Sprint(kind, cur) })
					}
				}
			}
			if len(cur) == 3 {
				return
			}
			for ci := range conns {
				rec(append(append([]int{}, cur...), ci))
			}
		}
		rec(nil)
	}
	agree := env.NewCases(res, "client-server-agreement")
	c12Agreement(t, agree)
	cops := env.NewCases(res, "client-session-api-agreement")
	for _, stateless := range []bool{true, false} {
		for _, op := range []string{"ListTools", "CallTool", "ListPrompts", "GetPrompt", "ListResources", "ListResourceTemplates", "ReadResource", "Complete", "NotifyProgress", "Subscribe+Unsubscribe", "Ping", "SetLoggingLevel"} {
			idx, mine := cops.Next()
			if !mine {
				continue
			}
			var obs, sig, msg string
			func() {
				defer func() {
					if r := recover(); r != nil {
						sig, msg = "c12 client-ops panic-or-leak", fmt.Sprintf("%v [stateless=%v op=%s]", r, stateless, op)
					}
				}()
				synctest.Test(t, func(t *testing.T) { obs, sig, msg = c12ClientOps(stateless, op) })
			}()
			if sig != "" {
				cops.Violate(idx, sig, msg, 2)
				continue
			}
			cops.Record(idx, obs, 2, func() string { return fmt.Sprintf("stateless=%v op=%s", stateless, op) })
		}
	}
	reuse := env.NewCases(res, "params-value-reused-across-sessions")
	for _, modernFirst := range []bool{true, false} {
		for _, op := range []string{"CallTool", "ListTools", "GetPrompt", "ReadResource"} {
			idx, mine := reuse.Next()
			if !mine {
				continue
			}
			var obs, sig, msg string
			func() {
				defer func() {
					if r := recover(); r != nil {
						sig, msg = "c12 params-reuse panic-or-leak", fmt.Sprintf("%v [modernFirst=%v op=%s]", r, modernFirst, op)
					}
				}()
				synctest.Test(t, func(t *testing.T) { obs, sig, msg = c12ParamsReuse(modernFirst, op) })
			}()
			if sig != "" {
				reuse.Violate(idx, sig, msg, 2)
				continue
			}
			reuse.Record(idx, obs, 2, func() string { return fmt.Sprintf("modernFirst=%v op=%s", modernFirst, op) })
		}
	}
	// ---- the size limit as the handler's constructor resolves it: every way of not naming a limit
	// yields the documented default (4 MiB), a positive value is taken as given, a negative one
	// disables the guard.  Bodies just under, at and just over the limit, with a known length and
	// chunked, as initialize and as a tool call of an established session.
	limits := env.NewCases(res, "body-limit-by-construction")
	type optShape struct {
		name  string
		opts  func() *StreamableHTTPOptions
		limit int64 // -1: none
	}
	shapes := []optShape{
		{"nil options", func() *StreamableHTTPOptions { return nil }, DefaultMaxRequestBodyBytes},
		{"zero options", func() *StreamableHTTPOptions { return &StreamableHTTPOptions{} }, DefaultMaxRequestBodyBytes},
		{"other options set, limit zero", func() *StreamableHTTPOptions {
			return &StreamableHTTPOptions{Logger: quietLogger, JSONResponse: true, SessionTimeout: time.Hour}
		}, DefaultMaxRequestBodyBytes},
		{"stateless, limit zero", func() *StreamableHTTPOptions { return &StreamableHTTPOptions{Stateless: true, Logger: quietLogger} }, DefaultMaxRequestBodyBytes},
		{"limit 2000", func() *StreamableHTTPOptions {
			return &StreamableHTTPOptions{MaxRequestBodyBytes: 2000, Logger: quietLogger}
		}, 2000},
		{"limit 1", func() *StreamableHTTPOptions {
			return &StreamableHTTPOptions{MaxRequestBodyBytes: 1, Logger: quietLogger}
		}, 1},
		{"limit -1 (disabled)", func() *StreamableHTTPOptions {
			return &StreamableHTTPOptions{MaxRequestBodyBytes: -1, Logger: quietLogger}
		}, -1},
	}
	for _, sh := range shapes {
		for _, delta := range []int64{-1, 0, 1, 4096} {
			for _, chunked := range []bool{false, true} {
				for _, what := range []string{"initialize", "tools/call"} {
					idx, mine := limits.Next()
					if !mine {
						continue
					}
					desc := fmt.Sprintf("%s, body of limit%+d bytes, chunked=%v, %s", sh.name, delta, chunked, what)
					var obs, sig, msg string
					func() {
						defer func() {
							if r := recover(); r != nil && sig == "" {
								sig, msg = "c12 body-limit panic-or-leak", fmt.Sprintf("%v [%s]", r, desc)
							}
						}()
						synctest.Test(t, func(t *testing.T) {
							ran := 0
							s := NewServer(&Implementation{Name: "srv", Version: "1"}, &ServerOptions{Logger: quietLogger})
							AddTool(s, &Tool{Name: "t"}, func(ctx context.Context, r *CallToolRequest, in map[string]any) (*CallToolResult, any, error) {
								ran++
								return &CallToolResult{}, nil, nil
							})
							opts := sh.opts()
							stateless := opts != nil && opts.Stateless
							h := NewStreamableHTTPHandler(func(*http.Request) *Server { return s }, opts)
							defer func() {
								for ss := range s.Sessions() {
									ss.Close()
								}
							}()
							post := func(sid, body string, chunk bool) *httptest.ResponseRecorder {
								r := httptest.NewRequest("POST", "http://127.0.0.1/mcp", strings.NewReader(body))
								if chunk {
									r.ContentLength = -1
									r.TransferEncoding = []string{"chunked"}
								}
								r.Header.Set("Content-Type", "application/json")
								r.Header.Set("Accept", "application/json, text/event-stream")
								if sid != "" {
									r.Header.Set("Mcp-Session-Id", sid)
								}
								r.Header.Set("Mcp-Protocol-Version", "2025-06-18")
								w := httptest.NewRecorder()
								done := make(chan struct{})
								go func() { defer close(done); h.ServeHTTP(w, r) }()
								synctest.Wait()
								select {
								case <-done:
								default:
									w.Code = -1
								}
								return w
							}
							limit := sh.limit
							size := limit + delta
							if limit < 0 {
								size = DefaultMaxRequestBodyBytes + delta + 1
							}
							pad := func(prefix, suffix string) string {
								n := int(size) - len(prefix) - len(suffix)
								if n < 0 {
									return ""
								}
								return prefix + strings.Repeat("x", n) + suffix
							}
							const initBody = `{"jsonrpc":"2.0","id":1,"method":"initialize","params":{"protocolVersion":"2025-06-18","capabilities":{},"clientInfo":{"name":"c","version":"1"}}}`
							sid := ""
							var w *httptest.ResponseRecorder
							if what == "initialize" {
								body := pad(`{"jsonrpc":"2.0","id":1,"method":"initialize","params":{"protocolVersion":"2025-06-18","capabilities":{},"clientInfo":{"name":"`, `","version":"1"}}}`)
								if body == "" {
									obs = "not-applicable"
									return
								}
								w = post("", body, chunked)
							} else {
								if !stateless {
									if limit >= 0 && int64(len(initBody)) > limit {
										obs = "not-applicable"
										return
									}
									wi := post("", initBody, false)
									sid = wi.Header().Get("Mcp-Session-Id")
									if wi.Code != 200 || sid == "" {
										sig, msg = "c12 body-limit setup", fmt.Sprintf("initialize answered %d [%s]", wi.Code, desc)
										return
									}
									post(sid, `{"jsonrpc":"2.0","method":"notifications/initialized","params":{}}`, false)
								}
								body := pad(`{"jsonrpc":"2.0","id":2,"method":"tools/call","params":{"name":"t","arguments":{"blob":"`, `"}}}`)
								if body == "" {
									obs = "not-applicable"
									return
								}
								w = post(sid, body, chunked)
							}
							over := limit >= 0 && size > limit
							switch {
							case over && w.Code != http.StatusRequestEntityTooLarge:
								sig, msg = fmt.Sprintf("c12 body-limit oversize-admitted got %d", w.Code), fmt.Sprintf("a body of %d bytes (limit %d) was answered %d, want 413 [%s]", size, limit, w.Code, desc)
							case over && ran != 0:
								sig, msg = "c12 body-limit oversize-reached-handler", fmt.Sprintf("a body of %d bytes (limit %d) reached the tool handler [%s]", size, limit, desc)
							case !over && w.Code == http.StatusRequestEntityTooLarge:
								sig, msg = "c12 body-limit conforming-refused", fmt.Sprintf("a body of %d bytes (limit %d) was refused with 413 [%s]", size, limit, desc)
							case !over && w.Code != 200:
								sig, msg = fmt.Sprintf("c12 body-limit conforming-refused got %d", w.Code), fmt.Sprintf("a body of %d bytes (limit %d) was answered %d %.200q [%s]", size, limit, w.Code, w.Body.String(), desc)
							case !over && what == "tools/call" && ran != 1:
								sig, msg = "c12 body-limit conforming-not-dispatched", fmt.Sprintf("a body of %d bytes (limit %d): the tool ran %d times [%s]", size, limit, ran, desc)
							default:
								obs = fmt.Sprintf("over=%v status=%d", over, w.Code)
							}
						})
					}()
					if sig != "" {
						limits.Violate(idx, sig, msg, 2)
						continue
					}
					limits.Record(idx, obs, 2, func() string { return desc })
				}
			}
		}
	}
	env.Finish(res)
}
