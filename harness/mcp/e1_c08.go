package mcp

// C08 (E1): a server write racing a resuming GET on the same detached stream, under the
// controlled scheduler.  Ground truth is the append order recorded by a wrapping event store.

import (
	"context"
	"fmt"
	"net/http"
	"net/http/httptest"
	"strings"
	"testing"

	"github.com/modelcontextprotocol/go-sdk/internal/verifx"
	vs "github.com/modelcontextprotocol/go-sdk/internal/vsched"
)

// c08Race: closeStream=false: a server write races a resuming GET on a detached stream;
// closeStream=true: the handler closes its own SSE stream (RequestExtra.CloseSSEStream) while the
// client, which still holds the POST exchange, already resumes - the resume is either refused (409,
// the stream is still claimed) or served, and a served resume must receive everything written later.
func c08Race(version string, closeStream bool) vs.Verdict {
	return c08RaceAs("c08 race", version, closeStream)
}

func c08RaceAs(prefix, version string, closeStream bool) vs.Verdict {
	return c08RaceWith(prefix, version, closeStream, false)
}

// finalResponse: the write that races the resuming GET is the request's final response - the one
// that completes the stream and removes it from the connection's table.
func c08RaceWith(prefix, version string, closeStream, finalResponse bool) vs.Verdict {
	f := &e1Fail{prefix: prefix}
	ctx := context.Background()
	vs.Quiet(true)
	store := &c08Store{inner: NewMemoryEventStore(nil), appended: map[string][]string{}}
	cmds := make(chan string)
	s := NewServer(&Implementation{Name: "srv", Version: "1"}, &ServerOptions{Logger: quietLogger})
	AddTool(s, &Tool{Name: "t"}, func(ctx context.Context, r *CallToolRequest, in map[string]any) (*CallToolResult, any, error) {
		n := 0
		for cmd := range cmds {
			if cmd == "respond" {
				break
			}
			if cmd == "closestream" {
				if r.Extra != nil && r.Extra.CloseSSEStream != nil {
					r.Extra.CloseSSEStream(CloseSSEStreamArgs{})
				}
				vs.Event("stream closed by the handler")
				continue
			}
			n++
			r.Session.NotifyProgress(ctx, &ProgressNotificationParams{ProgressToken: "tok", Progress: float64(n), Message: fmt.Sprintf("note %d", n)})
			vs.Event("wrote %d", n)
		}
		return &CallToolResult{Content: []Content{&TextContent{Text: "final"}}}, nil, nil
	})
	h := NewStreamableHTTPHandler(func(*http.Request) *Server { return s }, &StreamableHTTPOptions{EventStore: store, Logger: quietLogger})
	do := func(rctx context.Context, method, sid, lastID, body string, w *httptest.ResponseRecorder) {
		var r *http.Request
		if body != "" {
			r = httptest.NewRequest(method, "http://example.test/mcp", strings.NewReader(body))
			r.Header.Set("Content-Type", "application/json")
		} else {
			r = httptest.NewRequest(method, "http://example.test/mcp", nil)
		}
		r = r.WithContext(rctx)
		r.Header.Set("Accept", "application/json, text/event-stream")
		if sid != "" {
			r.Header.Set("Mcp-Session-Id", sid)
			r.Header.Set("Mcp-Protocol-Version", version)
		}
		if lastID != "" {
			r.Header.Set("Last-Event-ID", lastID)
		}
		h.ServeHTTP(w, r)
	}
	w0 := httptest.NewRecorder()
	do(ctx, "POST", "", "", `{"jsonrpc":"2.0","id":"i","method":"initialize","params":{"protocolVersion":"`+version+`","capabilities":{},"clientInfo":{"name":"c","version":"1"}}}`, w0)
	sid := w0.Header().Get("Mcp-Session-Id")
	do(ctx, "POST", sid, "", `{"jsonrpc":"2.0","method":"notifications/initialized","params":{}}`, httptest.NewRecorder())
	before := map[string]bool{}
	for k := range store.appended {
		before[k] = true
	}
	// the request stream: POST, one message while attached, then the client goes away
	pctx, cut := context.WithCancel(ctx)
	recP := httptest.NewRecorder()
	pdone := make(chan struct{})
	vs.Go(func() {
		do(pctx, "POST", sid, "", `{"jsonrpc":"2.0","id":7,"method":"tools/call","params":{"name":"t","arguments":{},"_meta":{"progressToken":"tok"}}}`, recP)
		close(pdone)
	})
	cmds <- "notify"
	vs.WaitIdle()
	if !closeStream {
		cut()
		<-pdone
		vs.WaitIdle()
	}
	key := ""
	for k := range store.appended {
		if !before[k] && !strings.HasSuffix(k, "|") {
			key = k
		}
	}
	if key == "" {
		return vs.Verdict{Bad: "no stream was recorded by the event store", Sig: "c08 race setup"}
	}
	streamID := key[strings.LastIndex(key, "|")+1:]
	resumeFrom := len(store.appended[key]) - 1 // the last event received on the POST exchange
	vs.Quiet(false)

	// the race: the server writes the next message while the client resumes
	gctx, gcancel := context.WithCancel(ctx)
	recG := httptest.NewRecorder()
	gdone := make(chan struct{})
	wdone := make(chan struct{})
	vs.Go(func() {
		do(gctx, "GET", sid, formatEventID(streamID, resumeFrom), "", recG)
		close(gdone)
	})
	vs.Go(func() {
		switch {
		case closeStream:
			cmds <- "closestream"
		case finalResponse:
			cmds <- "respond"
		default:
			cmds <- "notify"
		}
		close(wdone)
	})
	<-wdone
	vs.WaitIdle()
	vs.Quiet(true)
	if closeStream {
		<-pdone // the POST exchange ends once the handler closed the stream
	}
	// one more live message and the response, then everything ends
	if !finalResponse {
		cmds <- "notify"
		vs.WaitIdle()
		cmds <- "respond"
		vs.WaitIdle()
	}
	gcancel()
	<-gdone
	if closeStream && recG.Code == http.StatusConflict {
		// the racing resume was refused because the stream was still claimed: the client retries
		vs.Event("racing resume refused with 409")
		recG = httptest.NewRecorder()
		g2ctx, g2cancel := context.WithCancel(ctx)
		g2done := make(chan struct{})
		vs.Go(func() {
			do(g2ctx, "GET", sid, formatEventID(streamID, resumeFrom), "", recG)
			close(g2done)
		})
		vs.WaitIdle()
		g2cancel()
		<-g2done
	}
	cut()
	for ss := range s.Sessions() {
		ss.Close()
	}
	vs.WaitIdle()
	vs.Quiet(false)

	// ---- oracle: the resumed exchange carries exactly the messages appended after the resume point
	gt := store.appended[key]
	if recG.Code != 200 {
		f.failf("resume-status", "the resume was answered %d: %s", recG.Code, recG.Body.String())
		return f.verdict("")
	}
	idx := resumeFrom
	for _, evt := range hxParseSSE(recG.Body.Bytes()) {
		if evt.ID == "" && len(evt.Data) == 0 {
			continue
		}
		idx++
		want := formatEventID(streamID, idx)
		if evt.ID != want {
			f.failf("event-id-not-consecutive", "the resumed exchange delivered event id %q where %q is due (body %q)", evt.ID, want, recG.Body.String())
			break
		}
		if idx >= len(gt) || string(evt.Data) != gt[idx] {
			f.failf("event-payload-differs-from-append-order", "the resumed exchange delivered id %q with payload %q; message #%d written to the stream is %q", evt.ID, evt.Data, idx, func() string {
				if idx < len(gt) {
					return gt[idx]
				}
				return "<none>"
			}())
			break
		}
	}
	if f.sig == "" && idx != len(gt)-1 {
		f.failf("message-missing-on-stream", "the resumed exchange received up to index %d but %d messages were written to the stream", idx, len(gt))
	}
	return f.verdict(fmt.Sprintf("resumed-after=%d appended=%d", resumeFrom, len(gt)))
}

func TestVerifC08Race(t *testing.T) {
	env := verifx.LoadEnv("C08")
	env.Run([]*verifx.Scenario{
		vs.E1(t, "race/write-vs-resume/2025-06-18", env.Pick(2, 3), vs.Options{}, func() vs.Verdict { return c08Race("2025-06-18", false) }),
		vs.E1(t, "race/write-vs-resume/2025-11-25", env.Pick(2, 3), vs.Options{}, func() vs.Verdict { return c08Race("2025-11-25", false) }),
		vs.E1(t, "race/final-response-vs-resume/2025-06-18", env.Pick(2, 3), vs.Options{}, func() vs.Verdict { return c08RaceWith("c08 race", "2025-06-18", false, true) }),
		vs.E1(t, "race/final-response-vs-resume/2025-11-25", env.Pick(2, 3), vs.Options{}, func() vs.Verdict { return c08RaceWith("c08 race", "2025-11-25", false, true) }),
		vs.E1(t, "race/handler-closes-stream-vs-resume/2025-06-18", env.Pick(2, 3), vs.Options{}, func() vs.Verdict { return c08Race("2025-06-18", true) }),
		vs.E1(t, "race/handler-closes-stream-vs-resume/2025-11-25", env.Pick(2, 3), vs.Options{}, func() vs.Verdict { return c08Race("2025-11-25", true) }),
	})
}
