package mcp

// C03, client-to-server over streamable HTTP when a POST is turned away.  One goroutine sends
// progress notification m0, progress notification m1 and then a call; the POST carrying one of the
// notifications is answered by the network or a proxy in front of the server instead of the server
// (a transient 5xx/429, a 4xx, a transport error, or a slow 202).  Whatever the notifying method
// then reports: if it returned nil, the server's handler for that notification has finished before
// the handler of anything sent later starts; a notification whose method returned an error owes
// nothing.  Without a fault all three are observed in order.  The server's notification handler
// takes 0 or 5 s (virtual) so that "finished before the next starts" is told from "started".

import (
	"bytes"
	"context"
	"errors"
	"fmt"
	"io"
	"net/http"
	"strings"
	"testing"
	"testing/synctest"
	"time"

	"github.com/modelcontextprotocol/go-sdk/internal/verifx"
)

var c03SendFaults = []string{"none", "500", "502", "503", "504", "429", "400", "403", "neterr", "slow-202"}

func c03SendsCase(fault string, target int, handlerTakes time.Duration, version string, stateless bool) (obs, sig, msg string) {
	var hx *hxTransport
	fail := func(s, format string, a ...any) (string, string, string) {
		trace := ""
		if hx != nil {
			for _, x := range hx.exchanges() {
				trace += fmt.Sprintf("\n    #%d %s %.90s -> %d", x.N, x.Method, x.ReqBody, x.Status)
			}
		}
		return "", "c03 http-sends " + s, fmt.Sprintf(format, a...) + fmt.Sprintf(" [POST of m%d answered with %s, notification handler takes %v, version=%s stateless=%v]", target, fault, handlerTakes, version, stateless) + trace
	}
	ctx := context.Background()
	var events []string
	s := NewServer(&Implementation{Name: "srv", Version: "1"}, &ServerOptions{Logger: quietLogger,
		ProgressNotificationHandler: func(_ context.Context, r *ProgressNotificationServerRequest) {
			events = append(events, r.Params.Message+":start")
			time.Sleep(handlerTakes)
			events = append(events, r.Params.Message+":end")
		}})
	AddTool(s, &Tool{Name: "probe"}, func(ctx context.Context, r *CallToolRequest, in struct{}) (*CallToolResult, any, error) {
		events = append(events, "probe:start")
		return &CallToolResult{Content: []Content{&TextContent{Text: "ok"}}}, nil, nil
	})
	faulted := false
	hx = &hxTransport{Handler: NewStreamableHTTPHandler(func(*http.Request) *Server { return s }, &StreamableHTTPOptions{Logger: quietLogger, Stateless: stateless})}
	hx.Intercept = func(req *http.Request, n int) (*http.Response, error) {
		if faulted || fault == "none" || req.Method != "POST" {
			return nil, nil
		}
		body, _ := io.ReadAll(req.Body)
		if !bytes.Contains(body, []byte(fmt.Sprintf(`"m%d"`, target))) {
			return nil, nil
		}
		faulted = true
		switch fault {
		case "neterr":
			return nil, errors.New("connection reset by peer")
		case "slow-202":
			time.Sleep(20 * time.Second) // a slow proxy: the server gets it afterwards, through the handler
			return nil, nil
		}
		var code int
		fmt.Sscan(fault, &code)
		return &http.Response{StatusCode: code, Status: fmt.Sprintf("%d %s", code, http.StatusText(code)), Proto: "HTTP/1.1", ProtoMajor: 1, ProtoMinor: 1,
			Header: http.Header{"Content-Type": {"text/plain"}}, Body: io.NopCloser(strings.NewReader("try later\n"))}, nil
	}
	c := NewClient(&Implementation{Name: "cli", Version: "1"}, &ClientOptions{Logger: quietLogger})
	cs, err := c.Connect(ctx, &StreamableClientTransport{Endpoint: "http://srv.test/mcp", HTTPClient: hx.client(), DisableStandaloneSSE: true}, &ClientSessionOptions{ProtocolVersion: version})
	if err != nil {
		return fail("setup", "connect: %v", err)
	}
	defer func() {
		cs.Close()
		for x := range s.Sessions() {
			x.Close()
		}
		synctest.Wait()
	}()
	synctest.Wait()
	var sendErr [2]error
	var callErr error
	finished := false
	go func() {
		for i := 0; i < 2; i++ {
			sendErr[i] = cs.NotifyProgress(ctx, &ProgressNotificationParams{ProgressToken: "tok", Progress: float64(i), Message: fmt.Sprint("m", i)})
		}
		_, callErr = cs.CallTool(ctx, &CallToolParams{Name: "probe", Arguments: map[string]any{}})
		finished = true
	}()
	time.Sleep(5 * time.Minute) // (a redelivery in the background, if there is one, has long happened)
	synctest.Wait()
	if !finished {
		return fail("sender-stuck", "the sending goroutine has not finished five minutes on (send errors %v); server saw %v", sendErr, events)
	}
	pos := func(e string) int {
		for i, x := range events {
			if x == e {
				return i
			}
		}
		return -1
	}
	count := func(e string) (n int) {
		for _, x := range events {
			if x == e {
				n++
			}
		}
		return
	}
	order := []string{"m0", "m1", "probe"}
	errOf := func(i int) error {
		if i < 2 {
			return sendErr[i]
		}
		return callErr
	}
	for i := 0; i < 2; i++ {
		a := order[i]
		if n := count(a + ":start"); n > 1 {
			return fail("dispatched-twice "+a, "notification %s was dispatched %d times: %v", a, n, events)
		}
		if errOf(i) != nil {
			continue // the caller was told: nothing is owed for this one
		}
		for j := i + 1; j < 3; j++ {
			b := order[j]
			pb := pos(b + ":start")
			if pb < 0 {
				continue // (a session that ended in between observes neither)
			}
			if pa := pos(a + ":end"); pa < 0 || pb < pa {
				return fail(fmt.Sprintf("later-message-observed-first %s before %s", b, a), "NotifyProgress(%s) returned nil, yet the server's handler for %s started before the one for %s had finished: %v", a, b, a, events)
			}
		}
	}
	if fault == "none" || fault == "slow-202" {
		if sendErr[0] != nil || sendErr[1] != nil || callErr != nil || len(events) != 5 {
			return fail("healthy-send-failed", "nothing was turned away, yet: send errors %v, call error %v, server saw %v", sendErr, callErr, events)
		}
	}
	return fmt.Sprintf("errs=%v,%v call=%v seen=%d", sendErr[0] != nil, sendErr[1] != nil, callErr != nil, len(events)), "", ""
}

func TestVerifC03Sends(t *testing.T) {
	env := verifx.LoadEnv("C03")
	res := env.NewResult()
	cases := env.NewCases(res, "http-sends/turned-away-notification")
	for _, version := range []string{"2025-03-26", "2025-06-18", "2025-11-25"} {
		for _, stateless := range []bool{false, true} {
			if version >= "2026-07-28" || stateless {
				// a stateless server runs every POST in a session of its own: nothing orders two POSTs
				// there (the scenario http/stateless-legacy and its known finding are about that)
				continue
			}
			for _, fault := range c03SendFaults {
				for target := 0; target < 2; target++ {
					if fault == "none" && target == 1 {
						continue
					}
					for _, takes := range []time.Duration{0, 5 * time.Second} {
						idx, mine := cases.Next()
						if !mine {
							continue
						}
						desc := fmt.Sprintf("m%d answered with %s, handler %v, %s stateless=%v", target, fault, takes, version, stateless)
						var obs, sig, msg string
						func() {
							defer func() {
								if r := recover(); r != nil && sig == "" {
									sig, msg = "c03 http-sends panic-or-leak", fmt.Sprintf("%v [%s]", r, desc)
								}
							}()
							synctest.Test(t, func(t *testing.T) { obs, sig, msg = c03SendsCase(fault, target, takes, version, stateless) })
						}()
						if sig != "" {
							cases.Violate(idx, sig, msg, 4)
							continue
						}
						cases.Record(idx, fault+" "+obs, 4, func() string { return desc })
					}
				}
			}
		}
	}
	env.Finish(res)
}
