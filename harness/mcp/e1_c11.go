package mcp

// C11 (E1): the session table under concurrency.  A POST that creates a session races server code
// that closes every session it can see (`for ss := range server.Sessions() { ss.Close() }`, an
// operator's "kick everybody").  Afterwards the table and the server agree: an id the handler still
// honours belongs to a session that is alive, and a session that was closed is forgotten (404).

import (
	"context"
	"fmt"
	"net/http"
	"net/http/httptest"
	"slices"
	"strings"
	"testing"
	"time"

	"github.com/modelcontextprotocol/go-sdk/internal/verifx"
	vs "github.com/modelcontextprotocol/go-sdk/internal/vsched"
)

func c11CreateVsKick() vs.Verdict {
	f := &e1Fail{prefix: "c11 create-vs-kick"}
	vs.Quiet(true)
	s := NewServer(&Implementation{Name: "srv", Version: "1"}, &ServerOptions{Logger: quietLogger})
	h := NewStreamableHTTPHandler(func(*http.Request) *Server { return s }, &StreamableHTTPOptions{Logger: quietLogger})
	post := func(sid, body string) *httptest.ResponseRecorder {
		r := httptest.NewRequest("POST", "http://example.test/mcp", strings.NewReader(body))
		r.Header.Set("Content-Type", "application/json")
		r.Header.Set("Accept", "application/json, text/event-stream")
		if sid != "" {
			r.Header.Set("Mcp-Session-Id", sid)
			r.Header.Set("Mcp-Protocol-Version", "2025-06-18")
		}
		w := httptest.NewRecorder()
		h.ServeHTTP(w, r)
		return w
	}
	vs.Quiet(false)
	done := make(chan string, 2)
	var created *httptest.ResponseRecorder
	vs.Go(func() {
		created = post("", `{"jsonrpc":"2.0","id":"i","method":"initialize","params":{"protocolVersion":"2025-06-18","capabilities":{},"clientInfo":{"name":"c","version":"1"}}}`)
		done <- "post"
	})
	kicked := 0
	vs.Go(func() {
		vs.Point()
		for ss := range s.Sessions() {
			kicked++
			ss.Close()
		}
		done <- "kick"
	})
	<-done
	<-done
	vs.WaitIdle()
	vs.Quiet(true)
	alive := len(slices.Collect(s.Sessions()))
	ids, privOK := privHandlerSessionIDs(h)
	if !privOK {
		// no private view of the handler's table: the probe below (is the issued id still honoured?) stands in
		ids = make([]string, alive)
	}
	sid := created.Header().Get("Mcp-Session-Id")
	probe := 0
	if sid != "" {
		probe = post(sid, `{"jsonrpc":"2.0","id":2,"method":"ping"}`).Code
	}
	switch {
	case len(ids) != alive:
		f.failf("table-and-server-disagree", "after the creating POST (status %d, id %q) raced a loop closing every visible session (%d closed): the handler's table holds %v but the server has %d live session(s); a ping with the id answers %d", created.Code, sid, kicked, ids, alive, probe)
	case sid != "" && alive == 0 && probe != http.StatusNotFound:
		f.failf("closed-session-still-honoured", "the session was closed by the server, yet a POST with its id answers %d, want 404", probe)
	}
	for ss := range s.Sessions() {
		ss.Close()
	}
	vs.WaitIdle()
	vs.Quiet(false)
	return f.verdict(fmt.Sprintf("status=%d kicked=%d alive=%d probe=%d", created.Code, kicked, alive, probe))
}

// c11PostVsTimeout: a POST for an existing session arrives at the very instant its idle timeout
// expires.  Either the timeout wins - the POST is answered 404 and the session is gone - or the POST
// wins - it is answered properly (200 with the complete response); nothing in between (an empty
// 200, an error in place of the result, a hang, a table that disagrees with the server).  The instants
// coincide, so a served POST followed at once by the timeout is a legitimate order of the two.
func c11PostVsTimeout() vs.Verdict {
	f := &e1Fail{prefix: "c11 post-vs-timeout"}
	vs.Quiet(true)
	const timeout = 10 * time.Second
	s := NewServer(&Implementation{Name: "srv", Version: "1"}, &ServerOptions{Logger: quietLogger})
	AddTool(s, &Tool{Name: "t"}, func(ctx context.Context, r *CallToolRequest, in map[string]any) (*CallToolResult, any, error) {
		vs.Event("handler runs")
		return &CallToolResult{Content: []Content{&TextContent{Text: "ok"}}}, nil, nil
	})
	h := NewStreamableHTTPHandler(func(*http.Request) *Server { return s }, &StreamableHTTPOptions{Logger: quietLogger, SessionTimeout: timeout, JSONResponse: true})
	post := func(sid, body string) *httptest.ResponseRecorder {
		r := httptest.NewRequest("POST", "http://example.test/mcp", strings.NewReader(body))
		r.Header.Set("Content-Type", "application/json")
		r.Header.Set("Accept", "application/json, text/event-stream")
		if sid != "" {
			r.Header.Set("Mcp-Session-Id", sid)
			r.Header.Set("Mcp-Protocol-Version", "2025-06-18")
		}
		w := httptest.NewRecorder()
		h.ServeHTTP(w, r)
		return w
	}
	w := post("", `{"jsonrpc":"2.0","id":"i","method":"initialize","params":{"protocolVersion":"2025-06-18","capabilities":{},"clientInfo":{"name":"c","version":"1"}}}`)
	sid := w.Header().Get("Mcp-Session-Id")
	if w.Code != 200 || sid == "" {
		return vs.Verdict{Bad: fmt.Sprintf("initialize failed: %d", w.Code), Sig: "c11 setup"}
	}
	post(sid, `{"jsonrpc":"2.0","method":"notifications/initialized","params":{}}`)
	t0 := time.Now() // the idle clock restarted when that POST ended
	vs.Quiet(false)
	done := make(chan struct{})
	var rec *httptest.ResponseRecorder
	vs.Go(func() {
		time.Sleep(timeout - time.Since(t0)) // exactly when the timer is due
		vs.Event("post sent")
		rec = post(sid, `{"jsonrpc":"2.0","id":7,"method":"tools/call","params":{"name":"t","arguments":{}}}`)
		close(done)
	})
	<-done
	vs.WaitIdle()
	vs.Quiet(true)
	alive := len(slices.Collect(s.Sessions()))
	inTable := alive
	if ids, ok := privHandlerSessionIDs(h); ok {
		inTable = len(ids)
	}
	body := strings.TrimSpace(rec.Body.String())
	if rec.Code == http.StatusOK && time.Since(t0) >= 2*timeout {
		// quiescence was only reached after another full idle period: the session was served and
		// has meanwhile timed out in its own right
		if alive != 0 || inTable != 0 {
			f.failf("timed-out-session-kept", "one more idle period after the served POST %d session(s) are alive and the table holds %d", alive, inTable)
		}
		vs.Quiet(false)
		return f.verdict(fmt.Sprintf("status=%d then-timed-out", rec.Code))
	}
	switch {
	case rec.Code == http.StatusNotFound:
		if alive != 0 || inTable != 0 {
			f.failf("timed-out-session-kept", "the POST was answered 404 (the timeout won) but %d session(s) are alive and the table holds %d", alive, inTable)
		}
	case rec.Code == http.StatusOK && strings.Contains(body, `"id":7`) && strings.Contains(body, `"result"`):
		// the POST won the tie and was served in full; the timeout, due at the same instant, may
		// still take the session afterwards - but then completely
		if alive != inTable {
			f.failf("table-and-server-disagree", "the POST was served (200, %s); afterwards %d session(s) are alive but the table holds %d", body, alive, inTable)
		}
	case rec.Code == http.StatusOK && strings.Contains(body, `"id":7`) && strings.Contains(body, `"code":-32004`) && alive == 0 && inTable == 0 && evIndex(vs.Events(), "handler runs") < 0:
		// admitted, then refused by the closing session with an explicit "server is closing" error
	case rec.Code == http.StatusOK && body == "" && alive == 0 && inTable == 0 && evIndex(vs.Events(), "handler runs") < 0:
		// the timeout took the session after the POST had been admitted but before its message was
		// dispatched: nothing was served and nothing is left; the exchange ends empty.  (The instants
		// coincide; the property does not say which status this in-between order gets.)
	default:
		f.failf("post-neither-served-nor-refused", "a POST arriving as the idle timeout expires was answered %d with body %q (sessions alive: %d, in the table: %d): neither a proper response nor 404", rec.Code, body, alive, inTable)
	}
	for ss := range s.Sessions() {
		ss.Close()
	}
	vs.WaitIdle()
	vs.Quiet(false)
	return f.verdict(fmt.Sprintf("status=%d alive=%d", rec.Code, alive))
}

func TestVerifC11Race(t *testing.T) {
	env := verifx.LoadEnv("C11")
	scs := []*verifx.Scenario{
		vs.E1(t, "race/create-vs-close-all-sessions", env.Pick(2, 3), vs.Options{}, func() vs.Verdict { return c11CreateVsKick() }),
		vs.E1(t, "race/post-vs-idle-timeout", env.Pick(2, 3), vs.Options{}, func() vs.Verdict { return c11PostVsTimeout() }),
	}
	env.Run(scs)
}
