package mcp

// C11 (E1): the session table under concurrency.  A POST that creates a session races server code
// that closes every session it can see (`for ss := range server.Sessions() { ss.Close() }`, an
// operator's "kick everybody").  Afterwards the table and the server agree: an id the handler still
// honours belongs to a session that is alive, and a session that was closed is forgotten (404).

import (
	"fmt"
	"net/http"
	"net/http/httptest"
	"slices"
	"strings"
	"testing"

	"github.com/modelcontextprotocol/go-sdk/internal/verifx"
	vs "github.com/modelcontextprotocol/go-sdk/internal/vsched"
)

func c11CreateVsKick() vs.Verdict {
	f := &e1Fail{prefix: "c11 create-vs-kick"}
	vs.Quiet(true)
	s := NewServer(&Implementation{Name: "srv", Version: "1"}, &ServerOptions{Logger: quietLogger})
	h := NewStreamableHTTPHandler(func(*http.Request) *Server { return s }, &StreamableHTTPOptions{Logger: quietLogger})
	post := func(sid, body string) *httptest.ResponseRecorder {
		r := httptest.NewRequest("POST", "http://example.test/mcp", strings.NewReader(body))
		r.Header.Set("Content-Type", "application/json")
		r.Header.Set("Accept", "application/json, text/event-stream")
		if sid != "" {
			r.Header.Set("Mcp-Session-Id", sid)
			r.Header.Set("Mcp-Protocol-Version", "2025-06-18")
		}
		w := httptest.NewRecorder()
		h.ServeHTTP(w, r)
		return w
	}
	vs.Quiet(false)
	done := make(chan string, 2)
	var created *httptest.ResponseRecorder
	vs.Go(func() {
		created = post("", `{"jsonrpc":"2.0","id":"i","method":"initialize","params":{"protocolVersion":"2025-06-18","capabilities":{},"clientInfo":{"name":"c","version":"1"}}}`)
		done <- "post"
	})
	kicked := 0
	vs.Go(func() {
		vs.Point()
		for ss := range s.Sessions() {
			kicked++
			ss.Close()
		}
		done <- "kick"
	})
	<-done
	<-done
	vs.WaitIdle()
	vs.Quiet(true)
	alive := len(slices.Collect(s.Sessions()))
	h.mu.Lock()
	var ids []string
	for id := range h.sessions {
		ids = append(ids, id)
	}
	h.mu.Unlock()
	sid := created.Header().Get("Mcp-Session-Id")
	probe := 0
	if sid != "" {
		probe = post(sid, `{"jsonrpc":"2.0","id":2,"method":"ping"}`).Code
	}
	switch {
	case len(ids) != alive:
		f.failf("table-and-server-disagree", "after the creating POST (status %d, id %q) raced a loop closing every visible session (%d closed): the handler's table holds %v but the server has %d live session(s); a ping with the id answers %d", created.Code, sid, kicked, ids, alive, probe)
	case sid != "" && alive == 0 && probe != http.StatusNotFound:
		f.failf("closed-session-still-honoured", "the session was closed by the server, yet a POST with its id answers %d, want 404", probe)
	}
	for ss := range s.Sessions() {
		ss.Close()
	}
	vs.WaitIdle()
	vs.Quiet(false)
	return f.verdict(fmt.Sprintf("status=%d kicked=%d alive=%d probe=%d", created.Code, kicked, alive, probe))
}

func TestVerifC11Race(t *testing.T) {
	env := verifx.LoadEnv("C11")
	scs := []*verifx.Scenario{
		vs.E1(t, "race/create-vs-close-all-sessions", env.Pick(2, 3), vs.Options{}, func() vs.Verdict { return c11CreateVsKick() }),
	}
	env.Run(scs)
}
