package mcp

// In-process HTTP for the harnesses: an http.RoundTripper that calls a handler
// directly (no sockets), with a streaming response body, per-exchange recording
// and the possibility to cut a response body at a chosen point.

import (
	"bytes"
	"context"
	"errors"
	"fmt"
	"io"
	"net/http"
	"strconv"
	"strings"
	"sync"
)

// hxExchange records one HTTP exchange.
type hxExchange struct {
	N        int
	Method   string
	Header   http.Header // request headers
	ReqBody  []byte
	Status   int
	RespHdr  http.Header
	mu       sync.Mutex
	RespBody bytes.Buffer  // every byte the handler wrote
	Done     chan struct{} // closed when the handler returned
	// Cut breaks the connection of this exchange: the client's read of the body fails, the handler's
	// request context ends and its writes fail.  Nil for intercepted exchanges.
	Cut func()
}

func (x *hxExchange) Body() string {
	x.mu.Lock()
	defer x.mu.Unlock()
	return x.RespBody.String()
}

// hxTransport is an http.RoundTripper serving requests with Handler, in-process.
type hxTransport struct {
	Handler http.Handler
	mu      sync.Mutex
	Log     []*hxExchange
	// Intercept, if set, may answer a request itself (returning non-nil) instead of the handler.
	Intercept func(req *http.Request, n int) (*http.Response, error)
	// Tag is applied to every request before it reaches the handler (e.g. to set a local address).
	Tag func(req *http.Request) *http.Request
	// WriteFault, if set, is asked before every body write of an exchange; a non-nil error is what the
	// handler's Write returns (nothing is delivered) although the request and its context live on -
	// an expired write deadline, a proxy that went away.
	WriteFault func(x *hxExchange) error
}

type hxWriter struct {
	x       *hxExchange
	hdr     http.Header
	pw      *io.PipeWriter
	ready   chan struct{} // closed when status+headers are fixed
	once    sync.Once
	status  int
	ctxDone <-chan struct{}
	fault   func(x *hxExchange) error
	faulted bool // a write has failed: the connection is broken, the client will not see a clean end of the body
	// like net/http's server: a Content-Length the handler declared is binding
	declared, written int64
}

func (w *hxWriter) Header() http.Header { return w.hdr }

func (w *hxWriter) commit(status int) {
	w.once.Do(func() {
		w.status = status
		w.x.Status = status
		w.x.RespHdr = w.hdr.Clone()
		w.declared = -1
		if cl := w.hdr.Get("Content-Length"); cl != "" {
			if n, err := strconv.ParseInt(cl, 10, 64); err == nil && n >= 0 {
				w.declared = n
			}
		}
		close(w.ready)
	})
}

func (w *hxWriter) WriteHeader(status int) { w.commit(status) }

func (w *hxWriter) Write(p []byte) (int, error) {
	w.commit(http.StatusOK)
	if w.fault != nil {
		if err := w.fault(w.x); err != nil {
			w.faulted = true
			return 0, err
		}
	}
	if w.declared >= 0 && w.written+int64(len(p)) > w.declared {
		w.faulted = true
		return 0, http.ErrContentLength
	}
	w.written += int64(len(p))
	w.x.mu.Lock()
	w.x.RespBody.Write(p)
	w.x.mu.Unlock()
	return w.pw.Write(p)
}

func (w *hxWriter) Flush() { w.commit(http.StatusOK) }

func (t *hxTransport) RoundTrip(req *http.Request) (*http.Response, error) {
	if err := req.Context().Err(); err != nil {
		// like net/http: a request whose context has already ended is never sent
		return nil, err
	}
	var body []byte
	if req.Body != nil {
		body, _ = io.ReadAll(req.Body)
		req.Body.Close()
	}
	t.mu.Lock()
	x := &hxExchange{N: len(t.Log), Method: req.Method, Header: req.Header.Clone(), ReqBody: body, Done: make(chan struct{})}
	t.Log = append(t.Log, x)
	t.mu.Unlock()
	if t.Intercept != nil {
		r2 := req.Clone(req.Context())
		r2.Body = io.NopCloser(bytes.NewReader(body))
		if resp, err := t.Intercept(r2, x.N); resp != nil || err != nil {
			if resp != nil {
				x.Status = resp.StatusCode
				x.RespHdr = resp.Header
				resp.Request = req
			}
			close(x.Done)
			return resp, err
		}
	}
	// the server side sees its own request object
	sreq := req.Clone(req.Context())
	sreq.Body = io.NopCloser(bytes.NewReader(body))
	sreq.ContentLength = int64(len(body))
	sreq.RequestURI = req.URL.RequestURI()
	if sreq.Host == "" {
		sreq.Host = req.URL.Host
	}
	if t.Tag != nil {
		sreq = t.Tag(sreq)
	}
	pr, pw := io.Pipe()
	sctx, cancelServer := context.WithCancel(sreq.Context())
	sreq = sreq.WithContext(sctx)
	x.Cut = func() {
		pr.CloseWithError(io.ErrUnexpectedEOF)
		cancelServer()
	}
	w := &hxWriter{x: x, hdr: http.Header{}, pw: pw, ready: make(chan struct{}), fault: t.WriteFault}
	go func() {
		defer close(x.Done)
		defer func() {
			if r := recover(); r != nil {
				w.commit(http.StatusInternalServerError)
				pw.CloseWithError(fmt.Errorf("handler panic: %v", r))
				panic(r)
			}
		}()
		t.Handler.ServeHTTP(w, sreq)
		cancelServer()
		w.commit(http.StatusOK)
		if w.faulted || (w.declared >= 0 && w.written != w.declared) {
			// like a real connection whose writes failed (or whose body fell short of its Content-Length): it is torn down, the client's read of the
			// body ends with an error, not with a clean end of a (chunked) body
			pw.CloseWithError(io.ErrUnexpectedEOF)
		} else {
			pw.Close()
		}
	}()
	select {
	case <-w.ready:
	case <-req.Context().Done():
		pr.CloseWithError(req.Context().Err())
		return nil, req.Context().Err()
	}
	resp := &http.Response{
		Status: fmt.Sprintf("%d %s", w.status, http.StatusText(w.status)), StatusCode: w.status,
		Proto: "HTTP/1.1", ProtoMajor: 1, ProtoMinor: 1,
		Header: w.x.RespHdr.Clone(), Body: &hxBody{pr: pr, ctx: req.Context()}, ContentLength: -1, Request: req,
	}
	return resp, nil
}

// hxBody is the client's view of the response body; closing it makes the handler's writes fail,
// and it ends with the request context like a real connection would.
type hxBody struct {
	pr  *io.PipeReader
	ctx context.Context
}

func (b *hxBody) Read(p []byte) (int, error) {
	type res struct {
		n   int
		err error
	}
	if b.ctx.Done() == nil {
		return b.pr.Read(p)
	}
	ch := make(chan res, 1)
	go func() {
		n, err := b.pr.Read(p)
		ch <- res{n, err}
	}()
	select {
	case r := <-ch:
		return r.n, r.err
	case <-b.ctx.Done():
		b.pr.CloseWithError(b.ctx.Err())
		r := <-ch
		if r.n > 0 {
			return r.n, nil
		}
		return 0, b.ctx.Err()
	}
}

func (b *hxBody) Close() error { return b.pr.CloseWithError(errors.New("body closed by the client")) }

func (t *hxTransport) client() *http.Client { return &http.Client{Transport: t} }

func (t *hxTransport) exchanges() []*hxExchange {
	t.mu.Lock()
	defer t.mu.Unlock()
	return append([]*hxExchange{}, t.Log...)
}

// hxMethods lists the JSON-RPC methods POSTed so far, in order.
func (t *hxTransport) hxMethods() []string {
	var out []string
	for _, x := range t.exchanges() {
		if x.Method != "POST" {
			continue
		}
		for _, part := range strings.Split(string(x.ReqBody), `"method":"`)[1:] {
			if i := strings.IndexByte(part, '"'); i >= 0 {
				out = append(out, part[:i])
			}
		}
	}
	return out
}
