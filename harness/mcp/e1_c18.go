package mcp

// C18 (E1): list-changed notifications are never lost, reach only entitled sessions, and beat caches.
// A server with a legacy session, a 2026-07-28 session with a matching subscriptions/listen, and a
// 2026-07-28 session without one; bursts of tool additions/removals whose placement relative to
// the 10ms debounce timer is enumerated (time deviations) together with schedule deviations;
// client list calls in flight across the change with a positive result TTL.

import (
	"context"
	"errors"
	"fmt"
	"io"
	"slices"
	"sort"
	"strings"
	"testing"
	"time"

	"github.com/modelcontextprotocol/go-sdk/internal/verifx"
	vs "github.com/modelcontextprotocol/go-sdk/internal/vsched"
)

type c18Client struct {
	name     string
	version  string
	entitled bool
	cs       *ClientSession
	// observations
	notified  int
	lastList  []string // tools/list issued from inside the last notification handler
	listErr   error
	sawMethod []string // notification methods seen by the receiving middleware
}

func c18ToolNames(res *ListToolsResult) []string {
	var out []string
	for _, t := range res.Tools {
		out = append(out, t.Name)
	}
	sort.Strings(out)
	return out
}

type c18Opts struct {
	capabilityOff bool
	ttl           int  // ttlMs set by a server middleware on tools/list results
	inflightList  bool // a client list call is in flight across the change
	cacheRace     bool // only the caching (modern, listening) session, burst fixed to one addition
	small         bool // only the legacy session, burst fixed to two additions (deeper budgets)
	// slowPeer: a fast legacy session plus a legacy session that stops reading from its
	// transport, so that the fan-out of the first notification is still in progress when
	// the second change happens (made by the harness as soon as the fast session was notified)
	slowPeer bool
	// faultyPeer: two legacy sessions; the server's writes to one of them fail from the burst on.
	// The healthy session is still owed its notification, whichever connected first.
	faultyPeer bool
}

// c18FailWriter is the server's end of a connection that broke: writes fail.
type c18FailWriter struct {
	io.WriteCloser
	failing *bool
}

func (w *c18FailWriter) Write(p []byte) (int, error) {
	if *w.failing {
		vs.Event("server write to the faulty session fails")
		return 0, errors.New("injected write fault")
	}
	return w.WriteCloser.Write(p)
}

// c18StallWriter is the server's end of a connection whose peer stopped draining:
// writes block (as on a socket with full buffers) until the peer resumes.
type c18StallWriter struct {
	io.WriteCloser
	stalled *bool
	resume  chan struct{}
}

func (w *c18StallWriter) Write(p []byte) (int, error) {
	if *w.stalled {
		vs.Event("server write to the slow session stalls")
		<-w.resume
	}
	return w.WriteCloser.Write(p)
}

func c18Run(o c18Opts) vs.Verdict {
	f := &e1Fail{prefix: "c18"}
	ctx := context.Background()
	vs.Quiet(true)
	sopts := &ServerOptions{Logger: quietLogger}
	if o.capabilityOff {
		sopts.Capabilities = &ServerCapabilities{Tools: &ToolCapabilities{ListChanged: false}}
	}
	s := NewServer(&Implementation{Name: "srv", Version: "1"}, sopts)
	handler := func(context.Context, *CallToolRequest) (*CallToolResult, error) { return &CallToolResult{}, nil }
	add := func(n string) { s.AddTool(&Tool{Name: n, InputSchema: map[string]any{"type": "object"}}, handler) }
	add("base")
	if o.ttl > 0 {
		s.AddReceivingMiddleware(func(next MethodHandler) MethodHandler {
			return func(ctx context.Context, method string, req Request) (Result, error) {
				res, err := next(ctx, method, req)
				if lr, ok := res.(*ListToolsResult); ok && err == nil {
					lr.TTLMs = o.ttl
				}
				return res, err
			}
		})
	}
	clients := []*c18Client{
		{name: "legacy", version: "2025-06-18", entitled: true},
		{name: "modern-listening", version: "2026-07-28", entitled: true},
		{name: "modern-not-listening", version: "2026-07-28", entitled: false},
	}
	if o.cacheRace {
		clients = clients[1:2]
	}
	if o.small {
		clients = clients[0:1]
	}
	stalled := false
	resume := make(chan struct{})
	fastNotified := make(chan struct{}, 8)
	if o.slowPeer {
		clients = []*c18Client{{name: "legacy", version: "2025-06-18", entitled: true}, {name: "legacy-slow", version: "2025-06-18", entitled: true}}
	}
	failing := false
	if o.faultyPeer {
		clients = []*c18Client{{name: "legacy-faulty", version: "2025-06-18", entitled: true}, {name: "legacy", version: "2025-06-18", entitled: true}}
		if vs.Choose("faulty-session-connects", 2, 0) == 1 {
			clients[0], clients[1] = clients[1], clients[0]
		}
	}
	ctl := vs.NewController()
	slowGate := ctl.Gate("list-response-in-user-middleware")
	slowArmed := false
	responded := make(chan struct{})
	for _, c := range clients {
		copts := &ClientOptions{Logger: quietLogger}
		if c.entitled {
			copts.ToolListChangedHandler = func(hctx context.Context, r *ToolListChangedRequest) {
				c.notified++
				vs.Event("notified %s", c.name)
				if o.slowPeer && c.name == "legacy" {
					defer func() { fastNotified <- struct{}{} }()
				}
				// a list issued from inside the handler must reflect the change
				res, err := c.cs.ListTools(hctx, nil)
				c.listErr = err
				if err == nil {
					c.lastList = c18ToolNames(res)
				}
			}
		}
		cl := NewClient(&Implementation{Name: c.name, Version: "1"}, copts)
		if o.cacheRace {
			// user middleware on the sending side: after the (pre-change) tools/list response has
			// arrived it takes its time (a gate the idle-priority controller opens last)
			cl.AddSendingMiddleware(func(next MethodHandler) MethodHandler {
				return func(ctx context.Context, method string, req Request) (Result, error) {
					res, err := next(ctx, method, req)
					if method == "tools/list" && slowArmed {
						slowArmed = false
						close(responded)
						slowGate.Wait()
					}
					return res, err
				}
			})
		}
		cl.AddReceivingMiddleware(func(next MethodHandler) MethodHandler {
			return func(ctx context.Context, method string, req Request) (Result, error) {
				if strings.HasPrefix(method, "notifications/") {
					c.sawMethod = append(c.sawMethod, method)
				}
				return next(ctx, method, req)
			}
		})
		var ct, st Transport
		ct, st = NewInMemoryTransports()
		if o.slowPeer && c.name == "legacy-slow" {
			cr, sw := io.Pipe()
			sr, cw := io.Pipe()
			ct = &IOTransport{Reader: cr, Writer: cw}
			st = &IOTransport{Reader: sr, Writer: &c18StallWriter{WriteCloser: sw, stalled: &stalled, resume: resume}}
		}
		if o.faultyPeer && c.name == "legacy-faulty" {
			cr, sw := io.Pipe()
			sr, cw := io.Pipe()
			ct = &IOTransport{Reader: cr, Writer: cw}
			st = &IOTransport{Reader: sr, Writer: &c18FailWriter{WriteCloser: sw, failing: &failing}}
		}
		if _, err := s.Connect(ctx, st, nil); err != nil {
			return vs.Verdict{Bad: "server connect: " + err.Error(), Sig: "c18 setup"}
		}
		cs, err := cl.Connect(ctx, ct, &ClientSessionOptions{ProtocolVersion: c.version})
		if err != nil {
			return vs.Verdict{Bad: "client connect: " + err.Error(), Sig: "c18 setup"}
		}
		c.cs = cs
	}
	vs.WaitIdle() // let the listen streams settle
	// prime the caches (a list before the burst)
	for i, c := range clients {
		if o.inflightList && (i == 1 || o.cacheRace) {
			continue // this session's first list is the one in flight across the change
		}
		if _, err := c.cs.ListTools(ctx, nil); err != nil {
			return vs.Verdict{Bad: "initial list: " + err.Error(), Sig: "c18 setup"}
		}
	}
	vs.Quiet(false)

	// the burst: 1..3 changes
	final := map[string]bool{"base": true}
	burst := 1
	if o.small || o.slowPeer {
		burst = 2
	} else if !o.cacheRace {
		burst = 1 + vs.Choose("burst-length", c18MaxBurst, 0)
	}
	var plan []string
	for i := 0; i < burst; i++ {
		if o.cacheRace || o.small || o.slowPeer {
			plan = append(plan, []string{"add x", "add y"}[i])
			continue
		}
		switch vs.Choose("change", 3, 0) {
		case 0:
			plan = append(plan, "add x")
		case 1:
			plan = append(plan, "add y")
		case 2:
			plan = append(plan, "remove base")
		}
	}
	done := make(chan string, 4)
	if o.cacheRace {
		slowArmed = true
	}
	if o.slowPeer {
		stalled = true
	}
	if o.faultyPeer {
		failing = true
	}
	vs.Go(func() {
		if o.cacheRace {
			<-responded // the change happens after the list response was sent
		}
		for i, ch := range plan {
			if o.slowPeer && i == 1 {
				<-fastNotified // the fast session has been notified about (and listed after) the first change
			}
			switch ch {
			case "add x":
				add("x")
				final["x"] = true
			case "add y":
				add("y")
				final["y"] = true
			case "remove base":
				s.RemoveTools("base")
				delete(final, "base")
			}
			vs.Event("changed %s", ch)
		}
		done <- "changer"
	})
	n := 1
	if o.inflightList {
		if !o.cacheRace {
			n++
		}
		vs.Go(func() {
			// a list call in flight across the change, on the caching session
			lister := clients[min(1, len(clients)-1)]
			lister.cs.ListTools(ctx, nil)
			if !o.cacheRace {
				done <- "lister"
			}
		})
	}
	for i := 0; i < n; i++ {
		<-done
	}
	// let the debounce timer fire and the notifications be handled
	time.Sleep(time.Second)
	vs.WaitIdle()
	if o.slowPeer {
		stalled = false
		close(resume) // the slow session drains again
		time.Sleep(time.Second)
		vs.WaitIdle()
	}
	ctl.Stop()
	vs.Quiet(true)
	var want []string
	for k := range final {
		want = append(want, k)
	}
	sort.Strings(want)
	effective := false // did the burst change anything at all (add of an existing name still replaces = a change)
	effective = len(plan) > 0
	evs := vs.Events()
	lastChange := -1
	for i, e := range evs {
		if strings.HasPrefix(e, "changed ") {
			lastChange = i
		}
	}
	for _, c := range clients {
		if o.faultyPeer && c.name == "legacy-faulty" {
			continue // its connection broke; nothing is owed to it
		}
		gotNote := slices.Contains(c.sawMethod, "notifications/tools/list_changed")
		switch {
		case o.capabilityOff:
			if gotNote {
				f.failf("notified-although-capability-disabled "+c.name, "session %s received tools/list_changed although the capability is disabled", c.name)
			}
		case !c.entitled:
			if gotNote {
				f.failf("unentitled-session-notified "+c.name, "session %s has no matching subscription but received tools/list_changed", c.name)
			}
		case effective:
			if c.notified == 0 {
				f.failf("notification-lost "+c.name, "session %s never received tools/list_changed after the burst %v", c.name, plan)
				break
			}
			// at least one notification was sent after the last change
			lastNote := -1
			for i, e := range evs {
				if e == "notified "+c.name {
					lastNote = i
				}
			}
			if lastNote < lastChange {
				f.failf("no-notification-after-last-change "+c.name, "session %s: its last notification precedes the last change of the burst: %s", c.name, evJoin(evs))
			}
			if c.listErr != nil {
				f.failf("handler-time-list-failed "+c.name, "session %s: tools/list from inside the handler failed: %v", c.name, c.listErr)
			} else if !slices.Equal(c.lastList, want) {
				f.failf("handler-time-list-stale "+c.name, "session %s: tools/list issued while handling the last notification returned %v, the server has %v (burst %v)", c.name, c.lastList, want, plan)
			}
		}
		// a list issued after the notification was handled is at least as new as the change
		res, err := c.cs.ListTools(ctx, nil)
		if err != nil {
			f.failf("list-failed "+c.name, "session %s: ListTools after the burst: %v", c.name, err)
		} else if got := c18ToolNames(res); !slices.Equal(got, want) && c.entitled && !o.capabilityOff {
			f.failf("list-after-notification-stale "+c.name, "session %s: ListTools after its notification was handled returned %v, the server has %v (burst %v, ttl %dms)", c.name, got, want, plan, o.ttl)
		}
	}
	// closing a session forgets its subscriptions
	for _, c := range clients {
		c.cs.Close()
	}
	vs.WaitIdle()
	if left, ok := privToolSubscriptionsAndSessions(s); ok && left != 0 {
		f.failf("subscriptions-of-closed-sessions-kept", "after all sessions closed the server still holds %d sessions/subscriptions", left)
	}
	vs.Quiet(false)
	counts := []string{}
	for _, c := range clients {
		counts = append(counts, fmt.Sprintf("%s=%d", c.name, min(c.notified, 3)))
	}
	return f.verdict(fmt.Sprintf("burst=%v %s", plan, strings.Join(counts, " ")))
}

// c18Resubscribe: a 2026-07-28 session unsubscribes from a resource and subscribes to it again at
// once (each subscription is its own subscriptions/listen; ending one is asynchronous).  When
// everything has settled the session counts as subscribed: an update of the resource must reach it.
func c18Resubscribe() vs.Verdict {
	f := &e1Fail{prefix: "c18 resubscribe"}
	ctx := context.Background()
	vs.Quiet(true)
	s := NewServer(&Implementation{Name: "srv", Version: "1"}, &ServerOptions{Logger: quietLogger,
		SubscribeHandler:   func(context.Context, *SubscribeRequest) error { return nil },
		UnsubscribeHandler: func(context.Context, *UnsubscribeRequest) error { return nil },
	})
	const uri = "file:///r1"
	s.AddResource(&Resource{URI: uri, Name: "r1"}, func(context.Context, *ReadResourceRequest) (*ReadResourceResult, error) {
		return &ReadResourceResult{Contents: []*ResourceContents{{URI: uri, Text: "x"}}}, nil
	})
	updates := 0
	cl := NewClient(&Implementation{Name: "cli", Version: "1"}, &ClientOptions{Logger: quietLogger,
		ResourceUpdatedHandler: func(context.Context, *ResourceUpdatedNotificationRequest) {
			updates++
			vs.Event("update handled")
		}})
	ct, st := NewInMemoryTransports()
	if _, err := s.Connect(ctx, st, nil); err != nil {
		return vs.Verdict{Bad: err.Error(), Sig: "c18 setup"}
	}
	cs, err := cl.Connect(ctx, ct, &ClientSessionOptions{ProtocolVersion: "2026-07-28"})
	if err != nil {
		return vs.Verdict{Bad: err.Error(), Sig: "c18 setup"}
	}
	if err := cs.Subscribe(ctx, &SubscribeParams{URI: uri}); err != nil {
		return vs.Verdict{Bad: "subscribe: " + err.Error(), Sig: "c18 setup"}
	}
	vs.WaitIdle()
	vs.Quiet(false)
	if err := cs.Unsubscribe(ctx, &UnsubscribeParams{URI: uri}); err != nil {
		f.failf("unsubscribe-failed", "%v", err)
	}
	if err := cs.Subscribe(ctx, &SubscribeParams{URI: uri}); err != nil {
		f.failf("subscribe-failed", "%v", err)
	}
	vs.WaitIdle()
	vs.Quiet(true)
	time.Sleep(time.Second)
	vs.WaitIdle()
	if err := s.ResourceUpdated(ctx, &ResourceUpdatedNotificationParams{URI: uri}); err != nil {
		f.failf("update-failed", "%v", err)
	}
	time.Sleep(time.Second)
	vs.WaitIdle()
	if updates != 1 {
		f.failf("update-lost-after-resubscribe", "the session unsubscribed from %s and subscribed again; after everything settled an update of the resource produced %d resources/updated notifications for it, want 1", uri, updates)
	}
	cs.Close()
	vs.WaitIdle()
	vs.Quiet(false)
	return f.verdict(fmt.Sprintf("updates=%d", updates))
}

// c18ReadRace: a resources/read is in flight on a caching (2026-07-28, subscribed) session while
// the resource changes: the server computed the pre-change answer, the change happens and its
// resources/updated is handled by the client, then the pre-change answer arrives.  A read issued
// after the notification was handled must see the change, whether anything was cached under the
// URI at the time of the notification (cached-and-expired entry) or not (first read).
func c18ReadRace() vs.Verdict {
	f := &e1Fail{prefix: "c18 read-race"}
	ctx := context.Background()
	vs.Quiet(true)
	const uri = "file:///r1"
	s := NewServer(&Implementation{Name: "srv", Version: "1"}, &ServerOptions{Logger: quietLogger,
		SubscribeHandler:   func(context.Context, *SubscribeRequest) error { return nil },
		UnsubscribeHandler: func(context.Context, *UnsubscribeRequest) error { return nil },
	})
	content := "v1"
	ctl := vs.NewController()
	gate := ctl.Gate("read-answer-computed")
	armed := false
	computed := make(chan struct{})
	s.AddResource(&Resource{URI: uri, Name: "r1"}, func(context.Context, *ReadResourceRequest) (*ReadResourceResult, error) {
		res := &ReadResourceResult{Contents: []*ResourceContents{{URI: uri, Text: content}}}
		res.TTLMs = 60000
		if armed {
			armed = false
			close(computed)
			gate.Wait()
		}
		return res, nil
	})
	updates := 0
	cl := NewClient(&Implementation{Name: "cli", Version: "1"}, &ClientOptions{Logger: quietLogger,
		ResourceUpdatedHandler: func(context.Context, *ResourceUpdatedNotificationRequest) {
			updates++
			vs.Event("update handled")
		}})
	ct, st := NewInMemoryTransports()
	if _, err := s.Connect(ctx, st, nil); err != nil {
		return vs.Verdict{Bad: err.Error(), Sig: "c18 setup"}
	}
	cs, err := cl.Connect(ctx, ct, &ClientSessionOptions{ProtocolVersion: "2026-07-28"})
	if err != nil {
		return vs.Verdict{Bad: err.Error(), Sig: "c18 setup"}
	}
	if err := cs.Subscribe(ctx, &SubscribeParams{URI: uri}); err != nil {
		return vs.Verdict{Bad: "subscribe: " + err.Error(), Sig: "c18 setup"}
	}
	vs.WaitIdle()
	read := func() string {
		r, err := cs.ReadResource(ctx, &ReadResourceParams{URI: uri})
		if err != nil || len(r.Contents) != 1 {
			f.failf("read-failed", "%v %v", r, err)
			return ""
		}
		return r.Contents[0].Text
	}
	primed := vs.Choose("entry-cached-and-expired-before", 2, 0) == 1
	if primed {
		read()
		time.Sleep(61 * time.Second)
	}
	vs.Quiet(false)
	armed = true
	done := make(chan string, 2)
	vs.Go(func() {
		done <- read() // computed before the change; "v1" is a fine answer for this call
	})
	vs.Go(func() {
		<-computed
		content = "v2"
		vs.Event("changed")
		if err := s.ResourceUpdated(ctx, &ResourceUpdatedNotificationParams{URI: uri}); err != nil {
			f.failf("update-failed", "%v", err)
		}
		done <- ""
	})
	first := <-done + <-done
	vs.WaitIdle()
	ctl.Stop()
	vs.Quiet(true)
	time.Sleep(time.Second)
	vs.WaitIdle()
	if updates != 1 {
		f.failf("update-lost", "the subscribed session handled %d resources/updated notifications for one update", updates)
	}
	second := read()
	if updates == 1 && second != "v2" {
		f.failf("read-after-notification-stale", "resources/read issued after resources/updated was handled returned %q; the server has had \"v2\" since before the notification was sent (the read in flight across the change returned %q; entry cached and expired before: %v)", second, first, primed)
	}
	cs.Close()
	vs.WaitIdle()
	vs.Quiet(false)
	return f.verdict(fmt.Sprintf("primed=%v first=%s second=%s", primed, first, second))
}

var c18MaxBurst = 3

func TestVerifC18(t *testing.T) {
	env := verifx.LoadEnv("C18")
	c18MaxBurst = env.Pick(2, 3)
	b := env.Pick(1, 2)
	scs := []*verifx.Scenario{
		vs.E1(t, "burst/ttl=0", b, vs.Options{}, func() vs.Verdict { return c18Run(c18Opts{}) }),
		vs.E1(t, "burst/ttl=60s+list-in-flight", b, vs.Options{}, func() vs.Verdict { return c18Run(c18Opts{ttl: 60000, inflightList: true}) }),
		vs.E1(t, "burst/cache-race/ttl=60s", env.Pick(1, 2), vs.Options{}, func() vs.Verdict { return c18Run(c18Opts{ttl: 60000, inflightList: true, cacheRace: true}) }),
		vs.E1(t, "burst/small/legacy-only", env.Pick(3, 4), vs.Options{}, func() vs.Verdict { return c18Run(c18Opts{small: true}) }),
		vs.E1(t, "burst/slow-peer-during-fan-out", env.Pick(1, 2), vs.Options{NoFreeRun: "the stalled write holds the connection's write mutex while the harness waits for virtual time"}, func() vs.Verdict { return c18Run(c18Opts{slowPeer: true}) }),
		vs.E1(t, "burst/faulty-peer-during-fan-out", env.Pick(1, 2), vs.Options{}, func() vs.Verdict { return c18Run(c18Opts{faultyPeer: true}) }),
		vs.E1(t, "resubscribe/2026-07-28", env.Pick(2, 3), vs.Options{}, func() vs.Verdict { return c18Resubscribe() }),
		vs.E1(t, "read-in-flight-across-update/ttl=60s", env.Pick(2, 3), vs.Options{}, func() vs.Verdict { return c18ReadRace() }),
		vs.E1(t, "burst/capability-disabled", env.Pick(0, 1), vs.Options{}, func() vs.Verdict { return c18Run(c18Opts{capabilityOff: true}) }),
	}
	env.Run(scs)
}
