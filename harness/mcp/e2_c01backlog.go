package mcp

// C01, a call made from inside a handler while the peer keeps talking.  A raw peer sends a progress
// notification to a real session; the session's handler for it makes an outgoing call (ping).  The peer,
// on reading that request, first sends a backlog of n further messages - notifications, or calls that the
// session has to answer - and only then the response.  Those n messages queue up behind the handler that
// is still running (in-order dispatch); the response must nevertheless reach its call: the call
// completes with the peer's response, the backlog is then worked off, and the session closes cleanly.
// "For all numbers": n runs from 0 to several thousand.

import (
	"bufio"
	"context"
	"encoding/json"
	"fmt"
	"io"
	"testing"
	"testing/synctest"

	"github.com/modelcontextprotocol/go-sdk/internal/verifx"
)

// idSpelling: how the peer writes the id of its response to the call made from inside the handler: "" as it
// received it, or as the same JSON number in another spelling (a peer whose JSON library keeps numbers as
// doubles prints 7 as 7.0 or 7e0): the same number names the same request.
func c01BacklogCase(side string, n int, filler string) (obs, sig, msg string) {
	return c01BacklogCaseX(side, n, filler, "")
}

func c01BacklogCaseX(side string, n int, filler, idSpelling string) (obs, sig, msg string) {
	desc := fmt.Sprintf("real %s session, backlog of %d x %s ahead of the response", side, n, filler)
	if idSpelling != "" {
		desc += ", response id spelled " + idSpelling
	}
	fail := func(s, format string, a ...any) (string, string, string) {
		return "", "c01 backlog " + s, fmt.Sprintf(format, a...) + " [" + desc + "]"
	}
	ctx := context.Background()
	ct, st := NewInMemoryTransports()
	var (
		handled  int
		pinged   bool
		pingDone bool
		pingErr  error
	)
	// the handler of the first progress notification calls the peer back and waits for the answer
	onProgress := func(ping func(context.Context) error) {
		handled++
		if pinged {
			return
		}
		pinged = true
		pingErr = ping(ctx)
		pingDone = true
	}
	var peer io.ReadWriteCloser
	var closeSession func() error
	handshake := make(chan struct{})
	answered := 0 // responses of the session to the peer's filler calls
	peerLoop := func() {
		sc := bufio.NewScanner(peer)
		sc.Buffer(make([]byte, 1<<20), 1<<20)
		for sc.Scan() {
			var m struct {
				ID     json.RawMessage `json:"id"`
				Method string          `json:"method"`
			}
			json.Unmarshal(sc.Bytes(), &m)
			switch {
			case m.Method == "initialize":
				io.WriteString(peer, `{"jsonrpc":"2.0","id":`+string(m.ID)+`,"result":{"protocolVersion":"2025-06-18","capabilities":{},"serverInfo":{"name":"peer","version":"1"}}}`+"\n")
			case m.Method == "notifications/initialized":
				close(handshake)
			case m.Method == "ping":
				// the call from inside the handler: the backlog first, then its response.  The writer is a
				// goroutine of its own: this loop keeps draining what the session writes.
				id := string(m.ID)
				switch idSpelling {
				case "N.0":
					id += ".0"
				case "Ne0":
					id += "e0"
				case "N0E-1":
					id += "0E-1"
				case "N.000":
					id += ".000"
				}
				go func() {
					for i := 0; i < n; i++ {
						switch filler {
						case "notifications":
							io.WriteString(peer, `{"jsonrpc":"2.0","method":"notifications/progress","params":{"progressToken":"t","progress":`+fmt.Sprint(i+2)+`}}`+"\n")
						case "calls":
							io.WriteString(peer, `{"jsonrpc":"2.0","id":`+fmt.Sprint(100000+i)+`,"method":"ping"}`+"\n")
						}
					}
					io.WriteString(peer, `{"jsonrpc":"2.0","id":`+id+`,"result":{}}`+"\n")
				}()
			case m.Method == "" && len(m.ID) > 0:
				answered++
			}
		}
	}
	switch side {
	case "client":
		peer = st.rwc
		go peerLoop()
		var cs *ClientSession
		c := NewClient(&Implementation{Name: "cli", Version: "1"}, &ClientOptions{Logger: quietLogger,
			ProgressNotificationHandler: func(ctx context.Context, r *ProgressNotificationClientRequest) {
				onProgress(func(ctx context.Context) error { return r.Session.Ping(ctx, nil) })
			}})
		var err error
		cs, err = c.Connect(ctx, ct, &ClientSessionOptions{ProtocolVersion: "2025-06-18"})
		if err != nil {
			return fail("setup", "connect: %v", err)
		}
		<-handshake
		closeSession = cs.Close
	case "server":
		peer = ct.rwc
		go peerLoop()
		s := NewServer(&Implementation{Name: "srv", Version: "1"}, &ServerOptions{Logger: quietLogger,
			ProgressNotificationHandler: func(ctx context.Context, r *ProgressNotificationServerRequest) {
				onProgress(func(ctx context.Context) error { return r.Session.Ping(ctx, nil) })
			}})
		ss, err := s.Connect(ctx, st, nil)
		if err != nil {
			return fail("setup", "connect: %v", err)
		}
		go func() {
			io.WriteString(peer, `{"jsonrpc":"2.0","id":"init","method":"initialize","params":{"protocolVersion":"2025-06-18","capabilities":{},"clientInfo":{"name":"peer","version":"1"}}}`+"\n")
			io.WriteString(peer, `{"jsonrpc":"2.0","method":"notifications/initialized","params":{}}`+"\n")
		}()
		synctest.Wait()
		closeSession = ss.Close
	}
	synctest.Wait()
	go io.WriteString(peer, `{"jsonrpc":"2.0","method":"notifications/progress","params":{"progressToken":"t","progress":1}}`+"\n")
	synctest.Wait()
	switch {
	case !pinged:
		return fail("setup", "the progress handler never ran")
	case !pingDone:
		return fail("call-hangs-although-answered", "the call made from inside the handler is still blocked although the peer has sent its response (behind %d other messages); %d messages handled so far", n, handled)
	case pingErr != nil:
		return fail("call-fails-although-answered", "the call made from inside the handler failed with %v although the peer answered it", pingErr)
	}
	wantHandled, wantAnswered := 1, 0
	if filler == "notifications" {
		wantHandled += n
	} else {
		wantAnswered = n
	}
	if side == "server" {
		wantAnswered++ // the initialize response
	}
	if handled != wantHandled || answered != wantAnswered {
		return fail("backlog-not-worked-off", "%d notifications handled (want %d), %d responses written (want %d)", handled, wantHandled, answered, wantAnswered)
	}
	closed := false
	go func() { closeSession(); closed = true }()
	synctest.Wait()
	if !closed {
		peer.Close()
		synctest.Wait()
		return fail("close-hangs", "Close did not return")
	}
	peer.Close()
	return fmt.Sprintf("%s %s completed", side, filler), "", ""
}

func TestVerifC01Backlog(t *testing.T) {
	env := verifx.LoadEnv("C01")
	res := env.NewResult()
	cases := env.NewCases(res, "backlog/call-from-handler")
	for _, side := range []string{"client", "server"} {
		for _, filler := range []string{"notifications", "calls"} {
			for _, n := range []int{0, 1, 2, 15, 16, 17, 100, 255, 256, 257, 1000, 1023, 1024, 1025, 2000, 5000} {
				idx, mine := cases.Next()
				if !mine {
					continue
				}
				var obs, sig, msg string
				func() {
					defer func() {
						if r := recover(); r != nil && sig == "" {
							sig, msg = "c01 backlog panic-or-leak", fmt.Sprintf("%v [%s %s n=%d]", r, side, filler, n)
						}
					}()
					synctest.Test(t, func(t *testing.T) { obs, sig, msg = c01BacklogCase(side, n, filler) })
				}()
				if sig != "" {
					cases.Violate(idx, sig, msg, n+3)
					continue
				}
				cases.Record(idx, obs, n+3, func() string { return fmt.Sprintf("%s %s n=%d", side, filler, n) })
			}
		}
	}
	// the response's id in other spellings of the same number
	sp := env.NewCases(res, "backlog/response-id-spellings")
	for _, side := range []string{"client", "server"} {
		for _, spelling := range []string{"N.0", "Ne0", "N0E-1", "N.000"} {
			for _, n := range []int{0, 3} {
				idx, mine := sp.Next()
				if !mine {
					continue
				}
				var obs, sig, msg string
				func() {
					defer func() {
						if r := recover(); r != nil && sig == "" {
							sig, msg = "c01 backlog panic-or-leak", fmt.Sprintf("%v [%s %s n=%d]", r, side, spelling, n)
						}
					}()
					synctest.Test(t, func(t *testing.T) { obs, sig, msg = c01BacklogCaseX(side, n, "notifications", spelling) })
				}()
				if sig != "" {
					sp.Violate(idx, sig+" id-spelling", msg, n+3)
					continue
				}
				sp.Record(idx, obs, n+3, func() string { return fmt.Sprintf("%s id spelled %s n=%d", side, spelling, n) })
			}
		}
	}
	env.Finish(res)
}
