package mcp

// C11: HTTP session ids - one live session, dead after termination, bound to its user.
// Explicit-state search over histories of POST/GET/DELETE with valid, unknown, stale and
// foreign session ids and user identities, server-side closes and virtual-time advances
// around the idle timeout, against a reference session table.

import (
	"context"
	"errors"
	"fmt"
	"io"
	"net/http"
	"net/http/httptest"
	"slices"
	"strings"
	"testing"
	"testing/synctest"
	"time"

	"github.com/modelcontextprotocol/go-sdk/auth"
	"github.com/modelcontextprotocol/go-sdk/internal/verifx"
)

var c11KeyHistory = 1

const (
	c11Timeout = 10 * time.Second
	c11Eps     = time.Millisecond
)

type c11Op struct {
	kind string // init, call, gated, release, get, delete, close, advance
	sess int    // session slot (0,1) or -1 for an unknown id
	user string // "" (anonymous) or a user id
	d    time.Duration
	name string
}

func c11Ops() []c11Op {
	var ops []c11Op
	// two authenticated users whose ids differ in letter case only: different users all the same
	users := []string{"", "Kim", "kim"}
	for _, u := range users {
		ops = append(ops, c11Op{kind: "init", user: u, name: "POST initialize as " + c11U(u)})
	}
	for _, s := range []int{0, 1, -1} {
		for _, u := range users {
			if s == -1 && u != "" {
				continue
			}
			ops = append(ops, c11Op{kind: "call", sess: s, user: u, name: fmt.Sprintf("POST tools/call sid=%s as %s", c11S(s), c11U(u))})
			ops = append(ops, c11Op{kind: "get", sess: s, user: u, name: fmt.Sprintf("GET sid=%s as %s", c11S(s), c11U(u))})
			ops = append(ops, c11Op{kind: "delete", sess: s, user: u, name: fmt.Sprintf("DELETE sid=%s as %s", c11S(s), c11U(u))})
		}
	}
	for _, s := range []int{0, 1} {
		ops = append(ops, c11Op{kind: "gated", sess: s, name: fmt.Sprintf("POST gated tools/call sid=%s as its owner (stays in flight)", c11S(s))})
		ops = append(ops, c11Op{kind: "close", sess: s, name: fmt.Sprintf("server closes session %s", c11S(s))})
	}
	// a POST whose headers have arrived and whose body arrives later (a slow upload): in progress all the same
	ops = append(ops, c11Op{kind: "slow", sess: 0, name: "POST tools/call sid=s1 as its owner whose body arrives later (stays in flight)"})
	ops = append(ops, c11Op{kind: "release", name: "in-flight handlers return"})
	for _, d := range []time.Duration{c11Timeout - c11Eps, c11Eps, c11Timeout} {
		ops = append(ops, c11Op{kind: "advance", d: d, name: fmt.Sprintf("advance %v", d)})
	}
	return ops
}

// c11SlowBody is a request body that arrives only once gate is closed.
type c11SlowBody struct {
	gate chan struct{}
	r    io.Reader
}

func (b *c11SlowBody) Read(p []byte) (int, error) {
	<-b.gate
	return b.r.Read(p)
}

func c11U(u string) string {
	if u == "" {
		return "anonymous"
	}
	return u
}

func c11S(s int) string {
	if s < 0 {
		return "unknown"
	}
	return fmt.Sprintf("s%d", s+1)
}

type c11Sess struct {
	id        string
	owner     string
	alive     bool
	inFlight  int
	idleSince time.Time
	// closing: a DELETE or a server-side close has started but cannot complete while a POST is in
	// flight.  Until one of them completes the deletion is not acknowledged, so requests on the
	// session are not constrained; an acknowledged DELETE (204) ends that at once.
	closing bool
}

// c11FailingStore is an event store whose SessionClosed reports an error (a backing service that
// is down at teardown): the session must be closed and forgotten all the same.
type c11FailingStore struct{ EventStore }

func (c11FailingStore) SessionClosed(context.Context, string) error {
	return errors.New("verif: event store unavailable")
}

var c11WithFailingStore bool

func c11Run(t *testing.T, ops []c11Op, hist []int) (out verifx.SearchResult) {
	defer func() {
		if r := recover(); r != nil {
			out = verifx.SearchResult{Bad: fmt.Sprintf("panic / bubble failure: %v", r), Sig: "c11 panic-or-leak"}
		}
	}()
	synctest.Test(t, func(t *testing.T) { out = c11InBubble(ops, hist) })
	return out
}

func c11Store() EventStore {
	if c11WithFailingStore {
		return c11FailingStore{NewMemoryEventStore(nil)}
	}
	return nil
}

func c11InBubble(ops []c11Op, hist []int) verifx.SearchResult {
	bad := func(sig, format string, a ...any) verifx.SearchResult {
		return verifx.SearchResult{Bad: fmt.Sprintf(format, a...), Sig: "c11 " + sig}
	}
	gate := make(chan struct{})
	toolRuns := 0
	s := NewServer(&Implementation{Name: "srv", Version: "1"}, &ServerOptions{Logger: quietLogger})
	AddTool(s, &Tool{Name: "t"}, func(ctx context.Context, r *CallToolRequest, in map[string]any) (*CallToolResult, any, error) {
		toolRuns++
		return &CallToolResult{}, nil, nil
	})
	AddTool(s, &Tool{Name: "g"}, func(ctx context.Context, r *CallToolRequest, in map[string]any) (*CallToolResult, any, error) {
		toolRuns++
		<-gate
		return &CallToolResult{}, nil, nil
	})
	h := NewStreamableHTTPHandler(func(*http.Request) *Server { return s }, &StreamableHTTPOptions{SessionTimeout: c11Timeout, Logger: quietLogger, EventStore: c11Store()})
	verifier := func(ctx context.Context, token string, r *http.Request) (*auth.TokenInfo, error) {
		return &auth.TokenInfo{UserID: token, Expiration: time.Now().Add(time.Hour)}, nil
	}
	authed := auth.RequireBearerToken(verifier, nil)(h)
	type pendingReq struct {
		w    *httptest.ResponseRecorder
		done chan struct{}
		sess int
	}
	var pending []*pendingReq
	var closers []*pendingReq // DELETEs (w != nil) and server-side closes (w == nil) waiting for in-flight POSTs
	var cancels []context.CancelFunc
	defer func() {
		for _, c := range cancels {
			c()
		}
		select {
		case <-gate:
		default:
			close(gate)
		}
		for ss := range s.Sessions() {
			ss.Close()
		}
	}()
	var slowGate chan struct{} // set for one call of do: the request body is held back until the channel is closed
	do := func(method, sid, user, body string, ctx context.Context) (*httptest.ResponseRecorder, chan struct{}) {
		var rd io.Reader
		if body != "" {
			rd = strings.NewReader(body)
		}
		if slowGate != nil {
			rd = &c11SlowBody{gate: slowGate, r: rd}
			slowGate = nil
		}
		r := httptest.NewRequest(method, "http://example.test/mcp", rd).WithContext(ctx)
		r.Header.Set("Accept", "application/json, text/event-stream")
		if body != "" {
			r.Header.Set("Content-Type", "application/json")
		}
		if sid != "" {
			r.Header.Set("Mcp-Session-Id", sid)
			r.Header.Set("Mcp-Protocol-Version", "2025-06-18")
		}
		w := httptest.NewRecorder()
		done := make(chan struct{})
		go func() {
			defer close(done)
			if user != "" {
				r.Header.Set("Authorization", "Bearer "+user)
				authed.ServeHTTP(w, r)
			} else {
				h.ServeHTTP(w, r)
			}
		}()
		synctest.Wait()
		return w, done
	}
	finished := func(done chan struct{}) bool {
		select {
		case <-done:
			return true
		default:
			return false
		}
	}
	var sess []*c11Sess // the reference table, by slot
	issued := map[string]bool{}
	sidOf := func(slot int) string {
		if slot < 0 {
			return "no-such-session"
		}
		return sess[slot].id
	}
	callBody := func(tool string, id int) string {
		return fmt.Sprintf(`{"jsonrpc":"2.0","id":%d,"method":"tools/call","params":{"name":%q,"arguments":{}}}`, id, tool)
	}
	obs := ""
	for step, oi := range hist {
		op := ops[oi]
		refsSession := op.kind == "call" || op.kind == "get" || op.kind == "delete" || op.kind == "gated" || op.kind == "close" || op.kind == "slow"
		if refsSession && op.sess >= len(sess) {
			return verifx.SearchResult{Skip: true}
		}
		where := fmt.Sprintf("step %d (%s)", step, op.name)
		var m *c11Sess
		if op.sess >= 0 && refsSession {
			m = sess[op.sess]
		}
		// the status every request with a session id must get
		expectStatus := func(okStatus int) int {
			switch {
			case m == nil || !m.alive:
				return 404
			case m.owner != "" && op.user != m.owner:
				return 403
			}
			return okStatus
		}
		if m != nil && m.closing && (op.kind == "call" || op.kind == "get" || op.kind == "gated" || op.kind == "slow") {
			return verifx.SearchResult{Skip: true} // unconstrained until the deletion is acknowledged
		}
		runsBefore := toolRuns
		// settleClosers: once the in-flight POSTs are done every pending DELETE / close completes
		settleClosers := func() *verifx.SearchResult {
			for _, c := range closers {
				if !finished(c.done) {
					r := bad("close-never-completes", "%s: a DELETE / server-side close of session s%d is still blocked after the in-flight POSTs completed", where, c.sess+1)
					return &r
				}
				if c.w != nil && c.w.Code != 204 && c.w.Code != 404 {
					r := bad(fmt.Sprintf("wrong-status DELETE got %d want 204", c.w.Code), "%s: a DELETE that waited for in-flight POSTs was answered %d", where, c.w.Code)
					return &r
				}
				sess[c.sess].alive, sess[c.sess].closing = false, false
			}
			closers = nil
			return nil
		}
		switch op.kind {
		case "init":
			if len(sess) == 2 {
				return verifx.SearchResult{Skip: true}
			}
			w, done := do("POST", "", op.user, `{"jsonrpc":"2.0","id":"i","method":"initialize","params":{"protocolVersion":"2025-06-18","capabilities":{},"clientInfo":{"name":"c","version":"1"}}}`, context.Background())
			if !finished(done) || w.Code != 200 {
				return bad("initialize-failed", "%s: status %d finished=%v", where, w.Code, finished(done))
			}
			id := w.Header().Get("Mcp-Session-Id")
			if id == "" || issued[id] {
				return bad("session-id-not-fresh", "%s: session id %q (empty or issued before)", where, id)
			}
			issued[id] = true
			ns := &c11Sess{id: id, owner: op.user, alive: true, idleSince: time.Now()}
			sess = append(sess, ns)
			w2, done2 := do("POST", id, op.user, `{"jsonrpc":"2.0","method":"notifications/initialized","params":{}}`, context.Background())
			if !finished(done2) || w2.Code >= 300 {
				return bad("initialized-failed", "%s: initialized notification: status %d", where, w2.Code)
			}
			ns.idleSince = time.Now()
			obs = "init"
		case "call":
			w, done := do("POST", sidOf(op.sess), op.user, callBody("t", 100+step), context.Background())
			want := expectStatus(200)
			if !finished(done) {
				return bad("request-hangs", "%s: the request did not complete", where)
			}
			if w.Code != want {
				return bad(fmt.Sprintf("wrong-status POST got %d want %d", w.Code, want), "%s: status %d, want %d (session %+v)", where, w.Code, want, m)
			}
			if (toolRuns-runsBefore == 1) != (want == 200) {
				return bad("effect-without-authorisation", "%s: status %d but the tool ran %d times", where, w.Code, toolRuns-runsBefore)
			}
			if id := w.Header().Get("Mcp-Session-Id"); id != "" && (m == nil || id != m.id) {
				return bad("session-id-minted-by-non-initialize", "%s: response carries session id %q", where, id)
			}
			if want == 200 {
				m.idleSince = time.Now()
			}
			obs = fmt.Sprintf("call-%d", w.Code)
		case "gated":
			if m == nil || !m.alive {
				return verifx.SearchResult{Skip: true}
			}
			w, done := do("POST", m.id, m.owner, callBody("g", 100+step), context.Background())
			if finished(done) {
				return bad("gated-call-returned", "%s: the gated call completed with %d before its handler returned", where, w.Code)
			}
			m.inFlight++
			pending = append(pending, &pendingReq{w: w, done: done, sess: op.sess})
			obs = "gated"
		case "slow":
			if m == nil || !m.alive {
				return verifx.SearchResult{Skip: true}
			}
			slowGate = gate
			w, done := do("POST", m.id, m.owner, callBody("t", 100+step), context.Background())
			if finished(done) {
				return bad("slow-upload-answered-early", "%s: the POST completed with %d before its body had arrived", where, w.Code)
			}
			m.inFlight++
			pending = append(pending, &pendingReq{w: w, done: done, sess: op.sess})
			obs = "slow"
		case "release":
			if len(pending) == 0 {
				return verifx.SearchResult{Skip: true}
			}
			close(gate)
			gate = make(chan struct{})
			synctest.Wait()
			for _, p := range pending {
				if !finished(p.done) {
					return bad("in-flight-post-never-completes", "%s: an in-flight POST did not complete after its handler returned", where)
				}
				ps := sess[p.sess]
				if ps.closing {
					ps.inFlight--
					continue
				}
				if ps.alive && p.w.Code != 200 {
					return bad("in-flight-post-failed", "%s: in-flight POST on live session answered %d", where, p.w.Code)
				}
				if ps.alive && !strings.Contains(p.w.Body.String(), `"result"`) {
					return bad("in-flight-post-lost-response", "%s: in-flight POST completed without its response: %q", where, p.w.Body.String())
				}
				ps.inFlight--
				if ps.inFlight == 0 {
					ps.idleSince = time.Now()
				}
			}
			pending = nil
			if r := settleClosers(); r != nil {
				return *r
			}
			obs = "release"
		case "get":
			ctx, cancel := context.WithCancel(context.Background())
			cancels = append(cancels, cancel)
			w, done := do("GET", sidOf(op.sess), op.user, "", ctx)
			want := expectStatus(200)
			got := w.Code
			if want == 200 {
				// the stream stays open: headers must have been written (recorder default 200, body may be empty)
				if finished(done) && w.Code != 200 {
					got = w.Code
				}
			} else if !finished(done) {
				return bad("request-hangs", "%s: expected %d but the GET is still open", where, want)
			}
			if got != want {
				return bad(fmt.Sprintf("wrong-status GET got %d want %d", got, want), "%s: status %d, want %d (session %+v)", where, got, want, m)
			}
			cancel()
			synctest.Wait()
			obs = fmt.Sprintf("get-%d", got)
		case "delete", "close":
			blocked := m != nil && m.alive && m.inFlight > 0 // closing waits for in-flight handlers
			if op.kind == "close" {
				if m == nil || !m.alive {
					return verifx.SearchResult{Skip: true}
				}
				done := make(chan struct{})
				for ss := range s.Sessions() {
					if ss.ID() == m.id {
						go func() {
							ss.Close()
							close(done)
						}()
					}
				}
				synctest.Wait()
				if blocked && !finished(done) {
					m.closing = true
					closers = append(closers, &pendingReq{done: done, sess: op.sess})
					obs = "server-close-waits"
					break
				}
				if !finished(done) {
					return bad("close-hangs", "%s: ServerSession.Close did not return although nothing is in flight", where)
				}
				m.alive, m.closing = false, false
				obs = "server-close"
				break
			}
			w, done := do("DELETE", sidOf(op.sess), op.user, "", context.Background())
			want := expectStatus(204)
			if blocked && want == 204 && !finished(done) {
				m.closing = true
				closers = append(closers, &pendingReq{w: w, done: done, sess: op.sess})
				obs = "delete-waits"
				break
			}
			if m != nil && m.closing && want == 204 && finished(done) && w.Code == 404 {
				want = 404 // another closer is ahead: refusing is as good as acknowledging
			}
			if !finished(done) {
				return bad("request-hangs", "%s: the DELETE did not complete", where)
			}
			if w.Code != want {
				return bad(fmt.Sprintf("wrong-status DELETE got %d want %d", w.Code, want), "%s: status %d, want %d (session %+v)", where, w.Code, want, m)
			}
			if want == 204 {
				// acknowledged: from here on the id must be dead, whatever else is still going on
				m.alive, m.closing = false, false
			}
			obs = fmt.Sprintf("delete-%d", w.Code)
		case "advance":
			time.Sleep(op.d)
			synctest.Wait()
			for _, ms := range sess {
				if ms.alive && ms.inFlight == 0 && time.Since(ms.idleSince) >= c11Timeout {
					ms.alive = false
				}
			}
			obs = "advance"
		}
		synctest.Wait()
		// a DELETE that has been answered 204 is an acknowledged deletion, whenever the answer comes and
		// whatever is still in flight: from then on the id is dead
		kept := closers[:0]
		for _, c := range closers {
			if c.w != nil && finished(c.done) && c.w.Code == 204 {
				sess[c.sess].alive, sess[c.sess].closing = false, false
				continue
			}
			kept = append(kept, c)
		}
		closers = kept
		// the server's view agrees with the reference table after every step
		var liveIDs []string
		for ss := range s.Sessions() {
			liveIDs = append(liveIDs, ss.ID())
		}
		for i, ms := range sess {
			has := slices.Contains(liveIDs, ms.id)
			switch {
			case ms.closing:
				// either is fine until a closer completes
			case ms.alive && !has:
				why := "closed"
				if ms.inFlight > 0 {
					why = "closed although a POST is in progress"
				} else if d := time.Since(ms.idleSince); d < c11Timeout {
					why = fmt.Sprintf("closed after only %v idle", d)
				}
				return bad("live-session-gone "+strings.SplitN(why, " ", 2)[0]+fmt.Sprint(ms.inFlight > 0), "after %s: session s%d should be alive but the server %s", where, i+1, why)
			case !ms.alive && has:
				return bad("dead-session-still-registered", "after %s: session s%d is terminated but Server.Sessions() still lists it", where, i+1)
			}
		}
		nmap, nmapOK := 0, false
		if ids, ok := privHandlerSessionIDs(h); ok {
			nmap, nmapOK = len(ids), true
		}
		nalive, nclosing := 0, 0
		for _, ms := range sess {
			switch {
			case ms.closing:
				nclosing++
			case ms.alive:
				nalive++
			}
		}
		if nmapOK && (nmap < nalive || nmap > nalive+nclosing) {
			return bad("handler-session-table", "after %s: the handler tracks %d sessions, %d are alive (%d closing)", where, nmap, nalive, nclosing)
		}
	}
	// canonical key (computed before the destructive final probe)
	key := c11Key(ops, hist, sess, len(pending)+100*len(closers))
	// Final probe (each history is replayed on a fresh handler, so it may disturb the state):
	// in-flight POSTs complete with their responses, and every session answers a ping as its
	// owner with 200 if the reference table says alive, 404 if dead.
	if len(pending) > 0 {
		close(gate)
		gate = make(chan struct{})
		synctest.Wait()
		for _, p := range pending {
			ps := sess[p.sess]
			if !finished(p.done) {
				return bad("in-flight-post-never-completes", "at the end of the history an in-flight POST does not complete after its handler returned")
			}
			if ps.alive && !ps.closing && (p.w.Code != 200 || !strings.Contains(p.w.Body.String(), `"result"`)) {
				return bad("in-flight-post-lost-response", "an in-flight POST on a session that should be alive completed with %d %q", p.w.Code, p.w.Body.String())
			}
			ps.inFlight--
		}
	}
	synctest.Wait()
	for _, c := range closers {
		if !finished(c.done) {
			return bad("close-never-completes", "at the end of the history a DELETE / server-side close of session s%d is still blocked after the in-flight POSTs completed", c.sess+1)
		}
		if c.w != nil && c.w.Code != 204 && c.w.Code != 404 {
			return bad(fmt.Sprintf("wrong-status DELETE got %d want 204", c.w.Code), "a DELETE that waited for in-flight POSTs was answered %d", c.w.Code)
		}
		sess[c.sess].alive, sess[c.sess].closing = false, false
	}
	for i, ms := range sess {
		w, done := do("POST", ms.id, ms.owner, `{"jsonrpc":"2.0","id":"probe","method":"ping"}`, context.Background())
		want := 404
		if ms.alive {
			want = 200
		}
		if !finished(done) || w.Code != want {
			return bad(fmt.Sprintf("final-probe got %d want %d", w.Code, want), "at the end of the history a ping on session s%d as its owner is answered %d (finished=%v), the reference table says alive=%v", i+1, w.Code, finished(done), ms.alive)
		}
	}
	return verifx.SearchResult{Key: key, Obs: obs}
}

func c11Key(ops []c11Op, hist []int, sess []*c11Sess, npending int) string {
	var b strings.Builder
	for _, ms := range sess {
		idle := time.Duration(-1)
		if ms.alive && ms.inFlight == 0 {
			idle = time.Since(ms.idleSince)
		}
		fmt.Fprintf(&b, "[%s alive=%v closing=%v inflight=%d idle=%v]", ms.owner, ms.alive, ms.closing, ms.inFlight, idle)
	}
	fmt.Fprintf(&b, " pending=%d", npending)
	// The reference table cannot see implementation state such as whether the idle timer is armed.
	// The last operations are therefore part of the key: states are merged only if they agree on
	// the table and were reached through the same recent operations.
	for i := max(0, len(hist)-c11KeyHistory); i < len(hist); i++ {
		fmt.Fprintf(&b, " <%s>", ops[hist[i]].name)
	}
	return b.String()
}

func c11Stateless(env *verifx.Env, res *verifx.Result, t *testing.T) {
	cases := env.NewCases(res, "stateless-endpoint")
	type cfg struct {
		store, jsonResp bool
		version         string
	}
	var cfgs []cfg
	for _, store := range []bool{false, true} {
		for _, jsonResp := range []bool{false, true} {
			for _, version := range []string{"2025-06-18", "2025-11-25", "2025-03-26"} {
				cfgs = append(cfgs, cfg{store, jsonResp, version})
			}
		}
	}
	for _, method0 := range []string{"POST", "GET", "DELETE", "PUT", "POST-initialize"} {
		for _, sid := range []string{"", "abc", "VSID0001"} {
			for _, cf := range cfgs {
				method := method0
				idx, mine := cases.Next()
				if !mine {
					continue
				}
				s := NewServer(&Implementation{Name: "srv", Version: "1"}, &ServerOptions{Logger: quietLogger})
				ran := 0
				seenID := ""
				AddTool(s, &Tool{Name: "t"}, func(ctx context.Context, r *CallToolRequest, in map[string]any) (*CallToolResult, any, error) {
					ran++
					seenID = r.Session.ID()
					return &CallToolResult{}, nil, nil
				})
				hopts := &StreamableHTTPOptions{Stateless: true, Logger: quietLogger, JSONResponse: cf.jsonResp}
				if cf.store {
					hopts.EventStore = NewMemoryEventStore(nil)
				}
				h := NewStreamableHTTPHandler(func(*http.Request) *Server { return s }, hopts)
				var body io.Reader
				if method == "POST" || method == "PUT" {
					body = strings.NewReader(`{"jsonrpc":"2.0","id":1,"method":"tools/call","params":{"name":"t","arguments":{}}}`)
				}
				initialize := method == "POST-initialize"
				if initialize {
					method = "POST"
					body = strings.NewReader(`{"jsonrpc":"2.0","id":1,"method":"initialize","params":{"protocolVersion":"` + cf.version + `","capabilities":{},"clientInfo":{"name":"c","version":"1"}}}`)
				}
				r := httptest.NewRequest(method, "http://example.test/mcp", body)
				r.Header.Set("Accept", "application/json, text/event-stream")
				r.Header.Set("Content-Type", "application/json")
				r.Header.Set("Mcp-Protocol-Version", cf.version)
				if sid != "" {
					r.Header.Set("Mcp-Session-Id", sid)
				}
				w := httptest.NewRecorder()
				h.ServeHTTP(w, r)
				desc := fmt.Sprintf("%s sid=%q event-store=%v json-responses=%v version=%s", method, sid, cf.store, cf.jsonResp, cf.version)
				if initialize {
					desc = "POST initialize " + strings.TrimPrefix(desc, "POST ")
				}
				switch {
				case w.Header().Get("Mcp-Session-Id") != "":
					cases.Violate(idx, "c11 stateless-issues-session-id", fmt.Sprintf("%s: response carries Mcp-Session-Id %q", desc, w.Header().Get("Mcp-Session-Id")), 1)
				case seenID != "":
					cases.Violate(idx, "c11 stateless-honours-session-id", fmt.Sprintf("%s: the handler's session reports the id %q", desc, seenID), 1)
				case initialize && w.Code != 200:
					cases.Violate(idx, "c11 stateless-post-rejected", fmt.Sprintf("%s: initialize answered %d", desc, w.Code), 1)
				case initialize:
					cases.Record(idx, fmt.Sprintf("initialize-%d", w.Code), 1, func() string { return desc })
				case method == "POST" && (w.Code != 200 || ran != 1):
					cases.Violate(idx, "c11 stateless-post-rejected", fmt.Sprintf("%s: status %d, tool ran %d times (a session id must be ignored, not honoured or rejected)", desc, w.Code, ran), 1)
				case method != "POST" && w.Code != 405:
					cases.Violate(idx, fmt.Sprintf("c11 stateless-%s-not-405", method), fmt.Sprintf("%s: status %d, want 405", desc, w.Code), 1)
				case len(slices.Collect(s.Sessions())) != 0:
					cases.Violate(idx, "c11 stateless-session-left", desc+": a server session is left behind", 1)
				default:
					cases.Record(idx, fmt.Sprintf("%s-%d", method, w.Code), 1, func() string { return desc })
				}
			}
		}
	}
	// the SDK's own client on a stateless endpoint (both protocol generations, with and without an event
	// store and JSON responses): the session it gets has no id, and a call works
	for _, store := range []bool{false, true} {
		for _, jsonResp := range []bool{false, true} {
			for _, version := range []string{"2025-06-18", "2026-07-28"} {
				idx, mine := cases.Next()
				if !mine {
					continue
				}
				desc := fmt.Sprintf("SDK client, event-store=%v json-responses=%v version=%s", store, jsonResp, version)
				var id string
				var issued []string
				var callErr error
				func() {
					defer func() {
						if r := recover(); r != nil {
							callErr = fmt.Errorf("panic or leak: %v", r)
						}
					}()
					synctest.Test(t, func(t *testing.T) {
						s := NewServer(&Implementation{Name: "srv", Version: "1"}, &ServerOptions{Logger: quietLogger})
						AddTool(s, &Tool{Name: "t"}, func(ctx context.Context, r *CallToolRequest, in map[string]any) (*CallToolResult, any, error) {
							return &CallToolResult{}, nil, nil
						})
						hopts := &StreamableHTTPOptions{Stateless: true, Logger: quietLogger, JSONResponse: jsonResp}
						if store {
							hopts.EventStore = NewMemoryEventStore(nil)
						}
						hx := &hxTransport{Handler: NewStreamableHTTPHandler(func(*http.Request) *Server { return s }, hopts)}
						cs, err := NewClient(&Implementation{Name: "cli", Version: "1"}, &ClientOptions{Logger: quietLogger}).Connect(context.Background(),
							&StreamableClientTransport{Endpoint: "http://example.test/mcp", HTTPClient: hx.client(), MaxRetries: -1}, &ClientSessionOptions{ProtocolVersion: version})
						if err != nil {
							callErr = err
							return
						}
						_, callErr = cs.CallTool(context.Background(), &CallToolParams{Name: "t", Arguments: map[string]any{}})
						id = cs.ID()
						for _, x := range hx.exchanges() {
							if v := x.RespHdr.Get("Mcp-Session-Id"); v != "" {
								issued = append(issued, v)
							}
						}
						cs.Close()
					})
				}()
				switch {
				case callErr != nil:
					cases.Violate(idx, "c11 stateless-client-fails", fmt.Sprintf("%s: %v", desc, callErr), 2)
				case id != "" || len(issued) > 0:
					cases.Violate(idx, "c11 stateless-issues-session-id", fmt.Sprintf("%s: ClientSession.ID() = %q, Mcp-Session-Id response headers %v", desc, id, issued), 2)
				default:
					cases.Record(idx, "sdk-client-no-id", 2, func() string { return desc })
				}
			}
		}
	}
}

// c11UnknownIDs: a stateful endpoint with one live session.  Requests of every method present session
// ids that the server never issued - of every shape an HTTP header value may legally have (inner
// blanks, tabs, non-ASCII bytes, very long, case variants and fragments of the live id).  Every one of
// them is answered 404; none creates a session, none is issued an id, the live session is untouched.
func c11UnknownIDs(env *verifx.Env, res *verifx.Result, t *testing.T) {
	cases := env.NewCases(res, "unknown-session-ids")
	shapes := []string{"no-such-session", "no such session", "tab\tinside", "sess-\u00fc\u00f1\u00ef", "\x80\xff", strings.Repeat("x", 300), "LIVE-upper", "LIVE-prefix", "LIVE-plus", "0", "null", "undefined"}
	for _, shape := range shapes {
		for _, kind := range []string{"POST-ping", "POST-initialize", "POST-notification", "POST-call", "GET", "DELETE"} {
			idx, mine := cases.Next()
			if !mine {
				continue
			}
			var sig, msg, obs string
			func() {
				defer func() {
					if r := recover(); r != nil && sig == "" {
						sig, msg = "c11 unknown-id panic-or-leak", fmt.Sprintf("%v [%s sid shape %q]", r, kind, shape)
					}
				}()
				synctest.Test(t, func(t *testing.T) {
					s := NewServer(&Implementation{Name: "srv", Version: "1"}, &ServerOptions{Logger: quietLogger})
					ran := 0
					AddTool(s, &Tool{Name: "t"}, func(ctx context.Context, r *CallToolRequest, in map[string]any) (*CallToolResult, any, error) {
						ran++
						return &CallToolResult{}, nil, nil
					})
					h := NewStreamableHTTPHandler(func(*http.Request) *Server { return s }, &StreamableHTTPOptions{Logger: quietLogger})
					do := func(method, sid, body string) *httptest.ResponseRecorder {
						var rd io.Reader
						if body != "" {
							rd = strings.NewReader(body)
						}
						ctx, cancel := context.WithCancel(context.Background())
						defer cancel()
						r := httptest.NewRequest(method, "http://example.test/mcp", rd).WithContext(ctx)
						r.Header.Set("Accept", "application/json, text/event-stream")
						if body != "" {
							r.Header.Set("Content-Type", "application/json")
						}
						if sid != "" {
							r.Header["Mcp-Session-Id"] = []string{sid}
							r.Header.Set("Mcp-Protocol-Version", "2025-06-18")
						}
						w := httptest.NewRecorder()
						done := make(chan struct{})
						go func() { defer close(done); h.ServeHTTP(w, r) }()
						synctest.Wait()
						select {
						case <-done:
						default:
							cancel() // a stream that was opened: hang up
							<-done
						}
						return w
					}
					const initialize = `{"jsonrpc":"2.0","id":"i","method":"initialize","params":{"protocolVersion":"2025-06-18","capabilities":{},"clientInfo":{"name":"c","version":"1"}}}`
					w := do("POST", "", initialize)
					live := w.Header().Get("Mcp-Session-Id")
					if w.Code != 200 || live == "" {
						sig, msg = "c11 unknown-id setup", fmt.Sprintf("initialize: %d", w.Code)
						return
					}
					do("POST", live, `{"jsonrpc":"2.0","method":"notifications/initialized","params":{}}`)
					sid := shape
					switch shape {
					case "LIVE-upper":
						sid = strings.ToUpper(live)
						if sid == live {
							sid = strings.ToLower(live)
						}
					case "LIVE-prefix":
						sid = live[:len(live)-1]
					case "LIVE-plus":
						sid = live + "x"
					}
					if sid == live {
						obs = "shape coincides with the live id"
						return
					}
					desc := fmt.Sprintf("%s presenting the never-issued session id %q", kind, sid)
					switch kind {
					case "POST-ping":
						w = do("POST", sid, `{"jsonrpc":"2.0","id":1,"method":"ping"}`)
					case "POST-initialize":
						w = do("POST", sid, initialize)
					case "POST-notification":
						w = do("POST", sid, `{"jsonrpc":"2.0","method":"notifications/initialized","params":{}}`)
					case "POST-call":
						w = do("POST", sid, `{"jsonrpc":"2.0","id":1,"method":"tools/call","params":{"name":"t","arguments":{}}}`)
					case "GET":
						w = do("GET", sid, "")
					case "DELETE":
						w = do("DELETE", sid, "")
					}
					n := len(slices.Collect(s.Sessions()))
					switch {
					case w.Header().Get("Mcp-Session-Id") != "" && w.Header().Get("Mcp-Session-Id") != sid:
						sig, msg = "c11 unknown-id session-id-minted", fmt.Sprintf("%s: the response carries a new Mcp-Session-Id %q (status %d)", desc, w.Header().Get("Mcp-Session-Id"), w.Code)
					case n != 1:
						sig, msg = "c11 unknown-id session-count", fmt.Sprintf("%s: the server now has %d sessions, want the 1 live one (status %d)", desc, n, w.Code)
					case ran != 0:
						sig, msg = "c11 unknown-id effect", fmt.Sprintf("%s: the tool ran", desc)
					case w.Code != 404:
						sig, msg = fmt.Sprintf("c11 unknown-id wrong-status %s got %d want 404", kind, w.Code), fmt.Sprintf("%s: status %d, want 404", desc, w.Code)
					}
					if sig == "" {
						// the live session is untouched
						if w := do("POST", live, `{"jsonrpc":"2.0","id":2,"method":"ping"}`); w.Code != 200 {
							sig, msg = "c11 unknown-id live-session-harmed", fmt.Sprintf("%s: afterwards a ping on the live session is answered %d", desc, w.Code)
						}
					}
					for ss := range s.Sessions() {
						ss.Close()
					}
					obs = kind + "-404"
				})
			}()
			if sig != "" {
				cases.Violate(idx, sig, msg, 3)
				continue
			}
			cases.Record(idx, obs, 3, func() string { return fmt.Sprintf("%s sid shape %q", kind, shape) })
		}
	}
}

func TestVerifC11(t *testing.T) {
	env := verifx.LoadEnv("C11")
	res := env.NewResult()
	ops := c11Ops()
	c11KeyHistory = env.Pick(1, 2)
	env.RunSearch(res, &verifx.Search{
		Name: "session-history-search", NumOps: len(ops), OpName: func(i int) string { return ops[i].name },
		MaxDepth: env.Pick(4, 5), ShallowDepth: env.Pick(2, 3),
		Run: func(h []int) verifx.SearchResult { return c11Run(t, ops, h) },
	})
	// the same search (one level shallower) on a handler whose event store fails at session teardown
	c11WithFailingStore = true
	env.RunSearch(res, &verifx.Search{
		Name: "session-history-search/event-store-fails-at-teardown", NumOps: len(ops), OpName: func(i int) string { return ops[i].name },
		MaxDepth: env.Pick(3, 4), ShallowDepth: env.Pick(2, 3),
		Run: func(h []int) verifx.SearchResult { return c11Run(t, ops, h) },
	})
	c11WithFailingStore = false
	c11Stateless(env, res, t)
	c11UnknownIDs(env, res, t)
	env.Finish(res)
}
