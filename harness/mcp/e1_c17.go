package mcp

// C17 (E1): a listing racing registrations.  One goroutine lists a kind of feature (one page or several)
// while another adds an item and removes another.  Under every schedule within the budget the listing
// contains every item that stayed registered throughout exactly once, in order, the added / removed item at
// most once, and nothing else; nobody panics.  (Unsynchronised reads of the feature set between two
// scheduling points are the free-running race pass's to find: this scenario is its harness body.)

import (
	"context"
	"fmt"
	"slices"
	"strings"
	"testing"

	"github.com/modelcontextprotocol/go-sdk/internal/verifx"
	vs "github.com/modelcontextprotocol/go-sdk/internal/vsched"
)

func c17ListVsRegister(kind string, pageSize int) vs.Verdict {
	f := &e1Fail{prefix: "c17 list-vs-register " + kind}
	ctx := context.Background()
	stay := []string{"b", "d", "f", "h"}
	noopTool := func(context.Context, *CallToolRequest) (*CallToolResult, error) { return &CallToolResult{}, nil }
	noopPrompt := func(context.Context, *GetPromptRequest) (*GetPromptResult, error) { return &GetPromptResult{}, nil }
	add := func(s *Server, n string) {
		if kind == "tools" {
			s.AddTool(&Tool{Name: n, InputSchema: map[string]any{"type": "object"}}, noopTool)
		} else {
			s.AddPrompt(&Prompt{Name: n}, noopPrompt)
		}
	}
	p, err := e1Connect(ctx, &ServerOptions{PageSize: pageSize}, nil, "2025-06-18", false, func(s *Server) {
		for _, n := range append([]string{"e"}, stay...) {
			add(s, n)
		}
	})
	if err != nil {
		return vs.Verdict{Bad: "connect failed: " + err.Error(), Sig: "c17 connect-failed"}
	}
	vs.WaitIdle()
	done := make(chan struct{}, 2)
	var listed []string
	var listErr error
	vs.Go(func() {
		defer func() { done <- struct{}{} }()
		cursor := ""
		for pages := 0; pages < 12; pages++ {
			var ids []string
			var next string
			if kind == "tools" {
				r, err := p.cs.ListTools(ctx, &ListToolsParams{Cursor: cursor})
				if err != nil {
					listErr = err
					return
				}
				for _, t := range r.Tools {
					ids = append(ids, t.Name)
				}
				next = r.NextCursor
			} else {
				r, err := p.cs.ListPrompts(ctx, &ListPromptsParams{Cursor: cursor})
				if err != nil {
					listErr = err
					return
				}
				for _, t := range r.Prompts {
					ids = append(ids, t.Name)
				}
				next = r.NextCursor
			}
			listed = append(listed, ids...)
			if next == "" {
				return
			}
			cursor = next
		}
	})
	vs.Go(func() {
		defer func() { done <- struct{}{} }()
		vs.Point()
		add(p.s, "c") // a new item in the middle of the order
		if kind == "tools" {
			p.s.RemoveTools("e")
		} else {
			p.s.RemovePrompts("e")
		}
	})
	<-done
	<-done
	vs.Quiet(true)
	p.cs.Close()
	p.ss.Wait()
	vs.Quiet(false)
	if listErr != nil {
		f.failf("list-error", "the listing failed: %v", listErr)
		return f.verdict("")
	}
	if !slices.IsSorted(listed) {
		f.failf("not-in-order", "listed %v", listed)
	}
	seen := map[string]int{}
	for _, n := range listed {
		seen[n]++
	}
	for _, n := range stay {
		if seen[n] != 1 {
			f.failf("registered-item-listed-"+fmt.Sprint(seen[n])+"-times", "%q stayed registered throughout and was listed %d times: %v", n, seen[n], listed)
		}
	}
	for n, k := range seen {
		if k > 1 || !strings.Contains("bcdefh", n) {
			f.failf("stray-item", "%q listed %d times: %v", n, k, listed)
		}
	}
	return f.verdict(strings.Join(listed, ""))
}

func TestVerifC17Race(t *testing.T) {
	env := verifx.LoadEnv("C17")
	b := env.Pick(2, 3)
	env.Run([]*verifx.Scenario{
		vs.E1(t, "list-vs-register/tools/one-page", b, vs.Options{}, func() vs.Verdict { return c17ListVsRegister("tools", 0) }),
		vs.E1(t, "list-vs-register/tools/pages-of-2", b-1, vs.Options{}, func() vs.Verdict { return c17ListVsRegister("tools", 2) }),
		vs.E1(t, "list-vs-register/prompts/pages-of-2", b-1, vs.Options{}, func() vs.Verdict { return c17ListVsRegister("prompts", 2) }),
	})
}
