package mcp

// C02, error responses end to end: a call whose handler fails with a JSON-RPC error is answered
// exactly once with that error - code, message and data - on every transport and however the handler
// got there (at once, or after it had already sent a notification on the call's stream).  Observed
// through the SDK's own client: in-memory pipe, streamable HTTP stateful (legacy, SSE and JSON
// responses) and stateless (2026-07-28, where protocol-level errors also map to HTTP statuses).
// (-32601 is left out: the connection layer reserves it for "no handler".)

import (
	"context"
	"encoding/json"
	"errors"
	"fmt"
	"io"
	"net/http"
	"strings"
	"testing"
	"testing/synctest"
	"time"

	"github.com/modelcontextprotocol/go-sdk/internal/verifx"
	"github.com/modelcontextprotocol/go-sdk/jsonrpc"
)

func c02ErrorCase(transport string, code int64, notifyFirst bool) (obs, sig, msg string) {
	desc := fmt.Sprintf("transport=%s code=%d handler-notifies-first=%v", transport, code, notifyFirst)
	fail := func(s, format string, a ...any) (string, string, string) {
		return "", "c02 error-response " + s, fmt.Sprintf(format, a...) + " [" + desc + "]"
	}
	ctx := context.Background()
	s := NewServer(&Implementation{Name: "srv", Version: "1"}, &ServerOptions{Logger: quietLogger})
	s.AddTool(&Tool{Name: "fail", InputSchema: map[string]any{"type": "object"}}, func(ctx context.Context, r *CallToolRequest) (*CallToolResult, error) {
		if notifyFirst {
			r.Session.NotifyProgress(ctx, &ProgressNotificationParams{ProgressToken: "tok", Progress: 1, Message: "working"})
		}
		return nil, &jsonrpc.Error{Code: code, Message: fmt.Sprintf("refused with %d", code), Data: json.RawMessage(`{"detail":"d","n":7}`)}
	})
	progress := 0
	c := NewClient(&Implementation{Name: "cli", Version: "1"}, &ClientOptions{Logger: quietLogger,
		ProgressNotificationHandler: func(context.Context, *ProgressNotificationClientRequest) { progress++ }})
	var t Transport
	version := "2025-06-18"
	switch transport {
	case "inmem":
		ct, st := NewInMemoryTransports()
		if _, err := s.Connect(ctx, st, nil); err != nil {
			return fail("setup", "%v", err)
		}
		t = ct
	default:
		opts := &StreamableHTTPOptions{Logger: quietLogger}
		switch transport {
		case "http-stateful-json":
			opts.JSONResponse = true
		case "http-stateless-modern":
			opts.Stateless, version = true, "2026-07-28"
		case "http-stateless-modern-json":
			opts.Stateless, opts.JSONResponse, version = true, true, "2026-07-28"
		}
		hx := &hxTransport{Handler: NewStreamableHTTPHandler(func(*http.Request) *Server { return s }, opts)}
		t = &StreamableClientTransport{Endpoint: "http://srv.test/mcp", HTTPClient: hx.client(), MaxRetries: -1}
	}
	cs, err := c.Connect(ctx, t, &ClientSessionOptions{ProtocolVersion: version})
	if err != nil {
		return fail("setup", "connect: %v", err)
	}
	defer cs.Close()
	_, err = cs.CallTool(ctx, &CallToolParams{Name: "fail", Arguments: map[string]any{}, Meta: Meta{"progressToken": "tok"}})
	synctest.Wait()
	var je *jsonrpc.Error
	switch {
	case err == nil:
		return fail("error-turned-into-success", "the handler answered with error %d but the call succeeded", code)
	case !errors.As(err, &je):
		return fail("error-payload-lost", "the handler answered with JSON-RPC error %d (message, data); no such response reached the caller, who got %q", code, err.Error())
	case je.Code != code || je.Message != fmt.Sprintf("refused with %d", code):
		return fail("error-payload-altered", "the caller got code %d message %q", je.Code, je.Message)
	case !c19JSONEqual(je.Data, []byte(`{"detail":"d","n":7}`)):
		return fail("error-data-altered", "the caller got data %s", je.Data)
	}
	if _, err := cs.ListTools(ctx, nil); err != nil {
		return fail("session-unusable-afterwards", "after the failed call the session is unusable: %v", err)
	}
	return fmt.Sprintf("intact progress=%d", progress), "", ""
}

// c02WriteFailCase: one HTTP exchange of a streamable session fails at the I/O level while its POST is
// still attached (an expired write deadline, a proxy gone away): writing the response of that one call
// fails.  That costs at most that one response: the call in flight on a healthy exchange and every
// later call are still answered exactly once, and the session stays up.  The peer is a raw HTTP
// client (what the SDK's own client makes of a broken body is its business, not the server's).
func c02WriteFailCase(mode string, store bool, order string, failFrom string) (obs, sig, msg string) {
	desc := fmt.Sprintf("mode=%s event-store=%v released=%s writes-fail=%s", mode, store, order, failFrom)
	var hx *hxTransport
	fail := func(s, format string, a ...any) (string, string, string) {
		trace := ""
		if hx != nil {
			for _, x := range hx.exchanges() {
				trace += fmt.Sprintf("\n    #%d %s %.90s -> %d %.90q", x.N, x.Method, x.ReqBody, x.Status, x.Body())
			}
		}
		return "", "c02 response-write-fails " + s, fmt.Sprintf(format, a...) + " [" + desc + "]" + trace
	}
	gates := map[string]chan struct{}{"a": make(chan struct{}), "b": make(chan struct{})}
	started := 0
	s := NewServer(&Implementation{Name: "srv", Version: "1"}, &ServerOptions{Logger: quietLogger})
	AddTool(s, &Tool{Name: "wait"}, func(ctx context.Context, r *CallToolRequest, in struct {
		Gate string `json:"gate"`
	}) (*CallToolResult, any, error) {
		if g := gates[in.Gate]; g != nil {
			started++
			<-g // deliberately not watching ctx: the answer is computed regardless
		}
		return &CallToolResult{Content: []Content{&TextContent{Text: "done " + in.Gate}}}, nil, nil
	})
	opts := &StreamableHTTPOptions{Logger: quietLogger, JSONResponse: mode == "json"}
	if store {
		opts.EventStore = NewMemoryEventStore(nil)
	}
	hx = &hxTransport{Handler: NewStreamableHTTPHandler(func(*http.Request) *Server { return s }, opts)}
	broken := false
	hx.WriteFault = func(x *hxExchange) error {
		if !strings.Contains(string(x.ReqBody), `"gate":"a"`) {
			return nil
		}
		if failFrom == "first-write" || broken {
			return errors.New("write tcp 10.0.0.1:8080->10.0.0.2:4242: i/o timeout")
		}
		return nil
	}
	sid := ""
	// do sends one request and returns the status and everything that could be read of the body
	do := func(method, body, lastEventID string) (int, string) {
		req, _ := http.NewRequest(method, "http://srv.test/mcp", strings.NewReader(body))
		req.Header.Set("Content-Type", "application/json")
		req.Header.Set("Accept", "application/json, text/event-stream")
		if sid != "" {
			req.Header.Set("Mcp-Session-Id", sid)
			req.Header.Set("Mcp-Protocol-Version", "2025-06-18")
		}
		if lastEventID != "" {
			req.Header.Set("Last-Event-ID", lastEventID)
		}
		resp, err := hx.client().Do(req)
		if err != nil {
			return 0, err.Error()
		}
		defer resp.Body.Close()
		if id := resp.Header.Get("Mcp-Session-Id"); id != "" {
			sid = id
		}
		data, _ := io.ReadAll(resp.Body)
		return resp.StatusCode, string(data)
	}
	// responses counts the JSON-RPC responses bearing the id in a body (SSE events or a JSON document)
	responses := func(body string, id int) int {
		n := 0
		for _, line := range strings.Split(body, "\n") {
			line = strings.TrimSpace(strings.TrimPrefix(line, "data:"))
			var m struct {
				ID     *int            `json:"id"`
				Method string          `json:"method"`
				Result json.RawMessage `json:"result"`
				Error  json.RawMessage `json:"error"`
			}
			if json.Unmarshal([]byte(line), &m) == nil && m.ID != nil && *m.ID == id && m.Method == "" && (m.Result != nil || m.Error != nil) {
				n++
			}
		}
		return n
	}
	if st, body := do("POST", `{"jsonrpc":"2.0","id":1,"method":"initialize","params":{"protocolVersion":"2025-06-18","capabilities":{},"clientInfo":{"name":"c","version":"1"}}}`, ""); st != 200 || responses(body, 1) != 1 || sid == "" {
		return fail("setup", "initialize: %d %q", st, body)
	}
	if st, body := do("POST", `{"jsonrpc":"2.0","method":"notifications/initialized"}`, ""); st != 202 {
		return fail("setup", "initialized: %d %q", st, body)
	}
	var ss *ServerSession
	for x := range s.Sessions() {
		ss = x
	}
	if ss == nil {
		return fail("setup", "no server session")
	}
	ended := false
	go func() { ss.Wait(); ended = true }()
	type outcome struct {
		status int
		body   string
		done   bool
	}
	var ra, rb outcome
	call := func(id int, g string, o *outcome) {
		o.status, o.body = do("POST", fmt.Sprintf(`{"jsonrpc":"2.0","id":%d,"method":"tools/call","params":{"name":"wait","arguments":{"gate":"%s"}}}`, id, g), "")
		o.done = true
	}
	go call(2, "a", &ra)
	go call(3, "b", &rb)
	synctest.Wait()
	if started != 2 {
		return fail("setup", "%d of the two handlers started", started)
	}
	broken = true // from now on the writes of a's exchange fail; its request and context live on
	for _, g := range strings.Split(order, ",") {
		close(gates[g])
		synctest.Wait()
	}
	time.Sleep(2 * time.Minute)
	synctest.Wait()
	switch {
	case !rb.done:
		return fail("healthy-exchange-never-ends", "the exchange of the call on the healthy connection is still open two minutes after its handler returned (the other one: done=%v)", ra.done)
	case rb.status != 200 || responses(rb.body, 3) != 1:
		return fail("healthy-call-not-answered-once", "the response write of ANOTHER exchange failed; the call on the healthy exchange got status %d with %d responses: %.200q", rb.status, responses(rb.body, 3), rb.body)
	case !strings.Contains(rb.body, "done b"):
		return fail("healthy-call-wrong-answer", "the call on the healthy exchange got %.200q", rb.body)
	case !ra.done:
		return fail("failed-exchange-never-ends", "the exchange whose response could not be written is still open two minutes later")
	case responses(ra.body, 2) > 0:
		return fail("harness", "the failing exchange delivered a response: %.200q", ra.body)
	case ended:
		return fail("session-torn-down", "one failed response write ended the whole server session")
	}
	// with an event store and an event id seen on the failed exchange, the response is still to be had - once
	recovered := "lost"
	if store && mode == "sse" {
		lastID := ""
		for _, line := range strings.Split(ra.body, "\n") {
			if v, ok := strings.CutPrefix(line, "id: "); ok {
				lastID = strings.TrimSpace(v)
			}
		}
		if lastID != "" {
			st, body := do("GET", "", lastID)
			if n := responses(body, 2); st != 200 || n != 1 {
				return fail("stored-response-not-replayed-once", "the response whose write failed was stored; resuming after event %q gave status %d with %d responses: %.200q", lastID, st, n, body)
			}
			recovered = "replayed"
		}
	}
	if st, body := do("POST", `{"jsonrpc":"2.0","id":4,"method":"tools/call","params":{"name":"wait","arguments":{"gate":"none"}}}`, ""); st != 200 || responses(body, 4) != 1 || !strings.Contains(body, "done none") {
		return fail("later-call-not-answered-once", "a call made after the failed write got status %d with %d responses: %.200q", st, responses(body, 4), body)
	}
	if ended {
		return fail("session-torn-down", "the session ended after the failed write")
	}
	ss.Close()
	synctest.Wait()
	return "a-" + recovered, "", ""
}

func TestVerifC02Errors(t *testing.T) {
	env := verifx.LoadEnv("C02")
	res := env.NewResult()
	cases := env.NewCases(res, "error-responses-end-to-end")
	for _, transport := range []string{"inmem", "http-stateful-sse", "http-stateful-json", "http-stateless-modern", "http-stateless-modern-json"} {
		for _, code := range []int64{-32602, -32022, -32021, -32000, -32050, 1, 4242, -32700, -32600, -32603, -32001, -32002, -32003, -32004, -32005} {
			for _, notifyFirst := range []bool{false, true} {
				idx, mine := cases.Next()
				if !mine {
					continue
				}
				var obs, sig, msg string
				func() {
					defer func() {
						if r := recover(); r != nil {
							sig, msg = "c02 error-response panic-or-leak", fmt.Sprintf("%v [transport=%s code=%d notifyFirst=%v]", r, transport, code, notifyFirst)
						}
					}()
					synctest.Test(t, func(t *testing.T) { obs, sig, msg = c02ErrorCase(transport, code, notifyFirst) })
				}()
				if sig != "" {
					cases.Violate(idx, sig, msg, 3)
					continue
				}
				cases.Record(idx, transport+" "+obs, 3, func() string {
					return fmt.Sprintf("transport=%s code=%d notifyFirst=%v", transport, code, notifyFirst)
				})
			}
		}
	}
	wf := env.NewCases(res, "error-responses-write-failure")
	for _, mode := range []string{"sse", "json"} {
		for _, store := range []bool{false, true} {
			for _, order := range []string{"a,b", "b,a"} {
				for _, failFrom := range []string{"first-write", "once-in-flight"} {
					idx, mine := wf.Next()
					if !mine {
						continue
					}
					var obs, sig, msg string
					func() {
						defer func() {
							if r := recover(); r != nil {
								sig, msg = "c02 response-write-fails panic-or-leak", fmt.Sprintf("%v [mode=%s store=%v order=%s fail=%s]", r, mode, store, order, failFrom)
							}
						}()
						synctest.Test(t, func(t *testing.T) { obs, sig, msg = c02WriteFailCase(mode, store, order, failFrom) })
					}()
					if sig != "" {
						wf.Violate(idx, sig, msg, 4)
						continue
					}
					wf.Record(idx, mode+" "+obs, 4, func() string {
						return fmt.Sprintf("mode=%s event-store=%v released=%s writes-fail=%s", mode, store, order, failFrom)
					})
				}
			}
		}
	}
	env.Finish(res)
}
