package mcp

// C02, error responses end to end: a call whose handler fails with a JSON-RPC error is answered
// exactly once with that error - code, message and data - on every transport and however the handler
// got there (at once, or after it had already sent a notification on the call's stream).  Observed
// through the SDK's own client: in-memory pipe, streamable HTTP stateful (legacy, SSE and JSON
// responses) and stateless (2026-07-28, where protocol-level errors also map to HTTP statuses).
// (-32601 is left out: the connection layer reserves it for "no handler".)

import (
	"context"
	"encoding/json"
	"errors"
	"fmt"
	"net/http"
	"testing"
	"testing/synctest"

	"github.com/modelcontextprotocol/go-sdk/internal/verifx"
	"github.com/modelcontextprotocol/go-sdk/jsonrpc"
)

func c02ErrorCase(transport string, code int64, notifyFirst bool) (obs, sig, msg string) {
	desc := fmt.Sprintf("transport=%s code=%d handler-notifies-first=%v", transport, code, notifyFirst)
	fail := func(s, format string, a ...any) (string, string, string) {
		return "", "c02 error-response " + s, fmt.Sprintf(format, a...) + " [" + desc + "]"
	}
	ctx := context.Background()
	s := NewServer(&Implementation{Name: "srv", Version: "1"}, &ServerOptions{Logger: quietLogger})
	s.AddTool(&Tool{Name: "fail", InputSchema: map[string]any{"type": "object"}}, func(ctx context.Context, r *CallToolRequest) (*CallToolResult, error) {
		if notifyFirst {
			r.Session.NotifyProgress(ctx, &ProgressNotificationParams{ProgressToken: "tok", Progress: 1, Message: "working"})
		}
		return nil, &jsonrpc.Error{Code: code, Message: fmt.Sprintf("refused with %d", code), Data: json.RawMessage(`{"detail":"d","n":7}`)}
	})
	progress := 0
	c := NewClient(&Implementation{Name: "cli", Version: "1"}, &ClientOptions{Logger: quietLogger,
		ProgressNotificationHandler: func(context.Context, *ProgressNotificationClientRequest) { progress++ }})
	var t Transport
	version := "2025-06-18"
	switch transport {
	case "inmem":
		ct, st := NewInMemoryTransports()
		if _, err := s.Connect(ctx, st, nil); err != nil {
			return fail("setup", "%v", err)
		}
		t = ct
	default:
		opts := &StreamableHTTPOptions{Logger: quietLogger}
		switch transport {
		case "http-stateful-json":
			opts.JSONResponse = true
		case "http-stateless-modern":
			opts.Stateless, version = true, "2026-07-28"
		case "http-stateless-modern-json":
			opts.Stateless, opts.JSONResponse, version = true, true, "2026-07-28"
		}
		hx := &hxTransport{Handler: NewStreamableHTTPHandler(func(*http.Request) *Server { return s }, opts)}
		t = &StreamableClientTransport{Endpoint: "http://srv.test/mcp", HTTPClient: hx.client(), MaxRetries: -1}
	}
	cs, err := c.Connect(ctx, t, &ClientSessionOptions{ProtocolVersion: version})
	if err != nil {
		return fail("setup", "connect: %v", err)
	}
	defer cs.Close()
	_, err = cs.CallTool(ctx, &CallToolParams{Name: "fail", Arguments: map[string]any{}, Meta: Meta{"progressToken": "tok"}})
	synctest.Wait()
	var je *jsonrpc.Error
	switch {
	case err == nil:
		return fail("error-turned-into-success", "the handler answered with error %d but the call succeeded", code)
	case !errors.As(err, &je):
		return fail("error-payload-lost", "the handler answered with JSON-RPC error %d (message, data); no such response reached the caller, who got %q", code, err.Error())
	case je.Code != code || je.Message != fmt.Sprintf("refused with %d", code):
		return fail("error-payload-altered", "the caller got code %d message %q", je.Code, je.Message)
	case !c19JSONEqual(je.Data, []byte(`{"detail":"d","n":7}`)):
		return fail("error-data-altered", "the caller got data %s", je.Data)
	}
	if _, err := cs.ListTools(ctx, nil); err != nil {
		return fail("session-unusable-afterwards", "after the failed call the session is unusable: %v", err)
	}
	return fmt.Sprintf("intact progress=%d", progress), "", ""
}

func TestVerifC02Errors(t *testing.T) {
	env := verifx.LoadEnv("C02")
	res := env.NewResult()
	cases := env.NewCases(res, "error-responses-end-to-end")
	for _, transport := range []string{"inmem", "http-stateful-sse", "http-stateful-json", "http-stateless-modern", "http-stateless-modern-json"} {
		for _, code := range []int64{-32602, -32022, -32021, -32000, -32050, 1, 4242} {
			for _, notifyFirst := range []bool{false, true} {
				idx, mine := cases.Next()
				if !mine {
					continue
				}
				var obs, sig, msg string
				func() {
					defer func() {
						if r := recover(); r != nil {
							sig, msg = "c02 error-response panic-or-leak", fmt.Sprintf("%v [transport=%s code=%d notifyFirst=%v]", r, transport, code, notifyFirst)
						}
					}()
					synctest.Test(t, func(t *testing.T) { obs, sig, msg = c02ErrorCase(transport, code, notifyFirst) })
				}()
				if sig != "" {
					cases.Violate(idx, sig, msg, 3)
					continue
				}
				cases.Record(idx, transport+" "+obs, 3, func() string {
					return fmt.Sprintf("transport=%s code=%d notifyFirst=%v", transport, code, notifyFirst)
				})
			}
		}
	}
	env.Finish(res)
}
