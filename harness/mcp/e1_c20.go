package mcp

// C20 (E1): the in-memory event store under concurrent use.  Two or three threads operate on one
// store at once (appends near the size limit, an After, a SetMaxBytes), under the controlled
// scheduler; when all have finished the store satisfies the same invariants as after any sequential
// history: exact byte accounting, the size bound, every stream a suffix of what was appended to it.

import (
	"context"
	"errors"
	"fmt"
	"strings"
	"testing"

	"github.com/modelcontextprotocol/go-sdk/internal/verifx"
	vs "github.com/modelcontextprotocol/go-sdk/internal/vsched"
)

func c20Concurrent(threads int) vs.Verdict {
	f := &e1Fail{prefix: "c20 concurrent"}
	ctx := context.Background()
	const max = 8
	st := NewMemoryEventStore(nil)
	st.SetMaxBytes(max)
	st.Open(ctx, "s", "a")
	st.Open(ctx, "s", "b")
	appended := map[string][]string{}
	add := func(stream, data string) {
		st.Append(ctx, "s", stream, []byte(data))
	}
	add("a", "12345678") // the store is exactly full
	appended["a"] = append(appended["a"], "12345678")
	type op = struct{ stream, data string }
	ops := []op{{"a", "AAAAA"}, {"b", "BBBBB"}, {"a", "CCC"}}[:threads]
	done := make(chan int, 4)
	var order []string
	for i, o := range ops {
		vs.Go(func() {
			add(o.stream, o.data)
			order = append(order, o.data) // completion order (cooperative scheduler: no data race)
			done <- i
		})
	}
	// a reader alongside: whatever it sees is a gap-free suffix or a purge error
	var seen []string
	var seenErr error
	vs.Go(func() {
		for d, err := range st.After(ctx, "s", "a", -1) {
			if err != nil {
				seenErr = err
				break
			}
			seen = append(seen, string(d))
		}
		done <- -1
	})
	for i := 0; i < len(ops)+1; i++ {
		<-done
	}
	// ---- invariants at quiescence
	n, _ := c20Totals(st)
	total := 0
	retained := map[string][]string{}
	for _, k := range c20Streams(st, [][2]string{{"s", "a"}, {"s", "b"}}) {
		_, items, _, _ := c20View(st, k[0], k[1], len(ops))
		for _, d := range items {
			total += len(d)
			retained[k[1]] = append(retained[k[1]], string(d))
		}
	}
	if n < 0 {
		n = total // the store's own count is not observable in the black-box view
	}
	if n != total {
		f.failf("byte-accounting", "the store accounts for %d bytes but retains %d", n, total)
	}
	// every append happened after the store had been brought under the limit: at most max + the largest
	// single item may be retained once all appends have completed... strictly: max + the item appended last
	last := ""
	if len(order) > 0 {
		last = order[len(order)-1]
	}
	if total > max+len(last) {
		f.failf("size-bound-exceeded", "limit %d: after concurrent appends %v the store retains %d bytes, more than the limit plus the most recent item (%d bytes): %v", max, order, total, len(last), retained)
	}
	for _, o := range ops {
		appended[o.stream] = append(appended[o.stream], o.data)
	}
	for stream, r := range retained {
		// suffix of the appended sequence (per stream the appended order is the completion order)
		var seq []string
		seq = append(seq, appended[stream][:len(appended[stream])-countStream(ops, stream)]...)
		for _, d := range order {
			for _, o := range ops {
				if o.data == d && o.stream == stream {
					seq = append(seq, d)
				}
			}
		}
		if len(r) > len(seq) || strings.Join(r, ",") != strings.Join(seq[len(seq)-len(r):], ",") {
			f.failf("retained-not-suffix", "stream %s retains %v, which is not a suffix of what was appended to it %v", stream, r, seq)
		}
	}
	if seenErr != nil && !errors.Is(seenErr, ErrEventsPurged) {
		f.failf("after-error", "a concurrent After failed with %v", seenErr)
	}
	return f.verdict(fmt.Sprintf("retained=%d order=%v after=%d err=%v", total, order, len(seen), seenErr != nil))
}

func countStream(ops []struct{ stream, data string }, stream string) int {
	n := 0
	for _, o := range ops {
		if o.stream == stream {
			n++
		}
	}
	return n
}

func TestVerifC20Concurrent(t *testing.T) {
	env := verifx.LoadEnv("C20")
	env.Run([]*verifx.Scenario{
		vs.E1(t, "concurrent/2-appenders+reader", env.Pick(3, 4), vs.Options{}, func() vs.Verdict { return c20Concurrent(2) }),
		vs.E1(t, "concurrent/3-appenders+reader", env.Pick(2, 3), vs.Options{}, func() vs.Verdict { return c20Concurrent(3) }),
	})
}
