package mcp

// C01 over CommandTransport with a real child process.  The child (this test binary, re-executed)
// is a scripted stdio server that answers a tools/call with n notifications followed by the
// response and then goes away at once - by exiting (status 0 or not) or by closing its stdout first.
// What the child wrote before it went away is on the byte stream in front of the end of stream: the
// call completes with that response (not with an error about the connection), every notification
// is dispatched, Wait returns, a call made afterwards fails at once, Close returns.
//
// This family runs real processes: the order in which the operating system reports "child exited"
// and "pipe drained" is not under the harness's control.  On a tree where the property holds the
// outcome does not depend on it (nothing is discarded, whatever comes first); a tree that discards
// unread output when the child is reaped shows it in (nearly) every run.  Each case is run several
// times; the evidence lists the family as bounded-exhaustive over (n, way of leaving) only.

import (
	"bufio"
	"context"
	"encoding/json"
	"errors"
	"fmt"
	"os"
	"os/exec"
	"strings"
	"sync/atomic"
	"testing"
	"time"

	"github.com/modelcontextprotocol/go-sdk/internal/verifx"
)

const c01ChildEnv = "VERIF_C01_CHILD"

// TestVerifC01CmdChild is the child's body; it does nothing unless the environment says so.
func TestVerifC01CmdChild(t *testing.T) {
	spec := os.Getenv(c01ChildEnv)
	if spec == "" {
		t.Skip("not a child")
	}
	var n int
	var leave string
	fmt.Sscanf(spec, "%d,%s", &n, &leave)
	out := bufio.NewWriterSize(os.Stdout, 1<<16)
	sc := bufio.NewScanner(os.Stdin)
	sc.Buffer(make([]byte, 1<<20), 1<<20)
	for sc.Scan() {
		var m struct {
			ID     json.RawMessage `json:"id"`
			Method string          `json:"method"`
		}
		if json.Unmarshal(sc.Bytes(), &m) != nil {
			continue
		}
		switch m.Method {
		case "initialize":
			fmt.Fprintf(out, `{"jsonrpc":"2.0","id":%s,"result":{"protocolVersion":"2025-06-18","capabilities":{"tools":{},"logging":{}},"serverInfo":{"name":"child","version":"1"}}}`+"\n", m.ID)
			out.Flush()
		case "tools/call":
			for i := 0; i < n; i++ {
				fmt.Fprintf(out, `{"jsonrpc":"2.0","method":"notifications/message","params":{"level":"info","data":"note %d of %d, padded so that the pipe fills up: %s"}}`+"\n", i, n, strings.Repeat("x", 40))
			}
			fmt.Fprintf(out, `{"jsonrpc":"2.0","id":%s,"result":{"content":[{"type":"text","text":"last words"}]}}`+"\n", m.ID)
			out.Flush()
			switch leave {
			case "exit":
				os.Exit(0)
			case "exit-nonzero":
				os.Exit(3)
			case "close-stdout-then-exit":
				os.Stdout.Close()
				time.Sleep(20 * time.Millisecond)
				os.Exit(0)
			}
		}
	}
	os.Exit(0)
}

func c01CmdCase(n int, leave string) (obs, sig, msg string) {
	fail := func(s, format string, a ...any) (string, string, string) {
		return "", "c01 command-transport " + s, fmt.Sprintf(format, a...) + fmt.Sprintf(" [the child writes %d notifications and the response, then leaves by %s]", n, leave)
	}
	ctx, cancel := context.WithTimeout(context.Background(), 2*time.Minute)
	defer cancel()
	var notes atomic.Int64
	c := NewClient(&Implementation{Name: "cli", Version: "1"}, &ClientOptions{Logger: quietLogger,
		LoggingMessageHandler: func(context.Context, *LoggingMessageRequest) { notes.Add(1) }})
	cmd := exec.Command(os.Args[0], "-test.run=^TestVerifC01CmdChild$", "-test.count=1")
	cmd.Env = append(os.Environ(), fmt.Sprintf("%s=%d,%s", c01ChildEnv, n, leave))
	cs, err := c.Connect(ctx, &CommandTransport{Command: cmd, TerminateDuration: 2 * time.Second}, &ClientSessionOptions{ProtocolVersion: "2025-06-18"})
	if err != nil {
		if ctx.Err() != nil {
			return "harness-too-slow", "", ""
		}
		return fail("setup", "connect: %v", err)
	}
	defer cs.Close()
	res, callErr := cs.CallTool(ctx, &CallToolParams{Name: "t", Arguments: map[string]any{}})
	if ctx.Err() != nil {
		return "harness-too-slow", "", ""
	}
	waited := make(chan struct{})
	go func() { cs.Wait(); close(waited) }()
	select {
	case <-waited:
	case <-ctx.Done():
		return fail("wait-never-returns", "the child has exited; Wait has not returned two minutes later (call: %v)", callErr)
	}
	if callErr != nil {
		return fail("response-before-end-of-stream-lost", "the child wrote the response before it left, the call failed with %q (notifications dispatched: %d of %d)", callErr, notes.Load(), n)
	}
	if len(res.Content) != 1 || res.Content[0].(*TextContent).Text != "last words" {
		return fail("wrong-response", "the call returned %+v", res)
	}
	for i := 0; notes.Load() != int64(n) && i < 3000; i++ {
		time.Sleep(10 * time.Millisecond) // (handlers of queued notifications may still be running)
	}
	if got := notes.Load(); got != int64(n) {
		return fail("notifications-lost", "%d of the %d notifications in front of the response were dispatched", got, n)
	}
	pctx, pcancel := context.WithTimeout(context.Background(), time.Minute)
	defer pcancel()
	perr := cs.Ping(pctx, nil)
	switch {
	case perr == nil:
		return fail("call-after-termination-succeeds", "a ping after Wait returned succeeded")
	case pctx.Err() != nil:
		return fail("call-after-termination-blocks", "a ping after Wait returned was still blocked a minute later")
	case !errors.Is(perr, ErrConnectionClosed):
		return fail("call-after-termination-wrong-error", "a ping after Wait returned failed with %q, which does not identify the connection as closed", perr)
	}
	closed := make(chan struct{})
	go func() { cs.Close(); close(closed) }()
	select {
	case <-closed:
	case <-time.After(time.Minute):
		return fail("close-never-returns", "Close has not returned a minute after the child exited")
	}
	return "response delivered, then terminated", "", ""
}

func TestVerifC01Cmd(t *testing.T) {
	env := verifx.LoadEnv("C01")
	res := env.NewResult()
	cases := env.NewCases(res, "command-transport/last-words-before-exit")
	for _, n := range []int{0, 1, 100, 1000, 4000} {
		for _, leave := range []string{"exit", "exit-nonzero", "close-stdout-then-exit"} {
			for round := 0; round < env.Pick(3, 10); round++ {
				idx, mine := cases.Next()
				if !mine {
					continue
				}
				desc := fmt.Sprintf("n=%d leave=%s round=%d", n, leave, round)
				obs, sig, msg := c01CmdCase(n, leave)
				if sig != "" {
					cases.Violate(idx, sig, msg, 3)
					continue
				}
				cases.Record(idx, obs, 3, func() string { return desc })
			}
		}
	}
	env.Finish(res)
}
