package mcp

// C19: the wire codec and framing round-trip every message and value without loss.
//  (a) Encode/Decode of JSON-RPC messages over ids x methods x a JSON value grammar x errors
//  (b) the same payloads through newline-delimited framing (ioConn) and SSE writeEvent/scanEvents
//  (c) every content kind (nested, with _meta) through Marshal/Unmarshal; required members on the wire
//  (d) case sensitivity of the message decoder
//  (e) every byte string up to a length over a JSON-significant alphabet: no panic

import (
	"bufio"
	"bytes"
	"context"
	"encoding/json"
	"errors"
	"fmt"
	"io"
	"math"
	"net/http"
	"net/http/httptest"
	"reflect"
	"sort"
	"strings"
	"sync"
	"testing"
	"testing/synctest"
	"time"

	internaljson "github.com/modelcontextprotocol/go-sdk/internal/json"
	"github.com/modelcontextprotocol/go-sdk/internal/jsonrpc2"
	"github.com/modelcontextprotocol/go-sdk/internal/verifx"
)

func c19Values() []string {
	leaves := []string{`null`, `true`, `0`, `-1.5`, `1e21`, `12345678901234567890`, `""`, `"a"`, `"ü"`, `"\u0000"`, `"line\nbreak\r\n"`, `"data: x\n\nid: 7"`, `"  padded  "`, `"  "`, `"<&>"`, `"😀"`}
	out := append([]string{}, leaves...)
	out = append(out, `[]`, `{}`)
	for _, l := range leaves {
		out = append(out, `[`+l+`]`, `{"k":`+l+`}`, `{"a":[`+l+`],"b":{"c":`+l+`}}`)
	}
	out = append(out, `{"Method":"shadow","ID":1,"jsonrpc":"1.0"}`, `[1,[2,[3]]]`, `{"":0}`, `{"_meta":{"x/y":1}}`)
	return out
}

func c19IDs() []string {
	return []string{"0", "1", "-1", "9007199254740992", "-9007199254740992", "9007199254740993", "-9007199254740993", "9223372036854775807", "-9223372036854775808", `""`, `"a"`, `"ü"`, `"\u0000"`, `"1"`, `"null"`,
		// other legal JSON spellings of strings, as foreign encoders produce them: an escaped solidus (PHP),
		// a surrogate pair and \u escapes for non-ASCII (ASCII-only encoders), the remaining short escapes
		`"a\/b"`, `"req\/7=="`, `"\ud83d\ude00"`, `"\uD83D\uDE00-x"`, `"caf\u00e9"`, `"t\tn\nq\"b\\f\fr\rb\b"`, `"😀"`}
}

func c19JSONEqual(a, b []byte) bool {
	var x, y any
	da := json.NewDecoder(bytes.NewReader(a))
	da.UseNumber()
	db := json.NewDecoder(bytes.NewReader(b))
	db.UseNumber()
	if da.Decode(&x) != nil || db.Decode(&y) != nil {
		return false
	}
	return reflect.DeepEqual(c19Norm(x), c19Norm(y))
}

// numbers are compared by value where both are representable, else by text
func c19Norm(v any) any {
	switch t := v.(type) {
	case json.Number:
		if i, err := t.Int64(); err == nil {
			return fmt.Sprintf("int:%d", i)
		}
		f, _ := t.Float64()
		return fmt.Sprintf("float:%v", f)
	case []any:
		out := make([]any, len(t))
		for i, e := range t {
			out[i] = c19Norm(e)
		}
		return out
	case map[string]any:
		out := map[string]any{}
		for k, e := range t {
			out[k] = c19Norm(e)
		}
		return out
	}
	return v
}

const c19DecoyMark = "x-decoy-marker"

type c19Wire struct {
	ID     json.RawMessage `json:"id"`
	Method *string         `json:"method"`
	Params json.RawMessage `json:"params"`
	Result json.RawMessage `json:"result"`
	Error  *struct {
		Code    int64           `json:"code"`
		Message string          `json:"message"`
		Data    json.RawMessage `json:"data"`
	} `json:"error"`
}

// c19Messages yields wire texts of well-formed messages.
func c19Messages(quick bool) []string {
	var out []string
	vals := c19Values()
	ids := c19IDs()
	methods := []string{"m", "tools/call", "notifications/x", "ü/√", "a b", ""}
	for i, id := range ids {
		for j, v := range vals {
			if quick && (i+j)%4 != 0 {
				continue
			}
			m := methods[(i+j)%len(methods)]
			out = append(out, fmt.Sprintf(`{"jsonrpc":"2.0","id":%s,"method":%q,"params":%s}`, id, m, v))
			out = append(out, fmt.Sprintf(`{"jsonrpc":"2.0","id":%s,"result":%s}`, id, v))
			out = append(out, fmt.Sprintf(`{"jsonrpc":"2.0","id":%s,"error":{"code":%d,"message":%q,"data":%s}}`, id, -32000-int64(j), "boom "+m, v))
		}
	}
	for j, v := range vals {
		out = append(out, fmt.Sprintf(`{"jsonrpc":"2.0","method":%q,"params":%s}`, methods[j%len(methods)], v))
	}
	out = append(out, `{"jsonrpc":"2.0","id":1,"method":"m"}`, `{"jsonrpc":"2.0","method":"m"}`, `{"jsonrpc":"2.0","id":1,"error":{"code":-1,"message":""}}`)
	// wrongly-cased look-alike members next to the real ones (before and after them), for small and
	// for >= 2^53 ids: decoding is case-sensitive, so they never stand in for the real members
	for _, id := range []string{"1", `"1"`, "9007199254740993", "-9223372036854775808"} {
		for _, decoy := range []string{`"ID":7`, `"Id":"x"`, `"iD":9007199254740995`, `"METHOD":"evil"`, `"Method":"evil"`, `"Params":{"p":1}`, `"Result":5`, `"Error":{"code":1,"message":"x"}`} {
			d := decoy[:len(decoy)-0]
			mark := `"` + c19DecoyMark + `":0`
			out = append(out, fmt.Sprintf(`{"jsonrpc":"2.0","id":%s,"method":"m","params":{"a":1},%s,%s}`, id, d, mark))
			out = append(out, fmt.Sprintf(`{%s,%s,"jsonrpc":"2.0","id":%s,"method":"m","params":{"a":1}}`, d, mark, id))
			out = append(out, fmt.Sprintf(`{"jsonrpc":"2.0","id":%s,"result":{"r":1},%s,%s}`, id, d, mark))
		}
	}
	// large payloads: sizes around the usual reader buffer boundaries (4 KiB, 64 KiB) and beyond,
	// as one JSON string and as an array of many small members
	for _, n := range []int{4000, 4096, 4097, 65000, 65529, 65530, 65536, 65537, 70000, 300000, 1 << 20} {
		big := strings.Repeat("x", n)
		out = append(out, fmt.Sprintf(`{"jsonrpc":"2.0","method":"notifications/message","params":{"level":"info","data":"%s"}}`, big))
		out = append(out, fmt.Sprintf(`{"jsonrpc":"2.0","id":%d,"result":{"content":[{"type":"text","text":"%s"}]}}`, n, big))
	}
	return out
}

// c19ParseExact reads the members of a wire message by their exact (case-sensitive) names, which
// is how a JSON-RPC message is defined; encoding/json's struct decoding would also accept "ID" or
// "Method" and let a later case-variant key overwrite the real one.
func c19ParseExact(text []byte, w *c19Wire) error {
	var members map[string]json.RawMessage
	if err := json.Unmarshal(text, &members); err != nil {
		return err
	}
	w.ID, w.Params, w.Result = members["id"], members["params"], members["result"]
	if raw, ok := members["method"]; ok {
		var m string
		if err := json.Unmarshal(raw, &m); err != nil {
			return err
		}
		w.Method = &m
	}
	if raw, ok := members["error"]; ok {
		if err := json.Unmarshal(raw, &w.Error); err != nil {
			return err
		}
	}
	return nil
}

func c19CheckMessage(text string) (sig, msg string) {
	var orig c19Wire
	if err := c19ParseExact([]byte(text), &orig); err != nil {
		return "c19 harness", "bad generated message " + text
	}
	wire := []byte(text)
	m, err := jsonrpc2.DecodeMessage(wire)
	if err != nil {
		if strings.Contains(text, c19DecoyMark) {
			return "", "" // a message with additional, wrongly-cased members may be refused; it must not be misread
		}
		if orig.Method == nil && orig.Result != nil && string(orig.Result) == "null" {
			return "", "" // a response whose result is null carries neither result nor error: not well-formed
		}
		return "c19 decode-rejects-valid-message", fmt.Sprintf("DecodeMessage(%s): %v", text, err)
	}
	enc, err := jsonrpc2.EncodeMessage(m)
	if err != nil {
		return "c19 encode-failed", fmt.Sprintf("EncodeMessage after decoding %s: %v", text, err)
	}
	var back c19Wire
	if err := c19ParseExact(enc, &back); err != nil {
		return "c19 encode-garbage", fmt.Sprintf("EncodeMessage produced %q", enc)
	}
	// an encoded message is one line (newline-delimited framing: "messages MUST NOT contain embedded
	// newlines"), however the text it was decoded from was laid out
	if bytes.ContainsAny(enc, "\n\r") {
		return "c19 encoded-message-has-line-break", fmt.Sprintf("EncodeMessage after decoding %q produced %q", text, enc)
	}
	// a decoded message is a value of its own: what happens to the bytes it was decoded from afterwards
	// (a transport reading the next message into the same buffer) does not change it
	for i := range wire {
		wire[i] = '#'
	}
	if again, err := jsonrpc2.EncodeMessage(m); err != nil || !bytes.Equal(again, enc) {
		return "c19 decoded-message-aliases-its-input", fmt.Sprintf("the message decoded from %s encodes as %s, and as %s (%v) once the input buffer has been reused", text, enc, again, err)
	}
	idClass := func(s string) string {
		if strings.HasPrefix(s, `"`) {
			return "string"
		}
		return "number"
	}
	if (orig.ID == nil) != (back.ID == nil) {
		return "c19 id-presence-changed", fmt.Sprintf("%s re-encoded as %s", text, enc)
	}
	if orig.ID != nil {
		if idClass(string(orig.ID)) != idClass(string(back.ID)) {
			return "c19 id-type-changed", fmt.Sprintf("id %s re-encoded as %s (%s)", orig.ID, back.ID, text)
		}
		if !c19JSONEqual(orig.ID, back.ID) {
			return fmt.Sprintf("c19 id-value-changed %s", orig.ID), fmt.Sprintf("id %s re-encoded as %s", orig.ID, back.ID)
		}
	}
	if (orig.Method == nil) != (back.Method == nil) || (orig.Method != nil && *orig.Method != *back.Method) {
		return "c19 method-changed", fmt.Sprintf("%s re-encoded as %s", text, enc)
	}
	cmp := func(what string, a, b json.RawMessage) (string, string) {
		if len(a) == 0 && (len(b) == 0 || string(b) == "null") {
			return "", ""
		}
		if string(a) == "null" && len(b) == 0 {
			return "", "" // JSON null params/result/data may be dropped
		}
		if !c19JSONEqual(a, b) {
			return "c19 " + what + "-changed", fmt.Sprintf("%s %s re-encoded as %s (message %s)", what, a, b, text)
		}
		return "", ""
	}
	if s, mm := cmp("params", orig.Params, back.Params); s != "" {
		return s, mm
	}
	if s, mm := cmp("result", orig.Result, back.Result); s != "" {
		return s, mm
	}
	if (orig.Error == nil) != (back.Error == nil) {
		return "c19 error-presence-changed", fmt.Sprintf("%s re-encoded as %s", text, enc)
	}
	if orig.Error != nil {
		if orig.Error.Code != back.Error.Code || orig.Error.Message != back.Error.Message {
			return "c19 error-changed", fmt.Sprintf("%s re-encoded as %s", text, enc)
		}
		if s, mm := cmp("error.data", orig.Error.Data, back.Error.Data); s != "" {
			return s, mm
		}
	}
	// second round: decode(encode(x)) is a fixpoint
	m2, err := jsonrpc2.DecodeMessage(enc)
	if err != nil {
		return "c19 reencoded-message-rejected", fmt.Sprintf("%s -> %s: %v", text, enc, err)
	}
	enc2, _ := jsonrpc2.EncodeMessage(m2)
	if !bytes.Equal(enc, enc2) {
		return "c19 encode-decode-not-stable", fmt.Sprintf("%s -> %s -> %s", text, enc, enc2)
	}
	// (b) SSE framing
	rec := httptest.NewRecorder()
	if _, err := writeEvent(rec, Event{Name: "message", ID: "s_1", Data: enc}); err != nil {
		return "c19 sse-write-failed", err.Error()
	}
	n := 0
	for evt, err := range scanEvents(bytes.NewReader(rec.Body.Bytes())) {
		if err != nil {
			return "c19 sse-scan-error", fmt.Sprintf("payload %s: %v", enc, err)
		}
		n++
		if !bytes.Equal(evt.Data, enc) || evt.ID != "s_1" || evt.Name != "message" {
			return "c19 sse-framing-changed-payload", fmt.Sprintf("payload %q came back as %q (id %q name %q)", enc, evt.Data, evt.ID, evt.Name)
		}
	}
	if n != 1 {
		return "c19 sse-framing-event-count", fmt.Sprintf("payload %q came back as %d events", enc, n)
	}
	return "", ""
}

// c19Framing sends all messages through a pair of ioConns (newline-delimited framing).
func c19Framing(texts []string) (sig, msg string) {
	ct, st := NewInMemoryTransports()
	a, _ := ct.Connect(context.Background())
	b, _ := st.Connect(context.Background())
	defer a.Close()
	defer b.Close()
	var msgs []jsonrpc2.Message
	for _, t := range texts {
		if m, err := jsonrpc2.DecodeMessage([]byte(t)); err == nil {
			msgs = append(msgs, m)
		}
	}
	errc := make(chan error, 1)
	go func() {
		for _, m := range msgs {
			if err := a.Write(context.Background(), m); err != nil {
				errc <- err
				return
			}
		}
		errc <- nil
	}()
	for i, m := range msgs {
		got, err := b.Read(context.Background())
		if err != nil {
			return "c19 ndjson-read-error", fmt.Sprintf("message %d: %v", i, err)
		}
		w, _ := jsonrpc2.EncodeMessage(m)
		g, _ := jsonrpc2.EncodeMessage(got)
		if !bytes.Equal(w, g) {
			return "c19 ndjson-changed-message", fmt.Sprintf("sent %s, read %s", w, g)
		}
	}
	if err := <-errc; err != nil {
		return "c19 ndjson-write-error", err.Error()
	}
	return "", ""
}

// c19ChunkReader delivers a byte stream in the given chunks, one per Read.
type c19ChunkReader struct{ chunks [][]byte }

func (r *c19ChunkReader) Read(p []byte) (int, error) {
	for len(r.chunks) > 0 && len(r.chunks[0]) == 0 {
		r.chunks = r.chunks[1:]
	}
	if len(r.chunks) == 0 {
		return 0, io.EOF
	}
	n := copy(p, r.chunks[0])
	r.chunks[0] = r.chunks[0][n:]
	return n, nil
}
func (r *c19ChunkReader) Close() error { return nil }

type c19NopWriter struct{}

func (c19NopWriter) Write(p []byte) (int, error) { return len(p), nil }
func (c19NopWriter) Close() error                { return nil }

// c19Chunking: the newline-delimited reader sees a peer's byte stream in whatever pieces the
// operating system hands over.  A stream of four messages, lines ended by eol (the last line
// ended or not), is delivered cut into up to three pieces at every pair of offsets; every
// delivery must yield exactly the four messages, in order, then the end of the stream.
func c19Chunking(cases *verifx.Cases, thorough bool) {
	texts := []string{
		`{"jsonrpc":"2.0","id":1,"method":"ping"}`,
		`{"jsonrpc":"2.0","method":"notifications/initialized","params":{"a":"x\r\ny"}}`,
		`{"jsonrpc":"2.0","id":"s","result":{"content":[]}}`,
		`{"jsonrpc":"2.0","id":9007199254740993,"error":{"code":-32601,"message":"nope"}}`,
	}
	var want [][]byte
	for _, t := range texts {
		m, err := jsonrpc2.DecodeMessage([]byte(t))
		if err != nil {
			panic(err)
		}
		w, _ := jsonrpc2.EncodeMessage(m)
		want = append(want, w)
	}
	for _, eol := range []string{"\n", "\r\n"} {
		for _, lastEnded := range []bool{true, false} {
			stream := strings.Join(texts, eol)
			if lastEnded {
				stream += eol
			}
			for i := 0; i <= len(stream); i++ {
				for j := i; j <= len(stream); j++ {
					if !thorough && j != i && j != len(stream) && j-i > 2 {
						continue // quick: two pieces, or a middle piece of one or two bytes
					}
					idx, mine := cases.Next()
					if !mine {
						continue
					}
					desc := fmt.Sprintf("eol=%q last-line-ended=%v cut at %d and %d of %d bytes", eol, lastEnded, i, j, len(stream))
					rd := &c19ChunkReader{chunks: [][]byte{[]byte(stream[:i]), []byte(stream[i:j]), []byte(stream[j:])}}
					conn, _ := (&IOTransport{Reader: rd, Writer: c19NopWriter{}}).Connect(context.Background())
					bad := ""
					for k := 0; k <= len(want) && bad == ""; k++ {
						got, err := conn.Read(context.Background())
						switch {
						case k == len(want):
							if err == nil {
								g, _ := jsonrpc2.EncodeMessage(got)
								bad = fmt.Sprintf("a fifth message %s was read from a stream of four", g)
							} else if !errors.Is(err, io.EOF) {
								bad = fmt.Sprintf("after the four messages the stream ended with %v, want EOF", err)
							}
						case err != nil:
							bad = fmt.Sprintf("message %d of 4: %v", k+1, err)
						default:
							if g, _ := jsonrpc2.EncodeMessage(got); !bytes.Equal(g, want[k]) {
								bad = fmt.Sprintf("message %d of 4 read as %s, sent %s", k+1, g, want[k])
							}
						}
					}
					conn.Close()
					if bad != "" {
						cases.Violate(idx, fmt.Sprintf("c19 ndjson-chunking eol=%q", eol), bad+" ["+desc+"]", 3)
						continue
					}
					cases.Record(idx, fmt.Sprintf("chunking eol=%q ended=%v ok", eol, lastEnded), 3, func() string { return desc })
				}
			}
		}
	}
}

// c19ChunkingLarge: the same reader with one of the four messages made large (beyond the 64 KiB the
// decoder starts with; beyond 1 MiB; several MiB), so that the reader's buffer has grown - and holds
// read-ahead of the following messages - when the large message is handed over.  The stream arrives in
// one piece, or cut at the end of the large message, inside the message after it, or one byte early.
func c19ChunkingLarge(cases *verifx.Cases) {
	for _, size := range []int{70 << 10, 1<<20 + 10, 5 << 19} {
		pad := strings.Repeat("x", size)
		for big := 0; big < 4; big++ {
			texts := []string{
				`{"jsonrpc":"2.0","id":1,"method":"ping"}`,
				`{"jsonrpc":"2.0","method":"notifications/initialized","params":{"a":"x\r\ny"}}`,
				`{"jsonrpc":"2.0","id":"s","result":{"content":[]}}`,
				`{"jsonrpc":"2.0","id":9007199254740993,"error":{"code":-32601,"message":"nope"}}`,
			}
			switch big {
			case 0:
				texts[0] = `{"jsonrpc":"2.0","id":1,"method":"ping","params":{"pad":"` + pad + `"}}`
			case 1:
				texts[1] = `{"jsonrpc":"2.0","method":"notifications/initialized","params":{"a":"` + pad + `"}}`
			case 2:
				texts[2] = `{"jsonrpc":"2.0","id":"s","result":{"content":[{"type":"text","text":"` + pad + `"}]}}`
			case 3:
				texts[3] = `{"jsonrpc":"2.0","id":9007199254740993,"error":{"code":-32601,"message":"nope","data":"` + pad + `"}}`
			}
			var want [][]byte
			for _, t := range texts {
				m, err := jsonrpc2.DecodeMessage([]byte(t))
				if err != nil {
					panic(err)
				}
				w, _ := jsonrpc2.EncodeMessage(m)
				want = append(want, w)
			}
			for _, eol := range []string{"\n", "\r\n"} {
				stream := strings.Join(texts, eol) + eol
				end := 0 // offset just behind the large message's line end
				for k := 0; k <= big; k++ {
					end += len(texts[k]) + len(eol)
				}
				for _, cut := range []int{len(stream), end, min(end+7, len(stream)), end - 1, end - len(eol)} {
					idx, mine := cases.Next()
					if !mine {
						continue
					}
					desc := fmt.Sprintf("message %d of 4 is %d bytes long, eol=%q, stream of %d bytes cut at %d (the large message ends at %d)", big+1, len(texts[big]), eol, len(stream), cut, end)
					rd := &c19ChunkReader{chunks: [][]byte{[]byte(stream[:cut]), []byte(stream[cut:])}}
					conn, _ := (&IOTransport{Reader: rd, Writer: c19NopWriter{}}).Connect(context.Background())
					bad := ""
					for k := 0; k <= len(want) && bad == ""; k++ {
						got, err := conn.Read(context.Background())
						switch {
						case k == len(want):
							if err == nil {
								bad = "a fifth message was read from a stream of four"
							} else if !errors.Is(err, io.EOF) {
								bad = fmt.Sprintf("after the four messages the stream ended with %v, want EOF", err)
							}
						case err != nil:
							bad = fmt.Sprintf("message %d of 4: %v", k+1, err)
						default:
							if g, _ := jsonrpc2.EncodeMessage(got); !bytes.Equal(g, want[k]) {
								bad = fmt.Sprintf("message %d of 4 read as %.80s..., sent %.80s...", k+1, g, want[k])
							}
						}
					}
					conn.Close()
					if bad != "" {
						cases.Violate(idx, fmt.Sprintf("c19 ndjson-chunking-large eol=%q", eol), bad+" ["+desc+"]", 3)
						continue
					}
					cases.Record(idx, fmt.Sprintf("large message %d eol=%q ok", big+1, eol), 3, func() string { return desc })
				}
			}
		}
	}
}

// c19HoldBody delivers the given pieces, one per Read, and then stays open (silent) until closed,
// like the body of a hanging GET.
type c19HoldBody struct {
	chunks [][]byte
	closed chan struct{}
	once   sync.Once
}

func (b *c19HoldBody) Read(p []byte) (int, error) {
	for len(b.chunks) > 0 && len(b.chunks[0]) == 0 {
		b.chunks = b.chunks[1:]
	}
	if len(b.chunks) == 0 {
		<-b.closed
		return 0, errors.New("body closed")
	}
	n := copy(p, b.chunks[0])
	b.chunks[0] = b.chunks[0][n:]
	return n, nil
}

func (b *c19HoldBody) Close() error {
	b.once.Do(func() { close(b.closed) })
	return nil
}

// c19SSEClientChunking: the same for the client side of the HTTP+SSE transport.  The event stream
// of the hanging GET -- the endpoint event followed by three messages -- arrives cut into up to
// three pieces at every pair of offsets (the server may have flushed messages together with the
// endpoint event, or a proxy may have coalesced them); every delivery must hand the client exactly
// the three messages, in order.
func c19SSEClientChunking(t *testing.T, cases *verifx.Cases, thorough bool) {
	texts := []string{
		`{"jsonrpc":"2.0","id":1,"method":"ping"}`,
		`{"jsonrpc":"2.0","method":"notifications/message","params":{"level":"info","data":"a\r\nb"}}`,
		`{"jsonrpc":"2.0","id":9007199254740993,"method":"roots/list"}`,
	}
	var want [][]byte
	for _, tx := range texts {
		m, err := jsonrpc2.DecodeMessage([]byte(tx))
		if err != nil {
			panic(err)
		}
		w, _ := jsonrpc2.EncodeMessage(m)
		want = append(want, w)
	}
	// naming: a server may leave out the "event: message" line - an event without a name is a message
	// event by the SSE specification - for all messages, or for some
	for _, ec := range []struct{ eol, naming string }{{"\n", "named"}, {"\r\n", "named"}, {"\n", "unnamed"}, {"\r\n", "unnamed"}, {"\n", "mixed"}} {
		eol := ec.eol
		stream := "event: endpoint" + eol + "data: /messages?sessionid=1" + eol + eol
		for i, tx := range texts {
			if ec.naming == "named" || (ec.naming == "mixed" && i == 0) {
				stream += "event: message" + eol
			}
			stream += fmt.Sprintf("id: %d", i) + eol + "data: " + tx + eol + eol
		}
		for i := 0; i <= len(stream); i++ {
			for j := i; j <= len(stream); j++ {
				if !thorough && j != i && j != len(stream) && j-i > 2 {
					continue
				}
				if ec.naming != "named" && j != i {
					continue // the other spellings: two pieces, cut at every offset
				}
				idx, mine := cases.Next()
				if !mine {
					continue
				}
				desc := fmt.Sprintf("eol=%q message events %s, cut at %d and %d of %d bytes", eol, ec.naming, i, j, len(stream))
				bad := ""
				func() {
					defer func() {
						if r := recover(); r != nil {
							bad = fmt.Sprintf("panic / bubble failure: %v", r)
						}
					}()
					synctest.Test(t, func(t *testing.T) {
						body := &c19HoldBody{chunks: [][]byte{[]byte(stream[:i]), []byte(stream[i:j]), []byte(stream[j:])}, closed: make(chan struct{})}
						hx := &hxTransport{Intercept: func(req *http.Request, n int) (*http.Response, error) {
							h := http.Header{}
							h.Set("Content-Type", "text/event-stream")
							return &http.Response{StatusCode: 200, Status: "200 OK", Header: h, Body: body, Proto: "HTTP/1.1", ProtoMajor: 1, ProtoMinor: 1}, nil
						}}
						ctx, cancel := context.WithTimeout(context.Background(), time.Minute)
						defer cancel()
						conn, err := (&SSEClientTransport{Endpoint: "http://peer.test/sse", HTTPClient: hx.client()}).Connect(ctx)
						if err != nil {
							bad = fmt.Sprintf("Connect: %v", err)
							return
						}
						defer conn.Close()
						for k := range want {
							rctx, rcancel := context.WithTimeout(ctx, time.Second)
							got, err := conn.Read(rctx)
							rcancel()
							if err != nil {
								bad = fmt.Sprintf("message %d of 3 never arrived (%v): it was on the stream the server sent", k+1, err)
								return
							}
							if g, _ := jsonrpc2.EncodeMessage(got); !bytes.Equal(g, want[k]) {
								bad = fmt.Sprintf("message %d of 3 read as %s, sent %s", k+1, g, want[k])
								return
							}
						}
					})
				}()
				if bad != "" {
					cases.Violate(idx, fmt.Sprintf("c19 sse-client-chunking eol=%q %s", eol, ec.naming), bad+" ["+desc+"]", 3)
					continue
				}
				cases.Record(idx, fmt.Sprintf("sse client chunking eol=%q ok", eol), 3, func() string { return desc })
			}
		}
	}
}

// ---- (c) content kinds

func c19Contents() []Content {
	meta := Meta{"k": "v", "n": float64(1)}
	ann := &Annotations{Audience: []Role{"user"}, Priority: 0.5}
	size := int64(7)
	base := []Content{
		&TextContent{Text: ""},
		&TextContent{Text: "héllo\n", Meta: meta, Annotations: ann},
		&ImageContent{Data: []byte{}, MIMEType: ""},
		&ImageContent{Data: []byte{0, 1, 2, 255}, MIMEType: "image/png", Meta: meta},
		&AudioContent{Data: []byte("a"), MIMEType: "audio/wav", Annotations: ann},
		&ResourceLink{URI: "file:///x", Name: "x"},
		&ResourceLink{URI: "file:///y", Name: "y", Title: "T", Description: "D", MIMEType: "text/plain", Size: &size, Meta: meta, Annotations: ann},
		&EmbeddedResource{Resource: &ResourceContents{URI: "file:///r", Text: "t"}},
		&EmbeddedResource{Resource: &ResourceContents{URI: "file:///b", MIMEType: "application/octet-stream", Blob: []byte{9}, Meta: meta}, Meta: meta},
	}
	return base
}

// c19Render renders a value canonically with the harness's own reflection walk (not with the
// code under test): nil and empty slices/maps are equal, pointers are followed.
func c19Render(v reflect.Value) string {
	if !v.IsValid() {
		return "nil"
	}
	switch v.Kind() {
	case reflect.Pointer, reflect.Interface:
		if v.IsNil() {
			return "nil"
		}
		if v.Kind() == reflect.Interface {
			return v.Elem().Type().String() + ":" + c19Render(v.Elem())
		}
		return c19Render(v.Elem())
	case reflect.Struct:
		var b strings.Builder
		b.WriteString(v.Type().Name() + "{")
		for i := 0; i < v.NumField(); i++ {
			if !v.Type().Field(i).IsExported() {
				continue
			}
			b.WriteString(v.Type().Field(i).Name + "=" + c19Render(v.Field(i)) + ";")
		}
		return b.String() + "}"
	case reflect.Slice, reflect.Array:
		if v.Kind() == reflect.Slice && v.Type().Elem().Kind() == reflect.Uint8 {
			return fmt.Sprintf("bytes(%x)", v.Bytes())
		}
		var b strings.Builder
		b.WriteString("[")
		for i := 0; i < v.Len(); i++ {
			b.WriteString(c19Render(v.Index(i)) + ",")
		}
		return b.String() + "]"
	case reflect.Map:
		var keys []string
		m := map[string]string{}
		for _, k := range v.MapKeys() {
			ks := fmt.Sprint(k.Interface())
			keys = append(keys, ks)
			m[ks] = c19Render(v.MapIndex(k))
		}
		sort.Strings(keys)
		var b strings.Builder
		b.WriteString("map{")
		for _, k := range keys {
			b.WriteString(k + ":" + m[k] + ",")
		}
		return b.String() + "}"
	}
	return fmt.Sprintf("%v", v.Interface())
}

func c19ContentEqual(a, b Content) bool {
	return reflect.TypeOf(a) == reflect.TypeOf(b) && c19Render(reflect.ValueOf(a)) == c19Render(reflect.ValueOf(b))
}

func c19CheckContents(cases *verifx.Cases) {
	base := c19Contents()
	check := func(name string, c Content) {
		idx, mine := cases.Next()
		if !mine {
			return
		}
		// through CallToolResult (content array)
		res := &CallToolResult{Content: []Content{c}}
		data, err := json.Marshal(res)
		if err != nil {
			cases.Violate(idx, "c19 content-marshal-failed "+name, err.Error(), 1)
			return
		}
		var back CallToolResult
		wire := bytes.Clone(data)
		if err := json.Unmarshal(wire, &back); err != nil {
			cases.Violate(idx, "c19 content-unmarshal-failed "+name, fmt.Sprintf("%s: %v", data, err), 1)
			return
		}
		for i := range wire {
			wire[i] = '#' // the decoded value must not point into the bytes it was decoded from
		}
		if len(back.Content) != 1 || !c19ContentEqual(c, back.Content[0]) {
			got, _ := json.Marshal(back.Content)
			cases.Violate(idx, "c19 content-roundtrip-changed "+name, fmt.Sprintf("%s came back as %s", data, got), 1)
			return
		}
		cases.Record(idx, "content-roundtrip "+reflect.TypeOf(c).Elem().Name(), 1, func() string { return name + " " + string(data) })
	}
	for i, c := range base {
		check(fmt.Sprintf("plain#%d", i), c)
	}
	// tool_use / tool_result only occur in sampling messages: go through CreateMessageWithToolsResult
	checkSampling := func(name string, c Content) {
		idx, mine := cases.Next()
		if !mine {
			return
		}
		// tool_use occurs in assistant messages, tool_result in user messages: use a sampling message
		res := &SamplingMessageV2{Role: "user", Content: []Content{c}}
		data, err := json.Marshal(res)
		if err != nil {
			cases.Violate(idx, "c19 content-marshal-failed "+name, err.Error(), 1)
			return
		}
		var back SamplingMessageV2
		wire := bytes.Clone(data)
		if err := json.Unmarshal(wire, &back); err != nil {
			cases.Violate(idx, "c19 content-unmarshal-failed "+name, fmt.Sprintf("%s: %v", data, err), 1)
			return
		}
		for i := range wire {
			wire[i] = '#'
		}
		if len(back.Content) != 1 || !c19ContentEqual(c, back.Content[0]) {
			got, _ := json.Marshal(back.Content)
			cases.Violate(idx, "c19 content-roundtrip-changed "+name, fmt.Sprintf("%s came back as %s", data, got), 1)
			return
		}
		// required members of a tool_result: content array present and non-null,
		// and the required members of every nested block
		if trc, ok := c.(*ToolResultContent); ok {
			var w struct {
				Content struct {
					Content []map[string]any `json:"content"`
				} `json:"content"`
			}
			if json.Unmarshal(data, &w) != nil || w.Content.Content == nil {
				cases.Violate(idx, "c19 tool-result-content-missing", fmt.Sprintf("%s", data), 1)
				return
			}
			for i, blk := range w.Content.Content {
				var need []string
				switch trc.Content[i].(type) {
				case *TextContent:
					need = []string{"text"}
				case *ImageContent, *AudioContent:
					need = []string{"data", "mimeType"}
				}
				for _, k := range need {
					if v, ok := blk[k]; !ok || v == nil {
						cases.Violate(idx, "c19 nested-required-member-missing "+k, fmt.Sprintf("nested block %d of a tool_result lacks the required member %q: %s", i, k, data), 1)
						return
					}
				}
			}
		}
		cases.Record(idx, "sampling-content-roundtrip "+reflect.TypeOf(c).Elem().Name(), 1, func() string { return name + " " + string(data) })
	}
	meta := Meta{"m": "1"}
	checkSampling("tool_use empty", &ToolUseContent{ID: "", Name: "t"})
	checkSampling("tool_use", &ToolUseContent{ID: "u1", Name: "t", Input: map[string]any{"a": float64(1), "b": []any{"x"}}, Meta: meta})
	checkSampling("tool_result empty", &ToolResultContent{ToolUseID: "u1"})
	checkSampling("tool_result structured", &ToolResultContent{ToolUseID: "u1", StructuredContent: map[string]any{"k": []any{float64(1)}}, IsError: true, Meta: meta})
	// nested content: every ordered pair and a triple of mixed shapes
	for i, a := range base {
		for j, b := range base {
			checkSampling(fmt.Sprintf("tool_result nested [%d,%d]", i, j), &ToolResultContent{ToolUseID: "u", Content: []Content{a, b}})
		}
	}
	checkSampling("tool_result nested triple", &ToolResultContent{ToolUseID: "u", Content: []Content{base[6], base[0], base[3]}, Meta: meta})
}

// ---- (c') required members on the wire, end to end

type c19Tap struct{ lines []string }

func (t *c19Tap) Write(p []byte) (int, error) {
	t.lines = append(t.lines, string(p))
	return len(p), nil
}

func c19WireRequired(cases *verifx.Cases) {
	ctx := context.Background()
	tap := &c19Tap{}
	s := NewServer(&Implementation{Name: "srv", Version: "1"}, &ServerOptions{Logger: quietLogger,
		CompletionHandler: func(context.Context, *CompleteRequest) (*CompleteResult, error) { return &CompleteResult{}, nil }})
	s.AddTool(&Tool{Name: "nil-content", InputSchema: map[string]any{"type": "object"}}, func(context.Context, *CallToolRequest) (*CallToolResult, error) {
		return &CallToolResult{}, nil
	})
	s.AddTool(&Tool{Name: "zero-blocks", InputSchema: map[string]any{"type": "object"}}, func(context.Context, *CallToolRequest) (*CallToolResult, error) {
		return &CallToolResult{Content: []Content{&TextContent{}, &ImageContent{}, &AudioContent{}}}, nil
	})
	s.AddPrompt(&Prompt{Name: "p"}, func(context.Context, *GetPromptRequest) (*GetPromptResult, error) { return &GetPromptResult{}, nil })
	s.AddResource(&Resource{URI: "file:///r", Name: "r"}, func(context.Context, *ReadResourceRequest) (*ReadResourceResult, error) {
		return &ReadResourceResult{Contents: []*ResourceContents{}}, nil
	})
	s.AddResource(&Resource{URI: "file:///empty.txt", Name: "e", MIMEType: "text/plain"}, func(context.Context, *ReadResourceRequest) (*ReadResourceResult, error) {
		return &ReadResourceResult{Contents: []*ResourceContents{{URI: "file:///empty.txt", MIMEType: "text/plain", Text: ""}}}, nil
	})
	s.AddTool(&Tool{Name: "embeds-empty-file", InputSchema: map[string]any{"type": "object"}}, func(context.Context, *CallToolRequest) (*CallToolResult, error) {
		return &CallToolResult{Content: []Content{&EmbeddedResource{Resource: &ResourceContents{URI: "file:///empty.txt", MIMEType: "text/plain"}}}}, nil
	})
	empty := NewServer(&Implementation{Name: "empty", Version: "1"}, &ServerOptions{Logger: quietLogger, HasTools: true, HasPrompts: true, HasResources: true})
	type probe struct {
		name  string
		srv   *Server
		call  func(cs *ClientSession) error
		paths [][]string // JSON paths (in the result) that must be present and non-null arrays/strings
	}
	probes := []probe{
		{"tools/list empty", empty, func(cs *ClientSession) error { _, err := cs.ListTools(ctx, nil); return err }, [][]string{{"tools"}}},
		{"prompts/list empty", empty, func(cs *ClientSession) error { _, err := cs.ListPrompts(ctx, nil); return err }, [][]string{{"prompts"}}},
		{"resources/list empty", empty, func(cs *ClientSession) error { _, err := cs.ListResources(ctx, nil); return err }, [][]string{{"resources"}}},
		{"resources/templates/list empty", empty, func(cs *ClientSession) error { _, err := cs.ListResourceTemplates(ctx, nil); return err }, [][]string{{"resourceTemplates"}}},
		{"tools/call nil content", s, func(cs *ClientSession) error {
			_, err := cs.CallTool(ctx, &CallToolParams{Name: "nil-content"})
			return err
		}, [][]string{{"content"}}},
		{"tools/call zero blocks", s, func(cs *ClientSession) error {
			_, err := cs.CallTool(ctx, &CallToolParams{Name: "zero-blocks"})
			return err
		}, [][]string{{"content"}, {"content", "0", "text"}, {"content", "1", "data"}, {"content", "1", "mimeType"}, {"content", "2", "data"}, {"content", "2", "mimeType"}}},
		{"prompts/get nil messages", s, func(cs *ClientSession) error { _, err := cs.GetPrompt(ctx, &GetPromptParams{Name: "p"}); return err }, [][]string{{"messages"}}},
		{"resources/read nil contents", s, func(cs *ClientSession) error {
			_, err := cs.ReadResource(ctx, &ReadResourceParams{URI: "file:///r"})
			return err
		}, [][]string{{"contents"}}},
		// a text resource that is empty (an empty file): "text" is what makes it a text resource
		{"resources/read empty text resource", s, func(cs *ClientSession) error {
			_, err := cs.ReadResource(ctx, &ReadResourceParams{URI: "file:///empty.txt"})
			return err
		}, [][]string{{"contents", "0", "text"}}},
		{"tools/call embedded empty text resource", s, func(cs *ClientSession) error {
			_, err := cs.CallTool(ctx, &CallToolParams{Name: "embeds-empty-file"})
			return err
		}, [][]string{{"content", "0", "resource", "text"}}},
		{"completion/complete nil values", s, func(cs *ClientSession) error {
			_, err := cs.Complete(ctx, &CompleteParams{Ref: &CompleteReference{Type: "ref/prompt", Name: "p"}, Argument: CompleteParamsArgument{Name: "a", Value: "v"}})
			return err
		}, [][]string{{"completion", "values"}}},
	}
	// a page that turns out empty: the cursor of the first page (page size 1, items a and b) is followed after
	// b has been removed - the list member is still an array
	noopTool := func(context.Context, *CallToolRequest) (*CallToolResult, error) { return &CallToolResult{}, nil }
	noopPrompt := func(context.Context, *GetPromptRequest) (*GetPromptResult, error) { return &GetPromptResult{}, nil }
	noopRead := func(context.Context, *ReadResourceRequest) (*ReadResourceResult, error) { return &ReadResourceResult{}, nil }
	mkPaged := func() *Server {
		ps := NewServer(&Implementation{Name: "paged", Version: "1"}, &ServerOptions{Logger: quietLogger, PageSize: 1})
		for _, n := range []string{"a", "b"} {
			ps.AddTool(&Tool{Name: n, InputSchema: map[string]any{"type": "object"}}, noopTool)
			ps.AddPrompt(&Prompt{Name: n}, noopPrompt)
			ps.AddResource(&Resource{URI: "file:///" + n, Name: n}, noopRead)
			ps.AddResourceTemplate(&ResourceTemplate{URITemplate: "file:///" + n + "/{x}", Name: n}, noopRead)
		}
		return ps
	}
	pt, pp, pr, ptm := mkPaged(), mkPaged(), mkPaged(), mkPaged()
	probes = append(probes,
		probe{"tools/list page behind a stale cursor", pt, func(cs *ClientSession) error {
			r, err := cs.ListTools(ctx, nil)
			if err != nil {
				return err
			}
			pt.RemoveTools("b")
			_, err = cs.ListTools(ctx, &ListToolsParams{Cursor: r.NextCursor})
			return err
		}, [][]string{{"tools"}}},
		probe{"prompts/list page behind a stale cursor", pp, func(cs *ClientSession) error {
			r, err := cs.ListPrompts(ctx, nil)
			if err != nil {
				return err
			}
			pp.RemovePrompts("b")
			_, err = cs.ListPrompts(ctx, &ListPromptsParams{Cursor: r.NextCursor})
			return err
		}, [][]string{{"prompts"}}},
		probe{"resources/list page behind a stale cursor", pr, func(cs *ClientSession) error {
			r, err := cs.ListResources(ctx, nil)
			if err != nil {
				return err
			}
			pr.RemoveResources("file:///b")
			_, err = cs.ListResources(ctx, &ListResourcesParams{Cursor: r.NextCursor})
			return err
		}, [][]string{{"resources"}}},
		probe{"resources/templates/list page behind a stale cursor", ptm, func(cs *ClientSession) error {
			r, err := cs.ListResourceTemplates(ctx, nil)
			if err != nil {
				return err
			}
			ptm.RemoveResourceTemplates("file:///b/{x}")
			_, err = cs.ListResourceTemplates(ctx, &ListResourceTemplatesParams{Cursor: r.NextCursor})
			return err
		}, [][]string{{"resourceTemplates"}}},
	)
	for _, p := range probes {
		idx, mine := cases.Next()
		if !mine {
			continue
		}
		tap.lines = nil
		ct, st := NewInMemoryTransports()
		ss, err := p.srv.Connect(ctx, &LoggingTransport{Transport: st, Writer: tap}, nil)
		if err != nil {
			cases.Violate(idx, "c19 wire-probe-connect", err.Error(), 1)
			continue
		}
		c := NewClient(&Implementation{Name: "cli", Version: "1"}, &ClientOptions{Logger: quietLogger})
		cs, err := c.Connect(ctx, ct, &ClientSessionOptions{ProtocolVersion: "2025-06-18"})
		if err != nil {
			cases.Violate(idx, "c19 wire-probe-connect", err.Error(), 1)
			continue
		}
		n := len(tap.lines)
		callErr := p.call(cs)
		cs.Close()
		ss.Wait()
		// the last response the server wrote
		var result map[string]any
		raw := ""
		for _, l := range tap.lines[n:] {
			if i := strings.Index(l, "{"); i >= 0 && strings.HasPrefix(l, "write:") {
				var w struct {
					Result map[string]any `json:"result"`
				}
				if json.Unmarshal([]byte(l[i:]), &w) == nil && w.Result != nil {
					result, raw = w.Result, l[i:]
				}
			}
		}
		if result == nil {
			cases.Violate(idx, "c19 wire-probe-no-result "+p.name, fmt.Sprintf("no result on the wire (call error %v): %v", callErr, tap.lines[n:]), 1)
			continue
		}
		bad := ""
		for _, path := range p.paths {
			var cur any = result
			for _, k := range path {
				switch t := cur.(type) {
				case map[string]any:
					v, ok := t[k]
					if !ok {
						bad = "member " + strings.Join(path, ".") + " is missing"
					}
					cur = v
				case []any:
					var i int
					fmt.Sscanf(k, "%d", &i)
					if i < len(t) {
						cur = t[i]
					} else {
						bad = "member " + strings.Join(path, ".") + " is missing"
					}
				default:
					bad = "member " + strings.Join(path, ".") + " is missing"
				}
				if bad != "" {
					break
				}
			}
			if bad == "" && cur == nil {
				bad = "member " + strings.Join(path, ".") + " is null"
			}
			if bad != "" {
				break
			}
		}
		if bad != "" {
			cases.Violate(idx, "c19 required-member "+p.name, fmt.Sprintf("%s in %s", bad, strings.TrimSpace(raw)), 1)
			continue
		}
		cases.Record(idx, "required-members-present", 1, func() string { return p.name + " " + strings.TrimSpace(raw) })
	}
}

// ---- (d) case sensitivity

func c19CaseSensitivity(cases *verifx.Cases) {
	flip := func(s string, i int) string {
		b := []byte(s)
		if b[i] >= 'a' && b[i] <= 'z' {
			b[i] -= 32
		} else if b[i] >= 'A' && b[i] <= 'Z' {
			b[i] += 32
		} else {
			return ""
		}
		return string(b)
	}
	base := map[string]string{"jsonrpc": `"2.0"`, "id": `1`, "method": `"m"`, "params": `{"a":1}`}
	order := []string{"jsonrpc", "id", "method", "params"}
	for _, field := range order {
		for i := range field {
			f2 := flip(field, i)
			if f2 == "" {
				continue
			}
			idx, mine := cases.Next()
			if !mine {
				continue
			}
			var parts []string
			for _, k := range order {
				name := k
				if k == field {
					name = f2
				}
				parts = append(parts, fmt.Sprintf("%q:%s", name, base[k]))
			}
			text := "{" + strings.Join(parts, ",") + "}"
			m, err := jsonrpc2.DecodeMessage([]byte(text))
			accepted := false
			if err == nil {
				if r, ok := m.(*jsonrpc2.Request); ok {
					switch field {
					case "jsonrpc":
						accepted = true // the version tag was recognised through a wrongly-cased key
					case "id":
						accepted = r.ID.IsValid()
					case "method":
						accepted = r.Method == "m"
					case "params":
						accepted = len(r.Params) > 0
					}
				} else {
					accepted = field == "jsonrpc" || field == "id"
				}
			}
			if accepted {
				cases.Violate(idx, "c19 case-insensitive-decoding "+field, fmt.Sprintf("%s: member %q was accepted as %q", text, f2, field), 1)
				continue
			}
			cases.Record(idx, "wrong-case-member-not-accepted", 1, func() string { return text })
		}
	}
	// protocol types: a wrongly-cased member must not populate the field
	for _, tc := range []struct{ text, what string }{
		{`{"content":[{"type":"text","Text":"x"}]}`, "TextContent.text"},
		{`{"Content":[{"type":"text","text":"x"}]}`, "CallToolResult.content"},
		{`{"content":[],"IsError":true}`, "CallToolResult.isError"},
		{`{"content":[{"Type":"text","text":"x"}]}`, "content.type"},
		{`{"content":[],"inputRequests":{"k":{"METHOD":"roots/list","params":{}}}}`, "inputRequests.method"},
		{`{"content":[],"inputRequests":{"k":{"method":"elicitation/create","params":{"MESSAGE":"hi","message":""}}}}`, "inputRequests.params.message"},
	} {
		idx, mine := cases.Next()
		if !mine {
			continue
		}
		var r CallToolResult
		err := json.Unmarshal([]byte(tc.text), &r)
		leaked := false
		if err == nil {
			switch tc.what {
			case "TextContent.text":
				leaked = len(r.Content) == 1 && r.Content[0].(*TextContent).Text == "x"
			case "CallToolResult.content":
				leaked = len(r.Content) == 1
			case "CallToolResult.isError":
				leaked = r.IsError
			case "content.type":
				leaked = len(r.Content) == 1
			case "inputRequests.method":
				leaked = len(r.InputRequests) == 1
			case "inputRequests.params.message":
				if p, ok := r.InputRequests["k"].(*ElicitParams); ok {
					leaked = p.Message == "hi"
				}
			}
		}
		if leaked {
			cases.Violate(idx, "c19 case-insensitive-decoding "+tc.what, fmt.Sprintf("%s populated %s", tc.text, tc.what), 1)
			continue
		}
		cases.Record(idx, "wrong-case-member-not-accepted", 1, func() string { return tc.text })
	}
	// results as a client session decodes them: a raw peer answers tools/list, prompts/list and
	// resources/read with wrongly-cased members next to (or instead of) the real ones
	for _, tc := range []struct{ method, result, what string }{
		{"tools/list", `{"TOOLS":[{"name":"x","inputSchema":{"type":"object"}}]}`, "ListToolsResult.tools"},
		{"tools/list", `{"tools":[],"NextCursor":"c"}`, "ListToolsResult.nextCursor"},
		{"tools/list", `{"tools":[{"NAME":"x","name":"y","inputSchema":{"type":"object"}}]}`, "Tool.name"},
		{"prompts/list", `{"Prompts":[{"name":"p"}]}`, "ListPromptsResult.prompts"},
		{"resources/read", `{"CONTENTS":[{"uri":"file:///r","text":"x"}],"contents":[]}`, "ReadResourceResult.contents"},
		{"tools/call", `{"content":[],"inputRequests":{"k":{"METHOD":"roots/list","params":{}}}}`, "inputRequests.method"},
	} {
		idx, mine := cases.Next()
		if !mine {
			continue
		}
		ct, st := NewInMemoryTransports()
		peer := st.rwc
		go func() {
			sc := bufio.NewScanner(peer)
			sc.Buffer(make([]byte, 1<<20), 1<<20)
			for sc.Scan() {
				var m struct {
					ID     json.RawMessage `json:"id"`
					Method string          `json:"method"`
				}
				if json.Unmarshal(sc.Bytes(), &m) != nil || len(m.ID) == 0 {
					continue
				}
				res := tc.result
				if m.Method == "initialize" {
					res = `{"protocolVersion":"2025-06-18","capabilities":{"tools":{},"prompts":{},"resources":{}},"serverInfo":{"name":"peer","version":"1"}}`
				}
				io.WriteString(peer, `{"jsonrpc":"2.0","id":`+string(m.ID)+`,"result":`+res+"}\n")
			}
		}()
		ctx := context.Background()
		c := NewClient(&Implementation{Name: "cli", Version: "1"}, &ClientOptions{Logger: quietLogger})
		cs, err := c.Connect(ctx, ct, &ClientSessionOptions{ProtocolVersion: "2025-06-18"})
		if err != nil {
			cases.Violate(idx, "c19 case-sensitivity setup", err.Error(), 1)
			continue
		}
		leaked := ""
		switch tc.method {
		case "tools/list":
			r, err := cs.ListTools(ctx, nil)
			if err == nil && (len(r.Tools) > 0 && tc.what != "Tool.name" || r.NextCursor != "" || tc.what == "Tool.name" && len(r.Tools) == 1 && r.Tools[0].Name != "y") {
				leaked = fmt.Sprintf("%+v", r)
			}
		case "prompts/list":
			r, err := cs.ListPrompts(ctx, nil)
			if err == nil && len(r.Prompts) > 0 {
				leaked = fmt.Sprintf("%d prompts", len(r.Prompts))
			}
		case "resources/read":
			r, err := cs.ReadResource(ctx, &ReadResourceParams{URI: "file:///r"})
			if err == nil && len(r.Contents) > 0 {
				leaked = fmt.Sprintf("%d contents", len(r.Contents))
			}
		case "tools/call":
			r, err := cs.CallTool(ctx, &CallToolParams{Name: "t"})
			if err == nil && len(r.InputRequests) > 0 {
				leaked = fmt.Sprintf("%d input requests", len(r.InputRequests))
			}
		}
		peer.Close()
		cs.Close()
		if leaked != "" {
			cases.Violate(idx, "c19 case-insensitive-decoding "+tc.what, fmt.Sprintf("a %s result %s was decoded by the client session as if the wrongly-cased member were %s: %s", tc.method, tc.result, tc.what, leaked), 1)
			continue
		}
		cases.Record(idx, "wrong-case-member-not-accepted", 1, func() string { return tc.method + " " + tc.result })
	}
}

// ---- (e) arbitrary bytes

// c19StructuredDecode: JSON documents built from the member names of the protocol's own types and a
// small alphabet of values (null, empty and nested containers, wrong-typed scalars), one or two
// members per object, decoded into every result/params/content type that has decoding code of its
// own: whatever a peer sends, decoding returns a value or an error - it never panics.
func c19StructuredDecode(cases *verifx.Cases) {
	names := []string{"content", "structuredContent", "isError", "inputRequests", "inputResponses", "requestState", "resultType", "messages", "contents", "_meta",
		"tools", "prompts", "resources", "resourceTemplates", "roots", "nextCursor", "completion", "values", "type", "text", "data", "resource", "uri", "toolUseId", "input", "method", "params", "result", "role", "model", "action", "ttlMs"}
	values := []string{`null`, `{}`, `[]`, `""`, `0`, `true`, `"x"`, `[null]`, `[{}]`, `[[]]`, `{"k":null}`, `{"k":{}}`, `{"k":[]}`, `{"k":"v"}`, `{"k":{"method":null}}`, `{"k":{"method":"roots/list","params":null}}`, `{"k":{"method":"sampling/createMessage"}}`, `{"k":{"method":"x"}}`,
		`[{"type":null}]`, `[{"type":"text"}]`, `[{"type":"tool_result","content":null}]`, `[{"type":"tool_result","content":[null]}]`, `[{"type":"resource","resource":null}]`, `[{"type":"nope"}]`, `{"type":"text","text":null}`, `{"type":"resource"}`}
	targets := []func() any{
		func() any { return new(CallToolResult) }, func() any { return new(GetPromptResult) }, func() any { return new(ReadResourceResult) },
		func() any { return new(ListToolsResult) }, func() any { return new(ListPromptsResult) }, func() any { return new(ListResourcesResult) }, func() any { return new(ListResourceTemplatesResult) },
		func() any { return new(CreateMessageResult) }, func() any { return new(CreateMessageWithToolsResult) }, func() any { return new(CreateMessageParams) }, func() any { return new(CreateMessageWithToolsParams) },
		func() any { return new(CompleteResult) }, func() any { return new(ElicitResult) }, func() any { return new(ListRootsResult) }, func() any { return new(CallToolParams) }, func() any { return new(CallToolParamsRaw) },
		func() any { return new(PromptMessage) }, func() any { return new(SamplingMessage) }, func() any { return new(SamplingMessageV2) }, func() any { return new(InputRequestMap) }, func() any { return new(InputResponseMap) },
		func() any { return new(Tool) }, func() any { return new(ResourceContents) }, func() any { return new(ProgressNotificationParams) }, func() any { return new(DiscoverResult) },
	}
	try := func(doc string) {
		idx, mine := cases.Next()
		if !mine {
			return
		}
		for _, mk := range targets {
			v := mk()
			bad := ""
			func() {
				defer func() {
					if r := recover(); r != nil {
						bad = fmt.Sprintf("decoding %s into %T panics: %v", doc, v, r)
					}
				}()
				json.Unmarshal([]byte(doc), v)
			}()
			if bad != "" {
				cases.Violate(idx, fmt.Sprintf("c19 decoder-panic %T", v), bad, 1)
				return
			}
		}
		func() {
			defer func() {
				if r := recover(); r != nil {
					cases.Violate(idx, "c19 decoder-panic message", fmt.Sprintf("decoding a response with result %s panics: %v", doc, r), 1)
				}
			}()
			jsonrpc2.DecodeMessage([]byte(`{"jsonrpc":"2.0","id":1,"result":` + doc + `}`))
			cases.Record(idx, "no panic", len(targets)+1, func() string { return doc })
		}()
	}
	n := 0
	for _, a := range names {
		for _, va := range values {
			try(fmt.Sprintf(`{%q:%s}`, a, va))
			n++
		}
	}
	for _, a := range []string{"content", "inputRequests", "inputResponses", "messages", "contents", "resultType"} {
		for _, va := range values {
			for _, b := range []string{"resultType", "inputRequests", "structuredContent", "_meta"} {
				for _, vb := range []string{`null`, `"input_required"`, `"complete"`, `{}`, `{"k":null}`} {
					if a != b {
						try(fmt.Sprintf(`{%q:%s,%q:%s}`, a, va, b, vb))
						n++
					}
				}
			}
		}
	}
	_ = n
}

// c19InputRequired: results of multi round-trip calls.  For each of the three result types that can
// carry input requests, and for InputRequests nil / empty-but-present / one entry, with the result
// marked input_required or complete: encoding and decoding again yields the same value (an empty
// map is the documented way to say "come back later" and must not turn into "nothing").
func c19InputRequired(cases *verifx.Cases) {
	type result interface {
		NeedsInput() bool
	}
	maps := map[string]InputRequestMap{"nil": nil, "empty": {}, "one": {"k": &ListRootsParams{}}}
	for _, typ := range []string{"CallToolResult", "GetPromptResult", "ReadResourceResult"} {
		for _, mname := range []string{"nil", "empty", "one"} {
			for _, rt := range []resultType{resultTypeInputRequired, resultTypeComplete} {
				idx, mine := cases.Next()
				if !mine {
					continue
				}
				m := maps[mname]
				var v, back any
				var gotMap func() InputRequestMap
				switch typ {
				case "CallToolResult":
					x, y := &CallToolResult{Content: []Content{}, InputRequests: m}, &CallToolResult{}
					x.setResultType(rt)
					v, back, gotMap = x, y, func() InputRequestMap { return y.InputRequests }
				case "GetPromptResult":
					x, y := &GetPromptResult{Messages: []*PromptMessage{}, InputRequests: m}, &GetPromptResult{}
					x.setResultType(rt)
					v, back, gotMap = x, y, func() InputRequestMap { return y.InputRequests }
				case "ReadResourceResult":
					x, y := &ReadResourceResult{Contents: []*ResourceContents{}, InputRequests: m}, &ReadResourceResult{}
					x.setResultType(rt)
					v, back, gotMap = x, y, func() InputRequestMap { return y.InputRequests }
				}
				desc := fmt.Sprintf("%s inputRequests=%s resultType=%s", typ, mname, rt)
				data, err := json.Marshal(v)
				if err == nil {
					err = json.Unmarshal(data, back)
				}
				got := InputRequestMap(nil)
				if err == nil {
					got = gotMap()
				}
				switch {
				case err != nil:
					cases.Violate(idx, "c19 input-required roundtrip-error "+typ, fmt.Sprintf("%v [%s]", err, desc), 2)
				case (m == nil) != (got == nil) || len(m) != len(got):
					cases.Violate(idx, "c19 input-required map-changed "+typ, fmt.Sprintf("encoded as %s; InputRequests came back as %d entries (nil: %v), sent %d entries (nil: %v) [%s]", data, len(got), got == nil, len(m), m == nil, desc), 2)
				case back.(result).NeedsInput() != (rt == resultTypeInputRequired):
					cases.Violate(idx, "c19 input-required result-type-changed "+typ, fmt.Sprintf("encoded as %s; NeedsInput came back %v [%s]", data, back.(result).NeedsInput(), desc), 2)
				default:
					cases.Record(idx, "input-required roundtrip ok", 2, func() string { return desc })
				}
			}
		}
	}
}

// c19AnyIntegers: integers in the members of protocol values whose Go type is `any` (progress
// tokens, _meta values, structured content, elicitation content): encoding a
// value, decoding it and encoding it again yields the same JSON, for integers over the int64 range.
func c19AnyIntegers(cases *verifx.Cases) {
	ints := []int64{0, 1, -1, 1 << 53, -(1 << 53), 1<<53 + 1, -(1<<53 + 1), math.MaxInt64, math.MinInt64}
	type member struct {
		name string
		mk   func(n int64) (val any, fresh any)
	}
	members := []member{
		{"ProgressNotificationParams.progressToken", func(n int64) (any, any) {
			return &ProgressNotificationParams{ProgressToken: n, Progress: 1}, &ProgressNotificationParams{}
		}},
		{"CallToolParams._meta.progressToken", func(n int64) (any, any) {
			// what the client sends and what the server decodes it into
			p := &CallToolParams{Name: "t", Arguments: map[string]any{}}
			p.SetProgressToken(n)
			return p, &CallToolParamsRaw{}
		}},
		{"TextContent._meta value", func(n int64) (any, any) {
			return &CallToolResult{Content: []Content{&TextContent{Text: "x", Meta: Meta{"n": n}}}}, &CallToolResult{}
		}},
		{"CallToolResult.structuredContent", func(n int64) (any, any) {
			return &CallToolResult{Content: []Content{}, StructuredContent: map[string]any{"n": n}}, &CallToolResult{}
		}},
		{"ElicitResult.content", func(n int64) (any, any) {
			return &ElicitResult{Action: "accept", Content: map[string]any{"n": n}}, &ElicitResult{}
		}},
	}
	for _, m := range members {
		for _, n := range ints {
			idx, mine := cases.Next()
			if !mine {
				continue
			}
			desc := fmt.Sprintf("%s = %d", m.name, n)
			val, fresh := m.mk(n)
			first, err := json.Marshal(val)
			if err == nil {
				err = internaljson.Unmarshal(first, fresh)
			}
			var second []byte
			if err == nil {
				second, err = json.Marshal(fresh)
			}
			big := "within-2^53"
			if n > 1<<53 || n < -(1<<53) {
				big = "beyond-2^53"
			}
			switch {
			case err != nil:
				cases.Violate(idx, "c19 any-member roundtrip-error "+m.name, fmt.Sprintf("%v [%s]", err, desc), 2)
			case !c19JSONEqual(first, second):
				cases.Violate(idx, "c19 any-member integer-changed "+m.name, fmt.Sprintf("sent %s, after decoding and encoding again %s [%s]", first, second, desc), 2)
			default:
				cases.Record(idx, "any-member integer preserved "+big, 2, func() string { return desc })
			}
		}
	}
}

func c19Fuzz(env *verifx.Env, res *verifx.Result, maxLen int) {
	cases := env.NewCases(res, "all-byte-strings-no-panic")
	cases.NoMark = true
	alphabet := []byte(`{}[]":,\ 1a` + "\n")
	buf := make([]byte, 0, maxLen)
	var rec func(n int)
	total := 0
	rec = func(n int) {
		idx, mine := cases.Next()
		if mine {
			total++
			data := append([]byte{}, buf...)
			func() {
				defer func() {
					if r := recover(); r != nil {
						cases.Violate(idx, "c19 decoder-panic", fmt.Sprintf("input %q: panic %v", data, r), 1)
					}
				}()
				jsonrpc2.DecodeMessage(data)
				readBatch(data)
				for _, err := range scanEvents(bytes.NewReader(data)) {
					if err != nil {
						break
					}
				}
				var r CallToolResult
				json.Unmarshal(data, &r)
			}()
		}
		if n == maxLen {
			return
		}
		for _, c := range alphabet {
			buf = append(buf, c)
			rec(n + 1)
			buf = buf[:len(buf)-1]
		}
	}
	rec(0)
	cases.RecordBulk("no-panic", total, fmt.Sprintf("every byte string of length <= %d over %q", maxLen, alphabet))
}

func TestVerifC19(t *testing.T) {
	env := verifx.LoadEnv("C19")
	res := env.NewResult()
	msgs := env.NewCases(res, "message-roundtrip")
	texts := c19Messages(env.Quick())
	for _, text := range texts {
		idx, mine := msgs.Next()
		if !mine {
			continue
		}
		sig, msg := "", ""
		func() {
			defer func() {
				if r := recover(); r != nil {
					sig, msg = "c19 panic", fmt.Sprintf("%s: %v", text, r)
				}
			}()
			sig, msg = c19CheckMessage(text)
			// the same message as a relay or a hand-written client lays it out: indented, one member per
			// line, with LF or CRLF line ends (raw params/result/error data keep whatever layout they had)
			for _, layout := range [][2]string{{"\n", "  "}, {"\r\n", "\t"}} {
				if sig != "" || strings.Contains(text, c19DecoyMark) {
					break
				}
				var pretty bytes.Buffer
				if json.Indent(&pretty, []byte(text), "", layout[1]) != nil {
					break
				}
				laid := strings.ReplaceAll(pretty.String(), "\n", layout[0])
				if sig, msg = c19CheckMessage(laid); sig != "" {
					sig += " (indented input)"
				}
			}
		}()
		if sig != "" {
			msgs.Violate(idx, sig, msg, 3)
			continue
		}
		cls := "request"
		if strings.Contains(text, `"result"`) {
			cls = "response"
		} else if strings.Contains(text, `"error"`) {
			cls = "error-response"
		} else if !strings.Contains(text, `"id"`) {
			cls = "notification"
		}
		msgs.Record(idx, "roundtrip "+cls, 3, func() string { return text })
	}
	fr := env.NewCases(res, "ndjson-framing")
	if idx, mine := fr.Next(); mine {
		if sig, msg := c19Framing(texts); sig != "" {
			fr.Violate(idx, sig, msg, len(texts))
		} else {
			fr.Record(idx, "all messages through a pair of ioConns", len(texts), func() string { return fmt.Sprintf("%d messages", len(texts)) })
			fr.Record(idx, "framing-ok", 0, nil)
		}
	}
	c19Chunking(env.NewCases(res, "ndjson-reader-chunking"), !env.Quick())
	c19ChunkingLarge(env.NewCases(res, "ndjson-reader-chunking/large-messages"))
	c19SSEClientChunking(t, env.NewCases(res, "sse-client-reader-chunking"), !env.Quick())
	cc := env.NewCases(res, "content-and-required-members")
	c19CheckContents(cc)
	c19WireRequired(cc)
	c19CaseSensitivity(cc)
	c19InputRequired(cc)
	c19AnyIntegers(cc)
	c19StructuredDecode(env.NewCases(res, "structured-documents-no-panic"))
	c19Deep(env.NewCases(res, "deeply-nested-documents"))
	c19Whitespace(env.NewCases(res, "whitespace-around-payloads"), t, func(f func()) { synctest.Test(t, func(*testing.T) { f() }) })
	c19Fuzz(env, res, env.Pick(5, 6))
	_ = io.EOF
	env.Finish(res)
}
