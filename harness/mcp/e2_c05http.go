package mcp

// C05 over streamable HTTP after a client-side failure.  A real client session on the SDK's own
// stateful handler; one exchange is spoiled on its way back (the client declares the logical
// session failed), or nothing is spoiled; then the client closes.  Whatever happened before,
// Close and Wait return on the client, the peer's Wait returns, the session is removed from
// the Server, and nothing is left running.

import (
	"context"
	"errors"
	"fmt"
	"io"
	"net/http"
	"runtime"
	"strings"
	"testing"
	"testing/synctest"
	"time"

	"github.com/modelcontextprotocol/go-sdk/internal/verifx"
)

// kinds of spoiled exchanges (applied to the response of the chosen POST / the standalone GET)
var c05hFaults = []string{
	"none",
	"call-answered-with-garbage-json", // 200 application/json, body is not JSON-RPC
	"call-answered-400-plain",         // non-transient status without a JSON-RPC body
	"call-answered-500-plain",
	"call-sse-malformed-event",       // 200 text/event-stream with an event that is not a message
	"call-sse-undecodable-data",      // event whose data is not JSON-RPC
	"standalone-get-malformed-event", // the hanging GET delivers garbage
	"call-answered-404",              // the server says the session is gone (no DELETE is owed then)
}

func c05hCase(fault string, closeFrom string, version string) (obs, sig, msg string) {
	cleanup := func() {}
	fail := func(s, format string, a ...any) (string, string, string) {
		cleanup() // end whatever is still running, so that the verdict is this one and not a stuck bubble
		return "", "c05 http-failure " + s, fmt.Sprintf(format, a...) + fmt.Sprintf(" [fault=%s close=%s version=%s]", fault, closeFrom, version)
	}
	ctx := context.Background()
	base := runtime.NumGoroutine()
	s := NewServer(&Implementation{Name: "srv", Version: "1"}, &ServerOptions{Logger: quietLogger})
	AddTool(s, &Tool{Name: "t"}, func(ctx context.Context, r *CallToolRequest, in map[string]any) (*CallToolResult, any, error) {
		return &CallToolResult{}, nil, nil
	})
	h := NewStreamableHTTPHandler(func(*http.Request) *Server { return s }, &StreamableHTTPOptions{Logger: quietLogger})
	armed := false
	deletes := 0
	mk := func(status int, ctype, body string) *http.Response {
		hd := http.Header{}
		if ctype != "" {
			hd.Set("Content-Type", ctype)
		}
		return &http.Response{StatusCode: status, Status: fmt.Sprint(status), Header: hd, Body: io.NopCloser(strings.NewReader(body)), Proto: "HTTP/1.1", ProtoMajor: 1, ProtoMinor: 1}
	}
	hx := &hxTransport{Handler: h}
	hx.Intercept = func(req *http.Request, n int) (*http.Response, error) {
		if req.Method == "DELETE" {
			deletes++
		}
		if !armed {
			return nil, nil
		}
		body, _ := io.ReadAll(req.Body)
		isCall := req.Method == "POST" && strings.Contains(string(body), `"tools/call"`)
		switch {
		case fault == "standalone-get-malformed-event" && req.Method == "GET":
			armed = false
			return mk(200, "text/event-stream", "data: {not json\n\n"), nil
		case !isCall:
			return nil, nil
		}
		armed = false
		switch fault {
		case "call-answered-with-garbage-json":
			return mk(200, "application/json", "<html>proxy error</html>"), nil
		case "call-answered-400-plain":
			return mk(400, "text/plain", "bad request"), nil
		case "call-answered-500-plain":
			return mk(500, "text/plain", "oops"), nil
		case "call-sse-malformed-event":
			return mk(200, "text/event-stream", "data: {not json\n\n"), nil
		case "call-sse-undecodable-data":
			return mk(200, "text/event-stream", "event: message\ndata: [1,2\n\n"), nil
		case "call-answered-404":
			return mk(404, "text/plain", "session not found"), nil
		}
		return nil, nil
	}
	c := NewClient(&Implementation{Name: "cli", Version: "1"}, &ClientOptions{Logger: quietLogger})
	if fault == "standalone-get-malformed-event" {
		armed = true
	}
	cs, err := c.Connect(ctx, &StreamableClientTransport{Endpoint: "http://srv.test/mcp", HTTPClient: hx.client(), MaxRetries: -1}, &ClientSessionOptions{ProtocolVersion: version})
	if err != nil {
		return fail("connect", "%v", err)
	}
	synctest.Wait()
	var ss *ServerSession
	for x := range s.Sessions() {
		ss = x
	}
	cleanup = func() {
		for x := range s.Sessions() {
			x.Close()
		}
		synctest.Wait()
	}
	serverWaited, clientWaited := false, false
	if ss == nil {
		// the failure (a spoiled standalone stream) already ended the session, DELETE included
		serverWaited = true
	} else {
		go func() { ss.Wait(); serverWaited = true }()
	}
	go func() { cs.Wait(); clientWaited = true }()
	if fault != "none" && fault != "standalone-get-malformed-event" {
		armed = true
	}
	cctx, cancel := context.WithTimeout(ctx, time.Minute)
	_, callErr := cs.CallTool(cctx, &CallToolParams{Name: "t", Arguments: map[string]any{}})
	cancel()
	if fault == "none" && callErr != nil {
		return fail("call-failed", "CallTool without any fault: %v", callErr)
	}
	synctest.Wait()
	closed := make(chan struct{})
	go func() {
		if closeFrom != "client" && ss != nil {
			ss.Close()
		}
		cs.Close()
		close(closed)
	}()
	time.Sleep(time.Minute) // more than every timeout involved (the DELETE is bounded by 5s)
	synctest.Wait()
	select {
	case <-closed:
	default:
		return fail("close-never-returns", "Close has not returned one minute later (call error: %v)", callErr)
	}
	if !clientWaited {
		return fail("client-wait-never-returns", "the client's Wait did not return after Close")
	}
	if fault == "call-answered-404" && closeFrom == "client" {
		// the client was told that the session no longer exists: it owes the server nothing more
		// (here the 404 was made up, so the server's session is still there: end it for the leak check)
		if deletes != 0 {
			return fail("delete-for-missing-session", "the server answered 404 for the session, yet Close sent %d DELETE request(s)", deletes)
		}
		ss.Close()
		synctest.Wait()
	}
	if !serverWaited {
		return fail("peer-wait-never-returns", "the client closed the session (call error before: %v; DELETE requests sent: %d) but the server session's Wait never returned", callErr, deletes)
	}
	n := 0
	for range s.Sessions() {
		n++
	}
	if n != 0 {
		return fail("session-not-removed", "after Close the server still lists %d session(s) (DELETE requests sent: %d)", n, deletes)
	}
	if left := runtime.NumGoroutine() - base; left > 0 {
		buf := make([]byte, 1<<15)
		buf = buf[:runtime.Stack(buf, true)]
		return fail("goroutine-left-behind", "%d goroutine(s) left after Close:\n%s", left, buf)
	}
	cls := "call-ok"
	if callErr != nil {
		cls = "call-failed"
	}
	return fmt.Sprintf("%s deletes=%d", cls, deletes), "", ""
}

func TestVerifC05HTTPFailures(t *testing.T) {
	env := verifx.LoadEnv("C05")
	res := env.NewResult()
	cases := env.NewCases(res, "streamable-close-after-client-failure")
	for _, version := range []string{"2025-06-18", "2025-11-25"} {
		for _, closeFrom := range []string{"client", "server-then-client"} {
			for _, fault := range c05hFaults {
				idx, mine := cases.Next()
				if !mine {
					continue
				}
				desc := fmt.Sprintf("fault=%s close=%s version=%s", fault, closeFrom, version)
				var obs, sig, msg string
				func() {
					defer func() {
						if r := recover(); r != nil {
							sig, msg = "c05 http-failure panic-or-leak", fmt.Sprintf("%v [%s]", r, desc)
						}
					}()
					synctest.Test(t, func(t *testing.T) { obs, sig, msg = c05hCase(fault, closeFrom, version) })
				}()
				if sig != "" {
					cases.Violate(idx, sig, msg, 4)
					continue
				}
				cases.Record(idx, fault+" "+obs, 4, func() string { return desc })
			}
		}
	}
	env.Finish(res)
}

// c05ConnectFailCase: a Connect that fails half way is a shutdown as well - the session the client
// had begun to set up is closed and forgotten, nothing is left running.  The server (the SDK's own
// handler) answers until the chosen step of the connection set-up, which is refused.
func c05ConnectFailCase(version, refuse string, status int) (obs, sig, msg string) {
	fail := func(s, format string, a ...any) (string, string, string) {
		return "", "c05 connect-fails " + s, fmt.Sprintf(format, a...) + fmt.Sprintf(" [version=%s refused=%s status=%d]", version, refuse, status)
	}
	ctx := context.Background()
	base := runtime.NumGoroutine()
	s := NewServer(&Implementation{Name: "srv", Version: "1"}, &ServerOptions{Logger: quietLogger})
	AddTool(s, &Tool{Name: "t"}, func(ctx context.Context, r *CallToolRequest, in map[string]any) (*CallToolResult, any, error) {
		return &CallToolResult{}, nil, nil
	})
	h := NewStreamableHTTPHandler(func(*http.Request) *Server { return s }, &StreamableHTTPOptions{Logger: quietLogger, Stateless: version >= "2026-07-28"})
	hx := &hxTransport{Handler: h}
	refused := 0
	hx.Intercept = func(req *http.Request, n int) (*http.Response, error) {
		body, _ := io.ReadAll(req.Body)
		hit := false
		switch refuse {
		case "standalone-get":
			hit = req.Method == "GET"
		default:
			hit = req.Method == "POST" && strings.Contains(string(body), `"method":"`+refuse+`"`)
		}
		if !hit {
			return nil, nil
		}
		refused++
		if status == 0 {
			return nil, errors.New("dial tcp: connection refused")
		}
		return &http.Response{StatusCode: status, Status: fmt.Sprint(status), Header: http.Header{"Content-Type": {"text/plain"}}, Body: io.NopCloser(strings.NewReader("refused")), Proto: "HTTP/1.1", ProtoMajor: 1, ProtoMinor: 1}, nil
	}
	c := NewClient(&Implementation{Name: "cli", Version: "1"}, &ClientOptions{Logger: quietLogger,
		ToolListChangedHandler: func(context.Context, *ToolListChangedRequest) {}})
	cctx, cancel := context.WithTimeout(ctx, time.Minute)
	cs, err := c.Connect(cctx, &StreamableClientTransport{Endpoint: "http://srv.test/mcp", HTTPClient: hx.client(), MaxRetries: -1}, &ClientSessionOptions{ProtocolVersion: version})
	cancel()
	time.Sleep(time.Minute)
	synctest.Wait()
	outcome := "connect-failed"
	if err == nil {
		// the refused step was not essential (a standalone stream is optional): an ordinary session
		outcome = "connected"
		if _, err := cs.ListTools(ctx, nil); err != nil {
			return fail("connected-session-unusable", "Connect succeeded but ListTools fails: %v", err)
		}
		cs.Close()
		time.Sleep(time.Minute)
		synctest.Wait()
	}
	for x := range s.Sessions() {
		x.Close() // what the server keeps of a client that went away is its own business (idle timeout)
	}
	synctest.Wait()
	nc, _ := privClientSessionCount(c)
	if nc != 0 {
		return fail("session-not-removed", "Connect returned %v; the client still tracks %d session(s)", err, nc)
	}
	if left := runtime.NumGoroutine() - base; left > 0 {
		buf := make([]byte, 1<<15)
		buf = buf[:runtime.Stack(buf, true)]
		return fail("goroutine-left-behind", "Connect returned %v; %d goroutine(s) are left:\n%s", err, left, buf)
	}
	return fmt.Sprintf("%s refused=%d", outcome, refused), "", ""
}

func TestVerifC05ConnectFails(t *testing.T) {
	env := verifx.LoadEnv("C05")
	res := env.NewResult()
	cases := env.NewCases(res, "streamable-connect-fails-half-way")
	for _, version := range []string{"2025-06-18", "2026-07-28"} {
		for _, refuse := range []string{"initialize", "notifications/initialized", "standalone-get", "server/discover", "subscriptions/listen"} {
			for _, status := range []int{0, 400, 404, 500} {
				idx, mine := cases.Next()
				if !mine {
					continue
				}
				desc := fmt.Sprintf("version=%s refused=%s status=%d", version, refuse, status)
				var obs, sig, msg string
				func() {
					defer func() {
						if r := recover(); r != nil && sig == "" {
							// (a verdict reached before the bubble complained about what is left running stands)
							sig, msg = "c05 connect-fails panic-or-leak", fmt.Sprintf("%v [%s]", r, desc)
						}
					}()
					synctest.Test(t, func(t *testing.T) { obs, sig, msg = c05ConnectFailCase(version, refuse, status) })
				}()
				if sig != "" {
					cases.Violate(idx, sig, msg, 3)
					continue
				}
				cases.Record(idx, refuse+" "+obs, 3, func() string { return desc })
			}
		}
	}
	env.Finish(res)
}

// TestVerifC05KeepAlive: the Close that keep-alive itself performs on a dead session is a shutdown
// like any other: with a silent peer (its transport stays up) and a user call outstanding, Close and
// Wait return, the call fails, and nothing is left running.  The ping-fate patterns and the
// observations are C13's (c13Case); the verdict here is about termination only.
func TestVerifC05KeepAlive(t *testing.T) {
	env := verifx.LoadEnv("C05")
	res := env.NewResult()
	cases := env.NewCases(res, "close-by-keepalive-with-outstanding-call")
	var pats []string
	var gen func(p string, n int)
	gen = func(p string, n int) {
		pats = append(pats, p)
		if n == 0 {
			return
		}
		for _, c := range "TEA" {
			gen(p+string(c), n-1)
		}
	}
	gen("", 3)
	for _, side := range []string{"client", "server"} {
		for _, kind := range []string{"call", "handler"} {
			if kind == "handler" && side == "client" {
				continue
			}
			for th := 1; th <= 2; th++ {
				for _, p := range pats {
					idx, mine := cases.Next()
					if !mine {
						continue
					}
					var obs c13Obs
					var bad, sig string
					func() {
						defer func() {
							if r := recover(); r != nil {
								bad, sig = fmt.Sprintf("panic / bubble failure: %v", r), "c13 panic-or-leak"
							}
						}()
						synctest.Test(t, func(t *testing.T) { obs, bad, sig = c13Case(side, 2*time.Second, th, p, kind) })
					}()
					desc := fmt.Sprintf("side=%s outstanding=%s threshold=%d ping fates=%q", side, kind, th, p)
					// termination-related verdicts only; the timing verdicts belong to C13
					relevant := false
					for _, k := range []string{"dead-session-not-closed", "wait-never-returned", "goroutine-left-behind", "pending-call-outlives-session", "handler-outlives-session", "panic-or-leak"} {
						if strings.Contains(sig, k) {
							relevant = true
						}
					}
					if bad != "" && relevant {
						cases.Violate(idx, "c05 keepalive-close "+strings.TrimPrefix(sig, "c13 "), bad+" ["+desc+"]", len(p)+1)
						continue
					}
					cls := "open"
					if obs.closedAt >= 0 {
						cls = "closed"
					}
					cases.Record(idx, fmt.Sprintf("%s th=%d %s", kind, th, cls), len(p)+1, func() string { return desc })
				}
			}
		}
	}
	env.Finish(res)
}
