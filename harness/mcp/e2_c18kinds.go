package mcp

// C18 (E2): every feature kind (tools, prompts, resources, resource templates) and the read
// cache.  For each kind x protocol version (legacy, 2026-07-28 with client-side caches) x result
// TTL (0, 60 s): list (fills the cache), add, wait out the debounce, the corresponding list-changed
// notification must have been handled and a list issued afterwards must show the addition; then
// remove, same.  Read cache: subscribe, read, the resource changes and ResourceUpdated is
// announced, a read after the handled notification returns the new contents.

import (
	"bufio"
	"context"
	"encoding/json"
	"fmt"
	"io"
	"net/http"
	"slices"
	"sort"
	"strings"
	"testing"
	"testing/synctest"
	"time"

	"github.com/modelcontextprotocol/go-sdk/internal/verifx"
)

type c18kKind struct {
	name   string
	add    func(s *Server, n string)
	remove func(s *Server, ns ...string) // one call of the SDK's Remove... with all the names
	list   func(ctx context.Context, cs *ClientSession) ([]string, error)
	note   string // which handler must fire
}

func c18kKinds() []c18kKind {
	return []c18kKind{
		{name: "tools", note: "tools",
			add: func(s *Server, n string) {
				s.AddTool(&Tool{Name: n, InputSchema: map[string]any{"type": "object"}}, func(context.Context, *CallToolRequest) (*CallToolResult, error) { return &CallToolResult{}, nil })
			},
			remove: func(s *Server, ns ...string) { s.RemoveTools(ns...) },
			list: func(ctx context.Context, cs *ClientSession) ([]string, error) {
				// all pages, following the cursors (one page unless the server is configured with a page size)
				var out []string
				cursor := ""
				for page := 0; page < 20; page++ {
					r, err := cs.ListTools(ctx, &ListToolsParams{Cursor: cursor})
					if err != nil {
						return nil, err
					}
					for _, t := range r.Tools {
						out = append(out, t.Name)
					}
					if r.NextCursor == "" {
						break
					}
					cursor = r.NextCursor
				}
				return out, nil
			}},
		{name: "prompts", note: "prompts",
			add: func(s *Server, n string) {
				s.AddPrompt(&Prompt{Name: n}, func(context.Context, *GetPromptRequest) (*GetPromptResult, error) { return &GetPromptResult{}, nil })
			},
			remove: func(s *Server, ns ...string) { s.RemovePrompts(ns...) },
			list: func(ctx context.Context, cs *ClientSession) ([]string, error) {
				// all pages, following the cursors (one page unless the server is configured with a page size)
				var out []string
				cursor := ""
				for page := 0; page < 20; page++ {
					r, err := cs.ListPrompts(ctx, &ListPromptsParams{Cursor: cursor})
					if err != nil {
						return nil, err
					}
					for _, p := range r.Prompts {
						out = append(out, p.Name)
					}
					if r.NextCursor == "" {
						break
					}
					cursor = r.NextCursor
				}
				return out, nil
			}},
		{name: "resources", note: "resources",
			add: func(s *Server, n string) {
				s.AddResource(&Resource{URI: "file:///" + n, Name: n}, func(context.Context, *ReadResourceRequest) (*ReadResourceResult, error) {
					return &ReadResourceResult{Contents: []*ResourceContents{{URI: "file:///" + n, Text: n}}}, nil
				})
			},
			remove: func(s *Server, ns ...string) {
				var uris []string
				for _, n := range ns {
					uris = append(uris, "file:///"+n)
				}
				s.RemoveResources(uris...)
			},
			list: func(ctx context.Context, cs *ClientSession) ([]string, error) {
				// all pages, following the cursors (one page unless the server is configured with a page size)
				var out []string
				cursor := ""
				for page := 0; page < 20; page++ {
					r, err := cs.ListResources(ctx, &ListResourcesParams{Cursor: cursor})
					if err != nil {
						return nil, err
					}
					for _, p := range r.Resources {
						out = append(out, p.Name)
					}
					if r.NextCursor == "" {
						break
					}
					cursor = r.NextCursor
				}
				return out, nil
			}},
		{name: "resource-templates", note: "resources",
			add: func(s *Server, n string) {
				s.AddResourceTemplate(&ResourceTemplate{URITemplate: "tmpl:///" + n + "/{x}", Name: n}, func(context.Context, *ReadResourceRequest) (*ReadResourceResult, error) {
					return &ReadResourceResult{}, nil
				})
			},
			remove: func(s *Server, ns ...string) {
				var uris []string
				for _, n := range ns {
					uris = append(uris, "tmpl:///"+n+"/{x}")
				}
				s.RemoveResourceTemplates(uris...)
			},
			list: func(ctx context.Context, cs *ClientSession) ([]string, error) {
				// all pages, following the cursors (one page unless the server is configured with a page size)
				var out []string
				cursor := ""
				for page := 0; page < 20; page++ {
					r, err := cs.ListResourceTemplates(ctx, &ListResourceTemplatesParams{Cursor: cursor})
					if err != nil {
						return nil, err
					}
					for _, p := range r.ResourceTemplates {
						out = append(out, p.Name)
					}
					if r.NextCursor == "" {
						break
					}
					cursor = r.NextCursor
				}
				return out, nil
			}},
	}
}

// c18kServer: every list result and read result carries the given TTL.
// c18kPageSize, if not 0, is the page size of the servers built by c18kServer.
var c18kPageSize = 0

func c18kServer(ttl int) *Server {
	s := NewServer(&Implementation{Name: "srv", Version: "1"}, &ServerOptions{Logger: quietLogger, PageSize: c18kPageSize,
		SubscribeHandler:   func(context.Context, *SubscribeRequest) error { return nil },
		UnsubscribeHandler: func(context.Context, *UnsubscribeRequest) error { return nil },
	})
	s.AddReceivingMiddleware(func(next MethodHandler) MethodHandler {
		return func(ctx context.Context, method string, req Request) (Result, error) {
			res, err := next(ctx, method, req)
			if err == nil && ttl > 0 {
				switch r := res.(type) {
				case *ListToolsResult:
					r.TTLMs = ttl
				case *ListPromptsResult:
					r.TTLMs = ttl
				case *ListResourcesResult:
					r.TTLMs = ttl
				case *ListResourceTemplatesResult:
					r.TTLMs = ttl
				case *ReadResourceResult:
					r.TTLMs = ttl
				}
			}
			return res, err
		}
	})
	return s
}

type c18kCounts struct{ tools, prompts, resources, updated int }

// c18kTransport selects how c18kConnect links client and server: "" / "inmem" (in-memory pipe) or
// "http" (the streamable HTTP handler in process: stateful with a standalone SSE stream for legacy
// versions, stateless with a subscriptions/listen stream per subscription for 2026-07-28).
var c18kTransport = ""

func c18kConnect(s *Server, version string, n *c18kCounts) (*ClientSession, error) {
	ctx := context.Background()
	cl := NewClient(&Implementation{Name: "cli", Version: "1"}, &ClientOptions{Logger: quietLogger,
		ToolListChangedHandler:     func(context.Context, *ToolListChangedRequest) { n.tools++ },
		PromptListChangedHandler:   func(context.Context, *PromptListChangedRequest) { n.prompts++ },
		ResourceListChangedHandler: func(context.Context, *ResourceListChangedRequest) { n.resources++ },
		ResourceUpdatedHandler:     func(context.Context, *ResourceUpdatedNotificationRequest) { n.updated++ },
	})
	if c18kTransport == "http" || c18kTransport == "http-logged" {
		h := NewStreamableHTTPHandler(func(*http.Request) *Server { return s }, &StreamableHTTPOptions{Stateless: version == "2026-07-28", Logger: quietLogger})
		hx := &hxTransport{Handler: h}
		var t Transport = &StreamableClientTransport{Endpoint: "http://srv.test/mcp", HTTPClient: hx.client(), MaxRetries: -1}
		if c18kTransport == "http-logged" {
			t = &LoggingTransport{Transport: t, Writer: io.Discard} // the SDK's debugging wrapper, on the client
		}
		return cl.Connect(ctx, t, &ClientSessionOptions{ProtocolVersion: version})
	}
	ct, st := NewInMemoryTransports()
	if _, err := s.Connect(ctx, st, nil); err != nil {
		return nil, err
	}
	return cl.Connect(ctx, ct, &ClientSessionOptions{ProtocolVersion: version})
}

func c18kListCase(k c18kKind, version string, ttl int) (obs, sig, msg string) {
	fail := func(s, format string, a ...any) (string, string, string) {
		return "", fmt.Sprintf("c18 kinds %s %s", k.name, s), fmt.Sprintf(format, a...) + fmt.Sprintf(" [kind=%s version=%s ttl=%dms]", k.name, version, ttl)
	}
	ctx := context.Background()
	s := c18kServer(ttl)
	for _, kk := range c18kKinds() {
		kk.add(s, "base") // every kind has an item, so every capability is advertised
	}
	var n c18kCounts
	cs, err := c18kConnect(s, version, &n)
	if err != nil {
		return fail("connect", "%v", err)
	}
	defer cs.Close()
	synctest.Wait()
	count := func() int {
		switch k.note {
		case "tools":
			return n.tools
		case "prompts":
			return n.prompts
		}
		return n.resources
	}
	want := []string{"base"}
	check := func(stage string) (string, string, string) {
		got, err := k.list(ctx, cs)
		if err != nil {
			return fail("list-failed", "%s: %v", stage, err)
		}
		sort.Strings(got)
		if !slices.Equal(got, want) {
			return fail("list-after-notification-stale "+stage, "%s: list returned %v, the server has %v", stage, got, want)
		}
		return "", "", ""
	}
	if o, sg, m := check("initially"); sg != "" {
		return o, sg, m
	}
	// removals come singly and in batches that also name something absent (before or after the item
	// that exists) or the same item twice: the batch changed the list, whatever its last name did
	for _, step := range []string{"add x", "remove base", "add y", "remove x+absent", "add z", "remove absent+y", "add w", "remove w+w", "remove z+absent+absent2"} {
		before := count()
		switch step {
		case "add x":
			k.add(s, "x")
			want = append(want, "x")
		case "remove base":
			k.remove(s, "base")
			want = slices.DeleteFunc(want, func(s string) bool { return s == "base" })
		case "add y":
			k.add(s, "y")
			want = append(want, "y")
		case "add z", "add w":
			n := strings.TrimPrefix(step, "add ")
			k.add(s, n)
			want = append(want, n)
		default:
			names := strings.Split(strings.TrimPrefix(step, "remove "), "+")
			k.remove(s, names...)
			want = slices.DeleteFunc(want, func(s string) bool { return slices.Contains(names, s) })
		}
		sort.Strings(want)
		time.Sleep(time.Second) // the debounce delay passes
		synctest.Wait()
		if count() == before {
			return fail("notification-lost "+step, "after %q no %s list-changed notification was handled (tools=%d prompts=%d resources=%d)", step, k.note, n.tools, n.prompts, n.resources)
		}
		if o, sg, m := check("after " + step); sg != "" {
			return o, sg, m
		}
	}
	return fmt.Sprintf("%s ok", k.name), "", ""
}

// c18kPagedCase: the list spans several pages (page size 1 or 2, items a..d) and the client has walked
// all of them (with a positive TTL they are cached page by page).  Changes that leave the first page as
// it was - the last item removed, an item appended, a middle item replaced - are announced; a walk after
// the notification was handled shows the server's current list.
func c18kPagedCase(k c18kKind, version string, ttl, pageSize int) (obs, sig, msg string) {
	fail := func(s, format string, a ...any) (string, string, string) {
		return "", fmt.Sprintf("c18 kinds %s paged %s", k.name, s), fmt.Sprintf(format, a...) + fmt.Sprintf(" [kind=%s version=%s ttl=%dms page size %d]", k.name, version, ttl, pageSize)
	}
	ctx := context.Background()
	c18kPageSize = pageSize
	defer func() { c18kPageSize = 0 }()
	s := c18kServer(ttl)
	for _, kk := range c18kKinds() {
		kk.add(s, "a")
	}
	want := []string{"a", "b", "c", "d"}
	for _, n := range want[1:] {
		k.add(s, n)
	}
	var n c18kCounts
	cs, err := c18kConnect(s, version, &n)
	if err != nil {
		return fail("connect", "%v", err)
	}
	defer cs.Close()
	synctest.Wait()
	count := func() int {
		switch k.note {
		case "tools":
			return n.tools
		case "prompts":
			return n.prompts
		}
		return n.resources
	}
	check := func(stage string) (string, string, string) {
		got, err := k.list(ctx, cs)
		if err != nil {
			return fail("list-failed", "%s: %v", stage, err)
		}
		sort.Strings(got)
		if !slices.Equal(got, want) {
			return fail("list-after-notification-stale "+stage, "%s: walking the pages returned %v, the server has %v", stage, got, want)
		}
		return "", "", ""
	}
	if o, sg, m := check("initially"); sg != "" {
		return o, sg, m
	}
	for _, step := range []string{"remove d", "add e", "remove c", "add f", "remove f+absent", "add d"} {
		before := count()
		if name, ok := strings.CutPrefix(step, "add "); ok {
			k.add(s, name)
			want = append(want, name)
		} else {
			names := strings.Split(strings.TrimPrefix(step, "remove "), "+")
			k.remove(s, names...)
			want = slices.DeleteFunc(want, func(s string) bool { return slices.Contains(names, s) })
		}
		sort.Strings(want)
		time.Sleep(time.Second)
		synctest.Wait()
		if count() == before {
			return fail("notification-lost "+step, "after %q no %s list-changed notification was handled", step, k.note)
		}
		if o, sg, m := check("after " + step); sg != "" {
			return o, sg, m
		}
	}
	return fmt.Sprintf("%s paged ok", k.name), "", ""
}

func c18kReadCase(version string, ttl int) (obs, sig, msg string) {
	fail := func(s, format string, a ...any) (string, string, string) {
		return "", "c18 kinds read " + s, fmt.Sprintf(format, a...) + fmt.Sprintf(" [version=%s ttl=%dms]", version, ttl)
	}
	ctx := context.Background()
	s := c18kServer(ttl)
	content := map[string]string{"file:///r1": "v1", "file:///r2": "v1"}
	for _, u := range []string{"file:///r1", "file:///r2"} {
		s.AddResource(&Resource{URI: u, Name: u}, func(context.Context, *ReadResourceRequest) (*ReadResourceResult, error) {
			return &ReadResourceResult{Contents: []*ResourceContents{{URI: u, Text: content[u]}}}, nil
		})
	}
	var n c18kCounts
	cs, err := c18kConnect(s, version, &n)
	if err != nil {
		return fail("connect", "%v", err)
	}
	defer cs.Close()
	read := func(u string) (string, error) {
		r, err := cs.ReadResource(ctx, &ReadResourceParams{URI: u})
		if err != nil || len(r.Contents) != 1 {
			return "", fmt.Errorf("%v %v", r, err)
		}
		return r.Contents[0].Text, nil
	}
	if err := cs.Subscribe(ctx, &SubscribeParams{URI: "file:///r1"}); err != nil {
		return fail("subscribe-failed", "%v", err)
	}
	synctest.Wait()
	for round := 1; round <= 2; round++ {
		for _, u := range []string{"file:///r1", "file:///r2"} {
			if _, err := read(u); err != nil {
				return fail("read-failed", "%v", err)
			}
		}
		v := fmt.Sprintf("v%d", round+1)
		content["file:///r1"], content["file:///r2"] = v, v
		before := n.updated
		for _, u := range []string{"file:///r1", "file:///r2"} {
			if err := s.ResourceUpdated(ctx, &ResourceUpdatedNotificationParams{URI: u}); err != nil {
				return fail("update-failed", "%v", err)
			}
		}
		time.Sleep(time.Second)
		synctest.Wait()
		if n.updated != before+1 {
			return fail("updated-notification-count", "round %d: the session is subscribed to r1 only and handled %d resources/updated notifications, want 1", round, n.updated-before)
		}
		got, err := read("file:///r1")
		if err != nil {
			return fail("read-failed", "%v", err)
		}
		if got != v {
			return fail("read-after-notification-stale", "round %d: resources/read of r1 after its resources/updated was handled returned %q, the server has %q", round, got, v)
		}
	}
	// the resource is replaced (same URI, other contents), later removed: both are announced with
	// resources/list_changed, and a read after that notification was handled reflects the change
	if _, err := read("file:///r2"); err != nil {
		return fail("read-failed", "%v", err)
	}
	before := n.resources
	s.AddResource(&Resource{URI: "file:///r2", Name: "r2 (replaced)"}, func(context.Context, *ReadResourceRequest) (*ReadResourceResult, error) {
		return &ReadResourceResult{Contents: []*ResourceContents{{URI: "file:///r2", Text: "replaced"}}}, nil
	})
	time.Sleep(time.Second)
	synctest.Wait()
	if n.resources == before {
		return fail("notification-lost replace", "replacing a resource produced no resources/list_changed")
	}
	if got, err := read("file:///r2"); err != nil || got != "replaced" {
		return fail("read-after-list-changed-stale", "the resource r2 was replaced; resources/read after the resources/list_changed notification was handled returned %q (%v), the server has %q", got, err, "replaced")
	}
	before = n.resources
	s.RemoveResources("file:///r2")
	time.Sleep(time.Second)
	synctest.Wait()
	if n.resources == before {
		return fail("notification-lost remove", "removing a resource produced no resources/list_changed")
	}
	if got, err := read("file:///r2"); err == nil {
		return fail("read-after-list-changed-stale", "the resource r2 was removed; resources/read after the resources/list_changed notification was handled still succeeds with %q", got)
	}
	return "read ok", "", ""
}

// c18kListenOverlap: one 2026-07-28 session with two listens open for the same kind (the one Connect
// opened and a second one); one of them ends.  The session still has a matching subscription, so a
// later change must still be announced to it.  ends: "older" or "newer".
func c18kListenOverlap(ends string) (obs, sig, msg string) {
	fail := func(s, format string, a ...any) (string, string, string) {
		return "", "c18 kinds listen-overlap " + s, fmt.Sprintf(format, a...) + fmt.Sprintf(" [the %s listen ends]", ends)
	}
	s := c18kServer(0)
	for _, kk := range c18kKinds() {
		kk.add(s, "base")
	}
	var n c18kCounts
	cs, err := c18kConnect(s, "2026-07-28", &n)
	if err != nil {
		return fail("connect", "%v", err)
	}
	defer cs.Close()
	settle := func() {
		time.Sleep(time.Second)
		synctest.Wait()
	}
	settle()
	ctxB, cancelB := context.WithCancel(context.Background())
	defer cancelB()
	if err := cs.subscriptionsListen(ctxB, &SubscriptionsListenParams{Notifications: &NotificationSubscriptions{ToolsListChanged: true}}); err != nil {
		return fail("second-listen-failed", "%v", err)
	}
	settle()
	if ends == "older" {
		cs.listenCancel()
	} else {
		cancelB()
	}
	settle()
	before := n.tools
	c18kKinds()[0].add(s, "added-later")
	settle()
	if n.tools == before {
		return fail("notification-lost "+ends+"-ends", "two tools/list_changed listens were open on the session, the %s one ended; the other is still open, yet a tool added afterwards was not announced", ends)
	}
	return "listen-overlap ok", "", ""
}

// c18kListenIndependence: a session's subscriptions are independent of each other.  Under
// 2026-07-28 each cs.Subscribe(uri) is its own subscriptions/listen next to the session's main
// listen (list-changed kinds); ending one of them (Unsubscribe) must not end the others.
func c18kListenIndependence(version string) (obs, sig, msg string) {
	fail := func(s, format string, a ...any) (string, string, string) {
		return "", "c18 kinds listen-independence " + s, fmt.Sprintf(format, a...) + fmt.Sprintf(" [version=%s]", version)
	}
	ctx := context.Background()
	s := c18kServer(0)
	for _, kk := range c18kKinds() {
		kk.add(s, "base")
	}
	for _, u := range []string{"file:///r1", "file:///r2"} {
		s.AddResource(&Resource{URI: u, Name: u}, func(context.Context, *ReadResourceRequest) (*ReadResourceResult, error) {
			return &ReadResourceResult{Contents: []*ResourceContents{{URI: u, Text: "x"}}}, nil
		})
	}
	var n c18kCounts
	cs, err := c18kConnect(s, version, &n)
	if err != nil {
		return fail("connect", "%v", err)
	}
	defer cs.Close()
	synctest.Wait()
	settle := func() {
		time.Sleep(time.Second)
		synctest.Wait()
	}
	if err := cs.Subscribe(ctx, &SubscribeParams{URI: "file:///r1"}); err != nil {
		return fail("subscribe-failed", "%v", err)
	}
	if err := cs.Subscribe(ctx, &SubscribeParams{URI: "file:///r2"}); err != nil {
		return fail("subscribe-failed", "%v", err)
	}
	settle()
	if err := cs.Unsubscribe(ctx, &UnsubscribeParams{URI: "file:///r2"}); err != nil {
		return fail("unsubscribe-failed", "%v", err)
	}
	settle()
	// the other resource subscription is still served
	before := n.updated
	s.ResourceUpdated(ctx, &ResourceUpdatedNotificationParams{URI: "file:///r1"})
	s.ResourceUpdated(ctx, &ResourceUpdatedNotificationParams{URI: "file:///r2"})
	settle()
	if n.updated != before+1 {
		return fail("updated-notification-count", "subscribed to r1 and r2, then unsubscribed r2: an update of both was announced with %d resources/updated notifications, want 1 (r1)", n.updated-before)
	}
	// ... and so are the list-changed subscriptions of every kind
	for _, k := range c18kKinds() {
		b := [3]int{n.tools, n.prompts, n.resources}
		k.add(s, "added-later")
		settle()
		got := map[string]int{"tools": n.tools - b[0], "prompts": n.prompts - b[1], "resources": n.resources - b[2]}[k.note]
		if got == 0 {
			return fail("notification-lost "+k.name, "after subscribing to two resources and unsubscribing one of them, a %s change is no longer announced to the session (it still has its list-changed handlers)", k.name)
		}
	}
	return "listen-independence ok", "", ""
}

// c18kRawLegacy: a peer that is not the SDK's client opens a session with the initialize handshake,
// naming whatever version it likes (a newer SDK names its own latest one; the server answers with a
// version of its own, and the session is a legacy session).  Whatever was named, the session is
// entitled to list-changed and resource-updated notifications, and the server may send it requests.
func c18kRawLegacy(version string) (obs, sig, msg string) { return c18kRawLegacyAt(version, false) }

// c18kRawLegacyAt: with lateInitialized the peer lists the tools as soon as its initialize has been
// answered, and sends notifications/initialized only after the change (and the debounce delay): it
// holds a list that has gone stale, so by the time it has completed the handshake - at the latest - it
// must have been told.
func c18kRawLegacyAt(version string, lateInitialized bool) (obs, sig, msg string) {
	fail := func(s, format string, a ...any) (string, string, string) {
		w := ""
		if lateInitialized {
			w = ", initialized sent after the change"
		}
		return "", "c18 kinds raw-legacy " + s, fmt.Sprintf(format, a...) + fmt.Sprintf(" [initialize named %s%s]", version, w)
	}
	ctx := context.Background()
	s := c18kServer(0)
	for _, kk := range c18kKinds() {
		kk.add(s, "base")
	}
	ct, st := NewInMemoryTransports()
	ss, err := s.Connect(ctx, st, nil)
	if err != nil {
		return fail("connect", "%v", err)
	}
	peer := ct.rwc
	defer func() { peer.Close(); ss.Close(); synctest.Wait() }()
	var lines []string
	go func() {
		sc := bufio.NewScanner(peer)
		sc.Buffer(make([]byte, 1<<20), 1<<20)
		for sc.Scan() {
			lines = append(lines, sc.Text())
			// answer the server's own requests
			var m struct {
				ID     json.RawMessage `json:"id"`
				Method string          `json:"method"`
			}
			if json.Unmarshal(sc.Bytes(), &m) == nil && m.Method == "roots/list" && m.ID != nil {
				io.WriteString(peer, `{"jsonrpc":"2.0","id":`+string(m.ID)+`,"result":{"roots":[]}}`+"\n")
			}
		}
	}()
	send := func(l string) { io.WriteString(peer, l+"\n") }
	count := func(method string) int {
		n := 0
		for _, l := range lines {
			if strings.Contains(l, `"method":"`+method+`"`) {
				n++
			}
		}
		return n
	}
	send(`{"jsonrpc":"2.0","id":1,"method":"initialize","params":{"protocolVersion":"` + version + `","capabilities":{"roots":{}},"clientInfo":{"name":"newer-sdk","version":"9"}}}`)
	synctest.Wait()
	if len(lines) != 1 || !strings.Contains(lines[0], `"result"`) {
		return fail("initialize-refused", "initialize answered with %q", lines)
	}
	var init struct {
		Result struct {
			ProtocolVersion string `json:"protocolVersion"`
		} `json:"result"`
	}
	json.Unmarshal([]byte(lines[0]), &init)
	if init.Result.ProtocolVersion >= "2026-07-28" || init.Result.ProtocolVersion == "" {
		return fail("initialize-answered-modern", "initialize answered with version %q", init.Result.ProtocolVersion)
	}
	if lateInitialized {
		send(`{"jsonrpc":"2.0","id":7,"method":"tools/list","params":{}}`)
		synctest.Wait()
		if !strings.Contains(lines[len(lines)-1], `"tools"`) {
			return fail("list-refused-after-initialize", "tools/list after the answered initialize: %q", lines[len(lines)-1])
		}
	} else {
		send(`{"jsonrpc":"2.0","method":"notifications/initialized","params":{}}`)
		send(`{"jsonrpc":"2.0","id":2,"method":"resources/subscribe","params":{"uri":"file:///base"}}`)
		synctest.Wait()
	}
	for _, kk := range c18kKinds() {
		kk.add(s, "x")
	}
	time.Sleep(time.Second) // the debounce delay passes
	synctest.Wait()
	if lateInitialized {
		send(`{"jsonrpc":"2.0","method":"notifications/initialized","params":{}}`)
		send(`{"jsonrpc":"2.0","id":2,"method":"resources/subscribe","params":{"uri":"file:///base"}}`)
		synctest.Wait()
		time.Sleep(time.Second)
		synctest.Wait()
	}
	for _, m := range []string{"notifications/tools/list_changed", "notifications/prompts/list_changed", "notifications/resources/list_changed"} {
		if count(m) == 0 {
			return fail("notification-lost "+m, "the session (initialize answered with %s) was sent no %s after a change; it received %q", init.Result.ProtocolVersion, m, lines)
		}
	}
	s.ResourceUpdated(ctx, &ResourceUpdatedNotificationParams{URI: "file:///base"})
	synctest.Wait()
	if count("notifications/resources/updated") != 1 {
		return fail("update-notification-lost", "subscribed to file:///base, yet %d resources/updated notifications arrived: %q", count("notifications/resources/updated"), lines)
	}
	rctx, cancel := context.WithTimeout(ctx, time.Minute)
	defer cancel()
	if _, err := ss.ListRoots(rctx, nil); err != nil {
		return fail("server-request-refused", "the session (initialize answered with %s) declared the roots capability, yet ListRoots fails: %v", init.Result.ProtocolVersion, err)
	}
	return "raw legacy session answered " + init.Result.ProtocolVersion, "", ""
}

func TestVerifC18Kinds(t *testing.T) {
	env := verifx.LoadEnv("C18")
	res := env.NewResult()
	cases := env.NewCases(res, "kinds-and-caches")
	run := func(desc string, f func() (string, string, string)) {
		idx, mine := cases.Next()
		if !mine {
			return
		}
		var obs, sig, msg string
		func() {
			defer func() {
				if r := recover(); r != nil {
					sig, msg = "c18 kinds panic-or-leak", fmt.Sprintf("%v [%s]", r, desc)
				}
			}()
			synctest.Test(t, func(t *testing.T) { obs, sig, msg = f() })
		}()
		if sig != "" {
			cases.Violate(idx, sig, msg, 8)
			return
		}
		cases.Record(idx, obs, 8, func() string { return desc })
	}
	for _, tr := range []string{"inmem", "http", "http-logged"} {
		via := func(f func() (string, string, string)) func() (string, string, string) {
			return func() (o, sg, m string) {
				c18kTransport = tr
				defer func() { c18kTransport = "" }()
				o, sg, m = f()
				if sg != "" {
					sg, m = sg+" transport="+tr, m+" [transport="+tr+"]"
				}
				return o + " " + tr, sg, m
			}
		}
		// "2029-01-01" and "1999-01-01": versions the server does not know; it answers initialize with the
		// newest legacy version, and the session is a legacy session like any other
		for _, version := range []string{"2025-06-18", "2026-07-28", "2024-11-05", "2029-01-01", "1999-01-01"} {
			for _, ttl := range []int{0, 60000} {
				for _, k := range c18kKinds() {
					run(fmt.Sprintf("list kind=%s version=%s ttl=%d transport=%s", k.name, version, ttl, tr), via(func() (string, string, string) { return c18kListCase(k, version, ttl) }))
				}
				run(fmt.Sprintf("read version=%s ttl=%d transport=%s", version, ttl, tr), via(func() (string, string, string) { return c18kReadCase(version, ttl) }))
			}
			run(fmt.Sprintf("listen-independence version=%s transport=%s", version, tr), via(func() (string, string, string) { return c18kListenIndependence(version) }))
			if tr == "inmem" && (version == "2025-06-18" || version == "2026-07-28") {
				for _, k := range c18kKinds() {
					for _, ps := range []int{1, 2} {
						run(fmt.Sprintf("paged list kind=%s version=%s page size %d", k.name, version, ps), via(func() (string, string, string) { return c18kPagedCase(k, version, 60000, ps) }))
					}
				}
			}
		}
		if tr == "inmem" {
			for _, version := range []string{"2024-11-05", "2025-03-26", "2025-06-18", "2025-11-25", "2026-07-28", "2029-01-01", "1999-01-01", ""} {
				run(fmt.Sprintf("raw-legacy initialize names %q", version), via(func() (string, string, string) { return c18kRawLegacy(version) }))
				run(fmt.Sprintf("raw-legacy initialize names %q, initialized sent after the change", version), via(func() (string, string, string) { return c18kRawLegacyAt(version, true) }))
			}
			for _, ends := range []string{"older", "newer"} {
				run(fmt.Sprintf("listen-overlap %s-ends", ends), via(func() (string, string, string) { return c18kListenOverlap(ends) }))
			}
		}
	}
	env.Finish(res)
}

// ---- session churn around the debounce timer: changes, sessions closing before the timer fires,
// changes while nobody is connected, new sessions connecting - in every order up to the depth.
// At the end of every history (plus one second) each live session has handled a tools/list_changed
// notification at least as late as the last change made while it was connected.

type c18cSess struct {
	cs          *ClientSession
	lastNote    time.Duration // virtual time of the last notification handled (-1: none)
	changeSince time.Duration // virtual time of the last change made while connected (-1: none)
}

func c18cRun(t *testing.T, hist []int) (out verifx.SearchResult) {
	defer func() {
		if r := recover(); r != nil {
			out = verifx.SearchResult{Bad: fmt.Sprintf("panic / bubble failure: %v", r), Sig: "c18 churn panic-or-leak"}
		}
	}()
	synctest.Test(t, func(t *testing.T) { out = c18cInBubble(hist) })
	return out
}

var c18cOps = []string{"a legacy session connects", "the oldest session closes", "a tool is added/removed", "5ms pass", "20ms pass"}

func c18cInBubble(hist []int) verifx.SearchResult {
	ctx := context.Background()
	t0 := time.Now()
	s := NewServer(&Implementation{Name: "srv", Version: "1"}, &ServerOptions{Logger: quietLogger})
	handler := func(context.Context, *CallToolRequest) (*CallToolResult, error) { return &CallToolResult{}, nil }
	s.AddTool(&Tool{Name: "base", InputSchema: map[string]any{"type": "object"}}, handler)
	var live []*c18cSess
	defer func() {
		for _, x := range live {
			x.cs.Close()
		}
	}()
	present := false
	connects := 0
	for _, op := range hist {
		switch op {
		case 0:
			if len(live) == 2 || connects == 3 {
				return verifx.SearchResult{Skip: true}
			}
			connects++
			x := &c18cSess{lastNote: -1, changeSince: -1}
			cl := NewClient(&Implementation{Name: "cli", Version: "1"}, &ClientOptions{Logger: quietLogger,
				ToolListChangedHandler: func(context.Context, *ToolListChangedRequest) { x.lastNote = time.Since(t0) }})
			ct, st := NewInMemoryTransports()
			if _, err := s.Connect(ctx, st, nil); err != nil {
				return verifx.SearchResult{Bad: err.Error(), Sig: "c18 churn setup"}
			}
			cs, err := cl.Connect(ctx, ct, &ClientSessionOptions{ProtocolVersion: "2025-06-18"})
			if err != nil {
				return verifx.SearchResult{Bad: err.Error(), Sig: "c18 churn setup"}
			}
			x.cs = cs
			live = append(live, x)
		case 1:
			if len(live) == 0 {
				return verifx.SearchResult{Skip: true}
			}
			live[0].cs.Close()
			live = live[1:]
		case 2:
			if present {
				s.RemoveTools("x")
			} else {
				s.AddTool(&Tool{Name: "x", InputSchema: map[string]any{"type": "object"}}, handler)
			}
			present = !present
			for _, x := range live {
				x.changeSince = time.Since(t0)
			}
		case 3:
			time.Sleep(5 * time.Millisecond)
		case 4:
			time.Sleep(20 * time.Millisecond)
		}
		synctest.Wait()
	}
	time.Sleep(time.Second)
	synctest.Wait()
	var names []string
	for _, op := range hist {
		names = append(names, c18cOps[op])
	}
	for i, x := range live {
		if x.changeSince >= 0 && x.lastNote < x.changeSince {
			return verifx.SearchResult{Sig: "c18 churn notification-lost", Bad: fmt.Sprintf("live session #%d: the last change made while it was connected happened at %v, its last tools/list_changed notification was handled at %v (-1ns = never), one second after the history [history: %s]", i+1, x.changeSince, x.lastNote, strings.Join(names, " ; "))}
		}
	}
	// state key: the operations themselves (timer state is not observable): exhaustive up to the depth
	return verifx.SearchResult{Key: fmt.Sprint(hist), Obs: fmt.Sprintf("live=%d", len(live))}
}

func TestVerifC18Churn(t *testing.T) {
	env := verifx.LoadEnv("C18")
	res := env.NewResult()
	d := env.Pick(6, 8)
	env.RunSearch(res, &verifx.Search{
		Name: "session-churn-around-the-debounce-timer", NumOps: len(c18cOps), OpName: func(i int) string { return c18cOps[i] },
		MaxDepth: d, ShallowDepth: d,
		Run: func(h []int) verifx.SearchResult { return c18cRun(t, h) },
	})
	env.Finish(res)
}
