package mcp

// C01: every outgoing call completes exactly once.  Driven at the
// jsonrpc2.Connection seam with a scripted Reader/Writer/Closer, (a) with plain
// Call+Await and (b) through mcp's call() (error mapping, eager retire and
// best-effort cancel notification on context cancellation).

import (
	"context"
	"encoding/json"
	"errors"
	"fmt"
	"io"
	"math"
	"sort"
	"strings"
	"testing"

	"github.com/modelcontextprotocol/go-sdk/internal/jsonrpc2"
	"github.com/modelcontextprotocol/go-sdk/internal/verifx"
	vs "github.com/modelcontextprotocol/go-sdk/internal/vsched"
)

var errBrokenPipe = errors.New("verif: broken pipe")
var errReadFail = errors.New("verif: read failed")

type c01World struct {
	// ground truth, written by harness threads while they hold the baton.  Per-call facts live in
	// c01Facts (fixed slots, no maps): the free-running race pass runs the same body with real
	// concurrency, where a shared map would trip the runtime's fatal "concurrent map writes" and
	// take the whole worker down, while locking here would add happens-before edges between the
	// SDK goroutines that call Write and blind the detector.
	answered   c01Facts // method tag -> "ok" | "err"
	readEnded  string   // "", "eof", "err"
	writeFault c01Facts
	brokenW    bool
	closeCalld bool
	waitDone   bool
	cancelled  [c01Slots]bool
}

const c01Slots = 8

// c01Facts maps the method tags of a scenario ("m0".."m6", "bad") to a string, one fixed slot per tag.
type c01Facts [c01Slots]string

func c01Slot(tag string) int {
	if tag == "bad" {
		return c01Slots - 1
	}
	i := -1
	fmt.Sscanf(tag, "m%d", &i)
	if i < 0 || i >= c01Slots-1 {
		panic("verif: c01 harness: no slot for method " + tag)
	}
	return i
}

func (f *c01Facts) set(tag, v string)     { f[c01Slot(tag)] = v }
func (f *c01Facts) get(tag string) string { return f[c01Slot(tag)] }

type c01T struct {
	w      *c01World
	outbox chan *jsonrpc2.Request
	inbox  chan jsonrpc2.Message
	rerr   chan error
	closed chan struct{}
	once   bool
	faults bool
}

func (f *c01T) Read(ctx context.Context) (jsonrpc2.Message, error) {
	select {
	case m := <-f.inbox:
		return m, nil
	case err := <-f.rerr:
		return nil, err
	case <-f.closed:
		return nil, io.EOF
	}
}

func (f *c01T) Write(ctx context.Context, m jsonrpc2.Message) error {
	if err := ctx.Err(); err != nil {
		return err
	}
	r, ok := m.(*jsonrpc2.Request)
	if !ok || !r.IsCall() {
		return nil
	}
	if f.faults {
		switch vs.Choose("fault-write", 3, 1) {
		case 1:
			f.w.writeFault.set(r.Method, "rejected")
			return fmt.Errorf("%w: not now", jsonrpc2.ErrRejected)
		case 2:
			f.w.writeFault.set(r.Method, "broken")
			f.w.brokenW = true
			return errBrokenPipe
		}
	}
	select {
	case f.outbox <- r:
		return nil
	case <-f.closed:
		return io.ErrClosedPipe
	}
}

func (f *c01T) SessionID() string { return "" }

// c01Transport hands out the scripted connection (so that it can be wrapped like any transport).
type c01Transport struct{ conn *c01T }

func (t c01Transport) Connect(context.Context) (Connection, error) { return t.conn, nil }

func (f *c01T) Close() error {
	if !f.once {
		f.once = true
		close(f.closed)
	}
	return nil
}

func c01ErrCode(tag string) int64 {
	var i int64
	fmt.Sscanf(tag, "m%d", &i)
	return 4200 + i
}

type c01Opts struct {
	k       int
	faults  bool // write faults
	cancel  bool // a canceller thread cancels caller 0
	closer  bool // a Close thread
	readEnd bool // the peer may end the read side
	viaMCP  bool // callers use mcp's call() instead of Call+Await
	// badParams: one more caller whose parameters cannot be marshalled (NaN); its call fails
	// without anything being written, exactly once, and leaves nothing behind
	badParams bool
	// logged: the connection is wrapped in the SDK's LoggingTransport (a pass-through that must
	// hand every result and error of the wrapped connection on unchanged)
	logged bool
}

func c01Scenario(o c01Opts) vs.Verdict {
	w := &c01World{}
	ft := &c01T{w: w, outbox: make(chan *jsonrpc2.Request, 8), inbox: make(chan jsonrpc2.Message, 16), rerr: make(chan error, 1), closed: make(chan struct{}), faults: o.faults}
	var internalErr string
	var rwc Connection = ft
	if o.logged {
		rwc, _ = (&LoggingTransport{Transport: c01Transport{ft}, Writer: io.Discard}).Connect(context.Background())
	}
	c := jsonrpc2.NewConnection(context.Background(), jsonrpc2.ConnectionConfig{
		Reader: rwc, Writer: rwc, Closer: rwc,
		Bind: func(*jsonrpc2.Connection) jsonrpc2.Handler {
			return jsonrpc2.HandlerFunc(func(ctx context.Context, r *jsonrpc2.Request) (any, error) { return nil, jsonrpc2.ErrNotHandled })
		},
		OnInternalError: func(err error) { internalErr = err.Error() },
	})
	results := make([]string, o.k)
	bad := ""
	fail := func(sig, format string, a ...any) {
		if bad == "" {
			bad = sig + "\x00" + fmt.Sprintf(format, a...)
		}
	}
	done := make(chan int, o.k+4)
	ctxs := make([]context.Context, o.k)
	cancels := make([]context.CancelFunc, o.k)
	for i := range ctxs {
		ctxs[i], cancels[i] = context.WithCancel(context.Background())
	}
	quit := make(chan struct{})

	// peer: consumes written calls and answers them according to a free menu
	vs.GoDaemon(func() {
		answer := func(r *jsonrpc2.Request, mode int) {
			id := r.ID.Raw().(int64)
			okPayload := func(tag string) json.RawMessage {
				return json.RawMessage(`{"content":[{"type":"text","text":"` + tag + `"}]}`)
			}
			switch mode {
			case 0:
				w.answered.set(r.Method, "ok")
				ft.inbox <- &jsonrpc2.Response{ID: r.ID, Result: okPayload(r.Method)}
			case 1:
				w.answered.set(r.Method, "err")
				ft.inbox <- &jsonrpc2.Response{ID: r.ID, Error: &jsonrpc2.WireError{Code: c01ErrCode(r.Method), Message: "peer error " + r.Method, Data: json.RawMessage(`{"d":"` + r.Method + `"}`)}}
			case 2: // a response to an id that was never issued, then the real one
				ft.inbox <- &jsonrpc2.Response{ID: jsonrpc2.Int64ID(1000 + id), Result: okPayload("bogus")}
				w.answered.set(r.Method, "ok")
				ft.inbox <- &jsonrpc2.Response{ID: r.ID, Result: okPayload(r.Method)}
			}
		}
		var handle func(r *jsonrpc2.Request)
		handle = func(r *jsonrpc2.Request) {
			if w.readEnded != "" {
				return // the read side is gone: nothing can be answered any more
			}
			n := 4
			if o.readEnd {
				n = 6
			}
			switch m := vs.Choose("peer", n, 0); m {
			case 0, 1, 2:
				answer(r, m)
			case 3:
				// hold: let everything else run dry, serve what arrived meanwhile, then answer late
				vs.WaitIdle()
				for more := true; more; {
					select {
					case r2 := <-ft.outbox:
						handle(r2)
					default:
						more = false
					}
				}
				if w.readEnded == "" {
					answer(r, 0)
				}
			case 4:
				w.readEnded = "eof"
				ft.rerr <- io.EOF
			case 5:
				w.readEnded = "err"
				ft.rerr <- errReadFail
			}
		}
		for {
			select {
			case r := <-ft.outbox:
				handle(r)
			case <-quit:
				return
			case <-ft.closed:
				return
			}
		}
	})

	for i := 0; i < o.k; i++ {
		vs.Go(func() {
			var r CallToolResult
			tag := fmt.Sprintf("m%d", i)
			var err error
			if o.viaMCP {
				err = call(ctxs[i], c, tag, &CallToolParams{Name: tag}, &r)
			} else {
				ac := c.Call(ctxs[i], tag, &CallToolParams{Name: tag})
				err = ac.Await(ctxs[i], &r)
			}
			gotTag := ""
			if len(r.Content) == 1 {
				if tc, ok := r.Content[0].(*TextContent); ok {
					gotTag = tc.Text
				}
			}
			switch {
			case err == nil:
				results[i] = "ok"
				if gotTag != tag {
					fail("wrong-response", "caller %d received the payload of %q", i, gotTag)
				} else if w.answered.get(tag) != "ok" {
					fail("phantom-success", "caller %d succeeded although the peer never answered %s with a result", i, tag)
				}
			default:
				results[i] = "err"
				var we *jsonrpc2.WireError
				switch {
				case errors.As(err, &we) && we.Code == c01ErrCode(tag):
					if w.answered.get(tag) != "err" || we.Message != "peer error "+tag || string(we.Data) != `{"d":"`+tag+`"}` {
						fail("error-payload", "caller %d got error payload %+v not matching the peer's answer", i, we)
					}
					results[i] = "peererr"
				case errors.Is(err, context.Canceled):
					if !w.cancelled[i] {
						fail("spurious-cancel", "caller %d got context.Canceled but was never cancelled", i)
					}
					results[i] = "cancelled"
				case errors.Is(err, jsonrpc2.ErrRejected):
					if w.writeFault.get(tag) != "rejected" {
						fail("spurious-rejected", "caller %d got jsonrpc2.ErrRejected but its write was not rejected", i)
					}
					results[i] = "rejected"
				case errors.Is(err, errBrokenPipe):
					if w.writeFault.get(tag) != "broken" {
						fail("spurious-broken", "caller %d got the broken-pipe error of another write", i)
					}
					results[i] = "broken"
				case errors.Is(err, io.EOF) || errors.Is(err, errReadFail):
					if w.readEnded == "" && !w.closeCalld && !w.brokenW {
						fail("spurious-readerr", "caller %d got %v although the reader never failed", i, err)
					}
					results[i] = "readerr"
				case errors.Is(err, jsonrpc2.ErrClientClosing) || errors.Is(err, jsonrpc2.ErrServerClosing) || errors.Is(err, io.ErrClosedPipe) || errors.Is(err, ErrConnectionClosed):
					if !w.closeCalld && w.readEnded == "" && !w.brokenW {
						fail("spurious-closing", "caller %d got %v although nothing closed or broke the connection", i, err)
					}
					results[i] = "closing"
				default:
					fail("unexpected-error", "caller %d got unexpected error %v", i, err)
				}
			}
			done <- i
		})
	}
	if o.badParams {
		vs.Go(func() {
			var r CallToolResult
			params := &CallToolParams{Name: "bad", Arguments: map[string]any{"ratio": math.NaN()}}
			var err error
			if o.viaMCP {
				err = call(context.Background(), c, "bad", params, &r)
			} else {
				err = c.Call(context.Background(), "bad", params).Await(context.Background(), &r)
			}
			if err == nil {
				fail("unmarshalable-call-succeeded", "a call whose parameters cannot be marshalled returned no error")
			} else if w.answered.get("bad") != "" {
				fail("unmarshalable-call-written", "a call whose parameters cannot be marshalled reached the peer")
			}
			done <- -3
		})
	}
	if o.cancel {
		vs.Go(func() {
			vs.Point()
			w.cancelled[0] = true
			cancels[0]()
			done <- -2
		})
	}
	if o.closer {
		vs.Go(func() {
			vs.Point()
			w.closeCalld = true
			c.Close()
			done <- -1
		})
	}
	n := o.k
	if o.badParams {
		n++
	}
	if o.cancel {
		n++
	}
	if o.closer {
		n++
	}
	for i := 0; i < n; i++ {
		<-done
	}
	w.closeCalld = true
	c.Close()
	c.Wait()
	w.waitDone = true
	// a call started after Wait returned fails immediately with a closing error
	if o.viaMCP {
		err := call(context.Background(), c, "late", &CallToolParams{Name: "late"}, &CallToolResult{})
		if !errors.Is(err, ErrConnectionClosed) {
			fail("late-call-error", "call after Wait returned %v, want an error that is ErrConnectionClosed", err)
		}
	} else {
		// (if the call were not complete, Await would block forever: deadlock oracle)
		err := c.Call(context.Background(), "late", nil).Await(context.Background(), nil)
		if !errors.Is(err, jsonrpc2.ErrClientClosing) {
			fail("late-call-error", "call after Wait returned %v, want an error that is ErrClientClosing", err)
		}
	}
	close(quit)
	for _, cf := range cancels {
		cf()
	}
	if internalErr != "" {
		fail("internal-error", "internal error reported: %s", internalErr)
	}
	// completeness: an error result needs a cause that occurred in this execution
	sorted := append([]string{}, results...)
	sort.Strings(sorted)
	obs := strings.Join(sorted, ",") + " read=" + w.readEnded
	if bad != "" {
		sig, msg, _ := strings.Cut(bad, "\x00")
		return vs.Verdict{Obs: obs, Bad: msg, Sig: "c01a " + sig}
	}
	return vs.Verdict{Obs: obs}
}

func TestVerifC01(t *testing.T) {
	env := verifx.LoadEnv("C01")
	q := env.Quick()
	b := func(quick, thorough int) int {
		if q {
			return quick
		}
		return thorough
	}
	mk := func(name string, budget int, o c01Opts, opt vs.Options) *verifx.Scenario {
		return vs.E1(t, name, budget, opt, func() vs.Verdict { return c01Scenario(o) })
	}
	var scs []*verifx.Scenario
	for _, via := range []bool{false, true} {
		p := "a/"
		if via {
			p = "b/"
		}
		scs = append(scs,
			mk(p+"k2-peer-menu", b(2, 3), c01Opts{k: 2, readEnd: true, viaMCP: via}, vs.Options{}),
			mk(p+"k2-write-faults", b(2, 3), c01Opts{k: 2, faults: true, readEnd: true, viaMCP: via}, vs.Options{}),
			mk(p+"k2-cancel", b(2, 3), c01Opts{k: 2, cancel: true, readEnd: true, viaMCP: via}, vs.Options{}),
			mk(p+"k2-close", b(2, 3), c01Opts{k: 2, closer: true, readEnd: true, viaMCP: via}, vs.Options{}),
			mk(p+"k2-write-faults/logging-transport", b(2, 3), c01Opts{k: 2, faults: true, readEnd: true, viaMCP: via, logged: true}, vs.Options{}),
			mk(p+"k1-unmarshalable-params", b(2, 3), c01Opts{k: 1, badParams: true, closer: true, readEnd: true, viaMCP: via}, vs.Options{}),
			mk(p+"k3-all", b(1, 2), c01Opts{k: 3, closer: true, cancel: true, faults: true, readEnd: true, viaMCP: via}, vs.Options{}),
			// "for all numbers of concurrent calls": more callers at a smaller deviation budget
			mk(p+"k5-cancel-close", b(0, 1), c01Opts{k: 5, closer: true, cancel: true, readEnd: true, viaMCP: via}, vs.Options{}),
		)
		if !q {
			scs = append(scs,
				mk(p+"k2-close-frontq", 2, c01Opts{k: 2, closer: true, readEnd: true, faults: true, viaMCP: via}, vs.Options{Front: true}),
				mk(p+"k3-close", 2, c01Opts{k: 3, closer: true, viaMCP: via}, vs.Options{}),
			)
		}
	}
	scs = append(scs, vs.E1(t, "a/sse-client-last-words", b(2, 3), vs.Options{}, func() vs.Verdict { return c01SSELastWords() }))
	env.Run(scs)
}
