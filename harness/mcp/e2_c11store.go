package mcp

// C11 when the event store fails an Append in the middle of a session (disk full, quota, a backing
// service hiccup).  Whatever the transport makes of the failed write - drop the message, end the
// session - the session id keeps addressing exactly one server session: as long as the server lists
// the session the id is honoured (a ping is answered 200), and once the server has closed and
// forgotten it the id is dead for every method (404) and the handler has forgotten it too.

import (
	"context"
	"errors"
	"fmt"
	"io"
	"iter"
	"net/http"
	"net/http/httptest"
	"strings"
	"testing"
	"testing/synctest"
	"time"

	"github.com/modelcontextprotocol/go-sdk/internal/verifx"
)

// c11FaultyAppendStore fails the Append calls whose (1-based) ordinal among the non-empty appends is
// in failAt (armed only after the handshake).
type c11FaultyAppendStore struct {
	inner  EventStore
	armed  bool
	n      int
	failAt map[int]bool
	failed int
}

func (s *c11FaultyAppendStore) Open(ctx context.Context, sessionID, streamID string) error {
	return s.inner.Open(ctx, sessionID, streamID)
}
func (s *c11FaultyAppendStore) Append(ctx context.Context, sessionID, streamID string, data []byte) error {
	if s.armed && len(data) > 0 {
		s.n++
		if s.failAt[s.n] {
			s.failed++
			return errors.New("verif: event store: no space left on device")
		}
	}
	return s.inner.Append(ctx, sessionID, streamID, data)
}
func (s *c11FaultyAppendStore) After(ctx context.Context, sessionID, streamID string, index int) iter.Seq2[[]byte, error] {
	return s.inner.After(ctx, sessionID, streamID, index)
}
func (s *c11FaultyAppendStore) SessionClosed(ctx context.Context, sessionID string) error {
	return s.inner.SessionClosed(ctx, sessionID)
}

func c11AppendFaultCase(traffic string, failAt []int, probes []string, version string) (obs, sig, msg string) {
	fail := func(s, format string, a ...any) (string, string, string) {
		return "", "c11 append-fault " + s, fmt.Sprintf(format, a...) + fmt.Sprintf(" [traffic=%s, appends that fail=%v, then %v, version=%s]", traffic, failAt, probes, version)
	}
	store := &c11FaultyAppendStore{inner: NewMemoryEventStore(nil), failAt: map[int]bool{}}
	for _, k := range failAt {
		store.failAt[k] = true
	}
	s := NewServer(&Implementation{Name: "srv", Version: "1"}, &ServerOptions{Logger: quietLogger})
	AddTool(s, &Tool{Name: "t"}, func(ctx context.Context, r *CallToolRequest, in map[string]any) (*CallToolResult, any, error) {
		if traffic == "call-with-progress" {
			r.Session.NotifyProgress(ctx, &ProgressNotificationParams{ProgressToken: "p", Progress: 1, Message: "half way"})
		}
		return &CallToolResult{Content: []Content{&TextContent{Text: "ok"}}}, nil, nil
	})
	h := NewStreamableHTTPHandler(func(*http.Request) *Server { return s }, &StreamableHTTPOptions{Logger: quietLogger, EventStore: store})
	var cancels []context.CancelFunc
	defer func() {
		for _, c := range cancels {
			c()
		}
		for ss := range s.Sessions() {
			ss.Close()
		}
		synctest.Wait()
	}()
	do := func(method, sid, body string) (*httptest.ResponseRecorder, chan struct{}) {
		var rd io.Reader
		if body != "" {
			rd = strings.NewReader(body)
		}
		ctx, cancel := context.WithCancel(context.Background())
		cancels = append(cancels, cancel)
		r := httptest.NewRequest(method, "http://example.test/mcp", rd).WithContext(ctx)
		r.Header.Set("Accept", "application/json, text/event-stream")
		if body != "" {
			r.Header.Set("Content-Type", "application/json")
		}
		if sid != "" {
			r.Header.Set("Mcp-Session-Id", sid)
			r.Header.Set("Mcp-Protocol-Version", version)
		}
		w := httptest.NewRecorder()
		done := make(chan struct{})
		go func() { defer close(done); h.ServeHTTP(w, r) }()
		synctest.Wait()
		return w, done
	}
	finished := func(done chan struct{}) bool {
		select {
		case <-done:
			return true
		default:
			return false
		}
	}
	w, _ := do("POST", "", `{"jsonrpc":"2.0","id":"i","method":"initialize","params":{"protocolVersion":"`+version+`","capabilities":{},"clientInfo":{"name":"c","version":"1"}}}`)
	sid := w.Header().Get("Mcp-Session-Id")
	if w.Code != 200 || sid == "" {
		return fail("setup", "initialize: %d", w.Code)
	}
	do("POST", sid, `{"jsonrpc":"2.0","method":"notifications/initialized","params":{}}`)
	var ss *ServerSession
	for x := range s.Sessions() {
		ss = x
	}
	if ss == nil {
		return fail("setup", "no server session")
	}
	store.armed = true
	// the traffic during which the store fails
	switch traffic {
	case "call", "call-with-progress":
		for i := 0; i < 2; i++ {
			do("POST", sid, fmt.Sprintf(`{"jsonrpc":"2.0","id":%d,"method":"tools/call","params":{"name":"t","arguments":{},"_meta":{"progressToken":"p"}}}`, 10+i))
		}
	case "standalone-notifications":
		_, _ = do("GET", sid, "")
		for i := 0; i < 2; i++ {
			ss.NotifyProgress(context.Background(), &ProgressNotificationParams{ProgressToken: "q", Progress: float64(i), Message: "tick"})
			synctest.Wait()
		}
	}
	time.Sleep(time.Second)
	synctest.Wait()
	if store.failed == 0 {
		return fail("setup", "no append failed (%d appends seen)", store.n)
	}
	listed := func() bool {
		for x := range s.Sessions() {
			if x == ss {
				return true
			}
		}
		return false
	}
	tracked := func() bool {
		if tracked, ok := privHandlerTracks(h, sid); ok {
			return tracked
		}
		return listed() // (no private view of the handler's table: taken to agree with the server)
	}
	var seen []string
	for _, probe := range probes {
		was := listed()
		if tracked() != was {
			return fail("handler-and-server-disagree", "before %s: the server lists the session: %v, the handler still tracks its id: %v", probe, was, tracked())
		}
		var w *httptest.ResponseRecorder
		var done chan struct{}
		switch probe {
		case "POST":
			w, done = do("POST", sid, `{"jsonrpc":"2.0","id":"probe","method":"ping"}`)
			if !finished(done) {
				return fail("probe-hangs POST", "a ping on the session does not complete (server lists the session: %v)", was)
			}
			if was && (w.Code != 200 || !strings.Contains(w.Body.String(), `"result"`)) {
				return fail(fmt.Sprintf("live-session-unusable POST got %d", w.Code), "the server lists the session, a ping with its id is answered %d %q", w.Code, w.Body.String())
			}
		case "GET":
			w, done = do("GET", sid, "")
			if was && finished(done) && w.Code == 404 {
				return fail("live-session-unusable GET got 404", "the server lists the session, a GET with its id is answered 404")
			}
		case "DELETE":
			w, done = do("DELETE", sid, "")
			if !finished(done) {
				return fail("probe-hangs DELETE", "a DELETE of the session does not complete (server lists the session: %v)", was)
			}
			if was && w.Code != 204 {
				return fail(fmt.Sprintf("live-session-unusable DELETE got %d", w.Code), "the server lists the session, a DELETE with its id is answered %d", w.Code)
			}
			if listed() {
				return fail("delete-leaves-session", "after a DELETE answered %d the server still lists the session", w.Code)
			}
		}
		if !was && !(finished(done) && w.Code == 404) {
			return fail(fmt.Sprintf("dead-session-id-honoured %s got %d", probe, w.Code), "the server has closed and forgotten the session, yet a %s with its id is answered %d (finished=%v) %q", probe, w.Code, finished(done), w.Body.String())
		}
		seen = append(seen, fmt.Sprintf("%s:%d", probe, w.Code))
	}
	if tracked() != listed() {
		return fail("handler-and-server-disagree", "at the end: the server lists the session: %v, the handler still tracks its id: %v", listed(), tracked())
	}
	return strings.Join(seen, " "), "", ""
}

func TestVerifC11Store(t *testing.T) {
	env := verifx.LoadEnv("C11")
	res := env.NewResult()
	cases := env.NewCases(res, "event-store-append-fails-mid-session")
	orders := [][]string{{"POST", "GET", "DELETE"}, {"POST", "DELETE", "GET"}, {"GET", "POST", "DELETE"}, {"GET", "DELETE", "POST"}, {"DELETE", "POST", "GET"}, {"DELETE", "GET", "POST"}, {"POST", "POST", "POST"}}
	for _, version := range []string{"2025-06-18", "2025-11-25"} {
		for _, traffic := range []string{"call", "call-with-progress", "standalone-notifications"} {
			for _, failAt := range [][]int{{1}, {2}, {1, 2}, {3}, {1, 2, 3, 4}} {
				for _, probes := range orders {
					idx, mine := cases.Next()
					if !mine {
						continue
					}
					desc := fmt.Sprintf("traffic=%s fail=%v probes=%v version=%s", traffic, failAt, probes, version)
					var obs, sig, msg string
					func() {
						defer func() {
							if r := recover(); r != nil && sig == "" {
								sig, msg = "c11 append-fault panic-or-leak", fmt.Sprintf("%v [%s]", r, desc)
							}
						}()
						synctest.Test(t, func(t *testing.T) { obs, sig, msg = c11AppendFaultCase(traffic, failAt, probes, version) })
					}()
					if sig == "c11 append-fault setup" && strings.Contains(msg, "no append failed") {
						cases.Record(idx, "fault-not-reached", 1, func() string { return desc })
						continue
					}
					if sig != "" {
						cases.Violate(idx, sig, msg, 5)
						continue
					}
					cases.Record(idx, obs, 5, func() string { return desc })
				}
			}
		}
	}
	env.Finish(res)
}
