package mcp

// C13 (E1): keep-alive and a graceful Close.  A server session with keep-alive enabled is closed
// while a tool handler is still running; Close waits for the handler.  Keep-alive ends silently
// when the session is closed: it must not count the pings that the closing connection refuses as
// misses and cut the transport under the handler - the live peer gets its answer.  The moment of
// Close relative to the ticks (before, exactly on, after a tick) and the schedule are explored.

import (
	"context"
	"fmt"
	"log/slog"
	"strings"
	"testing"
	"time"

	"github.com/modelcontextprotocol/go-sdk/internal/verifx"
	vs "github.com/modelcontextprotocol/go-sdk/internal/vsched"
)

// c13LogHandler turns the server's keep-alive log records into events of the execution.
type c13LogHandler struct{}

func (c13LogHandler) Enabled(context.Context, slog.Level) bool { return true }
func (c13LogHandler) Handle(_ context.Context, r slog.Record) error {
	if strings.Contains(r.Message, "keepalive") {
		msg := r.Message
		r.Attrs(func(a slog.Attr) bool {
			if a.Key == "error" || a.Key == "consecutiveFailures" {
				msg += fmt.Sprintf(" %s=%v", a.Key, a.Value)
			}
			return true
		})
		vs.Event("log: %s", msg)
	}
	return nil
}
func (h c13LogHandler) WithAttrs([]slog.Attr) slog.Handler { return h }
func (h c13LogHandler) WithGroup(string) slog.Handler      { return h }

func c13CloseDrain(threshold int) vs.Verdict {
	f := &e1Fail{prefix: "c13 close-drain"}
	ctx := context.Background()
	const interval = 2 * time.Second
	vs.Quiet(true)
	closeAt := []time.Duration{1 * time.Second, 2 * time.Second, 3 * time.Second, 4 * time.Second}[vs.Choose("close-at", 4, 0)]
	handlerFor := 9 * time.Second // the handler outlives Close by more than threshold ticks
	s := NewServer(&Implementation{Name: "srv", Version: "1"}, &ServerOptions{Logger: slog.New(c13LogHandler{}), KeepAlive: interval, KeepAliveFailureThreshold: threshold})
	started := make(chan struct{})
	AddTool(s, &Tool{Name: "slow"}, func(ctx context.Context, r *CallToolRequest, in map[string]any) (*CallToolResult, any, error) {
		close(started)
		time.Sleep(handlerFor)
		vs.Event("handler finished")
		return &CallToolResult{Content: []Content{&TextContent{Text: "done"}}}, nil, nil
	})
	ct, st := NewInMemoryTransports()
	ss, err := s.Connect(ctx, st, nil)
	if err != nil {
		return vs.Verdict{Bad: "server connect: " + err.Error(), Sig: "c13 connect-failed"}
	}
	c := NewClient(&Implementation{Name: "cli", Version: "1"}, &ClientOptions{Logger: quietLogger})
	cs, err := c.Connect(ctx, ct, &ClientSessionOptions{ProtocolVersion: "2025-06-18"})
	if err != nil {
		return vs.Verdict{Bad: "client connect: " + err.Error(), Sig: "c13 connect-failed"}
	}
	t0 := time.Now()
	vs.Quiet(false)
	done := make(chan string, 4)
	var callErr error
	var res *CallToolResult
	vs.Go(func() {
		res, callErr = cs.CallTool(ctx, &CallToolParams{Name: "slow", Arguments: map[string]any{}})
		done <- "call"
	})
	<-started
	vs.Go(func() {
		time.Sleep(closeAt - time.Since(t0))
		vs.Event("close called")
		ss.Close()
		vs.Event("close returned at %v", time.Since(t0))
		done <- "close"
	})
	<-done
	<-done
	vs.Quiet(true)
	cs.Close()
	vs.WaitIdle()
	vs.Quiet(false)
	evs := vs.Events()
	switch {
	case callErr != nil:
		f.failf(fmt.Sprintf("live-peer-cut-during-close th=%d", threshold), "Close at %v with the handler running until %v: the handler was allowed to finish but its caller got %v - keep-alive (interval %v, threshold %d) kept counting while the session was closing: %s", closeAt, handlerFor, callErr, interval, threshold, evJoin(evs))
	case len(res.Content) != 1:
		f.failf("wrong-result", "%+v", res)
	}
	if evIndex(evs, "handler finished") < 0 {
		f.failf("handler-abandoned", "the handler never finished: %s", evJoin(evs))
	}
	return f.verdict(fmt.Sprintf("closeAt=%v th=%d callErr=%v", closeAt, threshold, callErr != nil))
}

func TestVerifC13Close(t *testing.T) {
	env := verifx.LoadEnv("C13")
	scs := []*verifx.Scenario{
		vs.E1(t, "close-drains-handler/threshold=1", env.Pick(2, 3), vs.Options{}, func() vs.Verdict { return c13CloseDrain(1) }),
		vs.E1(t, "close-drains-handler/threshold=2", env.Pick(2, 3), vs.Options{}, func() vs.Verdict { return c13CloseDrain(2) }),
	}
	env.Run(scs)
}
