package mcp

// C20: the in-memory event store replays exactly what was appended, or reports the purge.
// Explicit-state search over operation histories of the real MemoryEventStore,
// compared after every operation with a reference model (plain slices).

import (
	"context"
	"errors"
	"fmt"
	"math"
	"strings"
	"testing"

	"github.com/modelcontextprotocol/go-sdk/internal/verifx"
)

type c20Op struct {
	kind    string // open, append, after, setmax, closed
	s, t    int
	size    int  // append: payload size
	idx     int  // after: index (-1,0,1,2) or -2 = "last"
	n       int  // setmax
	during  bool // after: append to the sibling stream while the iterator is being consumed
	display string
}

const c20Limit = 4

func c20Alphabet() []c20Op {
	var ops []c20Op
	for s := 0; s < 2; s++ {
		for t := 0; t < 2; t++ {
			ops = append(ops, c20Op{kind: "open", s: s, t: t, display: fmt.Sprintf("Open(s%d,t%d)", s, t)})
			for _, sz := range []int{0, 1, 2, c20Limit, c20Limit + 1} {
				ops = append(ops, c20Op{kind: "append", s: s, t: t, size: sz, display: fmt.Sprintf("Append(s%d,t%d,%dB)", s, t, sz)})
			}
			for _, i := range []int{-1, 0, 1, 2, -2, math.MaxInt, -5, math.MinInt} {
				name := fmt.Sprint(i)
				if i == -2 {
					name = "last"
				}
				if i == math.MaxInt {
					name = "MaxInt"
				}
				if i == math.MinInt {
					name = "MinInt"
				}
				ops = append(ops, c20Op{kind: "after", s: s, t: t, idx: i, display: fmt.Sprintf("After(s%d,t%d,%s)", s, t, name)})
			}
		}
		for t := 0; t < 2; t++ {
			// a replay that is still being consumed while another stream's append forces a purge
			ops = append(ops, c20Op{kind: "after", s: s, t: t, idx: -1, during: true, display: fmt.Sprintf("After(s%d,t%d,-1)+Append(s%d,t%d,%dB) after the first item", s, t, s, 1-t, c20Limit)})
		}
		ops = append(ops, c20Op{kind: "closed", s: s, display: fmt.Sprintf("SessionClosed(s%d)", s)})
	}
	for _, n := range []int{1, 2, 4} {
		ops = append(ops, c20Op{kind: "setmax", n: n, display: fmt.Sprintf("SetMaxBytes(%d)", n)})
	}
	return ops
}

// c20Model is the reference: everything ever appended per stream since the session was last closed.
type c20Model struct {
	appended map[[2]int][][]byte // (session, stream) -> payloads in append order
	open     map[[2]int]bool
	max      int
	lastSize int // size of the most recently appended item
}

func c20Payload(s, t, i, size int) []byte {
	// content identifies (stream, index) so that any mix-up is visible
	b := []byte(fmt.Sprintf("%d%d%d", s, t, i%10))
	for len(b) < size {
		b = append(b, 'x')
	}
	return b[:size]
}

func c20Run(ops []c20Op, hist []int) verifx.SearchResult {
	ctx := context.Background()
	st := NewMemoryEventStore(nil)
	st.SetMaxBytes(c20Limit)
	m := &c20Model{appended: map[[2]int][][]byte{}, open: map[[2]int]bool{}, max: c20Limit}
	sid := func(s int) string { return fmt.Sprintf("s%d", s) }
	tid := func(t int) string { return fmt.Sprintf("t%d", t) }
	bad := func(sig, format string, a ...any) verifx.SearchResult {
		return verifx.SearchResult{Bad: fmt.Sprintf(format, a...), Sig: "c20 " + sig}
	}
	obs := ""
	for step, opi := range hist {
		op := ops[opi]
		k := [2]int{op.s, op.t}
		var panicked any
		func() {
			defer func() { panicked = recover() }()
			switch op.kind {
			case "open":
				if err := st.Open(ctx, sid(op.s), tid(op.t)); err != nil {
					panic(err)
				}
				m.open[k] = true
			case "append":
				p := c20Payload(op.s, op.t, len(m.appended[k]), op.size)
				if err := st.Append(ctx, sid(op.s), tid(op.t), p); err != nil {
					panic(err)
				}
				m.open[k] = true
				m.appended[k] = append(m.appended[k], p)
				m.lastSize = op.size
			case "setmax":
				st.SetMaxBytes(op.n)
				m.max = op.n
			case "closed":
				if err := st.SessionClosed(ctx, sid(op.s)); err != nil {
					panic(err)
				}
				for kk := range m.appended {
					if kk[0] == op.s {
						delete(m.appended, kk)
					}
				}
				for kk := range m.open {
					if kk[0] == op.s {
						delete(m.open, kk)
					}
				}
			}
		}()
		if panicked != nil {
			return bad("panic in "+op.kind, "step %d %s panicked: %v", step, op.display, panicked)
		}
		if op.kind == "after" {
			idx := op.idx
			if idx == -2 {
				idx = len(m.appended[k]) - 1
			}
			var got [][]byte
			var gerr error
			n := 0
			partial := false
			firstBefore := -1
			if f0, _, _, ok := c20View(st, sid(op.s), tid(op.t), len(m.appended[k])); ok {
				firstBefore = f0
			}
			seq := st.After(ctx, sid(op.s), tid(op.t), idx)
			func() {
				defer func() { panicked = recover() }()
				for d, err := range seq {
					n++
					if err != nil {
						gerr = err
						partial = n > 1
						break
					}
					got = append(got, append([]byte{}, d...))
					if op.during && n == 1 {
						k2 := [2]int{op.s, 1 - op.t}
						p := c20Payload(op.s, 1-op.t, len(m.appended[k2]), c20Limit)
						if err := st.Append(ctx, sid(op.s), tid(1-op.t), p); err != nil {
							panic(err)
						}
						m.open[k2] = true
						m.appended[k2] = append(m.appended[k2], p)
						m.lastSize = c20Limit
					}
				}
			}()
			if panicked != nil {
				return bad("panic in after", "step %d %s panicked: %v", step, op.display, panicked)
			}
			if !op.during && gerr == nil {
				// the iterator is a value: ranging over it again, with nothing changed in between,
				// yields the same payloads
				var again [][]byte
				var aerr error
				for d, err := range seq {
					if err != nil {
						aerr = err
						break
					}
					again = append(again, append([]byte{}, d...))
				}
				if aerr != nil || len(again) != len(got) {
					return bad("after-iterator-not-reusable", "%s: ranging over the returned iterator a second time yielded %d items (error %v), the first time %d", op.display, len(again), aerr, len(got))
				}
				for i := range got {
					if string(got[i]) != string(again[i]) {
						return bad("after-iterator-not-reusable", "%s: second ranging item %d = %q, first %q", op.display, i, again[i], got[i])
					}
				}
			}
			if partial {
				return bad("after-partial-then-error", "%s yielded %d items and then error %v", op.display, n-1, gerr)
			}
			// everything appended after position idx (for idx < -1 that is everything, as for -1)
			from := 0
			if idx >= 0 {
				from = idx + 1
				if idx == math.MaxInt {
					from = math.MaxInt
				}
			}
			want := [][]byte{}
			if from < len(m.appended[k]) {
				want = m.appended[k][from:]
			}
			switch {
			case !m.open[k]:
				if gerr == nil {
					return bad("after-unknown-stream-ok", "%s on a stream that is not open returned %d items and no error", op.display, len(got))
				}
				obs = "after:unknown"
			case gerr != nil:
				if !errors.Is(gerr, ErrEventsPurged) {
					return bad("after-unexpected-error", "%s returned error %v", op.display, gerr)
				}
				obs = "after:purged"
				// admissible only if something after idx really is gone (checked against private state below)
				if firstBefore < 0 || from >= firstBefore {
					return bad("after-spurious-purged", "%s reported ErrEventsPurged although every item after index %d was retained (first=%d)", op.display, idx, firstBefore)
				}
			default:
				if len(got) != len(want) {
					return bad("after-wrong-count", "%s returned %d items, want %d (appended after the index)", op.display, len(got), len(want))
				}
				for i := range got {
					if string(got[i]) != string(want[i]) {
						return bad("after-wrong-item", "%s item %d = %q, want %q", op.display, i, got[i], want[i])
					}
				}
				obs = fmt.Sprintf("after:ok:%d", len(got))
			}
		} else {
			obs = op.kind
		}
		// invariants on the retained state after every operation (read from the store's private fields, or -
		// when those have been reshaped by the change under test - reconstructed through After alone)
		total := 0
		var known [][2]string
		for s := 0; s < 2; s++ {
			for t := 0; t < 2; t++ {
				known = append(known, [2]string{sid(s), tid(t)})
			}
		}
		for _, st2 := range c20Streams(st, known) {
			sname, tname := st2[0], st2[1]
			var s, t int
			fmt.Sscanf(sname, "s%d", &s)
			fmt.Sscanf(tname, "t%d", &t)
			app := m.appended[[2]int{s, t}]
			first, items, size, _ := c20View(st, sname, tname, len(app))
			if first+len(items) != len(app) || first < 0 {
				return bad("retained-not-suffix", "after %s: stream %s/%s retains [%d,%d) but %d items were appended", op.display, sname, tname, first, first+len(items), len(app))
			}
			sz := 0
			for i, d := range items {
				if string(d) != string(app[first+i]) {
					return bad("retained-not-suffix", "after %s: stream %s/%s item %d is %q, appended was %q", op.display, sname, tname, first+i, d, app[first+i])
				}
				sz += len(d)
			}
			if sz != size {
				return bad("stream-size-accounting", "after %s: stream %s/%s size=%d but holds %d bytes", op.display, sname, tname, size, sz)
			}
			total += sz
		}
		accounted, storeMax := c20Totals(st)
		if accounted >= 0 && total != accounted {
			return bad("total-accounting", "after %s: nBytes=%d but %d bytes are retained", op.display, accounted, total)
		}
		if storeMax != m.max {
			return bad("limit-not-set", "after %s: the store's limit is %d, the last SetMaxBytes said %d", op.display, storeMax, m.max)
		}
		if total > m.max+m.lastSize {
			return bad("over-limit", "after %s: %d bytes retained, limit %d + most recent item %d", op.display, total, m.max, m.lastSize)
		}
		if op.kind == "setmax" && total > m.max {
			return bad("over-limit-after-setmax", "after %s: %d bytes retained", op.display, total)
		}
		if op.kind == "closed" {
			if c20HasSession(st, sid(op.s), []string{tid(0), tid(1)}) {
				return bad("closed-not-released", "after %s the session's data is still in the store", op.display)
			}
		}
		for kk := range m.open {
			if _, _, _, ok := c20View(st, sid(kk[0]), tid(kk[1]), len(m.appended[kk])); !ok {
				return bad("open-stream-missing", "after %s: open stream s%d/t%d is missing", op.display, kk[0], kk[1])
			}
		}
	}
	// canonical key of the final state
	var b strings.Builder
	_, storeMax := c20Totals(st)
	fmt.Fprintf(&b, "max=%d last=%d|", storeMax, m.lastSize)
	for s := 0; s < 2; s++ {
		for t := 0; t < 2; t++ {
			first, items, _, ok := c20View(st, sid(s), tid(t), len(m.appended[[2]int{s, t}]))
			if !ok {
				b.WriteString("-|")
				continue
			}
			fmt.Fprintf(&b, "%d:", first)
			for _, d := range items {
				fmt.Fprintf(&b, "%d,", len(d))
			}
			b.WriteString("|")
		}
	}
	return verifx.SearchResult{Key: b.String(), Obs: obs}
}

func TestVerifC20(t *testing.T) {
	env := verifx.LoadEnv("C20")
	res := env.NewResult()
	ops := c20Alphabet()
	env.RunSearch(res, &verifx.Search{
		Name: "history-search", NumOps: len(ops), OpName: func(i int) string { return ops[i].display },
		MaxDepth: env.Pick(5, 8), ShallowDepth: env.Pick(3, 4),
		Run: func(h []int) verifx.SearchResult { return c20Run(ops, h) },
	})
	env.Finish(res)
}
