package mcp

// C08 with long backlogs.  A request's stream (and the standalone stream) is cut after its first events;
// while nothing is attached the server writes n more messages - n from 1 to a few thousand - and, for a
// request, the final response; the client then resumes with the id of the last event it received, or of
// an earlier one.  What it receives is exactly what was written after that id: every message, in order,
// once, with consecutive event ids, whatever n is ("nothing lost ... including messages written while no
// connection was attached").

import (
	"context"
	"encoding/json"
	"fmt"
	"net/http"
	"strings"
	"testing"
	"testing/synctest"

	"github.com/modelcontextprotocol/go-sdk/internal/verifx"
)

func c08LongCase(stream, version string, pre, n, back int) (obs, sig, msg string) {
	return c08LongCaseID(stream, version, pre, n, back, "7")
}

// reqID: the JSON-RPC id of the tools/call whose stream is cut, as written on the wire (string ids may
// contain any character, "_" and "-" included: whatever the server derives event ids from, it has to be
// able to read them back)
func c08LongCaseID(stream, version string, pre, n, back int, reqID string) (obs, sig, msg string) {
	desc := fmt.Sprintf("%s stream, %s, cut after %d messages, %d written while detached, resumed from %d events before the cut, request id %s", stream, version, pre, n, back, reqID)
	fail := func(s, format string, a ...any) (string, string, string) {
		return "", "c08 long-backlog " + s, fmt.Sprintf(format, a...) + " [" + desc + "]"
	}
	ctx := context.Background()
	goOn := make(chan struct{})
	s := NewServer(&Implementation{Name: "srv", Version: "1"}, &ServerOptions{Logger: quietLogger})
	note := func(ss *ServerSession, ctx context.Context, i int) {
		ss.NotifyProgress(ctx, &ProgressNotificationParams{ProgressToken: "tok", Progress: float64(i), Message: fmt.Sprintf("note %d", i)})
	}
	AddTool(s, &Tool{Name: "t"}, func(ctx context.Context, r *CallToolRequest, in map[string]any) (*CallToolResult, any, error) {
		for i := 1; i <= pre; i++ {
			note(r.Session, ctx, i)
		}
		<-goOn
		for i := pre + 1; i <= pre+n; i++ {
			note(r.Session, ctx, i)
		}
		return &CallToolResult{Content: []Content{&TextContent{Text: "final"}}}, nil, nil
	})
	mem := NewMemoryEventStore(nil)
	mem.SetMaxBytes(64 << 20)
	hx := &hxTransport{Handler: NewStreamableHTTPHandler(func(*http.Request) *Server { return s }, &StreamableHTTPOptions{EventStore: mem, Logger: quietLogger})}
	defer func() {
		for ss := range s.Sessions() {
			ss.Close()
		}
	}()
	type event struct{ id, data string }
	type exchange struct {
		status int
		events []event
		ended  bool
		cancel context.CancelFunc
	}
	open := func(method, body, sid, lastID string, stopAfter int) *exchange {
		cctx, cancel := context.WithCancel(ctx)
		var req *http.Request
		if body != "" {
			req, _ = http.NewRequestWithContext(cctx, method, "http://example.test/mcp", strings.NewReader(body))
			req.Header.Set("Content-Type", "application/json")
		} else {
			req, _ = http.NewRequestWithContext(cctx, method, "http://example.test/mcp", nil)
		}
		req.Header.Set("Accept", "application/json, text/event-stream")
		if sid != "" {
			req.Header.Set("Mcp-Session-Id", sid)
			req.Header.Set("Mcp-Protocol-Version", version)
		}
		if lastID != "" {
			req.Header.Set("Last-Event-ID", lastID)
		}
		x := &exchange{cancel: cancel}
		go func() {
			resp, err := hx.RoundTrip(req)
			if err != nil {
				x.status = -1
				return
			}
			x.status = resp.StatusCode
			for evt, err := range scanEvents(resp.Body) {
				if err != nil {
					return
				}
				x.events = append(x.events, event{evt.ID, string(evt.Data)})
				if stopAfter > 0 && len(x.events) >= stopAfter {
					resp.Body.Close()
					cancel()
					return
				}
			}
			x.ended = true
		}()
		synctest.Wait()
		return x
	}
	ix := open("POST", `{"jsonrpc":"2.0","id":"i","method":"initialize","params":{"protocolVersion":"`+version+`","capabilities":{},"clientInfo":{"name":"c","version":"1"}}}`, "", "", 0)
	if ix.status != 200 {
		return fail("setup", "initialize answered %d", ix.status)
	}
	sid := hx.exchanges()[0].RespHdr.Get("Mcp-Session-Id")
	if x := open("POST", `{"jsonrpc":"2.0","method":"notifications/initialized","params":{}}`, sid, "", 0); x.status >= 300 {
		return fail("setup", "initialized answered %d", x.status)
	}
	var sess *ServerSession
	for ss := range s.Sessions() {
		sess = ss
	}
	priming := 0
	if version >= "2025-11-25" && stream == "request" {
		priming = 1 // (a request's stream opens with a priming event; the standalone stream does not)
	}
	var first *exchange
	if stream == "request" {
		first = open("POST", `{"jsonrpc":"2.0","id":`+reqID+`,"method":"tools/call","params":{"name":"t","arguments":{},"_meta":{"progressToken":"tok"}}}`, sid, "", priming+pre)
	} else {
		first = open("GET", "", sid, "", priming+pre)
		for i := 1; i <= pre; i++ {
			note(sess, ctx, i)
			synctest.Wait()
		}
	}
	synctest.Wait()
	if len(first.events) != priming+pre {
		return fail("setup", "the first exchange delivered %d events, want %d: %v", len(first.events), priming+pre, first.events)
	}
	// written while nothing is attached
	if stream == "request" {
		close(goOn)
	} else {
		for i := pre + 1; i <= pre+n; i++ {
			note(sess, ctx, i)
		}
	}
	synctest.Wait()
	if back > len(first.events)-1 {
		back = len(first.events) - 1
	}
	from := first.events[len(first.events)-1-back]
	if from.id == "" {
		return fail("setup", "the events of the first exchange carry no ids: %v", first.events)
	}
	stop := 0
	if stream == "standalone" {
		stop = back + n // a standalone stream stays open: stop reading once everything due has arrived
	}
	rx := open("GET", "", sid, from.id, stop)
	synctest.Wait()
	defer rx.cancel()
	if rx.status != 200 {
		return fail("resume-refused", "the resuming GET (Last-Event-ID %s) was answered %d", from.id, rx.status)
	}
	// expected: the events of the first exchange after `from`, then note pre+1 .. pre+n, then (request) the response
	var want []string
	for _, e := range first.events[len(first.events)-back:] {
		want = append(want, e.data)
	}
	var got []string
	var ids []string
	for _, e := range rx.events {
		if e.data == "" {
			continue
		}
		got = append(got, e.data)
		ids = append(ids, e.id)
	}
	label := func(data string) string {
		var m struct {
			ID     json.RawMessage `json:"id"`
			Params struct {
				Message string `json:"message"`
			} `json:"params"`
			Result json.RawMessage `json:"result"`
		}
		json.Unmarshal([]byte(data), &m)
		switch {
		case m.Params.Message != "":
			return m.Params.Message
		case len(m.Result) > 0:
			return "response " + string(m.ID)
		}
		return data
	}
	var wantL, gotL []string
	for _, d := range want {
		wantL = append(wantL, label(d))
	}
	for i := pre + 1; i <= pre+n; i++ {
		wantL = append(wantL, fmt.Sprintf("note %d", i))
	}
	if stream == "request" {
		wantL = append(wantL, "response "+reqID)
	}
	for _, d := range got {
		gotL = append(gotL, label(d))
	}
	if len(gotL) != len(wantL) {
		firstDiff := 0
		for firstDiff < len(gotL) && firstDiff < len(wantL) && gotL[firstDiff] == wantL[firstDiff] {
			firstDiff++
		}
		w := "(nothing)"
		if firstDiff < len(wantL) {
			w = wantL[firstDiff]
		}
		g := "(nothing)"
		if firstDiff < len(gotL) {
			g = gotL[firstDiff]
		}
		return fail("message-missing-or-extra", "resumed from %s: %d messages delivered, %d were written after that event; first difference at #%d: got %s, want %s", from.id, len(gotL), len(wantL), firstDiff, g, w)
	}
	for i := range wantL {
		if gotL[i] != wantL[i] {
			return fail("wrong-sequence", "resumed from %s: message #%d is %s, want %s", from.id, i, gotL[i], wantL[i])
		}
	}
	// ids: consecutive from the resume point
	prefix, k := from.id[:strings.LastIndex(from.id, "_")+1], 0
	fmt.Sscanf(from.id[len(prefix):], "%d", &k)
	for i, id := range ids {
		if id != fmt.Sprintf("%s%d", prefix, k+1+i) {
			return fail("event-id-not-consecutive", "resumed from %s: event #%d has id %s, want %s%d", from.id, i, id, prefix, k+1+i)
		}
	}
	if stream == "request" && !rx.ended {
		return fail("resumed-stream-not-ended", "the resumed stream did not end after the final response")
	}
	return fmt.Sprintf("%s resumed n=%d", stream, len(gotL)), "", ""
}

func TestVerifC08Long(t *testing.T) {
	env := verifx.LoadEnv("C08")
	res := env.NewResult()
	cases := env.NewCases(res, "long-backlog/written-while-detached")
	ns := []int{1, 10, 100, 999, 1000, 1001, 1500}
	if !env.Quick() {
		ns = append(ns, 3000)
	}
	for _, stream := range []string{"request", "standalone"} {
		for _, version := range []string{"2025-06-18", "2025-11-25"} {
			for _, pre := range []int{1, 3} {
				for _, n := range ns {
					for _, back := range []int{0, 1, 2} {
						idx, mine := cases.Next()
						if !mine {
							continue
						}
						var obs, sig, msg string
						func() {
							defer func() {
								if r := recover(); r != nil && sig == "" {
									sig, msg = "c08 long-backlog panic-or-leak", fmt.Sprintf("%v [%s %s pre=%d n=%d back=%d]", r, stream, version, pre, n, back)
								}
							}()
							synctest.Test(t, func(t *testing.T) { obs, sig, msg = c08LongCase(stream, version, pre, n, back) })
						}()
						if sig != "" {
							cases.Violate(idx, sig, msg, n+pre)
							continue
						}
						cases.Record(idx, obs, n+pre, func() string {
							return fmt.Sprintf("%s %s pre=%d n=%d back=%d", stream, version, pre, n, back)
						})
					}
				}
			}
		}
	}
	// request ids of every shape: the stream (and its event ids) may be named after anything
	idc := env.NewCases(res, "long-backlog/request-id-shapes")
	for _, version := range []string{"2025-06-18", "2025-11-25"} {
		for _, reqID := range []string{`7`, `0`, `-3`, `9007199254740993`, `"job_1"`, `"a_b_c"`, `"_"`, `"x-y"`, `"id with blank"`, `"ü"`, `""`, `"7"`} {
			for _, back := range []int{0, 1} {
				idx, mine := idc.Next()
				if !mine {
					continue
				}
				var obs, sig, msg string
				func() {
					defer func() {
						if r := recover(); r != nil && sig == "" {
							sig, msg = "c08 long-backlog panic-or-leak", fmt.Sprintf("%v [%s id %s]", r, version, reqID)
						}
					}()
					synctest.Test(t, func(t *testing.T) { obs, sig, msg = c08LongCaseID("request", version, 2, 3, back, reqID) })
				}()
				if sig != "" {
					idc.Violate(idx, sig+" request-id-shape", msg, 6)
					continue
				}
				idc.Record(idx, obs, 6, func() string { return fmt.Sprintf("%s id=%s back=%d", version, reqID, back) })
			}
		}
	}
	env.Finish(res)
}
