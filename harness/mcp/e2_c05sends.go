package mcp

// C05 after a send that failed.  Before the shutdown one operation on the session fails on the
// sending side - a notification or a call whose parameters cannot be encoded, a tool result that
// cannot be encoded - and reports its error to its caller.  The session is healthy afterwards (a
// ping is answered); then either side closes.  Close and both Waits return, Server and Client forget
// the session, nothing is left running.

import (
	"bufio"
	"context"
	"fmt"
	"io"
	"math"
	"strings"
	"testing"
	"testing/synctest"
	"time"

	"github.com/modelcontextprotocol/go-sdk/internal/verifx"
)

var c05SendOps = []string{
	"none",
	"client-notify-progress-nan",
	"client-notify-progress-inf-total",
	"server-notify-progress-nan",
	"server-log-unencodable-data",
	"client-call-unencodable-arguments",
	"server-call-unencodable-meta",
	"tool-result-unencodable",
	"client-notify-progress-nan-twice",
}

func c05SendsCase(op, closer, version string) (obs, sig, msg string) {
	fail := func(s, format string, a ...any) (string, string, string) {
		return "", "c05 after-failed-send " + s, fmt.Sprintf(format, a...) + fmt.Sprintf(" [failed send=%s closed by=%s version=%s]", op, closer, version)
	}
	ctx := context.Background()
	s := NewServer(&Implementation{Name: "srv", Version: "1"}, &ServerOptions{Logger: quietLogger})
	s.AddTool(&Tool{Name: "nan", InputSchema: map[string]any{"type": "object"}}, func(ctx context.Context, r *CallToolRequest) (*CallToolResult, error) {
		return &CallToolResult{Content: []Content{}, StructuredContent: math.NaN()}, nil
	})
	c := NewClient(&Implementation{Name: "cli", Version: "1"}, &ClientOptions{Logger: quietLogger})
	ct, st := NewInMemoryTransports()
	ss, err := s.Connect(ctx, st, nil)
	if err != nil {
		return fail("setup", "%v", err)
	}
	cs, err := c.Connect(ctx, ct, &ClientSessionOptions{ProtocolVersion: version})
	if err != nil {
		return fail("setup", "%v", err)
	}
	synctest.Wait()
	var opErr error
	switch op {
	case "none":
	case "client-notify-progress-nan":
		opErr = cs.NotifyProgress(ctx, &ProgressNotificationParams{ProgressToken: "p", Progress: math.NaN()})
	case "client-notify-progress-nan-twice":
		cs.NotifyProgress(ctx, &ProgressNotificationParams{ProgressToken: "p", Progress: math.NaN()})
		opErr = cs.NotifyProgress(ctx, &ProgressNotificationParams{ProgressToken: "p", Progress: math.NaN()})
	case "client-notify-progress-inf-total":
		opErr = cs.NotifyProgress(ctx, &ProgressNotificationParams{ProgressToken: "p", Progress: 1, Total: math.Inf(1)})
	case "server-notify-progress-nan":
		opErr = ss.NotifyProgress(ctx, &ProgressNotificationParams{ProgressToken: "p", Progress: math.NaN()})
	case "server-log-unencodable-data":
		if version < "2026-07-28" {
			if err := cs.SetLoggingLevel(ctx, &SetLoggingLevelParams{Level: "debug"}); err != nil {
				return fail("setup", "SetLoggingLevel: %v", err)
			}
		}
		opErr = ss.Log(ctx, &LoggingMessageParams{Level: "error", Data: make(chan int)})
	case "client-call-unencodable-arguments":
		_, opErr = cs.CallTool(ctx, &CallToolParams{Name: "nan", Arguments: map[string]any{"x": math.Inf(1)}})
	case "server-call-unencodable-meta":
		opErr = ss.Ping(ctx, &PingParams{Meta: Meta{"x": math.NaN()}})
	case "tool-result-unencodable":
		_, opErr = cs.CallTool(ctx, &CallToolParams{Name: "nan", Arguments: map[string]any{}})
	}
	synctest.Wait()
	// the session is healthy: a ping each way is answered
	if err := cs.Ping(ctx, nil); err != nil {
		return fail("session-unusable", "after the failed send (%v) a client ping fails: %v", opErr, err)
	}
	if version < "2026-07-28" {
		if err := ss.Ping(ctx, nil); err != nil {
			return fail("session-unusable", "after the failed send (%v) a server ping fails: %v", opErr, err)
		}
	}
	closed, cWaited, sWaited := false, false, false
	go func() { cs.Wait(); cWaited = true }()
	go func() { ss.Wait(); sWaited = true }()
	go func() {
		if closer == "client" {
			cs.Close()
		} else {
			ss.Close()
		}
		closed = true
	}()
	time.Sleep(time.Minute)
	synctest.Wait()
	nServer := 0
	for range s.Sessions() {
		nServer++
	}
	nClient, _ := privClientSessionCount(c)
	verdict := func() (string, string, string) {
		switch {
		case !closed:
			return fail("close-never-returns", "Close by the %s has not returned a minute later (send error: %v; client Wait returned: %v, server Wait returned: %v)", closer, opErr, cWaited, sWaited)
		case !cWaited || !sWaited:
			return fail("wait-never-returns", "a minute after Close returned: client Wait returned=%v, server Wait returned=%v (send error: %v)", cWaited, sWaited, opErr)
		case nServer != 0 || nClient != 0:
			return fail("session-not-forgotten", "after the shutdown the server lists %d session(s), the client %d", nServer, nClient)
		}
		return fmt.Sprintf("send-error=%v", opErr != nil), "", ""
	}
	obs, sig, msg = verdict()
	if sig != "" {
		// end whatever is still stuck so that the verdict is this one
		cs.abort()
		ss.abort()
		synctest.Wait()
	}
	return
}

func TestVerifC05AfterFailedSends(t *testing.T) {
	env := verifx.LoadEnv("C05")
	res := env.NewResult()
	cases := env.NewCases(res, "close-after-failed-send")
	for _, version := range []string{"2025-06-18", "2026-07-28"} {
		for _, op := range c05SendOps {
			for _, closer := range []string{"client", "server"} {
				idx, mine := cases.Next()
				if !mine {
					continue
				}
				desc := fmt.Sprintf("failed send=%s closed by=%s version=%s", op, closer, version)
				var obs, sig, msg string
				func() {
					defer func() {
						if r := recover(); r != nil && sig == "" {
							sig, msg = "c05 after-failed-send panic-or-leak", fmt.Sprintf("%v [%s]", r, desc)
						}
					}()
					synctest.Test(t, func(t *testing.T) { obs, sig, msg = c05SendsCase(op, closer, version) })
				}()
				if sig != "" {
					cases.Violate(idx, sig, msg, 3)
					continue
				}
				cases.Record(idx, op+" "+obs, 3, func() string { return desc })
			}
		}
	}
	env.Finish(res)
}

// c05ListenIDReuseCase: a 2026-07-28 peer opens a subscriptions/listen, ends it (notifications/cancelled),
// and then uses the same JSON-RPC id for a tool call - ids may be reused once a request has completed.
// While that call's handler runs, the server closes the session: Close is graceful, the running handler
// is not cancelled, it runs to completion and its answer is written before the transport is closed.
func c05ListenIDReuseCase(reuse bool) (obs, sig, msg string) {
	fail := func(s, format string, a ...any) (string, string, string) {
		return "", "c05 listen-id-reuse " + s, fmt.Sprintf(format, a...) + fmt.Sprintf(" [tool call reuses the ended listen's id: %v]", reuse)
	}
	ctx := context.Background()
	gate := make(chan struct{})
	started, cancelledEarly, finished := false, false, false
	s := NewServer(&Implementation{Name: "srv", Version: "1"}, &ServerOptions{Logger: quietLogger})
	AddTool(s, &Tool{Name: "slow"}, func(hctx context.Context, r *CallToolRequest, in map[string]any) (*CallToolResult, any, error) {
		started = true
		select {
		case <-hctx.Done():
			cancelledEarly = true
		case <-gate:
		}
		finished = true
		return &CallToolResult{Content: []Content{&TextContent{Text: "done"}}}, nil, nil
	})
	ct, st := NewInMemoryTransports()
	ss, err := s.Connect(ctx, st, nil)
	if err != nil {
		return fail("setup", "%v", err)
	}
	peer := ct.rwc
	var lines []string
	go func() {
		sc := bufio.NewScanner(peer)
		sc.Buffer(make([]byte, 1<<20), 1<<20)
		for sc.Scan() {
			lines = append(lines, sc.Text())
		}
	}()
	const meta = `"_meta":{"io.modelcontextprotocol/protocolVersion":"2026-07-28","io.modelcontextprotocol/clientInfo":{"name":"c","version":"1"},"io.modelcontextprotocol/clientCapabilities":{}}`
	send := func(l string) { io.WriteString(peer, l+"\n"); synctest.Wait() }
	send(`{"jsonrpc":"2.0","id":5,"method":"subscriptions/listen","params":{"notifications":{"toolsListChanged":true},` + meta + `}}`)
	send(`{"jsonrpc":"2.0","method":"notifications/cancelled","params":{"requestId":5,` + meta + `}}`)
	callID := "6"
	if reuse {
		callID = "5"
	}
	send(`{"jsonrpc":"2.0","id":` + callID + `,"method":"tools/call","params":{"name":"slow","arguments":{},` + meta + `}}`)
	if !started {
		peer.Close()
		ss.Close()
		return fail("setup", "the tool call was not dispatched: %q", lines)
	}
	closed := false
	go func() { ss.Close(); closed = true }()
	synctest.Wait()
	early := cancelledEarly
	close(gate)
	time.Sleep(time.Minute)
	synctest.Wait()
	answered := false
	for _, l := range lines {
		if strings.Contains(l, `"id":`+callID+`,`) && strings.Contains(l, `"done"`) {
			answered = true
		}
	}
	peer.Close()
	synctest.Wait()
	switch {
	case early:
		return fail("running-handler-cancelled-by-close", "Close cancelled the context of a tool handler that was running (a graceful Close lets running handlers run to completion)")
	case !finished || !closed:
		return fail("close-never-returns", "handler finished=%v, Close returned=%v", finished, closed)
	case !answered:
		return fail("answer-lost", "the handler ran to completion but its answer was not written before the transport was closed: %q", lines)
	}
	return "handler ran to completion", "", ""
}

func TestVerifC05ListenIDReuse(t *testing.T) {
	env := verifx.LoadEnv("C05")
	res := env.NewResult()
	cases := env.NewCases(res, "close-after-listen-id-reuse")
	for _, reuse := range []bool{false, true} {
		idx, mine := cases.Next()
		if !mine {
			continue
		}
		var obs, sig, msg string
		func() {
			defer func() {
				if r := recover(); r != nil && sig == "" {
					sig, msg = "c05 listen-id-reuse panic-or-leak", fmt.Sprint(r)
				}
			}()
			synctest.Test(t, func(t *testing.T) { obs, sig, msg = c05ListenIDReuseCase(reuse) })
		}()
		if sig != "" {
			cases.Violate(idx, sig, msg, 4)
			continue
		}
		cases.Record(idx, obs, 4, func() string { return fmt.Sprint("reuse=", reuse) })
	}
	env.Finish(res)
}
