package mcp

// C02: every incoming call is answered exactly once, with its id echoed exactly.
// Raw wire envelopes (single messages, pairs, JSON-RPC batches, duplicate in-flight ids,
// all handler completion orders) against real server sessions over the in-memory pipe
// (= stdio framing) and the streamable HTTP handler (stateful/stateless x JSON/SSE).
// The oracle counts responses per id on the raw output bytes.

import (
	"bufio"
	"bytes"
	"context"
	"encoding/json"
	"fmt"
	"io"
	"math"
	"net/http"
	"net/http/httptest"
	"slices"
	"strings"
	"testing"
	"testing/synctest"
	"time"

	"github.com/modelcontextprotocol/go-sdk/internal/verifx"
)

// ---- envelope alphabet

type c02Env struct {
	name   string
	method string
	params string // "" = absent
	notif  bool   // sent without id
	// expected outcome for a call: "result", or a JSON-RPC error code
	want     int64 // 0 = result
	gate     bool  // the tool handler parks until released
	anyClass bool  // exactly one response is due, result or error (a call the peer cancelled while in flight)
	// optional: the request may be refused without a response bearing its id (a duplicate of an in-flight id)
	optional bool
}

func c02Envelopes() []c02Env {
	return []c02Env{
		{name: "ping", method: "ping"},
		{name: "ping(params null)", method: "ping", params: "null"},
		{name: "tools/list", method: "tools/list", params: "{}"},
		{name: "tools/list(no params)", method: "tools/list"},
		{name: "tools/call", method: "tools/call", params: `{"name":"t","arguments":{}}`},
		// a well-formed envelope of any size is answered: arguments beyond the 64 KiB a line reader starts
		// with, and beyond 1 MiB
		{name: "tools/call(70 KiB argument)", method: "tools/call", params: `{"name":"t","arguments":{"blob":"` + strings.Repeat("x", 70<<10) + `"}}`},
		{name: "tools/call(1.2 MiB argument)", method: "tools/call", params: `{"name":"t","arguments":{"blob":"` + strings.Repeat("y", 1200<<10) + `"}}`},
		{name: "tools/call(params wrong type)", method: "tools/call", params: `"x"`, want: -32602},
		{name: "tools/call(name wrong type)", method: "tools/call", params: `{"name":7}`, want: -32602},
		{name: "tools/call(no params)", method: "tools/call", want: -32600},
		{name: "tools/call(params null)", method: "tools/call", params: "null", want: -32600},
		// a raw tool handler whose result cannot be encoded (a NaN in its structured content): the call is
		// still owed exactly one response
		{name: "tools/call(unencodable result)", method: "tools/call", params: `{"name":"nan","arguments":{}}`, anyClass: true},
		{name: "initialize(params wrong type)", method: "initialize", params: "5", want: -32602},
		{name: "initialize(protocolVersion wrong type)", method: "initialize", params: `{"protocolVersion":5,"capabilities":{},"clientInfo":{"name":"c","version":"1"}}`, want: -32602},
		{name: "initialize(params null)", method: "initialize", params: "null", want: -32600},
		{name: "unknown/x", method: "unknown/x", params: "{}", want: -32601},
		{name: "empty method", method: "", params: "{}", want: -32601},
		{name: "initialized with id", method: "notifications/initialized", params: "{}", want: -32600},
		{name: "cancelled with id", method: "notifications/cancelled", params: `{"requestId":424242}`, want: -32600},
		{name: "cancelled with id (params wrong type)", method: "notifications/cancelled", params: "5", want: -32600},
		{name: "cancelled with id (requestId wrong type)", method: "notifications/cancelled", params: `{"requestId":true}`, want: -32600},
		{name: "progress notification", method: "notifications/progress", params: `{"progressToken":1,"progress":1}`, notif: true},
		{name: "unknown notification", method: "notifications/unknown", params: "{}", notif: true},
		{name: "tools/list without id", method: "tools/list", params: "{}", notif: true},
	}
}

// ids as raw JSON tokens
func c02IDs() []string {
	return []string{"0", "1", "-1", "9007199254740993", "-9007199254740993", "9223372036854775807", "-9223372036854775808", `""`, `"1"`, `"ü"`, `"a b"`}
}

func c02Line(e c02Env, id string) string {
	var b strings.Builder
	b.WriteString(`{"jsonrpc":"2.0"`)
	if !e.notif {
		b.WriteString(`,"id":` + id)
	}
	fmt.Fprintf(&b, `,"method":%q`, e.method)
	if e.params != "" {
		b.WriteString(`,"params":` + e.params)
	}
	b.WriteString("}")
	return b.String()
}

// ---- a wire message as seen on the output

type c02Out struct {
	ID     json.RawMessage `json:"id"`
	Method string          `json:"method"`
	Result json.RawMessage `json:"result"`
	Error  *struct {
		Code    int64  `json:"code"`
		Message string `json:"message"`
	} `json:"error"`
}

func c02ParseOutputs(chunks [][]byte) (outs []c02Out, err error) {
	for _, c := range chunks {
		c = bytes.TrimSpace(c)
		if len(c) == 0 {
			continue
		}
		if c[0] == '[' {
			var arr []c02Out
			if e := json.Unmarshal(c, &arr); e != nil {
				return nil, fmt.Errorf("unparsable output %q: %v", c, e)
			}
			outs = append(outs, arr...)
			continue
		}
		var o c02Out
		if e := json.Unmarshal(c, &o); e != nil {
			return nil, fmt.Errorf("unparsable output %q: %v", c, e)
		}
		outs = append(outs, o)
	}
	return outs, nil
}

func c02SameID(sent string, got json.RawMessage) bool {
	return strings.TrimSpace(string(got)) == sent
}

// ---- drivers

type c02Driver interface {
	open(version string) error
	// send delivers one wire unit (a message or a batch array) and lets the server run to quiescence.
	send(unit string) error
	// collect returns everything the server wrote since open, and the HTTP status per unit (0 for the pipe).
	collect() (chunks [][]byte, statuses []int, err error)
	close()
}

type c02Pipe struct {
	s     *Server
	ss    *ServerSession
	rwc   io.ReadWriteCloser
	lines [][]byte
	from  int
	units int
}

func (p *c02Pipe) open(version string) error {
	ct, st := NewInMemoryTransports()
	var err error
	p.ss, err = p.s.Connect(context.Background(), st, nil)
	if err != nil {
		return err
	}
	p.rwc = ct.rwc
	go func() {
		sc := bufio.NewScanner(p.rwc)
		sc.Buffer(make([]byte, 1<<20), 1<<20)
		for sc.Scan() {
			p.lines = append(p.lines, append([]byte{}, sc.Bytes()...))
		}
	}()
	if err := p.send(`{"jsonrpc":"2.0","id":"h","method":"initialize","params":{"protocolVersion":"` + version + `","capabilities":{},"clientInfo":{"name":"c","version":"1"}}}`); err != nil {
		return err
	}
	err = p.send(`{"jsonrpc":"2.0","method":"notifications/initialized","params":{}}`)
	p.from = len(p.lines)
	p.units = 0
	return err
}

func (p *c02Pipe) send(unit string) error {
	p.units++
	done := make(chan error, 1)
	go func() {
		_, err := io.WriteString(p.rwc, unit+"\n")
		done <- err
	}()
	synctest.Wait()
	select {
	case err := <-done:
		if err != nil {
			return fmt.Errorf("write failed: %v", err)
		}
	default:
		return fmt.Errorf("the server stopped reading")
	}
	return nil
}

func (p *c02Pipe) collect() ([][]byte, []int, error) {
	synctest.Wait()
	return p.lines[p.from:], make([]int, p.units), nil
}

func (p *c02Pipe) close() {
	p.rwc.Close()
	p.ss.Wait()
}

const c02SessionTimeout = 5 * time.Second

type c02HTTP struct {
	timeout   time.Duration
	s         *Server
	h         *StreamableHTTPHandler
	stateless bool
	jsonResp  bool
	sid       string
	version   string
	recs      []*httptest.ResponseRecorder
	framed    map[*httptest.ResponseRecorder]*framedWriter
	pending   []chan struct{}
}

func (d *c02HTTP) open(version string) error {
	d.version = version
	d.h = NewStreamableHTTPHandler(func(*http.Request) *Server { return d.s }, &StreamableHTTPOptions{Stateless: d.stateless, JSONResponse: d.jsonResp, Logger: quietLogger, SessionTimeout: d.timeout})
	if d.stateless {
		return nil
	}
	w := d.post(`{"jsonrpc":"2.0","id":"h","method":"initialize","params":{"protocolVersion":"`+version+`","capabilities":{},"clientInfo":{"name":"c","version":"1"}}}`, false)
	if w.Code != 200 {
		return fmt.Errorf("initialize: HTTP %d %s", w.Code, w.Body.String())
	}
	d.sid = w.Header().Get("Mcp-Session-Id")
	if d.sid == "" {
		return fmt.Errorf("initialize: no session id")
	}
	w = d.post(`{"jsonrpc":"2.0","method":"notifications/initialized","params":{}}`, true)
	if w.Code != 202 && w.Code != 200 {
		return fmt.Errorf("initialized: HTTP %d", w.Code)
	}
	d.recs, d.pending = nil, nil
	return nil
}

func (d *c02HTTP) post(body string, withVersion bool) *httptest.ResponseRecorder {
	r := httptest.NewRequest("POST", "http://example.test/mcp", strings.NewReader(body))
	r.Header.Set("Content-Type", "application/json")
	r.Header.Set("Accept", "application/json, text/event-stream")
	if d.sid != "" {
		r.Header.Set("Mcp-Session-Id", d.sid)
	}
	if withVersion {
		r.Header.Set("Mcp-Protocol-Version", d.version)
	}
	w := httptest.NewRecorder()
	fw := newFramedWriter(w)
	if d.framed == nil {
		d.framed = map[*httptest.ResponseRecorder]*framedWriter{}
	}
	d.framed[w] = fw
	done := make(chan struct{})
	go func() {
		defer close(done)
		d.h.ServeHTTP(fw, r)
	}()
	synctest.Wait()
	select {
	case <-done:
	default:
		// the exchange is still open (e.g. waiting for a gated handler)
		d.pending = append(d.pending, done)
	}
	return w
}

func (d *c02HTTP) send(unit string) error {
	d.recs = append(d.recs, d.post(unit, true))
	return nil
}

func (d *c02HTTP) collect() ([][]byte, []int, error) {
	synctest.Wait()
	for _, p := range d.pending {
		select {
		case <-p:
		case <-time.After(time.Minute):
			return nil, nil, fmt.Errorf("an HTTP exchange is still open a minute after every handler returned")
		}
	}
	var chunks [][]byte
	var statuses []int
	for _, w := range d.recs {
		statuses = append(statuses, w.Code)
		if fw := d.framed[w]; fw != nil && fw.broken() {
			// the body does not match the Content-Length the handler declared: net/http refuses the
			// write (or cuts the connection), the client reads no complete body
			continue
		}
		chunks = append(chunks, c02Bodies(w)...)
	}
	return chunks, statuses, nil
}

// c02SSE drives the legacy HTTP+SSE transport: one hanging GET carries everything the server
// writes, every wire unit is POSTed to the endpoint the server announced.
type c02SSE struct {
	s        *Server
	h        *SSEHandler
	stream   *httptest.ResponseRecorder
	cancel   context.CancelFunc
	getDone  chan struct{}
	endpoint string
	from     int // number of message events that belong to the handshake
	statuses []int
}

func (d *c02SSE) events() [][]byte {
	var out [][]byte
	for evt, err := range scanEvents(bytes.NewReader(d.stream.Body.Bytes())) {
		if err != nil {
			break
		}
		if evt.Name == "endpoint" {
			d.endpoint = string(evt.Data)
			continue
		}
		if len(evt.Data) > 0 {
			out = append(out, evt.Data)
		}
	}
	return out
}

func (d *c02SSE) post(body string) int {
	r := httptest.NewRequest("POST", "http://example.test"+d.endpoint, strings.NewReader(body))
	r.Header.Set("Content-Type", "application/json")
	w := httptest.NewRecorder()
	done := make(chan struct{})
	go func() {
		defer close(done)
		d.h.ServeHTTP(w, r)
	}()
	synctest.Wait()
	select {
	case <-done:
	default:
		return -1 // the POST itself hangs
	}
	return w.Code
}

func (d *c02SSE) open(version string) error {
	d.h = NewSSEHandler(func(*http.Request) *Server { return d.s }, nil)
	ctx, cancel := context.WithCancel(context.Background())
	d.cancel = cancel
	d.stream = httptest.NewRecorder()
	d.getDone = make(chan struct{})
	go func() {
		defer close(d.getDone)
		d.h.ServeHTTP(d.stream, httptest.NewRequest("GET", "http://example.test/sse", nil).WithContext(ctx))
	}()
	synctest.Wait()
	d.events()
	if d.endpoint == "" {
		return fmt.Errorf("no endpoint event on the SSE stream: %q", d.stream.Body.String())
	}
	if st := d.post(`{"jsonrpc":"2.0","id":"h","method":"initialize","params":{"protocolVersion":"` + version + `","capabilities":{},"clientInfo":{"name":"c","version":"1"}}}`); st != 202 {
		return fmt.Errorf("initialize: HTTP %d", st)
	}
	if st := d.post(`{"jsonrpc":"2.0","method":"notifications/initialized","params":{}}`); st != 202 {
		return fmt.Errorf("initialized: HTTP %d", st)
	}
	d.from = len(d.events())
	d.statuses = nil
	return nil
}

func (d *c02SSE) send(unit string) error {
	st := d.post(unit)
	if st < 0 {
		return fmt.Errorf("the POST of a message did not return")
	}
	d.statuses = append(d.statuses, st)
	return nil
}

func (d *c02SSE) collect() ([][]byte, []int, error) {
	synctest.Wait()
	select {
	case <-d.getDone:
		return nil, nil, fmt.Errorf("the SSE stream ended (session torn down)")
	default:
	}
	return d.events()[d.from:], d.statuses, nil
}

func (d *c02SSE) close() {
	d.cancel()
	<-d.getDone
}

func c02Bodies(w *httptest.ResponseRecorder) [][]byte {
	ct := w.Header().Get("Content-Type")
	body := w.Body.Bytes()
	if strings.HasPrefix(ct, "text/event-stream") {
		var out [][]byte
		for evt, err := range scanEvents(bytes.NewReader(body)) {
			if err != nil {
				break
			}
			if len(evt.Data) > 0 {
				out = append(out, evt.Data)
			}
		}
		return out
	}
	if strings.HasPrefix(ct, "application/json") {
		return [][]byte{body}
	}
	return nil // plain-text HTTP error bodies are not JSON-RPC output
}

func (d *c02HTTP) close() {
	for ss := range d.s.Sessions() {
		ss.Close()
	}
}

// ---- one scenario = a fresh server + driver + a list of wire units

type c02Sent struct {
	id   string // raw token ("" for notifications)
	env  c02Env
	unit int
}

type c02Case struct {
	driver  string
	version string
	units   []string  // wire units in order
	sent    []c02Sent // every message contained in the units
	release []int     // order in which gated handlers (by K) are released
	// pause: virtual time that passes after each release (the streamable drivers ending in
	// "+timeout" close sessions idle for c02SessionTimeout; a session with a POST in flight is not idle)
	pause time.Duration
	desc  string
}

func c02NewServer(gates map[string]chan struct{}, started *[]string) *Server {
	s := NewServer(&Implementation{Name: "srv", Version: "1"}, &ServerOptions{Logger: quietLogger})
	AddTool(s, &Tool{Name: "t"}, func(ctx context.Context, r *CallToolRequest, in map[string]any) (*CallToolResult, any, error) {
		return &CallToolResult{}, nil, nil
	})
	s.AddTool(&Tool{Name: "nan", InputSchema: json.RawMessage(`{"type":"object"}`)}, func(ctx context.Context, r *CallToolRequest) (*CallToolResult, error) {
		return &CallToolResult{Content: []Content{}, StructuredContent: math.NaN()}, nil
	})
	AddTool(s, &Tool{Name: "g"}, func(ctx context.Context, r *CallToolRequest, in struct {
		K string `json:"k"`
	}) (*CallToolResult, any, error) {
		*started = append(*started, in.K)
		if ch := gates[in.K]; ch != nil {
			<-ch
		}
		return &CallToolResult{Content: []Content{&TextContent{Text: in.K}}}, nil, nil
	})
	return s
}

func c02Driver_(name string, s *Server) c02Driver {
	switch name {
	case "pipe":
		return &c02Pipe{s: s}
	case "http-stateful-sse":
		return &c02HTTP{s: s}
	case "http-stateful-json":
		return &c02HTTP{s: s, jsonResp: true}
	case "http-stateless-sse":
		return &c02HTTP{s: s, stateless: true}
	case "http-stateless-json":
		return &c02HTTP{s: s, stateless: true, jsonResp: true}
	case "http-stateful-sse+timeout":
		return &c02HTTP{s: s, timeout: c02SessionTimeout}
	case "http-stateful-json+timeout":
		return &c02HTTP{s: s, jsonResp: true, timeout: c02SessionTimeout}
	case "sse":
		return &c02SSE{s: s}
	}
	panic(name)
}

// c02RunCase runs one case inside a bubble and returns a violation (sig, msg) or an observation.
func c02RunCase(c c02Case) (obs, sig, msg string) {
	fail := func(s, format string, a ...any) (string, string, string) {
		return "", "c02 " + c.driver + " " + s, fmt.Sprintf(format, a...) + " [" + c.desc + "]"
	}
	gates := map[string]chan struct{}{}
	for _, k := range c.release {
		gates[fmt.Sprint(k)] = make(chan struct{})
	}
	var started []string
	s := c02NewServer(gates, &started)
	d := c02Driver_(c.driver, s)
	if err := d.open(c.version); err != nil {
		return fail("open", "handshake failed: %v", err)
	}
	defer d.close()
	for i, u := range c.units {
		if err := d.send(u); err != nil {
			return fail("session-torn-down", "unit %d: %v", i, err)
		}
	}
	// release gated handlers in the chosen order, letting everything settle in between
	for i, k := range c.release {
		synctest.Wait()
		close(gates[fmt.Sprint(k)])
		if c.pause > 0 && i < len(c.release)-1 {
			synctest.Wait()
			time.Sleep(c.pause)
		}
	}
	synctest.Wait()
	// usable afterwards: a final ping is answered
	if err := d.send(`{"jsonrpc":"2.0","id":"final","method":"ping"}`); err != nil {
		return fail("session-torn-down", "final ping: %v", err)
	}
	chunks, statuses, err := d.collect()
	if err != nil {
		return fail("exchange-never-completes", "%v", err)
	}
	outs, perr := c02ParseOutputs(chunks)
	if perr != nil {
		return fail("garbage-output", "%v", perr)
	}
	finalSeen := 0
	got := map[string][]string{} // id token -> classes of the responses carrying it
	for _, o := range outs {
		if o.Method != "" {
			continue // server-initiated traffic
		}
		id := strings.TrimSpace(string(o.ID))
		if id == `"final"` {
			finalSeen++
			continue
		}
		cls := "result"
		if o.Error != nil {
			cls = fmt.Sprint(o.Error.Code)
		}
		got[id] = append(got[id], cls)
	}
	if finalSeen != 1 {
		return fail("session-unusable", "the final ping got %d responses", finalSeen)
	}
	// an HTTP 4xx for a POST that contains an invalid member rejects the whole POST before dispatch
	unitInvalid := map[int]bool{}
	for _, m := range c.sent {
		if !m.env.notif && m.env.want != 0 {
			unitInvalid[m.unit] = true
		}
	}
	want := map[string][]string{}
	optional := map[string]int{}
	anyIDs := map[string]bool{}
	var classes []string
	for _, m := range c.sent {
		if m.env.notif {
			continue
		}
		st := statuses[m.unit]
		cls := "result"
		if m.env.want != 0 {
			cls = fmt.Sprint(m.env.want)
		}
		switch {
		case m.env.optional:
			optional[m.id]++
			classes = append(classes, "optional")
		case st >= 400 && st < 500 && unitInvalid[m.unit]:
			// the HTTP transports may pre-validate and answer the whole POST with a 4xx
			optional[m.id]++
			classes = append(classes, fmt.Sprintf("http-%d", st))
			if m.env.gate && len(started) > 0 {
				return fail("rejected-post-dispatched", "the POST was rejected with %d but a handler of it ran (%v)", st, started)
			}
		case m.env.anyClass && c02DupIDs(c.sent, m.id):
			// the id is (legitimately) used by another request of this case too: one response of any class is due on top
			want[m.id] = append(want[m.id], "*")
			classes = append(classes, "any")
		case m.env.anyClass:
			if len(got[m.id]) != 1 {
				return fail("cancelled-call-answered-"+fmt.Sprint(len(got[m.id]))+"-times", "call id %s, cancelled by the peer while in flight, received %d responses (%v), want exactly one", m.id, len(got[m.id]), got[m.id])
			}
			anyIDs[m.id] = true
			classes = append(classes, "cancelled:"+got[m.id][0])
		default:
			want[m.id] = append(want[m.id], cls)
			classes = append(classes, cls)
		}
	}
	for id, w := range want {
		g := append([]string{}, got[id]...)
		slices.SortStableFunc(w, func(a, b string) int { return btoi(a == "*") - btoi(b == "*") }) // wildcards are matched last
		for _, cls := range w {
			i := slices.Index(g, cls)
			if cls == "*" && len(g) > 0 {
				i = 0
			}
			if i < 0 {
				name := ""
				for _, m := range c.sent {
					if m.id == id {
						name += m.env.name + " "
					}
				}
				switch {
				case len(got[id]) == 0:
					return fail("call-unanswered "+strings.TrimSpace(name), "request(s) %swith id %s: no response bearing that id (ids answered: %v)", name, id, got)
				default:
					return fail(fmt.Sprintf("wrong-answer %sgot %v want %v", name, got[id], w), "request(s) %swith id %s answered with %v, want %v", name, id, got[id], w)
				}
			}
			g = slices.Delete(g, i, i+1)
		}
		if len(g) > optional[id] {
			return fail("call-answered-twice", "id %s: %d more response(s) than requests: got %v want %v", id, len(g)-optional[id], got[id], w)
		}
		if slices.Contains(g, "result") {
			// a request that may be refused (duplicate of an in-flight id, member of a rejected POST) must not be served
			return fail("refusable-request-served", "id %s: got %v, want %v plus at most an error for the refused request", id, got[id], w)
		}
	}
	for id, g := range got {
		if len(want[id]) == 0 && len(g) > optional[id] && id != "null" && id != "" && !anyIDs[id] {
			return fail("response-with-foreign-id", "response(s) %v carry id %s which no pending request has", g, id)
		}
	}
	return c.driver + " " + strings.Join(classes, ","), "", ""
}

func c02DupIDs(sent []c02Sent, id string) bool {
	n := 0
	for _, m := range sent {
		if !m.env.notif && m.id == id {
			n++
		}
	}
	return n > 1
}

func c02Cases(quick bool) []c02Case {
	envs := c02Envelopes()
	ids := c02IDs()
	var cases []c02Case
	// (the legacy HTTP+SSE transport takes single messages only: its POST endpoint predates batching, so
	// the batch families (C), (C') below are not sent over it)
	drivers := []string{"pipe", "http-stateful-sse", "http-stateful-json", "http-stateless-sse", "http-stateless-json", "sse"}
	for _, drv := range drivers {
		versions := []string{"2025-03-26", "2025-06-18"}
		for _, v := range versions {
			// (A) every envelope x every id, one message per session
			for _, e := range envs {
				for _, id := range ids {
					if e.notif && id != ids[0] {
						continue
					}
					if v != "2025-06-18" && id != "1" && id != `"1"` && !e.notif {
						continue // the id alphabet is crossed with one version only
					}
					u := c02Line(e, id)
					sid := id
					if e.notif {
						sid = ""
					}
					cases = append(cases, c02Case{driver: drv, version: v, units: []string{u}, sent: []c02Sent{{id: sid, env: e, unit: 0}},
						desc: fmt.Sprintf("%s %s single %s id=%s", drv, v, e.name, id)})
				}
			}
		}
		// (B) pairs of messages on one session (ids 1 / "1" / 2)
		for i, e1 := range envs {
			for j, e2 := range envs {
				if quick && (i+j)%3 != 0 {
					continue
				}
				for _, idp := range [][2]string{{"1", "2"}, {"1", `"1"`}, {"7", "7"}} {
					c := c02Case{driver: drv, version: "2025-06-18", desc: fmt.Sprintf("%s pair %s id=%s ; %s id=%s", drv, e1.name, idp[0], e2.name, idp[1])}
					for k, e := range []c02Env{e1, e2} {
						c.units = append(c.units, c02Line(e, idp[k]))
						sid := idp[k]
						if e.notif {
							sid = ""
						}
						c.sent = append(c.sent, c02Sent{id: sid, env: e, unit: k})
					}
					cases = append(cases, c)
				}
			}
		}
	}
	// (C) batches under 2025-03-26: every composition of <=3 members over {ok call, unknown-method call, gated call, notification}
	members := []c02Env{
		{name: "call", method: "tools/call", params: `{"name":"t","arguments":{}}`},
		{name: "unknown", method: "unknown/x", params: "{}", want: -32601},
		{name: "notification", method: "notifications/progress", params: `{"progressToken":1,"progress":1}`, notif: true},
		{name: "gated", method: "tools/call", gate: true},
	}
	for _, drv := range []string{"pipe", "http-stateful-sse", "http-stateful-json"} {
		var rec func(cur []int)
		rec = func(cur []int) {
			if len(cur) > 0 {
				var parts []string
				c := c02Case{driver: drv, version: "2025-03-26"}
				var names []string
				var gated []int
				for k, mi := range cur {
					e := members[mi]
					id := fmt.Sprint(k + 1)
					if e.gate {
						e.params = fmt.Sprintf(`{"name":"g","arguments":{"k":"%d"}}`, k+1)
						gated = append(gated, k+1)
					}
					parts = append(parts, c02Line(e, id))
					sid := id
					if e.notif {
						sid = ""
					}
					c.sent = append(c.sent, c02Sent{id: sid, env: e, unit: 0})
					names = append(names, e.name)
				}
				c.units = []string{"[" + strings.Join(parts, ",") + "]"}
				// every release order of the gated handlers
				for _, perm := range c02Perms(gated) {
					cc := c
					cc.release = perm
					cc.desc = fmt.Sprintf("%s 2025-03-26 batch [%s] release=%v", drv, strings.Join(names, ","), perm)
					cases = append(cases, cc)
				}
			}
			if len(cur) == 3 {
				return
			}
			for mi := range members {
				rec(append(append([]int{}, cur...), mi))
			}
		}
		rec(nil)
	}
	// (C') ids of a completed batch are reused afterwards, by single calls and by another batch
	for _, drv := range []string{"pipe", "http-stateful-sse", "http-stateful-json"} {
		call := members[0]
		gatedEnv := func(k int) c02Env {
			e := members[3]
			e.params = fmt.Sprintf(`{"name":"g","arguments":{"k":"%d"}}`, k)
			return e
		}
		for _, perm := range c02Perms([]int{1, 2}) {
			// the batch's two calls complete in either order
			b := "[" + c02Line(gatedEnv(1), "1") + "," + c02Line(gatedEnv(2), "2") + "]"
			c := c02Case{driver: drv, version: "2025-03-26", release: perm,
				units: []string{b},
				sent:  []c02Sent{{id: "1", env: gatedEnv(1), unit: 0}, {id: "2", env: gatedEnv(2), unit: 0}},
				desc:  fmt.Sprintf("%s 2025-03-26 batch [gated 1, gated 2] release=%v then ids 1 and 2 reused", drv, perm)}
			cases = append(cases, c)
		}
		for _, reuse := range [][]string{{"1"}, {"2"}, {"1", "2"}, {"2", "1"}} {
			c := c02Case{driver: drv, version: "2025-03-26",
				units: []string{"[" + c02Line(call, "1") + "," + c02Line(call, "2") + "]"},
				sent:  []c02Sent{{id: "1", env: call, unit: 0}, {id: "2", env: call, unit: 0}}}
			for k, id := range reuse {
				c.units = append(c.units, c02Line(call, id))
				c.sent = append(c.sent, c02Sent{id: id, env: call, unit: k + 1})
			}
			c.desc = fmt.Sprintf("%s 2025-03-26 batch [call 1, call 2] then single calls reusing ids %v", drv, reuse)
			cases = append(cases, c)
			c2 := c02Case{driver: drv, version: "2025-03-26",
				units: []string{"[" + c02Line(call, "1") + "," + c02Line(call, "2") + "]", "[" + c02Line(call, "2") + "," + c02Line(call, "1") + "," + c02Line(call, "3") + "]"},
				sent:  []c02Sent{{id: "1", env: call, unit: 0}, {id: "2", env: call, unit: 0}, {id: "2", env: call, unit: 1}, {id: "1", env: call, unit: 1}, {id: "3", env: call, unit: 1}},
				desc:  drv + " 2025-03-26 batch [1,2] then batch [2,1,3]"}
			cases = append(cases, c2)
		}
	}
	// (D) two concurrent gated calls as separate messages, every release order; and a duplicate in-flight id
	for _, drv := range []string{"pipe", "http-stateful-sse", "http-stateful-json", "sse"} {
		g := func(k int, id string) (string, c02Sent) {
			e := c02Env{name: "gated", method: "tools/call", params: fmt.Sprintf(`{"name":"g","arguments":{"k":"%d"}}`, k), gate: true}
			return c02Line(e, id), c02Sent{id: id, env: e}
		}
		for _, perm := range c02Perms([]int{1, 2}) {
			u1, s1 := g(1, "1")
			u2, s2 := g(2, "2")
			s2.unit = 1
			cases = append(cases, c02Case{driver: drv, version: "2025-06-18", units: []string{u1, u2}, sent: []c02Sent{s1, s2}, release: perm,
				desc: fmt.Sprintf("%s two in-flight calls release=%v", drv, perm)})
			if strings.HasPrefix(drv, "http-stateful") {
				// the same with an idle timeout configured and more than that timeout passing between the two completions
				cases = append(cases, c02Case{driver: drv + "+timeout", version: "2025-06-18", units: []string{u1, u2}, sent: []c02Sent{s1, s2}, release: perm, pause: c02SessionTimeout - time.Second,
					desc: fmt.Sprintf("%s+timeout two in-flight calls release=%v, %v between completions (session timeout %v)", drv, perm, c02SessionTimeout-time.Second, c02SessionTimeout)})
				cases = append(cases, c02Case{driver: drv + "+timeout", version: "2025-06-18", units: []string{u1, u2}, sent: []c02Sent{s1, s2}, release: perm, pause: c02SessionTimeout + time.Second,
					desc: fmt.Sprintf("%s+timeout two in-flight calls release=%v, %v between completions (session timeout %v)", drv, perm, c02SessionTimeout+time.Second, c02SessionTimeout)})
			}
		}
		// duplicate in-flight id: the second is refused, the first still gets its own answer exactly once
		u1, s1 := g(1, "5")
		dup := c02Env{name: "dup-ping", method: "ping", want: -32600, optional: true}
		cases = append(cases, c02Case{driver: drv, version: "2025-06-18", units: []string{u1, c02Line(dup, "5")}, sent: []c02Sent{s1, {id: "5", env: dup, unit: 1}}, release: []int{1},
			desc: drv + " duplicate in-flight id 5"})
	}
	// (E) the peer cancels an in-flight call: the call is still answered exactly once, and the other
	// members of its batch are answered too
	for _, drv := range []string{"pipe", "http-stateful-sse", "http-stateful-json", "sse"} {
		gated := func(k int, cancelled bool) c02Env {
			return c02Env{name: "gated", method: "tools/call", params: fmt.Sprintf(`{"name":"g","arguments":{"k":"%d"}}`, k), gate: true, anyClass: cancelled}
		}
		cancel := func(id string) (string, c02Env) {
			e := c02Env{name: "cancel", method: "notifications/cancelled", params: `{"requestId":` + id + `,"reason":"changed my mind"}`, notif: true}
			return c02Line(e, ""), e
		}
		call := c02Env{name: "call", method: "tools/call", params: `{"name":"t","arguments":{}}`}
		for _, v := range []string{"2025-03-26", "2025-06-18"} {
			cu, ce := cancel("1")
			cases = append(cases, c02Case{driver: drv, version: v, release: []int{1},
				units: []string{c02Line(gated(1, true), "1"), cu},
				sent:  []c02Sent{{id: "1", env: gated(1, true), unit: 0}, {env: ce, unit: 1}},
				desc:  fmt.Sprintf("%s %s gated call 1 ; cancelled(1) ; release", drv, v)})
			// a second call after the cancellation, answered before the cancelled one is released
			cases = append(cases, c02Case{driver: drv, version: v, release: []int{1},
				units: []string{c02Line(gated(1, true), "1"), cu, c02Line(call, "2")},
				sent:  []c02Sent{{id: "1", env: gated(1, true), unit: 0}, {env: ce, unit: 1}, {id: "2", env: call, unit: 2}},
				desc:  fmt.Sprintf("%s %s gated call 1 ; cancelled(1) ; call 2 ; release", drv, v)})
		}
		if drv == "sse" {
			continue // single messages only
		}
		cu, ce := cancel("1")
		cases = append(cases, c02Case{driver: drv, version: "2025-03-26", release: []int{1},
			units: []string{"[" + c02Line(gated(1, true), "1") + "," + c02Line(call, "2") + "]", cu},
			sent:  []c02Sent{{id: "1", env: gated(1, true), unit: 0}, {id: "2", env: call, unit: 0}, {env: ce, unit: 1}},
			desc:  drv + " 2025-03-26 batch [gated 1, call 2] ; cancelled(1) ; release"})
		for _, perm := range c02Perms([]int{1, 2}) {
			cases = append(cases, c02Case{driver: drv, version: "2025-03-26", release: perm,
				units: []string{"[" + c02Line(gated(1, true), "1") + "," + c02Line(gated(2, false), "2") + "]", cu},
				sent:  []c02Sent{{id: "1", env: gated(1, true), unit: 0}, {id: "2", env: gated(2, false), unit: 0}, {env: ce, unit: 1}},
				desc:  fmt.Sprintf("%s 2025-03-26 batch [gated 1, gated 2] ; cancelled(1) ; release=%v", drv, perm)})
		}
	}
	return cases
}

func c02Perms(xs []int) [][]int {
	if len(xs) <= 1 {
		return [][]int{append([]int{}, xs...)}
	}
	var out [][]int
	for i := range xs {
		rest := append(append([]int{}, xs[:i]...), xs[i+1:]...)
		for _, p := range c02Perms(rest) {
			out = append(out, append([]int{xs[i]}, p...))
		}
	}
	return out
}

func TestVerifC02(t *testing.T) {
	env := verifx.LoadEnv("C02")
	res := env.NewResult()
	cases := env.NewCases(res, "wire-envelopes")
	for _, c := range c02Cases(env.Quick()) {
		idx, mine := cases.Next()
		if !mine {
			continue
		}
		var obs, sig, msg string
		func() {
			defer func() {
				if r := recover(); r != nil {
					sig, msg = "c02 "+c.driver+" panic-or-leak", fmt.Sprintf("%v [%s]", r, c.desc)
				}
			}()
			synctest.Test(t, func(t *testing.T) { obs, sig, msg = c02RunCase(c) })
		}()
		if sig != "" {
			cases.Violate(idx, sig, msg, len(c.sent))
			continue
		}
		cases.Record(idx, obs, len(c.sent), func() string { return c.desc })
	}
	env.Finish(res)
}
