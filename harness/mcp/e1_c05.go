package mcp

// C05 (B): closing real client/server sessions from either side (or both), with a
// gated tool call in flight, an optional subscriptions/listen stream (2026-07-28),
// the peer's Wait, and a write failure injected at every write index on either
// side (half-open transport).

import (
	"context"
	"errors"
	"fmt"
	"io"
	"net/http"
	"net/http/httptest"
	"slices"
	"sort"
	"strings"
	"testing"
	"time"

	"github.com/modelcontextprotocol/go-sdk/internal/verifx"
	vs "github.com/modelcontextprotocol/go-sdk/internal/vsched"
	"github.com/modelcontextprotocol/go-sdk/jsonrpc"
)

var errC05Pipe = errors.New("verif: write on a broken pipe")

// c05Conn wraps a Connection: logs Close, and lets writes start failing.
type c05Conn struct {
	Connection
	side     string
	faults   *bool // armed?
	broken   bool
	closedEv bool
}

func (c *c05Conn) Write(ctx context.Context, m jsonrpc.Message) error {
	if c.broken {
		return errC05Pipe
	}
	if *c.faults {
		if vs.Choose("fault-write-"+c.side, 2, 1) == 1 {
			c.broken = true
			vs.Event("%s-writes-broken", c.side)
			return errC05Pipe
		}
	}
	return c.Connection.Write(ctx, m)
}

func (c *c05Conn) Close() error {
	if !c.closedEv {
		c.closedEv = true
		vs.Event("%s-transport-closed", c.side)
	}
	return c.Connection.Close()
}

func (c *c05Conn) sessionUpdated(st ServerSessionState) {
	if sc, ok := c.Connection.(serverConnection); ok {
		sc.sessionUpdated(st)
	}
}

type c05Transport struct {
	inner  Transport
	side   string
	faults *bool
	conn   *c05Conn
}

func (t *c05Transport) Connect(ctx context.Context) (Connection, error) {
	c, err := t.inner.Connect(ctx)
	if err != nil {
		return nil, err
	}
	t.conn = &c05Conn{Connection: c, side: t.side, faults: t.faults}
	return t.conn, nil
}

func c05Call(ctx context.Context, cs *ClientSession, done chan string) func() {
	return func() {
		_, err := cs.CallTool(ctx, &CallToolParams{Name: "t", Arguments: c03Args{K: 0}})
		if err != nil {
			done <- "call:err"
		} else {
			done <- "call:ok"
		}
	}
}

func c05Sessions(faultSide string) vs.Verdict {
	f := &e1Fail{prefix: "c05b"}
	ctx := context.Background()
	versions := []string{"2025-06-18", "2026-07-28"}
	version := versions[vs.Choose("version", 2, 0)]
	closers := []string{"client", "server", "both", "server-twice", "client-twice"}
	closer := closers[vs.Choose("closer", len(closers), 0)]
	withCall := vs.Choose("inflight-call", 2, 0) == 0
	ctl := vs.NewController()
	gate := ctl.Gate("tool")
	armC, armS := false, false
	vs.Quiet(true)
	s := NewServer(&Implementation{Name: "srv", Version: "1"}, &ServerOptions{Logger: quietLogger})
	AddTool(s, &Tool{Name: "t"}, func(ctx context.Context, r *CallToolRequest, in c03Args) (*CallToolResult, any, error) {
		vs.Event("start tool")
		gate.Wait()
		vs.Event("finish tool")
		return &CallToolResult{}, nil, nil
	})
	ct, st := NewInMemoryTransports()
	sT := &c05Transport{inner: st, side: "server", faults: &armS}
	cT := &c05Transport{inner: ct, side: "client", faults: &armC}
	ss, err := s.Connect(ctx, sT, nil)
	if err != nil {
		return vs.Verdict{Bad: "server connect: " + err.Error(), Sig: "c05b connect-failed"}
	}
	copts := &ClientOptions{Logger: quietLogger}
	if version == "2026-07-28" {
		copts.ToolListChangedHandler = func(context.Context, *ToolListChangedRequest) {}
	}
	c := NewClient(&Implementation{Name: "cli", Version: "1"}, copts)
	cs, err := c.Connect(ctx, cT, &ClientSessionOptions{ProtocolVersion: version})
	if err != nil {
		return vs.Verdict{Bad: "client connect: " + err.Error(), Sig: "c05b connect-failed"}
	}
	vs.Quiet(false)
	done := make(chan string, 8)
	// an in-flight tool call
	n := 0
	if withCall {
		n++
		vs.Go(c05Call(ctx, cs, done))
	}
	switch faultSide {
	case "client":
		armC = true
	case "server":
		armS = true
	}
	for range map[string]int{"client": 1, "both": 1, "client-twice": 2}[closer] {
		n++
		vs.Go(func() {
			vs.Point()
			vs.Event("client-close-called")
			cs.Close()
			vs.Event("client-close-returned")
			done <- "cclose"
		})
	}
	for range map[string]int{"server": 1, "both": 1, "server-twice": 2}[closer] {
		n++
		vs.Go(func() {
			vs.Point()
			vs.Event("server-close-called")
			ss.Close()
			vs.Event("server-close-returned")
			done <- "sclose"
		})
	}
	// the peers' Wait must return as well
	n += 2
	vs.Go(func() { ss.Wait(); vs.Event("server-wait-returned"); done <- "swait" })
	vs.Go(func() { cs.Wait(); vs.Event("client-wait-returned"); done <- "cwait" })
	callRes := ""
	for i := 0; i < n; i++ {
		r := <-done
		if strings.HasPrefix(r, "call:") {
			callRes = r
		}
	}
	// closing again is harmless
	cs.Close()
	ss.Close()
	ctl.Stop()
	evs := vs.Events()
	if left := slices.Collect(s.Sessions()); len(left) != 0 {
		f.failf("server-session-not-removed", "after shutdown the server still lists %d session(s)", len(left))
	}
	if nc, ok := privClientSessionCount(c); ok && nc != 0 {
		f.failf("client-session-not-removed", "after shutdown the client still tracks %d session(s)", nc)
	}
	if subs, ok := privListChangedSubscriptions(s); ok && subs != 0 {
		f.failf("subscriptions-not-forgotten", "after shutdown the server still holds %d list-changed subscription(s)", subs)
	}
	st1, fin := evIndex(evs, "start tool"), evIndex(evs, "finish tool")
	stc := evIndex(evs, "server-transport-closed")
	if st1 >= 0 && fin < 0 {
		f.failf("handler-abandoned", "the tool handler started but never finished: %s", evJoin(evs))
	}
	if fin >= 0 && stc >= 0 && stc < fin {
		f.failf("transport-closed-before-handler-returned", "the server transport was closed while the tool handler was still running: %s", evJoin(evs))
	}
	// every Close that returns - also one that overlapped another Close - returns after the shutdown
	// it stands for: handlers done, transport closed
	for i, e := range evs {
		switch e {
		case "server-close-returned":
			if stc < 0 || stc > i || (fin > i) {
				f.failf("close-returned-before-shutdown server", "a ServerSession.Close returned before the handler had finished and the transport was closed: %s", evJoin(evs))
			}
		case "client-close-returned":
			if ctc := evIndex(evs, "client-transport-closed"); ctc < 0 || ctc > i {
				f.failf("close-returned-before-shutdown client", "a ClientSession.Close returned before the transport was closed: %s", evJoin(evs))
			}
		}
	}
	if stc < 0 || evIndex(evs, "client-transport-closed") < 0 {
		f.failf("transport-not-closed", "a transport was never closed: %s", evJoin(evs))
	}
	return f.verdict(fmt.Sprintf("version=%s closer=%s faults=%s call=%v %s handlerRan=%v", version, closer, faultSide, withCall, callRes, st1 >= 0))
}

// c05Nested: Close while a call is in flight whose handler on the peer is itself waiting for this
// side to answer a nested request (a tool that asks the client to sample).  Every user handler
// returns as soon as what it waits for returns, so the proviso of C05 holds: Close and both Waits
// must return, whoever closes and whenever the nested handler finishes.
func c05Nested() vs.Verdict {
	f := &e1Fail{prefix: "c05b nested"}
	ctx := context.Background()
	closers := []string{"client", "server", "both"}
	closer := closers[vs.Choose("closer", 3, 0)]
	ctl := vs.NewController()
	gate := ctl.Gate("sampling-handler")
	vs.Quiet(true)
	s := NewServer(&Implementation{Name: "srv", Version: "1"}, &ServerOptions{Logger: quietLogger})
	AddTool(s, &Tool{Name: "ask"}, func(ctx context.Context, r *CallToolRequest, in map[string]any) (*CallToolResult, any, error) {
		vs.Event("start tool")
		_, err := r.Session.CreateMessage(ctx, &CreateMessageParams{MaxTokens: 1, Messages: []*SamplingMessage{{Role: "user", Content: &TextContent{Text: "?"}}}})
		vs.Event("finish tool (nested call: %v)", err != nil)
		return &CallToolResult{}, nil, nil
	})
	c := NewClient(&Implementation{Name: "cli", Version: "1"}, &ClientOptions{Logger: quietLogger,
		CreateMessageHandler: func(context.Context, *CreateMessageRequest) (*CreateMessageResult, error) {
			vs.Event("start sampling")
			gate.Wait() // finishes when everything else has come to rest (Close is then already waiting)
			vs.Event("finish sampling")
			return &CreateMessageResult{Model: "m", Role: "assistant", Content: &TextContent{Text: "!"}}, nil
		}})
	ct, st := NewInMemoryTransports()
	ss, err := s.Connect(ctx, st, nil)
	if err != nil {
		return vs.Verdict{Bad: "server connect: " + err.Error(), Sig: "c05b connect-failed"}
	}
	cs, err := c.Connect(ctx, ct, &ClientSessionOptions{ProtocolVersion: "2025-06-18"})
	if err != nil {
		return vs.Verdict{Bad: "client connect: " + err.Error(), Sig: "c05b connect-failed"}
	}
	done := make(chan string, 8)
	vs.Go(func() {
		_, err := cs.CallTool(ctx, &CallToolParams{Name: "ask", Arguments: map[string]any{}})
		if err != nil {
			done <- "call:err"
		} else {
			done <- "call:ok"
		}
	})
	vs.WaitIdle() // the nested request has reached the client's handler
	vs.Quiet(false)
	n := 1
	if closer == "client" || closer == "both" {
		n++
		vs.Go(func() {
			vs.Point()
			cs.Close()
			vs.Event("client-close-returned")
			done <- "cclose"
		})
	}
	if closer == "server" || closer == "both" {
		n++
		vs.Go(func() {
			vs.Point()
			ss.Close()
			vs.Event("server-close-returned")
			done <- "sclose"
		})
	}
	n += 2
	vs.Go(func() { ss.Wait(); done <- "swait" })
	vs.Go(func() { cs.Wait(); done <- "cwait" })
	callRes := ""
	for i := 0; i < n; i++ {
		r := <-done
		if strings.HasPrefix(r, "call:") {
			callRes = r
		}
	}
	cs.Close()
	ss.Close()
	ctl.Stop()
	evs := vs.Events()
	if evIndex(evs, "start sampling") < 0 {
		f.failf("harness", "the nested request never reached the client's handler: %s", evJoin(evs))
	}
	if evIndex(evs, "finish sampling") < 0 {
		f.failf("handler-abandoned", "the sampling handler started but never finished: %s", evJoin(evs))
	}
	if left := slices.Collect(s.Sessions()); len(left) != 0 {
		f.failf("server-session-not-removed", "after shutdown the server still lists %d session(s)", len(left))
	}
	return f.verdict(fmt.Sprintf("closer=%s %s", closer, callRes))
}

// c05SubscribeVsClose: on a 2026-07-28 session every ClientSession.Subscribe opens a
// subscriptions/listen call that stays in flight until it is cancelled.  One thread subscribes
// while another closes the session: whichever comes first, Close and both Waits return and the
// server forgets the session and its subscriptions.
func c05SubscribeVsClose() vs.Verdict {
	f := &e1Fail{prefix: "c05b subscribe-vs-close"}
	ctx := context.Background()
	vs.Quiet(true)
	s := NewServer(&Implementation{Name: "srv", Version: "1"}, &ServerOptions{Logger: quietLogger,
		SubscribeHandler:   func(context.Context, *SubscribeRequest) error { return nil },
		UnsubscribeHandler: func(context.Context, *UnsubscribeRequest) error { return nil },
	})
	const uri = "file:///r1"
	s.AddResource(&Resource{URI: uri, Name: "r1"}, func(context.Context, *ReadResourceRequest) (*ReadResourceResult, error) {
		return &ReadResourceResult{Contents: []*ResourceContents{{URI: uri, Text: "x"}}}, nil
	})
	c := NewClient(&Implementation{Name: "cli", Version: "1"}, &ClientOptions{Logger: quietLogger,
		ResourceUpdatedHandler: func(context.Context, *ResourceUpdatedNotificationRequest) {}})
	ct, st := NewInMemoryTransports()
	ss, err := s.Connect(ctx, st, nil)
	if err != nil {
		return vs.Verdict{Bad: "server connect: " + err.Error(), Sig: "c05b connect-failed"}
	}
	cs, err := c.Connect(ctx, ct, &ClientSessionOptions{ProtocolVersion: "2026-07-28"})
	if err != nil {
		return vs.Verdict{Bad: "client connect: " + err.Error(), Sig: "c05b connect-failed"}
	}
	vs.WaitIdle()
	vs.Quiet(false)
	done := make(chan string, 8)
	subRes := ""
	vs.Go(func() {
		if err := cs.Subscribe(ctx, &SubscribeParams{URI: uri}); err != nil {
			done <- "subscribe:err"
		} else {
			done <- "subscribe:ok"
		}
	})
	vs.Go(func() {
		vs.Point()
		cs.Close()
		done <- "cclose"
	})
	vs.Go(func() { ss.Wait(); done <- "swait" })
	vs.Go(func() { cs.Wait(); done <- "cwait" })
	for i := 0; i < 4; i++ {
		if r := <-done; strings.HasPrefix(r, "subscribe:") {
			subRes = r
		}
	}
	cs.Close()
	ss.Close()
	vs.WaitIdle()
	if left := slices.Collect(s.Sessions()); len(left) != 0 {
		f.failf("server-session-not-removed", "after shutdown the server still lists %d session(s)", len(left))
	}
	if subs, ok := privResourceSubscribers(s, uri); ok && subs != 0 {
		f.failf("subscriptions-not-forgotten", "after shutdown the server still holds %d subscription(s) to %s", subs, uri)
	}
	return f.verdict(subRes)
}

// c05ConnectVsKick: Server.Connect on an in-memory transport races server code that closes every
// session it can see (`for ss := range server.Sessions() { ss.Close() }` - a shutdown sweep while a new
// client is connecting); the client connects from the other end.  Whatever the order: Connect returns (a
// session or an error), every Close returns, the client's Connect returns, a session that was closed is
// forgotten by the server, and nothing is left running.
func c05ConnectVsKick() vs.Verdict {
	f := &e1Fail{prefix: "c05b connect-vs-kick"}
	ctx := context.Background()
	s := NewServer(&Implementation{Name: "srv", Version: "1"}, &ServerOptions{Logger: quietLogger})
	c := NewClient(&Implementation{Name: "cli", Version: "1"}, &ClientOptions{Logger: quietLogger})
	ct, st := NewInMemoryTransports()
	done := make(chan string, 8)
	var ss *ServerSession
	var cs *ClientSession
	vs.Go(func() {
		var err error
		if ss, err = s.Connect(ctx, st, nil); err != nil {
			done <- "sconnect:err"
		} else {
			done <- "sconnect:ok"
		}
	})
	kicked := 0
	vs.Go(func() {
		vs.Point()
		for x := range s.Sessions() {
			kicked++
			x.Close()
		}
		done <- "kick"
	})
	vs.Go(func() {
		var err error
		if cs, err = c.Connect(ctx, ct, &ClientSessionOptions{ProtocolVersion: "2025-06-18"}); err != nil {
			done <- "cconnect:err"
		} else {
			done <- "cconnect:ok"
		}
	})
	var res []string
	for i := 0; i < 3; i++ {
		res = append(res, <-done)
	}
	slices.Sort(res)
	if cs != nil {
		cs.Close()
	}
	if ss != nil {
		ss.Close()
	}
	vs.WaitIdle()
	if left := slices.Collect(s.Sessions()); len(left) != 0 {
		f.failf("server-session-not-removed", "after every session was closed the server still lists %d session(s)", len(left))
	}
	return f.verdict(fmt.Sprintf("%s kicked=%d", strings.Join(res, ","), kicked))
}

// c05StreamableClient: the real streamable HTTP client (standalone SSE stream attached) against
// the real stateful handler, in process.  A tool call is in flight (its handler parked on a gate the
// controller opens when everything else has come to rest) when the client, the server, or both
// close the session.  Close and both Waits return, the handler's table and the server forget the
// session, and nothing is left running - under every schedule within the budget.
func c05StreamableClient() vs.Verdict {
	f := &e1Fail{prefix: "c05b streamable-client"}
	ctx := context.Background()
	closers := []string{"client", "server", "both"}
	closer := closers[vs.Choose("closer", 3, 0)]
	ctl := vs.NewController()
	gate := ctl.Gate("tool")
	vs.Quiet(true)
	s := NewServer(&Implementation{Name: "srv", Version: "1"}, &ServerOptions{Logger: quietLogger})
	AddTool(s, &Tool{Name: "t"}, func(ctx context.Context, r *CallToolRequest, in map[string]any) (*CallToolResult, any, error) {
		vs.Event("start tool")
		gate.Wait()
		vs.Event("finish tool")
		return &CallToolResult{}, nil, nil
	})
	h := NewStreamableHTTPHandler(func(*http.Request) *Server { return s }, &StreamableHTTPOptions{Logger: quietLogger})
	hx := &hxTransport{Handler: h}
	c := NewClient(&Implementation{Name: "cli", Version: "1"}, &ClientOptions{Logger: quietLogger})
	cs, err := c.Connect(ctx, &StreamableClientTransport{Endpoint: "http://srv.test/mcp", HTTPClient: hx.client(), MaxRetries: -1}, &ClientSessionOptions{ProtocolVersion: "2025-06-18"})
	if err != nil {
		return vs.Verdict{Bad: "client connect: " + err.Error(), Sig: "c05b connect-failed"}
	}
	vs.WaitIdle() // the standalone stream is attached
	var ss *ServerSession
	for x := range s.Sessions() {
		ss = x
	}
	if ss == nil {
		return vs.Verdict{Bad: "no server session", Sig: "c05b connect-failed"}
	}
	vs.Quiet(false)
	done := make(chan string, 8)
	n := 3
	vs.Go(c05Call(ctx, cs, done))
	vs.Go(func() { ss.Wait(); done <- "swait" })
	vs.Go(func() { cs.Wait(); done <- "cwait" })
	if closer == "client" || closer == "both" {
		n++
		vs.Go(func() {
			vs.Point()
			cs.Close()
			done <- "cclose"
		})
	}
	if closer == "server" || closer == "both" {
		n++
		vs.Go(func() {
			vs.Point()
			ss.Close()
			if closer == "server" {
				// the client learns about it from its next exchange at the latest
				cs.Close()
			}
			done <- "sclose"
		})
	}
	callRes := ""
	for i := 0; i < n; i++ {
		if r := <-done; strings.HasPrefix(r, "call:") {
			callRes = r
		}
	}
	cs.Close()
	ss.Close()
	ctl.Stop()
	vs.Quiet(true)
	time.Sleep(10 * time.Second) // longer than the bounded waits of a teardown (the DELETE has 5s)
	vs.WaitIdle()
	vs.Quiet(false)
	if left := slices.Collect(s.Sessions()); len(left) != 0 {
		f.failf("server-session-not-removed", "after shutdown the server still lists %d session(s)", len(left))
	}
	if ids, ok := privHandlerSessionIDs(h); ok && len(ids) != 0 {
		nt := len(ids)
		f.failf("handler-table-not-emptied", "after shutdown the HTTP handler still holds %d session(s)", nt)
	}
	if nc, ok := privClientSessionCount(c); ok && nc != 0 {
		f.failf("client-session-not-removed", "after shutdown the client still tracks %d session(s)", nc)
	}
	evs := vs.Events()
	if st, fin := evIndex(evs, "start tool"), evIndex(evs, "finish tool"); st >= 0 && fin < 0 {
		f.failf("handler-abandoned", "the tool handler started but never finished: %s", evJoin(evs))
	}
	return f.verdict(fmt.Sprintf("closer=%s %s", closer, callRes))
}

// c05StreamableClose: a streamable HTTP session is closed (DELETE or ServerSession.Close) while a
// POST carrying more calls than the session's incoming queue holds is being handed to it.  Every
// HTTP exchange must end, Close must return, and nothing may be left running.
func c05StreamableClose() vs.Verdict {
	f := &e1Fail{prefix: "c05 streamable-close"}
	closer := vs.Choose("closer", 2, 0) // 0: DELETE, 1: ServerSession.Close
	shape := vs.Choose("post-shape", 2, 0)
	vs.Quiet(true)
	s := NewServer(&Implementation{Name: "srv", Version: "1"}, &ServerOptions{Logger: quietLogger})
	ran := 0
	AddTool(s, &Tool{Name: "t"}, func(ctx context.Context, r *CallToolRequest, in map[string]any) (*CallToolResult, any, error) {
		ran++
		return &CallToolResult{}, nil, nil
	})
	// an idle timeout is configured: closing the session must also leave no armed timer behind
	h := NewStreamableHTTPHandler(func(*http.Request) *Server { return s }, &StreamableHTTPOptions{Logger: quietLogger, SessionTimeout: time.Hour})
	do := func(method, sid, body string) *httptest.ResponseRecorder {
		var rd io.Reader
		if body != "" {
			rd = strings.NewReader(body)
		}
		r := httptest.NewRequest(method, "http://example.test/mcp", rd)
		if body != "" {
			r.Header.Set("Content-Type", "application/json")
		}
		r.Header.Set("Accept", "application/json, text/event-stream")
		if sid != "" {
			r.Header.Set("Mcp-Session-Id", sid)
			r.Header.Set("Mcp-Protocol-Version", "2025-03-26")
		}
		w := httptest.NewRecorder()
		h.ServeHTTP(w, r)
		return w
	}
	w := do("POST", "", `{"jsonrpc":"2.0","id":"i","method":"initialize","params":{"protocolVersion":"2025-03-26","capabilities":{},"clientInfo":{"name":"c","version":"1"}}}`)
	sid := w.Header().Get("Mcp-Session-Id")
	do("POST", sid, `{"jsonrpc":"2.0","method":"notifications/initialized","params":{}}`)
	var ss *ServerSession
	for x := range s.Sessions() {
		ss = x
	}
	if sid == "" || ss == nil {
		return vs.Verdict{Bad: "no session", Sig: "c05 setup"}
	}
	info, infoOK := privHandlerSessionInfo(h, sid)
	if infoOK && info == nil {
		return vs.Verdict{Bad: "session not registered with the handler", Sig: "c05 setup"}
	}
	vs.Quiet(false)
	const calls = 12 // more than the transport's incoming queue holds
	call := func(id int) string {
		return fmt.Sprintf(`{"jsonrpc":"2.0","id":%d,"method":"tools/call","params":{"name":"t","arguments":{}}}`, id)
	}
	done := make(chan string, calls+2)
	posts := 1
	if shape == 0 {
		// one POST with a batch of 12 calls
		var parts []string
		for i := 1; i <= calls; i++ {
			parts = append(parts, call(i))
		}
		vs.Go(func() {
			w := do("POST", sid, "["+strings.Join(parts, ",")+"]")
			done <- fmt.Sprintf("post:%d", w.Code)
		})
	} else {
		// 3 concurrent POSTs with a batch of 4 calls each
		posts = 3
		for p := 0; p < posts; p++ {
			var parts []string
			for i := 1; i <= 4; i++ {
				parts = append(parts, call(10*p+i))
			}
			vs.Go(func() {
				w := do("POST", sid, "["+strings.Join(parts, ",")+"]")
				done <- fmt.Sprintf("post:%d", w.Code)
			})
		}
	}
	vs.Go(func() {
		if closer == 0 {
			w := do("DELETE", sid, "")
			done <- fmt.Sprintf("delete:%d", w.Code)
		} else {
			ss.Close()
			done <- "closed"
		}
	})
	var outs []string
	for i := 0; i < posts+1; i++ {
		outs = append(outs, <-done) // a POST or a Close that never returns is reported as a deadlock
	}
	vs.WaitIdle()
	n := 0
	for range s.Sessions() {
		n++
	}
	if n != 0 {
		f.failf("session-not-forgotten", "after the close the server still lists %d sessions", n)
	}
	// every HTTP exchange of the session has ended and the session is closed: its idle timer must be gone
	if armed, ok := privIdleTimerStop(info); ok && armed {
		f.failf("idle-timer-left-armed", "the session is closed and forgotten, yet its idle-timeout timer is still armed")
	}
	sort.Strings(outs)
	return f.verdict(strings.Join(outs, " "))
}

// c05RootsBroadcastVsClose: one Client with three sessions.  While Client.AddRoots tells every session
// about the change (one roots/list_changed each, written session by session), the second session is
// closed - by the client or by its server.  Nothing panics, AddRoots and the Close return, the two
// surviving sessions are each told exactly once, the closed one is gone from the client's list.
func c05RootsBroadcastVsClose(closer string) vs.Verdict {
	f := &e1Fail{prefix: "c05b roots-broadcast-vs-close " + closer}
	ctx := context.Background()
	vs.Quiet(true)
	c := NewClient(&Implementation{Name: "cli", Version: "1"}, &ClientOptions{Logger: quietLogger})
	told := make([]int, 3)
	var css []*ClientSession
	var sss []*ServerSession
	for i := 0; i < 3; i++ {
		s := NewServer(&Implementation{Name: fmt.Sprint("srv", i), Version: "1"}, &ServerOptions{Logger: quietLogger,
			RootsListChangedHandler: func(context.Context, *RootsListChangedRequest) { told[i]++ }})
		ct, st := NewInMemoryTransports()
		ss, err := s.Connect(ctx, st, nil)
		if err != nil {
			return vs.Verdict{Bad: "server connect: " + err.Error(), Sig: "c05b connect-failed"}
		}
		cs, err := c.Connect(ctx, ct, &ClientSessionOptions{ProtocolVersion: "2025-06-18"})
		if err != nil {
			return vs.Verdict{Bad: "client connect: " + err.Error(), Sig: "c05b connect-failed"}
		}
		css, sss = append(css, cs), append(sss, ss)
	}
	vs.WaitIdle()
	vs.Quiet(false)
	done := make(chan string, 4)
	vs.Go(func() {
		c.AddRoots(&Root{URI: "file:///new", Name: "new"})
		done <- "added"
	})
	vs.Go(func() {
		if closer == "client" {
			css[1].Close()
		} else {
			sss[1].Close()
			css[1].Wait()
		}
		done <- "closed"
	})
	<-done
	<-done
	vs.Quiet(true)
	vs.WaitIdle()
	for _, i := range []int{0, 2} {
		if err := css[i].Ping(ctx, nil); err != nil {
			f.failf("surviving-session-unusable", "session %d was not closed, yet a ping on it fails: %v", i, err)
		}
	}
	vs.WaitIdle()
	for _, i := range []int{0, 2} {
		if told[i] != 1 {
			f.failf("surviving-session-told-"+fmt.Sprint(told[i])+"-times", "session %d stayed open throughout the broadcast and was sent %d roots/list_changed notifications, want 1 (told: %v)", i, told[i], told)
		}
	}
	n, _ := privClientSessionCount(c)
	if n != 2 {
		f.failf("client-session-list", "after the close the client lists %d sessions, want 2", n)
	}
	for i := range css {
		css[i].Close()
		sss[i].Wait()
	}
	vs.WaitIdle()
	vs.Quiet(false)
	return f.verdict(fmt.Sprintf("told=%v", told))
}

func TestVerifC05(t *testing.T) {
	env := verifx.LoadEnv("C05")
	b := env.Pick(1, 2)
	scs := []*verifx.Scenario{
		vs.E1(t, "b/sessions", b, vs.Options{}, func() vs.Verdict { return c05Sessions("") }),
		vs.E1(t, "b/sessions-client-writes-fail", b, vs.Options{}, func() vs.Verdict { return c05Sessions("client") }),
		vs.E1(t, "b/sessions-server-writes-fail", b, vs.Options{}, func() vs.Verdict { return c05Sessions("server") }),
		vs.E1(t, "b/nested-request-in-flight", env.Pick(1, 2), vs.Options{}, func() vs.Verdict { return c05Nested() }),
		vs.E1(t, "b/roots-broadcast-vs-close/closed-by-client", env.Pick(1, 2), vs.Options{}, func() vs.Verdict { return c05RootsBroadcastVsClose("client") }),
		vs.E1(t, "b/roots-broadcast-vs-close/closed-by-server", env.Pick(1, 2), vs.Options{}, func() vs.Verdict { return c05RootsBroadcastVsClose("server") }),
		vs.E1(t, "b/subscribe-vs-close/2026-07-28", env.Pick(2, 3), vs.Options{}, func() vs.Verdict { return c05SubscribeVsClose() }),
		vs.E1(t, "b/connect-vs-kick", env.Pick(2, 3), vs.Options{}, func() vs.Verdict { return c05ConnectVsKick() }),
		vs.E1(t, "b/streamable-client-close-vs-call", env.Pick(1, 2), vs.Options{}, func() vs.Verdict { return c05StreamableClient() }),
		vs.E1(t, "b/streamable-close-vs-posts", env.Pick(1, 2), vs.Options{}, func() vs.Verdict { return c05StreamableClose() }),
	}
	env.Run(scs)
}
