package mcp

// C10: the streamable server routes messages to the right stream, never across sessions.
// Two sessions x two concurrent tools/call POSTs each (the same JSON-RPC ids in both
// sessions), handlers gated and released in every order, under the controlled scheduler;
// every byte written to every HTTP exchange is attributed to the request that opened it.

import (
	"bytes"
	"context"
	"encoding/json"
	"fmt"
	"log/slog"
	"net/http"
	"net/http/httptest"
	"sort"
	"strings"
	"sync"
	"testing"
	"time"

	"github.com/modelcontextprotocol/go-sdk/internal/verifx"
	vs "github.com/modelcontextprotocol/go-sdk/internal/vsched"
)

type c10Args struct {
	Tag string `json:"tag"`
}

type c10Post struct {
	sess string // session label (A/B)
	id   int
	// idJSON: the id as it is written on the wire (the number id, or - typedIDs - the string with the same text)
	idJSON string
	tag    string
	rec    *httptest.ResponseRecorder
}

type c10Opts struct {
	stateless bool
	jsonResp  bool
	dupID     bool // two concurrent POSTs on one session reuse the same JSON-RPC id
	store     bool
	// broadcast: both sessions are subscribed to a resource and every tool handler announces an
	// update of it with Server.ResourceUpdated, passing its own handler context.  A broadcast is
	// issued outside any request of the receiving sessions: it belongs on each subscribed session's
	// standalone stream, never on the exchange of a request - of whichever session and id.
	broadcast bool
	// outOfBand: while its request is in flight every handler also sends a notification under a
	// detached context (issued outside any request: standalone stream or nowhere), and the handler of
	// A1 changes the server's tool list and stays in flight until the debounced list_changed broadcast
	// has gone out (to every entitled session: standalone streams, never a request's exchange)
	outOfBand bool
	// slog: every handler also writes one log record (its tag) through an slog.Logger backed by its
	// session's LoggingHandler - one handler per session, shared by the session's concurrent requests,
	// each logging with its own request context.  The record travels like the handler's other
	// notifications: on the exchange of its own request, once, with its own payload.
	slog bool
	// typedIDs: the two concurrent requests of a session carry the ids 1 and "1": a number and a string
	// with the same text are different ids, each with its own exchange
	typedIDs bool
	// oneSession: only session A exists (two concurrent requests): a smaller system, explored deeper
	oneSession bool
}

func c10Messages(rec *httptest.ResponseRecorder) ([]map[string]any, error) {
	var chunks [][]byte
	ct := rec.Header().Get("Content-Type")
	switch {
	case strings.HasPrefix(ct, "text/event-stream"):
		for _, evt := range hxParseSSE(rec.Body.Bytes()) {
			if len(evt.Data) > 0 {
				chunks = append(chunks, evt.Data)
			}
		}
	case strings.HasPrefix(ct, "application/json"):
		chunks = append(chunks, rec.Body.Bytes())
	}
	var out []map[string]any
	for _, c := range chunks {
		c = bytes.TrimSpace(c)
		if len(c) == 0 {
			continue
		}
		if c[0] == '[' {
			var arr []map[string]any
			if err := json.Unmarshal(c, &arr); err != nil {
				return nil, fmt.Errorf("%q: %v", c, err)
			}
			out = append(out, arr...)
			continue
		}
		var m map[string]any
		if err := json.Unmarshal(c, &m); err != nil {
			return nil, fmt.Errorf("%q: %v", c, err)
		}
		out = append(out, m)
	}
	return out, nil
}

// c10TagOf extracts the tag a message carries (response text or progress message).
func c10TagOf(m map[string]any) (kind, tag string) {
	if res, ok := m["result"].(map[string]any); ok {
		if cs, ok := res["content"].([]any); ok && len(cs) > 0 {
			if c, ok := cs[0].(map[string]any); ok {
				t, _ := c["text"].(string)
				return "response", t
			}
		}
		return "response", ""
	}
	if _, ok := m["error"]; ok {
		return "error", ""
	}
	if p, ok := m["params"].(map[string]any); ok {
		if m["method"] == "notifications/message" {
			d, _ := p["data"].(map[string]any)
			t, _ := d["msg"].(string)
			return "notification", t
		}
		t, _ := p["message"].(string)
		return "notification", t
	}
	return "other", ""
}

func c10Run(o c10Opts) vs.Verdict {
	f := &e1Fail{prefix: "c10"}
	ctx := context.Background()
	ctl := vs.NewController()
	gates := map[string]*vs.Gate{}
	tags := []string{"A1", "A2", "B1", "B2"}
	if o.dupID || o.oneSession {
		tags = []string{"A1", "A2"}
	}
	for _, t := range tags {
		gates[t] = ctl.Gate(t)
	}
	vs.Quiet(true)
	const c10URI = "file:///shared"
	s := NewServer(&Implementation{Name: "srv", Version: "1"}, &ServerOptions{Logger: quietLogger,
		SubscribeHandler:   func(context.Context, *SubscribeRequest) error { return nil },
		UnsubscribeHandler: func(context.Context, *UnsubscribeRequest) error { return nil },
	})
	s.AddResource(&Resource{URI: c10URI, Name: "shared"}, func(context.Context, *ReadResourceRequest) (*ReadResourceResult, error) {
		return &ReadResourceResult{}, nil
	})
	var lhMu sync.Mutex
	loggers := map[*ServerSession]*slog.Logger{}
	AddTool(s, &Tool{Name: "echo"}, func(ctx context.Context, r *CallToolRequest, in c10Args) (*CallToolResult, any, error) {
		r.Session.NotifyProgress(ctx, &ProgressNotificationParams{ProgressToken: "p", Progress: 1, Message: in.Tag})
		if o.slog {
			lhMu.Lock()
			lg := loggers[r.Session]
			if lg == nil {
				lg = slog.New(NewLoggingHandler(r.Session, nil))
				loggers[r.Session] = lg
			}
			lhMu.Unlock()
			lg.InfoContext(ctx, in.Tag)
		}
		if o.outOfBand {
			r.Session.NotifyProgress(context.Background(), &ProgressNotificationParams{ProgressToken: "p", Progress: 2, Message: in.Tag + ":detached"})
			if in.Tag == "A1" {
				AddTool(s, &Tool{Name: "extra"}, func(context.Context, *CallToolRequest, c10Args) (*CallToolResult, any, error) {
					return &CallToolResult{}, nil, nil
				})
				time.Sleep(50 * time.Millisecond) // (the change notification is debounced by 10ms)
			}
		}
		if g := gates[in.Tag]; g != nil {
			g.Wait()
		}
		if o.broadcast {
			s.ResourceUpdated(ctx, &ResourceUpdatedNotificationParams{URI: c10URI})
		}
		return &CallToolResult{Content: []Content{&TextContent{Text: in.Tag}}}, nil, nil
	})
	hopts := &StreamableHTTPOptions{Stateless: o.stateless, JSONResponse: o.jsonResp, Logger: quietLogger}
	if o.store {
		hopts.EventStore = NewMemoryEventStore(nil)
	}
	h := NewStreamableHTTPHandler(func(*http.Request) *Server { return s }, hopts)
	post := func(sid, body string) *httptest.ResponseRecorder {
		r := httptest.NewRequest("POST", "http://example.test/mcp", strings.NewReader(body))
		r.Header.Set("Content-Type", "application/json")
		r.Header.Set("Accept", "application/json, text/event-stream")
		if sid != "" {
			r.Header.Set("Mcp-Session-Id", sid)
		}
		r.Header.Set("Mcp-Protocol-Version", "2025-06-18")
		w := httptest.NewRecorder()
		h.ServeHTTP(w, r)
		return w
	}
	sids := map[string]string{"A": "", "B": ""}
	standalone := map[string]*httptest.ResponseRecorder{}
	var cancels []context.CancelFunc
	if !o.stateless {
		for _, lbl := range []string{"A", "B"} {
			if o.oneSession && lbl == "B" {
				continue
			}
			w := post("", `{"jsonrpc":"2.0","id":"i","method":"initialize","params":{"protocolVersion":"2025-06-18","capabilities":{},"clientInfo":{"name":"c","version":"1"}}}`)
			sids[lbl] = w.Header().Get("Mcp-Session-Id")
			if w.Code != 200 || sids[lbl] == "" {
				ctl.Stop()
				return vs.Verdict{Bad: fmt.Sprintf("initialize failed: %d", w.Code), Sig: "c10 setup"}
			}
			post(sids[lbl], `{"jsonrpc":"2.0","method":"notifications/initialized","params":{}}`)
			if o.slog {
				if w := post(sids[lbl], `{"jsonrpc":"2.0","id":"l","method":"logging/setLevel","params":{"level":"debug"}}`); w.Code != 200 {
					ctl.Stop()
					return vs.Verdict{Bad: fmt.Sprintf("setLevel failed: %d %s", w.Code, w.Body.String()), Sig: "c10 setup"}
				}
			}
			if o.broadcast {
				if w := post(sids[lbl], `{"jsonrpc":"2.0","id":"s","method":"resources/subscribe","params":{"uri":"`+c10URI+`"}}`); w.Code != 200 {
					ctl.Stop()
					return vs.Verdict{Bad: fmt.Sprintf("subscribe failed: %d %s", w.Code, w.Body.String()), Sig: "c10 setup"}
				}
			}
			// the session's standalone stream
			gctx, cancel := context.WithCancel(ctx)
			cancels = append(cancels, cancel)
			rec := httptest.NewRecorder()
			standalone[lbl] = rec
			sid := sids[lbl]
			vs.Go(func() {
				r := httptest.NewRequest("GET", "http://example.test/mcp", nil).WithContext(gctx)
				r.Header.Set("Accept", "text/event-stream")
				r.Header.Set("Mcp-Session-Id", sid)
				r.Header.Set("Mcp-Protocol-Version", "2025-06-18")
				h.ServeHTTP(rec, r)
			})
		}
		vs.WaitIdle()
	}
	vs.Quiet(false)
	var posts []*c10Post
	done := make(chan int, 8)
	for _, tag := range tags {
		p := &c10Post{sess: tag[:1], tag: tag, id: int(tag[1] - '0')}
		if o.dupID {
			p.id = 1
		}
		p.idJSON = fmt.Sprint(p.id)
		if o.typedIDs {
			p.idJSON = []string{"", "1", `"1"`}[p.id]
		}
		posts = append(posts, p)
		vs.Go(func() {
			p.rec = post(sids[p.sess], fmt.Sprintf(`{"jsonrpc":"2.0","id":%s,"method":"tools/call","params":{"name":"echo","arguments":{"tag":%q}}}`, p.idJSON, p.tag))
			done <- 1
		})
	}
	for range posts {
		<-done
	}
	ctl.Stop()
	vs.Quiet(true)
	for _, c := range cancels {
		c()
	}
	for ss := range s.Sessions() {
		ss.Close()
	}
	vs.WaitIdle()
	vs.Quiet(false)
	// ---- oracle
	var summary []string
	logRecords := map[string]int{}
	countLogs := func(msgs []map[string]any) {
		for _, m := range msgs {
			if m["method"] == "notifications/message" {
				_, tag := c10TagOf(m)
				logRecords[tag]++
			}
		}
	}
	for _, p := range posts {
		if p.rec.Code >= 400 {
			if !o.dupID {
				f.failf("valid-post-rejected", "POST %s was rejected with %d: %s", p.tag, p.rec.Code, p.rec.Body.String())
			}
			summary = append(summary, fmt.Sprintf("%s:%d", p.tag, p.rec.Code))
			continue
		}
		msgs, err := c10Messages(p.rec)
		if err != nil {
			f.failf("garbage-on-exchange", "exchange of %s: %v", p.tag, err)
			continue
		}
		responses := 0
		countLogs(msgs)
		for _, m := range msgs {
			kind, tag := c10TagOf(m)
			switch kind {
			case "response":
				responses++
				if tag != p.tag {
					f.failf("response-on-foreign-exchange", "the exchange of request %s (session %s, id %d) carries the response of %s", p.tag, p.sess, p.id, tag)
				}
				if id, _ := json.Marshal(m["id"]); string(id) != p.idJSON {
					f.failf("response-id", "the exchange of request %s carries a response with id %v", p.tag, m["id"])
				}
			case "notification":
				if m["method"] == "notifications/tools/list_changed" {
					f.failf("broadcast-on-request-exchange", "the exchange of request %s (session %s, id %d) carries the tools/list_changed broadcast, which belongs on the standalone streams of the entitled sessions", p.tag, p.sess, p.id)
				} else if strings.HasSuffix(tag, ":detached") {
					f.failf("detached-notification-on-request-exchange", "the exchange of request %s carries the notification %q, which was issued under a detached context (outside any request)", p.tag, tag)
				} else if m["method"] == "notifications/resources/updated" {
					f.failf("broadcast-on-request-exchange", "the exchange of request %s (session %s, id %d) carries a resources/updated broadcast, which belongs on the standalone stream of each subscribed session", p.tag, p.sess, p.id)
				} else if tag != p.tag {
					f.failf("notification-on-foreign-exchange", "the exchange of request %s carries a notification issued while handling %s", p.tag, tag)
				}
			}
		}
		if o.jsonResp && len(msgs) != 1 {
			f.failf("json-response-carries-extra-messages", "JSON-response mode: the exchange of request %s carries %d messages, want only its response (notifications belong on the standalone stream): %q", p.tag, len(msgs), p.rec.Body.String())
		}
		if responses != 1 {
			f.failf("response-count", "the exchange of request %s carries %d responses (status %d, body %q)", p.tag, responses, p.rec.Code, p.rec.Body.String())
		}
		summary = append(summary, fmt.Sprintf("%s:%d/%dmsg", p.tag, p.rec.Code, len(msgs)))
	}
	if o.dupID {
		ok := 0
		for _, p := range posts {
			if p.rec.Code < 400 {
				ok++
			}
		}
		if ok == 0 {
			f.failf("both-duplicates-rejected", "both POSTs with the same id were rejected")
		}
	}
	// standalone streams only carry traffic of their own session
	for lbl, rec := range standalone {
		msgs, err := c10Messages(rec)
		if err != nil {
			f.failf("garbage-on-exchange", "standalone stream of %s: %v", lbl, err)
			continue
		}
		updates := 0
		countLogs(msgs)
		for _, m := range msgs {
			kind, tag := c10TagOf(m)
			if kind == "response" {
				f.failf("response-on-standalone-stream", "the standalone stream of session %s carries the response of %s", lbl, tag)
			}
			if m["method"] == "notifications/resources/updated" {
				updates++
				continue
			}
			if m["method"] == "notifications/tools/list_changed" {
				continue
			}
			if kind == "notification" && !strings.HasPrefix(tag, lbl) {
				f.failf("cross-session-delivery", "the standalone stream of session %s carries a notification of %s", lbl, tag)
			}
		}
		if o.broadcast && updates != len(posts) {
			f.failf("broadcast-lost", "the standalone stream of session %s (subscribed) carries %d resources/updated notifications; %d handlers announced an update", lbl, updates, len(posts))
		}
		summary = append(summary, fmt.Sprintf("standalone-%s:%dmsg", lbl, len(msgs)))
	}
	if o.slog {
		for _, p := range posts {
			if n := logRecords[p.tag]; n != 1 {
				f.failf("log-record-count", "the log record written while handling %s was delivered %d times (records seen, by payload: %v)", p.tag, n, logRecords)
			}
		}
	}
	sort.Strings(summary)
	return f.verdict(strings.Join(summary, " "))
}

// c10CutRetry: request A's exchange is cut while its handler is still running; the client then
// retries with a new POST B that reuses A's JSON-RPC id.  Whatever the server does with B
// (refuse it as a duplicate of an in-flight id, or serve it), B's exchange must never carry the
// response produced by A's handler.
func c10CutRetry(store bool) vs.Verdict {
	f := &e1Fail{prefix: "c10 cut-retry"}
	ctx := context.Background()
	ctl := vs.NewController()
	gateA := ctl.Gate("A")
	vs.Quiet(true)
	s := NewServer(&Implementation{Name: "srv", Version: "1"}, &ServerOptions{Logger: quietLogger})
	AddTool(s, &Tool{Name: "echo"}, func(ctx context.Context, r *CallToolRequest, in c10Args) (*CallToolResult, any, error) {
		vs.Event("start %s", in.Tag)
		if in.Tag == "A" {
			gateA.Wait()
		}
		return &CallToolResult{Content: []Content{&TextContent{Text: in.Tag}}}, nil, nil
	})
	hopts := &StreamableHTTPOptions{Logger: quietLogger}
	if store {
		hopts.EventStore = NewMemoryEventStore(nil)
	}
	h := NewStreamableHTTPHandler(func(*http.Request) *Server { return s }, hopts)
	post := func(rctx context.Context, sid, body string) *httptest.ResponseRecorder {
		r := httptest.NewRequest("POST", "http://example.test/mcp", strings.NewReader(body)).WithContext(rctx)
		r.Header.Set("Content-Type", "application/json")
		r.Header.Set("Accept", "application/json, text/event-stream")
		if sid != "" {
			r.Header.Set("Mcp-Session-Id", sid)
		}
		r.Header.Set("Mcp-Protocol-Version", "2025-06-18")
		w := httptest.NewRecorder()
		h.ServeHTTP(w, r)
		return w
	}
	w := post(ctx, "", `{"jsonrpc":"2.0","id":"i","method":"initialize","params":{"protocolVersion":"2025-06-18","capabilities":{},"clientInfo":{"name":"c","version":"1"}}}`)
	sid := w.Header().Get("Mcp-Session-Id")
	post(ctx, sid, `{"jsonrpc":"2.0","method":"notifications/initialized","params":{}}`)
	body := func(tag string) string {
		return fmt.Sprintf(`{"jsonrpc":"2.0","id":1,"method":"tools/call","params":{"name":"echo","arguments":{"tag":%q}}}`, tag)
	}
	actx, cut := context.WithCancel(ctx)
	var recA, recB *httptest.ResponseRecorder
	adone := make(chan struct{})
	vs.Go(func() {
		recA = post(actx, sid, body("A"))
		close(adone)
	})
	vs.WaitIdle() // A's handler is parked
	vs.Quiet(false)
	cut()
	<-adone
	bdone := make(chan struct{})
	vs.Go(func() {
		recB = post(ctx, sid, body("B"))
		close(bdone)
	})
	// A's handler returns whenever nothing else can run (the controller opens its gate when idle)
	<-bdone
	ctl.Stop()
	vs.Quiet(true)
	for ss := range s.Sessions() {
		ss.Close()
	}
	vs.WaitIdle()
	vs.Quiet(false)
	_ = recA
	obs := fmt.Sprintf("B:%d", recB.Code)
	if recB.Code < 400 {
		msgs, err := c10Messages(recB)
		if err != nil {
			f.failf("garbage-on-exchange", "exchange of B: %v", err)
		}
		for _, m := range msgs {
			if kind, tag := c10TagOf(m); kind == "response" && tag != "B" {
				f.failf("response-on-foreign-exchange", "request A's exchange was cut and request B reused its id: B's exchange carries the response of %s (%q)", tag, recB.Body.String())
			}
		}
		obs += fmt.Sprintf("/%dmsg", len(msgs))
	}
	return f.verdict(obs)
}

// c10NotifyWhileDown: request A's exchange is cut while its handler is still running; the handler
// then sends a notification (with its request's context) and returns.  With an event store the
// request's stream lives on: both messages belong to it - they are what a resume of that stream
// replays, in order - and the standalone stream carries nothing of request A.  Without a store the
// notification may travel on the standalone stream (there is no other way left), the response on none.
func c10NotifyWhileDown(store bool) vs.Verdict {
	f := &e1Fail{prefix: "c10 notify-while-down"}
	ctx := context.Background()
	ctl := vs.NewController()
	gateA := ctl.Gate("A")
	vs.Quiet(true)
	s := NewServer(&Implementation{Name: "srv", Version: "1"}, &ServerOptions{Logger: quietLogger})
	AddTool(s, &Tool{Name: "echo"}, func(ctx context.Context, r *CallToolRequest, in c10Args) (*CallToolResult, any, error) {
		r.Session.NotifyProgress(ctx, &ProgressNotificationParams{ProgressToken: "t", Progress: 1, Message: "A-first"})
		gateA.Wait()
		r.Session.NotifyProgress(context.WithoutCancel(ctx), &ProgressNotificationParams{ProgressToken: "t", Progress: 2, Message: "A-second"})
		return &CallToolResult{Content: []Content{&TextContent{Text: "A"}}}, nil, nil
	})
	hopts := &StreamableHTTPOptions{Logger: quietLogger}
	if store {
		hopts.EventStore = NewMemoryEventStore(nil)
	}
	h := NewStreamableHTTPHandler(func(*http.Request) *Server { return s }, hopts)
	do := func(rctx context.Context, method, sid, body, lastEventID string, w *httptest.ResponseRecorder) {
		r := httptest.NewRequest(method, "http://example.test/mcp", strings.NewReader(body)).WithContext(rctx)
		r.Header.Set("Content-Type", "application/json")
		r.Header.Set("Accept", "application/json, text/event-stream")
		if sid != "" {
			r.Header.Set("Mcp-Session-Id", sid)
		}
		if lastEventID != "" {
			r.Header.Set("Last-Event-ID", lastEventID)
		}
		r.Header.Set("Mcp-Protocol-Version", "2025-06-18")
		h.ServeHTTP(w, r)
	}
	w0 := httptest.NewRecorder()
	do(ctx, "POST", "", `{"jsonrpc":"2.0","id":"i","method":"initialize","params":{"protocolVersion":"2025-06-18","capabilities":{},"clientInfo":{"name":"c","version":"1"}}}`, "", w0)
	sid := w0.Header().Get("Mcp-Session-Id")
	do(ctx, "POST", sid, `{"jsonrpc":"2.0","method":"notifications/initialized","params":{}}`, "", httptest.NewRecorder())
	gctx, gcancel := context.WithCancel(ctx)
	standalone := httptest.NewRecorder()
	gdone := make(chan struct{})
	vs.Go(func() {
		do(gctx, "GET", sid, "", "", standalone)
		close(gdone)
	})
	actx, cut := context.WithCancel(ctx)
	recA := httptest.NewRecorder()
	adone := make(chan struct{})
	vs.Go(func() {
		do(actx, "POST", sid, `{"jsonrpc":"2.0","id":1,"method":"tools/call","params":{"name":"echo","arguments":{"tag":"A"},"_meta":{"progressToken":"t"}}}`, "", recA)
		close(adone)
	})
	vs.WaitIdle() // A's handler has sent its first notification and is parked
	vs.Quiet(false)
	cut()
	<-adone
	// A's handler goes on whenever nothing else can run (the controller opens its gate when idle)
	vs.WaitIdle()
	ctl.Stop()
	vs.WaitIdle()
	lastID := ""
	for _, evt := range hxParseSSE(recA.Body.Bytes()) {
		if evt.ID != "" {
			lastID = evt.ID
		}
	}
	var original []string
	if msgs, err := c10Messages(recA); err != nil {
		f.failf("garbage-on-exchange", "exchange of A: %v", err)
	} else {
		for _, m := range msgs {
			kind, tag := c10TagOf(m)
			original = append(original, kind+":"+tag)
		}
	}
	var resumed []string
	if store && lastID != "" {
		rec := httptest.NewRecorder()
		rctx, rcancel := context.WithCancel(ctx)
		rdone := make(chan struct{})
		vs.Go(func() {
			do(rctx, "GET", sid, "", lastID, rec)
			close(rdone)
		})
		vs.WaitIdle()
		rcancel()
		<-rdone
		msgs, err := c10Messages(rec)
		if err != nil {
			f.failf("garbage-on-exchange", "resumed stream: %v", err)
		}
		for _, m := range msgs {
			kind, tag := c10TagOf(m)
			resumed = append(resumed, kind+":"+tag)
		}
	}
	vs.Quiet(true)
	gcancel()
	<-gdone
	for ss := range s.Sessions() {
		ss.Close()
	}
	vs.WaitIdle()
	vs.Quiet(false)
	var onStandalone []string
	msgs, err := c10Messages(standalone)
	if err != nil {
		f.failf("garbage-on-exchange", "standalone stream: %v", err)
	}
	for _, m := range msgs {
		kind, tag := c10TagOf(m)
		onStandalone = append(onStandalone, kind+":"+tag)
	}
	if store {
		if len(onStandalone) > 0 {
			f.failf("request-message-on-standalone-stream", "request A's exchange was cut and its stream is stored for resumption; its handler's later messages belong to that stream, but the standalone stream carried %v (the resumed stream: %v)", onStandalone, resumed)
		}
		if all := strings.Join(append(append([]string{}, original...), resumed...), ","); lastID != "" && all != "notification:A-first,notification:A-second,response:A" {
			f.failf("resumed-stream-incomplete", "request A's exchange carried %v before it was cut; resuming its stream after event %q gave %v: together not the handler's two notifications and its response, each once and in order", original, lastID, resumed)
		}
	} else {
		for _, m := range onStandalone {
			if strings.HasPrefix(m, "response") {
				f.failf("response-on-standalone-stream", "the standalone stream carried %v", onStandalone)
			}
		}
	}
	return f.verdict(fmt.Sprintf("original=%v standalone=%v resumed=%v", original, onStandalone, resumed))
}

// c10ServerRequests: server-to-client requests issued while handling a request.  Two concurrent
// tools/call POSTs on one session; each handler asks the client to sample (sampling/createMessage,
// tagged through the system prompt) and returns the client's reply.  The server's request must
// travel on the exchange of the call whose handler issued it (on the standalone stream in
// JSON-response mode), and each handler must get the reply to its own request, whichever order the
// client answers in.
func c10ServerRequests(jsonResp bool) vs.Verdict {
	f := &e1Fail{prefix: "c10 server-requests"}
	ctx := context.Background()
	vs.Quiet(true)
	s := NewServer(&Implementation{Name: "srv", Version: "1"}, &ServerOptions{Logger: quietLogger})
	AddTool(s, &Tool{Name: "ask"}, func(ctx context.Context, r *CallToolRequest, in c10Args) (*CallToolResult, any, error) {
		res, err := r.Session.CreateMessage(ctx, &CreateMessageParams{SystemPrompt: in.Tag, MaxTokens: 1, Messages: []*SamplingMessage{}})
		if err != nil {
			return nil, nil, err
		}
		text := "?"
		if tc, ok := res.Content.(*TextContent); ok {
			text = tc.Text
		}
		return &CallToolResult{Content: []Content{&TextContent{Text: in.Tag + "<-" + text}}}, nil, nil
	})
	h := NewStreamableHTTPHandler(func(*http.Request) *Server { return s }, &StreamableHTTPOptions{JSONResponse: jsonResp, Logger: quietLogger})
	post := func(sid, body string) *httptest.ResponseRecorder {
		r := httptest.NewRequest("POST", "http://example.test/mcp", strings.NewReader(body))
		r.Header.Set("Content-Type", "application/json")
		r.Header.Set("Accept", "application/json, text/event-stream")
		if sid != "" {
			r.Header.Set("Mcp-Session-Id", sid)
		}
		r.Header.Set("Mcp-Protocol-Version", "2025-06-18")
		w := httptest.NewRecorder()
		h.ServeHTTP(w, r)
		return w
	}
	w := post("", `{"jsonrpc":"2.0","id":"i","method":"initialize","params":{"protocolVersion":"2025-06-18","capabilities":{"sampling":{}},"clientInfo":{"name":"c","version":"1"}}}`)
	sid := w.Header().Get("Mcp-Session-Id")
	post(sid, `{"jsonrpc":"2.0","method":"notifications/initialized","params":{}}`)
	gctx, gcancel := context.WithCancel(ctx)
	standalone := httptest.NewRecorder()
	vs.Go(func() {
		r := httptest.NewRequest("GET", "http://example.test/mcp", nil).WithContext(gctx)
		r.Header.Set("Accept", "text/event-stream")
		r.Header.Set("Mcp-Session-Id", sid)
		r.Header.Set("Mcp-Protocol-Version", "2025-06-18")
		h.ServeHTTP(standalone, r)
	})
	vs.WaitIdle()
	vs.Quiet(false)
	tags := []string{"A1", "A2"}
	recs := map[string]*httptest.ResponseRecorder{}
	// in JSON-response mode nothing is written to a POST's exchange before it completes: each
	// POST gets a recorder the harness can inspect while the handler is still waiting
	done := make(chan int, 4)
	for i, tag := range tags {
		rec := httptest.NewRecorder()
		recs[tag] = rec
		vs.Go(func() {
			r := httptest.NewRequest("POST", "http://example.test/mcp", strings.NewReader(fmt.Sprintf(`{"jsonrpc":"2.0","id":%d,"method":"tools/call","params":{"name":"ask","arguments":{"tag":%q}}}`, i+1, tag)))
			r.Header.Set("Content-Type", "application/json")
			r.Header.Set("Accept", "application/json, text/event-stream")
			r.Header.Set("Mcp-Session-Id", sid)
			r.Header.Set("Mcp-Protocol-Version", "2025-06-18")
			h.ServeHTTP(rec, r)
			done <- 1
		})
	}
	vs.WaitIdle() // both handlers wait for the client's replies
	// where did the server's requests travel?
	type sreq struct {
		where string
		id    any
		tag   string
	}
	var found []sreq
	scan := func(where string, rec *httptest.ResponseRecorder) {
		for _, evt := range hxParseSSE(rec.Body.Bytes()) {
			var m map[string]any
			if len(evt.Data) == 0 || json.Unmarshal(evt.Data, &m) != nil {
				continue
			}
			if m["method"] == "sampling/createMessage" {
				p, _ := m["params"].(map[string]any)
				tag, _ := p["systemPrompt"].(string)
				found = append(found, sreq{where: where, id: m["id"], tag: tag})
			}
		}
	}
	scan("A1", recs["A1"])
	scan("A2", recs["A2"])
	scan("standalone", standalone)
	if len(found) != 2 {
		f.failf("server-request-not-delivered", "two handlers each issued sampling/createMessage but %d requests reached the client: %+v", len(found), found)
	}
	for _, q := range found {
		want := q.tag
		if jsonResp {
			want = "standalone"
		}
		if q.where != want {
			f.failf("server-request-on-foreign-exchange", "the sampling request issued while handling %s travelled on %s, want %s (json mode %v)", q.tag, q.where, want, jsonResp)
		}
	}
	// the client answers, in either order
	if len(found) == 2 && vs.Choose("answer-order", 2, 0) == 1 {
		found[0], found[1] = found[1], found[0]
	}
	for _, q := range found {
		idJSON, _ := json.Marshal(q.id)
		w := post(sid, fmt.Sprintf(`{"jsonrpc":"2.0","id":%s,"result":{"role":"assistant","model":"m","content":{"type":"text","text":"reply-%s"}}}`, idJSON, q.tag))
		if w.Code >= 300 {
			f.failf("client-response-rejected", "the client's reply to the sampling request of %s was answered %d %s", q.tag, w.Code, w.Body.String())
		}
	}
	if f.sig == "" {
		for range tags {
			<-done
		}
	}
	vs.Quiet(true)
	gcancel()
	for ss := range s.Sessions() {
		ss.Close()
	}
	vs.WaitIdle()
	vs.Quiet(false)
	if f.sig != "" {
		return f.verdict("")
	}
	var summary []string
	for _, tag := range tags {
		msgs, err := c10Messages(recs[tag])
		if err != nil {
			f.failf("garbage-on-exchange", "exchange of %s: %v", tag, err)
			continue
		}
		responses := 0
		for _, m := range msgs {
			if kind, text := c10TagOf(m); kind == "response" {
				responses++
				if text != tag+"<-reply-"+tag {
					f.failf("reply-misrouted", "the handler of %s returned %q: it received the reply to another handler's request, or its response travelled on a foreign exchange", tag, text)
				}
			}
		}
		if responses != 1 {
			f.failf("response-count", "the exchange of %s carries %d responses: %q", tag, responses, recs[tag].Body.String())
		}
		summary = append(summary, fmt.Sprintf("%s:%dmsg", tag, len(msgs)))
	}
	return f.verdict(strings.Join(summary, " "))
}

// c10UpcallCancel: a handler's server-to-client request is abandoned (its context is cancelled) while
// the tool call is still in flight.  The resulting notifications/cancelled must travel where the
// request travelled - the call's own exchange (the standalone stream in JSON-response mode) - so
// that it reaches the client whether or not a standalone stream is attached, and must name the
// abandoned request.
// outerCancelled: it is not the handler that abandons its nested request; the client cancels the
// outer tools/call (notifications/cancelled for it, and it abandons the call's HTTP exchange), the
// handler's context ends and takes the nested request with it.  The notice for the nested request
// must still reach the client - its sampling handler is still running - and the only way left is the
// standalone stream.
func c10UpcallCancel(prefix string, jsonResp, standaloneAttached bool) vs.Verdict {
	return c10UpcallCancelBy(prefix, jsonResp, standaloneAttached, false)
}

func c10UpcallCancelBy(prefix string, jsonResp, standaloneAttached, outerCancelled bool) vs.Verdict {
	f := &e1Fail{prefix: prefix}
	ctx := context.Background()
	ctl := vs.NewController()
	abandon := ctl.Gate("abandon-upcall")
	finish := ctl.Gate("finish-call")
	cancelOuter := func() {}
	vs.Quiet(true)
	s := NewServer(&Implementation{Name: "srv", Version: "1"}, &ServerOptions{Logger: quietLogger})
	AddTool(s, &Tool{Name: "ask"}, func(ctx context.Context, r *CallToolRequest, in c10Args) (*CallToolResult, any, error) {
		cctx, cancel := context.WithCancel(ctx)
		vs.Go(func() {
			abandon.Wait()
			if outerCancelled {
				cancelOuter()
			} else {
				cancel()
			}
		})
		_, err := r.Session.CreateMessage(cctx, &CreateMessageParams{SystemPrompt: in.Tag, MaxTokens: 1, Messages: []*SamplingMessage{}})
		vs.Event("upcall returned: %v", err != nil)
		finish.Wait() // the tool call itself stays in flight while the cancellation notice is sent
		return &CallToolResult{Content: []Content{&TextContent{Text: in.Tag}}}, nil, nil
	})
	h := NewStreamableHTTPHandler(func(*http.Request) *Server { return s }, &StreamableHTTPOptions{JSONResponse: jsonResp, Logger: quietLogger})
	mk := func(method, sid, body string) *http.Request {
		var r *http.Request
		if body != "" {
			r = httptest.NewRequest(method, "http://example.test/mcp", strings.NewReader(body))
			r.Header.Set("Content-Type", "application/json")
		} else {
			r = httptest.NewRequest(method, "http://example.test/mcp", nil)
		}
		r.Header.Set("Accept", "application/json, text/event-stream")
		if sid != "" {
			r.Header.Set("Mcp-Session-Id", sid)
		}
		r.Header.Set("Mcp-Protocol-Version", "2025-06-18")
		return r
	}
	w := httptest.NewRecorder()
	h.ServeHTTP(w, mk("POST", "", `{"jsonrpc":"2.0","id":"i","method":"initialize","params":{"protocolVersion":"2025-06-18","capabilities":{"sampling":{}},"clientInfo":{"name":"c","version":"1"}}}`))
	sid := w.Header().Get("Mcp-Session-Id")
	h.ServeHTTP(httptest.NewRecorder(), mk("POST", sid, `{"jsonrpc":"2.0","method":"notifications/initialized","params":{}}`))
	gctx, gcancel := context.WithCancel(ctx)
	standalone := httptest.NewRecorder()
	if standaloneAttached {
		vs.Go(func() { h.ServeHTTP(standalone, mk("GET", sid, "").WithContext(gctx)) })
		vs.WaitIdle()
	}
	vs.Quiet(false)
	rec := httptest.NewRecorder()
	done := make(chan struct{})
	octx, ocancel := context.WithCancel(ctx)
	cancelOuter = func() {
		// the client gives up on the outer call: it says so and abandons the exchange
		vs.Event("client cancels the outer call")
		h.ServeHTTP(httptest.NewRecorder(), mk("POST", sid, `{"jsonrpc":"2.0","method":"notifications/cancelled","params":{"requestId":1}}`))
		ocancel()
	}
	vs.Go(func() {
		h.ServeHTTP(rec, mk("POST", sid, `{"jsonrpc":"2.0","id":1,"method":"tools/call","params":{"name":"ask","arguments":{"tag":"A"}}}`).WithContext(octx))
		close(done)
	})
	// the controller opens "abandon-upcall" once the handler waits for the client's reply, then
	// "finish-call" once the cancellation notice has gone out
	<-done
	if outerCancelled {
		vs.WaitIdle() // the exchange is over at once; give the notice for the nested request time to travel
	}
	ctl.Stop()
	vs.Quiet(true)
	gcancel()
	for ss := range s.Sessions() {
		ss.Close()
	}
	vs.WaitIdle()
	vs.Quiet(false)
	type hit struct {
		where, method string
		id            any
	}
	var hits []hit
	scan := func(where string, r *httptest.ResponseRecorder) {
		for _, evt := range hxParseSSE(r.Body.Bytes()) {
			var m map[string]any
			if len(evt.Data) == 0 || json.Unmarshal(evt.Data, &m) != nil {
				continue
			}
			switch m["method"] {
			case "sampling/createMessage":
				hits = append(hits, hit{where, "request", m["id"]})
			case "notifications/cancelled":
				p, _ := m["params"].(map[string]any)
				hits = append(hits, hit{where, "cancelled", p["requestId"]})
			}
		}
	}
	scan("call-exchange", rec)
	scan("standalone", standalone)
	want := "call-exchange"
	if jsonResp {
		want = "standalone"
	}
	wantNotice := want
	if outerCancelled {
		wantNotice = "standalone" // the call's exchange is gone
	}
	var reqID any
	nreq, ncan := 0, 0
	for _, x := range hits {
		switch x.method {
		case "request":
			nreq++
			reqID = x.id
			if x.where != want {
				f.failf("server-request-on-foreign-exchange", "the sampling request travelled on %s, want %s", x.where, want)
			}
		}
	}
	for _, x := range hits {
		if x.method != "cancelled" {
			continue
		}
		ncan++
		if x.where != wantNotice && !(outerCancelled && x.where == want) {
			f.failf("cancel-notice-on-foreign-stream", "the handler abandoned its sampling request: notifications/cancelled travelled on %s, the request it cancels travelled on %s (standalone stream attached: %v)", x.where, want, standaloneAttached)
		}
		if fmt.Sprint(x.id) != fmt.Sprint(reqID) {
			f.failf("cancel-notice-names-other-request", "notifications/cancelled names request %v, the abandoned request has id %v", x.id, reqID)
		}
	}
	reachable := !jsonResp || standaloneAttached // in JSON mode without a standalone stream the request itself cannot be delivered
	if outerCancelled {
		reachable = standaloneAttached // the call's exchange is gone: only the standalone stream is left
	}
	if reachable && nreq == 1 && ncan != 1 {
		f.failf("cancel-notice-lost", "the handler abandoned its sampling request but %d notifications/cancelled reached the client (standalone stream attached: %v, json mode: %v); call exchange: %q; standalone stream: %q", ncan, standaloneAttached, jsonResp, rec.Body.String(), standalone.Body.String())
	}
	return f.verdict(fmt.Sprintf("requests=%d cancelled=%d", nreq, ncan))
}

func TestVerifC10(t *testing.T) {
	env := verifx.LoadEnv("C10")
	b := env.Pick(1, 2)
	mk := func(name string, o c10Opts, budget int) *verifx.Scenario {
		return vs.E1(t, name, budget, vs.Options{}, func() vs.Verdict { return c10Run(o) })
	}
	scs := []*verifx.Scenario{
		mk("stateful-sse", c10Opts{}, b),
		mk("stateful-json", c10Opts{jsonResp: true}, b),
		mk("stateless-sse", c10Opts{stateless: true}, b),
		mk("stateless-json", c10Opts{stateless: true, jsonResp: true}, b),
		mk("stateless-sse/out-of-band-messages", c10Opts{stateless: true, outOfBand: true}, b),
		mk("stateless-json/out-of-band-messages", c10Opts{stateless: true, jsonResp: true, outOfBand: true}, b),
		mk("stateful-sse/out-of-band-messages", c10Opts{outOfBand: true}, b),
		mk("stateful-json/out-of-band-messages", c10Opts{jsonResp: true, outOfBand: true}, b),
		mk("stateful-sse/broadcast-from-handlers", c10Opts{broadcast: true}, b),
		mk("stateful-sse/one-session/handlers-log-through-one-slog-handler", c10Opts{slog: true, oneSession: true}, 2),
		mk("stateful-sse/ids-1-and-string-1", c10Opts{typedIDs: true}, env.Pick(0, 1)),
		mk("stateful-json/ids-1-and-string-1", c10Opts{typedIDs: true, jsonResp: true}, env.Pick(0, 1)),
		mk("stateful-sse+store/ids-1-and-string-1", c10Opts{typedIDs: true, store: true}, env.Pick(0, 1)),
		mk("stateless-sse/ids-1-and-string-1", c10Opts{typedIDs: true, stateless: true}, env.Pick(0, 1)),
		mk("stateful-sse/duplicate-in-flight-id", c10Opts{dupID: true}, env.Pick(2, 3)),
		mk("stateful-sse+store/duplicate-in-flight-id", c10Opts{dupID: true, store: true}, env.Pick(2, 3)),
		vs.E1(t, "stateful-sse/server-requests-during-calls", b, vs.Options{}, func() vs.Verdict { return c10ServerRequests(false) }),
		vs.E1(t, "stateful-json/server-requests-during-calls", b, vs.Options{}, func() vs.Verdict { return c10ServerRequests(true) }),
		vs.E1(t, "stateful-sse/abandoned-server-request", b, vs.Options{}, func() vs.Verdict { return c10UpcallCancel("c10 upcall-cancel", false, true) }),
		vs.E1(t, "stateful-sse/abandoned-server-request/no-standalone-stream", b, vs.Options{}, func() vs.Verdict { return c10UpcallCancel("c10 upcall-cancel", false, false) }),
		vs.E1(t, "stateful-json/abandoned-server-request", b, vs.Options{}, func() vs.Verdict { return c10UpcallCancel("c10 upcall-cancel", true, true) }),
		// the handler ends its own SSE stream while the client resumes: whatever the server writes
		// afterwards must still reach an exchange of that request (C08's scenario, judged here too)
		vs.E1(t, "stateful-sse+store/handler-closes-stream-vs-resume", env.Pick(2, 3), vs.Options{}, func() vs.Verdict { return c08RaceAs("c10 close-vs-resume", "2025-06-18", true) }),
		vs.E1(t, "stateful-sse/cut-then-retry-same-id", env.Pick(2, 3), vs.Options{}, func() vs.Verdict { return c10CutRetry(false) }),
		vs.E1(t, "stateful-sse+store/cut-then-retry-same-id", env.Pick(2, 3), vs.Options{}, func() vs.Verdict { return c10CutRetry(true) }),
		vs.E1(t, "stateful-sse/notification-while-exchange-is-down", b, vs.Options{}, func() vs.Verdict { return c10NotifyWhileDown(false) }),
		vs.E1(t, "stateful-sse+store/notification-while-exchange-is-down", b, vs.Options{}, func() vs.Verdict { return c10NotifyWhileDown(true) }),
	}
	if !env.Quick() {
		scs = append(scs, mk("stateless-json", c10Opts{stateless: true, jsonResp: true}, b), mk("stateful-sse+store", c10Opts{store: true}, b),
			mk("stateful-sse/handlers-log-through-one-slog-handler", c10Opts{slog: true}, b),
			mk("stateful-json/handlers-log-through-one-slog-handler", c10Opts{slog: true, jsonResp: true}, b),
			mk("stateful-json/one-session/handlers-log-through-one-slog-handler", c10Opts{slog: true, oneSession: true, jsonResp: true}, 2))
	}
	env.Run(scs)
}
