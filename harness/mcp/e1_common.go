package mcp

// Shared helpers for the E1 (controlled-scheduler) harnesses in package mcp.

import (
	"context"
	"fmt"
	"strings"

	vs "github.com/modelcontextprotocol/go-sdk/internal/vsched"
)

type e1Pair struct {
	s  *Server
	c  *Client
	ss *ServerSession
	cs *ClientSession
}

// e1Connect builds a server and a client connected over the in-memory transport.
// The handshake runs under the default schedule (vs.Quiet) unless explore is set.
func e1Connect(ctx context.Context, sopts *ServerOptions, copts *ClientOptions, version string, explore bool, setup func(*Server)) (*e1Pair, error) {
	if !explore {
		vs.Quiet(true)
		defer vs.Quiet(false)
	}
	if sopts == nil {
		sopts = &ServerOptions{}
	}
	if sopts.Logger == nil {
		sopts.Logger = quietLogger
	}
	if copts == nil {
		copts = &ClientOptions{}
	}
	if copts.Logger == nil {
		copts.Logger = quietLogger
	}
	p := &e1Pair{}
	p.s = NewServer(&Implementation{Name: "srv", Version: "1"}, sopts)
	if setup != nil {
		setup(p.s)
	}
	ct, st := NewInMemoryTransports()
	var err error
	p.ss, err = p.s.Connect(ctx, st, nil)
	if err != nil {
		return nil, fmt.Errorf("server connect: %w", err)
	}
	p.c = NewClient(&Implementation{Name: "cli", Version: "1"}, copts)
	p.cs, err = p.c.Connect(ctx, ct, &ClientSessionOptions{ProtocolVersion: version})
	if err != nil {
		return nil, fmt.Errorf("client connect: %w", err)
	}
	return p, nil
}

// e1Verdict assembles a verdict from a fail-first recorder.
type e1Fail struct {
	prefix string
	sig    string
	msg    string
}

func (f *e1Fail) failf(sig, format string, a ...any) {
	if f.sig == "" {
		f.sig, f.msg = f.prefix+" "+sig, fmt.Sprintf(format, a...)
	}
}

func (f *e1Fail) verdict(obs string) vs.Verdict {
	if f.sig != "" {
		return vs.Verdict{Obs: obs, Bad: f.msg, Sig: f.sig}
	}
	return vs.Verdict{Obs: obs}
}

// evIndex returns the index of the first event equal to name, or -1.
func evIndex(evs []string, name string) int {
	for i, e := range evs {
		if e == name {
			return i
		}
	}
	return -1
}

func evJoin(evs []string) string { return strings.Join(evs, " ") }
