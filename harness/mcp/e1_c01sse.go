package mcp

// C01 (E1): the HTTP+SSE client when the server answers a call and ends the event stream right behind the
// answer (it shuts down; a proxy recycles the connection).  The answer arrived in full before the end of
// the stream - the two are ordered on the byte stream - so the call completes with it, under every
// schedule of the client's goroutines (the one scanning the stream, the connection's reader, the caller).

import (
	"context"
	"encoding/json"
	"io"
	"net/http"
	"strings"

	vs "github.com/modelcontextprotocol/go-sdk/internal/vsched"
)

func c01SSELastWords() vs.Verdict {
	f := &e1Fail{prefix: "c01 sse-last-words"}
	ctx := context.Background()
	vs.Quiet(true)
	pr, pw := io.Pipe()
	hx := &hxTransport{Intercept: func(req *http.Request, n int) (*http.Response, error) {
		h := http.Header{}
		if req.Method == "GET" {
			h.Set("Content-Type", "text/event-stream")
			go io.WriteString(pw, "event: endpoint\ndata: /messages?sessionid=1\n\n")
			return &http.Response{StatusCode: 200, Status: "200 OK", Header: h, Body: pr, Proto: "HTTP/1.1", ProtoMajor: 1, ProtoMinor: 1}, nil
		}
		body, _ := io.ReadAll(req.Body)
		var m struct {
			ID     json.RawMessage `json:"id"`
			Method string          `json:"method"`
		}
		json.Unmarshal(body, &m)
		switch m.Method {
		case "initialize":
			go io.WriteString(pw, "event: message\ndata: "+`{"jsonrpc":"2.0","id":`+string(m.ID)+`,"result":{"protocolVersion":"2025-06-18","capabilities":{},"serverInfo":{"name":"peer","version":"1"}}}`+"\n\n")
		case "ping":
			go func() {
				io.WriteString(pw, "event: message\ndata: "+`{"jsonrpc":"2.0","id":`+string(m.ID)+`,"result":{}}`+"\n\n")
				pw.Close() // the stream ends behind the answer
			}()
		}
		return &http.Response{StatusCode: 202, Status: "202 Accepted", Header: h, Body: io.NopCloser(strings.NewReader("")), Proto: "HTTP/1.1", ProtoMajor: 1, ProtoMinor: 1}, nil
	}}
	c := NewClient(&Implementation{Name: "cli", Version: "1"}, &ClientOptions{Logger: quietLogger})
	cs, err := c.Connect(ctx, &SSEClientTransport{Endpoint: "http://peer.test/sse", HTTPClient: hx.client()}, &ClientSessionOptions{ProtocolVersion: "2025-06-18"})
	if err != nil {
		pw.Close()
		return vs.Verdict{Bad: "connect: " + err.Error(), Sig: "c01 sse-last-words connect-failed"}
	}
	vs.WaitIdle()
	vs.Quiet(false)
	var pingErr error
	done := make(chan struct{})
	vs.Go(func() {
		pingErr = cs.Ping(ctx, nil)
		close(done)
	})
	<-done
	vs.Quiet(true)
	cs.Close()
	pw.Close()
	pr.Close()
	vs.WaitIdle()
	vs.Quiet(false)
	if pingErr != nil {
		f.failf("response-before-end-of-stream-lost", "the server answered the ping and then ended the event stream; the ping completed with %v", pingErr)
		return f.verdict("ping failed")
	}
	return f.verdict("pong")
}
