package mcp

// C02 on the client side of a connection.  A raw peer plays the server towards a real ClientSession
// over the in-memory pipe (the framing of the stdio transports): it answers the handshake and then
// sends request envelopes of its own - the server-to-client methods with complete, missing, null and
// wrongly typed params, unknown methods, notification-only methods carrying an id, notifications -
// with every id token, alone and in pairs.  Every call gets exactly one response bearing its id
// token, of the mandated class; notifications get none; the client process survives and the session
// stays usable (a final ping by the peer is answered).

import (
	"bufio"
	"context"
	"encoding/json"
	"fmt"
	"io"
	"strings"
	"testing"
	"testing/synctest"

	"github.com/modelcontextprotocol/go-sdk/internal/verifx"
)

type c02cEnv struct {
	name   string
	method string
	params string // "" = absent
	notif  bool
	want   string // "result", "error" (any error), or an exact code; "any" = one response of either class
}

func c02ClientEnvelopes() []c02cEnv {
	return []c02cEnv{
		{name: "ping", method: "ping", want: "result"},
		{name: "ping(params null)", method: "ping", params: "null", want: "result"},
		{name: "roots/list", method: "roots/list", want: "result"},
		{name: "roots/list(params {})", method: "roots/list", params: "{}", want: "result"},
		{name: "sampling/createMessage", method: "sampling/createMessage", params: `{"messages":[{"role":"user","content":{"type":"text","text":"hi"}}],"maxTokens":5}`, want: "result"},
		{name: "sampling/createMessage(no params)", method: "sampling/createMessage", want: "-32600"},
		{name: "sampling/createMessage(params null)", method: "sampling/createMessage", params: "null", want: "-32600"},
		{name: "sampling/createMessage(params wrong type)", method: "sampling/createMessage", params: `"x"`, want: "-32602"},
		{name: "sampling/createMessage(messages wrong type)", method: "sampling/createMessage", params: `{"messages":5,"maxTokens":5}`, want: "-32602"},
		{name: "elicitation/create", method: "elicitation/create", params: `{"message":"name?","requestedSchema":{"type":"object","properties":{"n":{"type":"string"}}}}`, want: "result"},
		{name: "elicitation/create(no params)", method: "elicitation/create", want: "error"},
		{name: "elicitation/create(params null)", method: "elicitation/create", params: "null", want: "error"},
		{name: "elicitation/create(params {})", method: "elicitation/create", params: "{}", want: "any"},
		{name: "elicitation/create(params wrong type)", method: "elicitation/create", params: "7", want: "-32602"},
		{name: "elicitation/create(url mode without url)", method: "elicitation/create", params: `{"mode":"url","message":"go"}`, want: "error"},
		{name: "unknown/x", method: "unknown/x", params: "{}", want: "-32601"},
		{name: "tools/list (a server method)", method: "tools/list", params: "{}", want: "-32601"},
		{name: "empty method", method: "", params: "{}", want: "-32601"},
		{name: "list_changed with id", method: "notifications/tools/list_changed", params: "{}", want: "-32600"},
		{name: "progress with id", method: "notifications/progress", params: `{"progressToken":1,"progress":1}`, want: "-32600"},
		{name: "cancelled with id", method: "notifications/cancelled", params: `{"requestId":424242}`, want: "-32600"},
		{name: "list_changed", method: "notifications/tools/list_changed", params: "{}", notif: true},
		{name: "list_changed(no params)", method: "notifications/tools/list_changed", notif: true},
		{name: "resources/updated(no params)", method: "notifications/resources/updated", notif: true},
		{name: "progress(no params)", method: "notifications/progress", notif: true},
		{name: "logging message(no params)", method: "notifications/message", notif: true},
		{name: "elicitation/complete(no params)", method: "notifications/elicitation/complete", notif: true},
		{name: "unknown notification", method: "notifications/unknown", params: "{}", notif: true},
		{name: "roots/list without id", method: "roots/list", notif: true},
		{name: "elicitation/create without id", method: "elicitation/create", notif: true},
	}
}

func c02cLine(e c02cEnv, id string) string {
	var b strings.Builder
	b.WriteString(`{"jsonrpc":"2.0"`)
	if !e.notif {
		b.WriteString(`,"id":` + id)
	}
	b.WriteString(`,"method":` + fmt.Sprintf("%q", e.method))
	if e.params != "" {
		b.WriteString(`,"params":` + e.params)
	}
	b.WriteString("}")
	return b.String()
}

// c02ClientCase sends the given (envelope, id) messages one after the other and judges the answers.
func c02ClientCase(msgs []c02cEnv, ids []string) (obs, sig, msg string) {
	desc := func() string {
		var parts []string
		for i, e := range msgs {
			parts = append(parts, fmt.Sprintf("%s id=%s", e.name, ids[i]))
		}
		return strings.Join(parts, " ; ")
	}
	fail := func(s, format string, a ...any) (string, string, string) {
		return "", "c02 client " + s, fmt.Sprintf(format, a...) + " [" + desc() + "]"
	}
	ctx := context.Background()
	ct, st := NewInMemoryTransports()
	peer := st.rwc
	var lines [][]byte
	handshake := make(chan struct{})
	go func() {
		sc := bufio.NewScanner(peer)
		sc.Buffer(make([]byte, 1<<20), 1<<20)
		for sc.Scan() {
			line := append([]byte{}, sc.Bytes()...)
			var m struct {
				ID     json.RawMessage `json:"id"`
				Method string          `json:"method"`
			}
			json.Unmarshal(line, &m)
			switch m.Method {
			case "initialize":
				io.WriteString(peer, `{"jsonrpc":"2.0","id":`+string(m.ID)+`,"result":{"protocolVersion":"2025-06-18","capabilities":{},"serverInfo":{"name":"peer","version":"1"}}}`+"\n")
			case "notifications/initialized":
				close(handshake)
			default:
				lines = append(lines, line)
			}
		}
	}()
	c := NewClient(&Implementation{Name: "cli", Version: "1"}, &ClientOptions{Logger: quietLogger,
		CreateMessageHandler: func(context.Context, *CreateMessageRequest) (*CreateMessageResult, error) {
			return &CreateMessageResult{Model: "m", Role: "assistant", Content: &TextContent{Text: "ok"}}, nil
		},
		ElicitationHandler: func(context.Context, *ElicitRequest) (*ElicitResult, error) {
			return &ElicitResult{Action: "accept", Content: map[string]any{"n": "x"}}, nil
		},
		ToolListChangedHandler:      func(context.Context, *ToolListChangedRequest) {},
		ResourceUpdatedHandler:      func(context.Context, *ResourceUpdatedNotificationRequest) {},
		ProgressNotificationHandler: func(context.Context, *ProgressNotificationClientRequest) {},
		LoggingMessageHandler:       func(context.Context, *LoggingMessageRequest) {},
		ElicitationCompleteHandler:  func(context.Context, *ElicitationCompleteNotificationRequest) {},
	})
	c.AddRoots(&Root{URI: "file:///r", Name: "r"})
	cs, err := c.Connect(ctx, ct, &ClientSessionOptions{ProtocolVersion: "2025-06-18"})
	if err != nil {
		return fail("setup", "connect: %v", err)
	}
	<-handshake
	synctest.Wait()
	defer func() {
		peer.Close()
		cs.Close()
	}()
	send := func(line string) error {
		done := make(chan error, 1)
		go func() {
			_, err := io.WriteString(peer, line+"\n")
			done <- err
		}()
		synctest.Wait()
		select {
		case err := <-done:
			return err
		default:
			return fmt.Errorf("the client stopped reading")
		}
	}
	for i, e := range msgs {
		if err := send(c02cLine(e, ids[i])); err != nil {
			return fail("session-torn-down", "message %d could not be delivered: %v", i+1, err)
		}
	}
	if err := send(`{"jsonrpc":"2.0","id":"final","method":"ping"}`); err != nil {
		return fail("session-torn-down", "final ping: %v", err)
	}
	synctest.Wait()
	got := map[string][]string{}
	final := 0
	for _, l := range lines {
		var m struct {
			ID     json.RawMessage `json:"id"`
			Method string          `json:"method"`
			Error  *struct {
				Code int64 `json:"code"`
			} `json:"error"`
		}
		if err := json.Unmarshal(l, &m); err != nil {
			return fail("garbage-output", "the client wrote %q", l)
		}
		if m.Method != "" {
			continue // the client's own traffic
		}
		id := strings.TrimSpace(string(m.ID))
		if id == `"final"` {
			final++
			continue
		}
		cls := "result"
		if m.Error != nil {
			cls = fmt.Sprint(m.Error.Code)
		}
		got[id] = append(got[id], cls)
	}
	if final != 1 {
		return fail("session-unusable", "the final ping got %d responses", final)
	}
	var classes []string
	wantN := map[string]int{}
	for i, e := range msgs {
		if e.notif {
			continue
		}
		id := ids[i]
		wantN[id]++
	}
	for i, e := range msgs {
		if e.notif {
			continue
		}
		id := ids[i]
		g := got[id]
		if len(g) != wantN[id] {
			return fail(fmt.Sprintf("call-answered-%d-times %s", len(g), e.name), "%d request(s) with id %s received %d responses %v", wantN[id], id, len(g), g)
		}
		if wantN[id] > 1 {
			classes = append(classes, "shared-id")
			continue // classes of requests sharing an id are not told apart here
		}
		cls := g[0]
		ok := false
		switch e.want {
		case "any":
			ok = true
		case "error":
			ok = cls != "result"
		default:
			ok = cls == e.want
		}
		if !ok {
			return fail(fmt.Sprintf("wrong-answer %s got %s want %s", e.name, cls, e.want), "request %s with id %s answered with %s, want %s", e.name, id, cls, e.want)
		}
		classes = append(classes, cls)
	}
	for id, g := range got {
		if wantN[id] == 0 && id != "null" && id != "" {
			return fail("response-with-foreign-id", "response(s) %v carry id %s which no request had", g, id)
		}
	}
	return strings.Join(classes, ","), "", ""
}

func TestVerifC02Client(t *testing.T) {
	env := verifx.LoadEnv("C02")
	res := env.NewResult()
	cases := env.NewCases(res, "client-wire-envelopes")
	envs := c02ClientEnvelopes()
	ids := c02IDs()
	run := func(msgs []c02cEnv, idl []string) {
		idx, mine := cases.Next()
		if !mine {
			return
		}
		var obs, sig, msg string
		func() {
			defer func() {
				if r := recover(); r != nil && sig == "" {
					sig, msg = "c02 client panic-or-leak", fmt.Sprintf("%v", r)
				}
			}()
			synctest.Test(t, func(t *testing.T) { obs, sig, msg = c02ClientCase(msgs, idl) })
		}()
		if sig != "" {
			cases.Violate(idx, sig, msg, len(msgs)+1)
			return
		}
		cases.Record(idx, obs, len(msgs)+1, func() string { return fmt.Sprintf("%d messages", len(msgs)) })
	}
	// every envelope x every id token
	for _, e := range envs {
		if e.notif {
			run([]c02cEnv{e}, []string{""})
			continue
		}
		for _, id := range ids {
			run([]c02cEnv{e}, []string{id})
		}
	}
	// every ordered pair of envelopes, with distinct ids and with one shared id
	for _, a := range envs {
		for _, b := range envs {
			run([]c02cEnv{a, b}, []string{"7", "8"})
			if !a.notif && !b.notif {
				run([]c02cEnv{a, b}, []string{`"k"`, `"k"`})
			}
		}
	}
	env.Finish(res)
}
