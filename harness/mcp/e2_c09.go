package mcp

// C09: the streamable client survives stream cuts: exactly-once delivery, or a clean error.
// A scripted http.RoundTripper plays the server: the SSE response to a tools/call POST (or the
// standalone GET stream) is cut at EVERY byte offset, by a read error or a clean end of stream,
// and every sequence of reconnect outcomes (ok / transport error / 503 / 404 / cut again) up to
// the retry budget is enumerated, under virtual time.

import (
	"context"
	"errors"
	"fmt"
	"io"
	"net"
	"net/http"
	"os"
	"strings"
	"syscall"
	"testing"
	"testing/synctest"
	"time"

	"github.com/modelcontextprotocol/go-sdk/internal/verifx"
)

type c09Event struct {
	id    string
	data  string // "" = priming event
	retry string // value of a retry: field sent with the event ("" = none)
}

func (e c09Event) text() string {
	var b strings.Builder
	if e.retry != "" {
		b.WriteString("retry: " + e.retry + "\n")
	}
	if e.data != "" {
		b.WriteString("event: message\n")
	}
	if e.id != "" {
		b.WriteString("id: " + e.id + "\n")
	}
	b.WriteString("data: " + e.data + "\n\n")
	return b.String()
}

type c09Opts struct {
	standalone bool // the logical stream is the standalone GET stream (notifications only)
	ids        bool // events carry ids
	priming    bool
	maxRetries int // as given to the transport (-1 = none)
	// emptyResumes: every reconnect is answered 200 with an empty body (a server that keeps
	// closing the stream without progress): the pending call must fail, not hang
	emptyResumes bool
	// notes: number of notifications before the response (default 2); with many events the first body
	// is cut at event boundaries only (ids reach two digits: cursors are ids, not numbers or strings to order)
	notes int
	// alwaysFail: every reconnect attempt ends in a transport error (the server is gone for good);
	// with a large retry budget the client backs off many times - and must end the call with an error
	alwaysFail bool
	// retryField: the server sends an SSE retry: field (a reconnection delay, as SEP-1699 servers do
	// before closing a stream they want polled) with every event, and alone in otherwise empty bodies
	retryField bool
	// singleCut: the first body is cut (at every offset, either way) and every reconnect is then served
	// in full: exactly one cut per execution, so a symptom is attributable to that one position
	singleCut bool
	// handshake: the stream that is cut is the response stream of the initialize request (a server may
	// answer any POST with an event stream); the tool call afterwards is answered plainly
	handshake bool
	// errKinds: a reconnect attempt that ends in a transport error ends in one of seven kinds of them (as
	// net/http reports them: connection refused while the server restarts, reset, a dial timeout, a DNS
	// hiccup, ...): each is one failed attempt against the retry budget, none ends the stream for good
	errKinds bool
	// failStatus: with alwaysFail, every reconnect attempt is answered with this transient HTTP status
	// instead of a transport error (a server that is restarting or shedding load for good)
	failStatus int
}

// c09DialTimeout is a net.Error that reports a timeout.
type c09DialTimeout struct{}

func (c09DialTimeout) Error() string   { return "verif: i/o timeout" }
func (c09DialTimeout) Timeout() bool   { return true }
func (c09DialTimeout) Temporary() bool { return true }

func c09TransportErrors() []error {
	return []error{
		errC09Net,
		&net.OpError{Op: "dial", Net: "tcp", Err: os.NewSyscallError("connect", syscall.ECONNREFUSED)},
		&net.OpError{Op: "read", Net: "tcp", Err: os.NewSyscallError("read", syscall.ECONNRESET)},
		&net.OpError{Op: "dial", Net: "tcp", Err: c09DialTimeout{}},
		&net.DNSError{Err: "server misbehaving", Name: "example.test", IsTemporary: true},
		&net.OpError{Op: "dial", Net: "tcp", Err: os.NewSyscallError("connect", syscall.EHOSTUNREACH)},
		io.ErrUnexpectedEOF,
	}
}

type c09Body struct {
	data []byte
	err  error // returned after data (nil = io.EOF)
	pos  int
}

func (b *c09Body) Read(p []byte) (int, error) {
	if b.pos >= len(b.data) {
		if b.err != nil {
			return 0, b.err
		}
		return 0, io.EOF
	}
	n := copy(p, b.data[b.pos:])
	b.pos += n
	return n, nil
}
func (b *c09Body) Close() error { return nil }

var errC09Net = errors.New("verif: connection reset by peer")

// c09TimeoutErr is what net/http reports for a body read that runs into http.Client.Timeout.
type c09TimeoutErr struct{}

func (c09TimeoutErr) Error() string {
	return "net/http: request canceled (Client.Timeout or context cancellation while reading body)"
}
func (c09TimeoutErr) Timeout() bool     { return true }
func (c09TimeoutErr) Temporary() bool   { return true }
func (c09TimeoutErr) Is(err error) bool { return err == context.DeadlineExceeded }

type c09Script struct {
	o        c09Opts
	ch       *verifx.Chooser
	events   []c09Event
	callID   string
	complete int // number of leading events of the logical stream that have been transmitted completely
	started  bool
	// observations
	lastIDs  []string // Last-Event-ID presented on each resume
	expected []string // what it should have been
	fails    int      // consecutive failed/unproductive reconnect outcomes the script dealt
	maxFails int
	// the two budgets the transport documents, counted separately: consecutive failed attempts
	// of one reconnect (transport error / transient status), and consecutive response bodies
	// that brought no new complete event
	connFails, maxConnFails int
	noProg, maxNoProg       int
	saw404                  bool
	gets                    int
	badResume               string
	standGETs               int
	// clean ends of stream that fall inside an event (class of the position), in order
	eofMidEvent []string
}

// c09CutClass classifies a cut offset inside the text of one event.
func c09CutClass(ev string, off int) string {
	if off <= 0 || off >= len(ev) {
		return "boundary"
	}
	pos := 0
	for _, line := range strings.SplitAfter(ev, "\n") {
		name := "blank"
		switch {
		case strings.HasPrefix(line, "event:"):
			name = "event-line"
		case strings.HasPrefix(line, "id:"):
			name = "id-line"
		case strings.HasPrefix(line, "data:"):
			name = "data-line"
		case strings.HasPrefix(line, "retry:"):
			name = "retry-line"
		}
		if off < pos+len(line) {
			if name == "data-line" && off == pos+len(line)-1 {
				return "after-data-payload" // the whole payload has arrived, its line end has not
			}
			if name == "data-line" && off-pos > len("data: ") {
				return "in-data-payload" // at least one byte of the payload has arrived, and not all of it
			}
			return "in-" + name
		}
		if off == pos+len(line) {
			return "after-" + name
		}
		pos += len(line)
	}
	return "boundary"
}

func (s *c09Script) resp(status int, ctype string, body io.ReadCloser) *http.Response {
	h := http.Header{}
	if ctype != "" {
		h.Set("Content-Type", ctype)
	}
	if body == nil {
		body = io.NopCloser(strings.NewReader(""))
	}
	return &http.Response{StatusCode: status, Status: fmt.Sprintf("%d", status), Header: h, Body: body, Proto: "HTTP/1.1", ProtoMajor: 1, ProtoMinor: 1}
}

// serve returns the body for the logical stream from event index `from`, cut at a chosen point.
// cutMenu: "every" = every byte offset is a choice; "classes" = representative offsets.
func (s *c09Script) serve(from int, cutMenu string) *http.Response {
	var text strings.Builder
	var ends []int
	for _, e := range s.events[from:] {
		text.WriteString(e.text())
		ends = append(ends, text.Len())
	}
	full := text.String()
	offsets := []int{}
	switch cutMenu {
	case "every":
		for i := 0; i <= len(full); i++ {
			offsets = append(offsets, i)
		}
	case "boundaries":
		offsets = append(offsets, 0)
		offsets = append(offsets, ends...)
	case "classes":
		// representative cut points of the first remaining event: start, inside "id:", after the id line, inside data, before the blank line, boundary; and the very end
		first := s.events[from].text()
		idLine := strings.Index(first, "id: ")
		cands := []int{0, len(first), len(full)}
		if idLine >= 0 {
			cands = append(cands, idLine+5, idLine+strings.Index(first[idLine:], "\n")+1)
		}
		if d := strings.Index(first, "data: "); d >= 0 {
			cands = append(cands, d+8, len(first)-1)
		}
		seen := map[int]bool{}
		for _, c := range cands {
			if c >= 0 && c <= len(full) && !seen[c] {
				seen[c] = true
				offsets = append(offsets, c)
			}
		}
	default: // no cut
		offsets = []int{len(full)}
	}
	k := offsets[len(offsets)-1]
	kind := 0
	if len(offsets) > 1 {
		k = offsets[s.ch.Free("cut-offset", len(offsets))]
		kind = s.ch.Free("cut-kind", 2)
	}
	n := 0
	for _, e := range ends {
		if e <= k {
			n++
		}
	}
	progressed := from+n > s.complete
	if from+n > s.complete {
		s.complete = from + n
	}
	if k < len(full) && !progressed {
		s.fails++ // a cut that transmitted no new complete event is an unproductive attempt
		s.maxFails = max(s.maxFails, s.fails)
		s.noProg++
		s.maxNoProg = max(s.maxNoProg, s.noProg)
	} else {
		s.fails = 0
		s.noProg = 0
	}
	s.connFails = 0
	body := &c09Body{data: []byte(full[:k])}
	if kind == 1 && k < len(full) {
		body.err = io.ErrUnexpectedEOF
		if s.o.singleCut {
			// what a broken body read can look like: an HTTP client's own timeout covers body reads and
			// reports a deadline error; proxies and middle boxes produce the others.  The caller's context is
			// alive in all of them: these are cuts of the stream, not cancellations by the client.
			body.err = []error{io.ErrUnexpectedEOF, c09TimeoutErr{}, fmt.Errorf("read tcp: %w", context.Canceled), errC09Net}[s.ch.Free("read-error", 4)]
		}
	}
	if kind == 0 && k < len(full) {
		// which event does the cut fall into, and where?
		start := 0
		for i, e := range ends {
			if k < e {
				if cls := c09CutClass(s.events[from+i].text(), k-start); cls != "boundary" {
					s.eofMidEvent = append(s.eofMidEvent, cls)
				}
				break
			}
			start = e
		}
	}
	return s.resp(200, "text/event-stream", body)
}

func (s *c09Script) roundTrip(req *http.Request, n int) (*http.Response, error) {
	body, _ := io.ReadAll(req.Body)
	bs := string(body)
	switch {
	case req.Method == "POST" && strings.Contains(bs, `"initialize"`) && s.o.handshake:
		s.started = true
		r := s.serve(0, "every")
		r.Header.Set("Mcp-Session-Id", "sess-1")
		return r, nil
	case req.Method == "POST" && strings.Contains(bs, `"initialize"`):
		r := s.resp(200, "application/json", io.NopCloser(strings.NewReader(`{"jsonrpc":"2.0","id":1,"result":{"protocolVersion":"2025-06-18","capabilities":{"tools":{}},"serverInfo":{"name":"script","version":"1"}}}`)))
		r.Header.Set("Mcp-Session-Id", "sess-1")
		return r, nil
	case req.Method == "POST" && strings.Contains(bs, `"tools/call"`):
		if s.o.standalone || s.o.handshake {
			return s.resp(200, "application/json", io.NopCloser(strings.NewReader(`{"jsonrpc":"2.0","id":`+s.callID+`,"result":{"content":[{"type":"text","text":"done"}]}}`))), nil
		}
		s.started = true
		if s.o.notes > 2 {
			return s.serve(0, "boundaries"), nil
		}
		return s.serve(0, "every"), nil
	case req.Method == "POST":
		return s.resp(202, "", nil), nil
	case req.Method == "DELETE":
		return s.resp(204, "", nil), nil
	case req.Method == "GET":
		last := req.Header.Get("Last-Event-ID")
		if last == "" && !s.started {
			if !s.o.standalone {
				return s.resp(405, "", nil), nil // no standalone stream in the POST scenario
			}
			s.started = true
			return s.serve(0, "every"), nil
		}
		if last == "" && !s.o.standalone {
			s.standGETs++
			return s.resp(405, "", nil), nil
		}
		// a resume
		s.gets++
		want := ""
		if s.complete > 0 {
			want = s.events[s.complete-1].id
		}
		s.lastIDs = append(s.lastIDs, last)
		s.expected = append(s.expected, want)
		idx := -1
		for i, e := range s.events {
			if e.id == last && last != "" {
				idx = i
			}
		}
		if last == "" && s.o.standalone {
			idx = s.complete - 1 // without ids the standalone stream simply continues with what follows
			if !s.o.ids {
				idx = len(s.events) - 1 // ... which, for a server without event ids, is nothing it can replay
			}
		} else if idx < 0 {
			s.badResume = fmt.Sprintf("Last-Event-ID %q is not an id the server issued", last)
			return s.resp(400, "", nil), nil
		}
		if s.o.emptyResumes {
			s.fails++
			s.maxFails = max(s.maxFails, s.fails)
			s.noProg++
			s.maxNoProg = max(s.maxNoProg, s.noProg)
			s.connFails = 0
			if s.o.retryField {
				return s.resp(200, "text/event-stream", io.NopCloser(strings.NewReader("retry: 3000\n\n"))), nil
			}
			return s.resp(200, "text/event-stream", io.NopCloser(strings.NewReader(""))), nil
		}
		outcome := 0
		if s.o.alwaysFail && s.o.failStatus != 0 {
			s.fails++
			s.maxFails = max(s.maxFails, s.fails)
			s.connFails++
			s.maxConnFails = max(s.maxConnFails, s.connFails)
			return s.resp(s.o.failStatus, "", nil), nil
		} else if s.o.alwaysFail {
			outcome = 1
		} else if s.o.singleCut {
			outcome = 0
		} else if s.gets <= 3 {
			outcome = s.ch.Free("reconnect-outcome", 7) // later reconnects are always served
		}
		switch outcome {
		case 0:
			if idx+1 >= len(s.events) {
				return s.resp(200, "text/event-stream", io.NopCloser(strings.NewReader(""))), nil
			}
			return s.serve(idx+1, "none"), nil
		case 1:
			s.fails++
			s.maxFails = max(s.maxFails, s.fails)
			s.connFails++
			s.maxConnFails = max(s.maxConnFails, s.connFails)
			if s.o.errKinds {
				kinds := c09TransportErrors()
				return nil, kinds[s.ch.Free("transport-error-kind", len(kinds))]
			}
			return nil, errC09Net
		case 2:
			s.fails++
			s.maxFails = max(s.maxFails, s.fails)
			s.connFails++
			s.maxConnFails = max(s.maxConnFails, s.connFails)
			return s.resp(503, "", nil), nil
		case 3:
			s.saw404 = true
			return s.resp(404, "", nil), nil
		case 5, 6:
			// a definite refusal that carries a JSON-RPC error body (as the SDK's own server sends them):
			// the stream is gone; the call may fail, but it must not be left hanging
			s.saw404 = true
			return s.resp(map[int]int{5: 404, 6: 400}[outcome], "application/json", io.NopCloser(strings.NewReader(`{"jsonrpc":"2.0","id":1,"error":{"code":-32600,"message":"session not found"}}`))), nil
		default:
			if idx+1 >= len(s.events) {
				return s.resp(200, "text/event-stream", io.NopCloser(strings.NewReader(""))), nil
			}
			return s.serve(idx+1, "classes"), nil
		}
	}
	return s.resp(400, "", nil), nil
}

func c09Run(o c09Opts, ch *verifx.Chooser) (obs, bad, sig string, steps int) {
	sc := &c09Script{o: o, ch: ch}
	fail := func(s, format string, a ...any) {
		if bad == "" {
			sig, bad = "c09 "+s, fmt.Sprintf(format, a...)
			if len(sc.eofMidEvent) > 0 {
				// the execution contains a clean end of stream inside an event: attribute the symptom to it
				// (a stream may end inside several events in one execution; the symptom is filed under the
				// first such position, positions inside a retry: line - which carries nothing that could be
				// truncated into something else - only if there is no other)
				at := sc.eofMidEvent[0]
				for _, cls := range sc.eofMidEvent {
					if !strings.HasSuffix(cls, "retry-line") {
						at = cls
						break
					}
				}
				sig += " after a clean end of stream " + at
				if o.singleCut {
					sig += " (the only cut)"
				}
				bad += fmt.Sprintf(" [the stream ended cleanly inside an event: %v]", sc.eofMidEvent)
			}
		}
	}
	horizon := 10 * time.Minute
	if o.alwaysFail {
		horizon = 4 * time.Hour // 70 attempts with a back-off of up to a minute each
	}
	ctx, cancel := context.WithTimeout(context.Background(), horizon)
	defer cancel()
	id := func(k int) string {
		if !o.ids {
			return ""
		}
		return fmt.Sprintf("strm_%d", k)
	}
	note := func(k int) string {
		return fmt.Sprintf(`{"jsonrpc":"2.0","method":"notifications/progress","params":{"progressToken":"tok","progress":%d,"message":"msg %d: id: x data: y"}}`, k, k)
	}
	k := 0
	if o.priming {
		sc.events = append(sc.events, c09Event{id: id(k)})
		k++
	}
	nNotes := 2
	if o.standalone {
		nNotes = 3
	}
	if o.notes > 0 {
		nNotes = o.notes
	}
	if o.handshake {
		nNotes = 0
	}
	for i := 1; i <= nNotes; i++ {
		sc.events = append(sc.events, c09Event{id: id(k + i - 1), data: note(i)})
	}
	hx := &hxTransport{Intercept: sc.roundTrip}
	var delivered []int
	client := NewClient(&Implementation{Name: "cli", Version: "1"}, &ClientOptions{Logger: quietLogger,
		ProgressNotificationHandler: func(ctx context.Context, r *ProgressNotificationClientRequest) {
			delivered = append(delivered, int(r.Params.Progress))
		}})
	tr := &StreamableClientTransport{Endpoint: "http://example.test/mcp", HTTPClient: hx.client(), MaxRetries: o.maxRetries}
	if o.handshake {
		// the logical stream is the answer to initialize (id 1); the call (id 2) is answered plainly
		sc.callID = "2"
		sc.events = append(sc.events, c09Event{id: id(k), data: `{"jsonrpc":"2.0","id":1,"result":{"protocolVersion":"2025-06-18","capabilities":{"tools":{}},"serverInfo":{"name":"script","version":"1"}}}`})
	} else if !o.standalone {
		// the call's id is 2 (initialize is 1): the response event closes the logical stream
		sc.callID = "2"
		sc.events = append(sc.events, c09Event{id: id(k + nNotes), data: `{"jsonrpc":"2.0","id":2,"result":{"content":[{"type":"text","text":"done"}]}}`})
	} else {
		sc.callID = "2"
	}
	if o.retryField {
		for i := range sc.events {
			sc.events[i].retry = "40"
		}
	}
	cs, err := client.Connect(ctx, tr, &ClientSessionOptions{ProtocolVersion: "2025-06-18"})
	if err != nil && !o.handshake {
		if o.standalone {
			// the standalone stream is opened during Connect: its failure may surface here
			return "connect-error", "", "", 1
		}
		return "", "connect failed: " + err.Error(), "c09 connect", 1
	}
	var res *CallToolResult
	var callErr error
	if o.handshake && err != nil {
		// Connect is the call whose stream was cut: judged like any other call below
		callErr = fmt.Errorf("Connect: %w", err)
	} else if !o.standalone {
		res, callErr = cs.CallTool(ctx, &CallToolParams{Name: "t", Arguments: map[string]any{}, Meta: Meta{"progressToken": "tok"}})
		synctest.Wait() // notification handlers run asynchronously to the call's return
	} else {
		// give the stream (and its reconnects) all the virtual time it needs
		time.Sleep(5 * time.Minute)
		synctest.Wait()
	}
	steps = len(hx.exchanges())
	// exactly-once, in-order delivery
	for i, d := range delivered {
		if d != i+1 {
			fail("delivery-order-or-duplicate", "notifications delivered %v: not each once in order", delivered)
			break
		}
	}
	if len(delivered) > nNotes {
		fail("delivery-order-or-duplicate", "notifications delivered %v", delivered)
	}
	// every Last-Event-ID equals the id of the last completely received event
	for i := range sc.lastIDs {
		if sc.lastIDs[i] != sc.expected[i] {
			fail("wrong-last-event-id", "resume %d presented Last-Event-ID %q, the last completely received event is %q", i+1, sc.lastIDs[i], sc.expected[i])
			break
		}
	}
	if sc.badResume != "" {
		fail("wrong-last-event-id", "%s", sc.badResume)
	}
	budget := o.maxRetries
	if budget < 0 {
		budget = 0
	}
	if !o.standalone {
		switch {
		case ctx.Err() != nil:
			fail("call-hangs", "the call did not return within the horizon of virtual time (delivered %v, resumes %v)", delivered, sc.lastIDs)
		case callErr == nil:
			if len(res.Content) != 1 || res.Content[0].(*TextContent).Text != "done" {
				fail("wrong-response", "the call returned %+v", res)
			}
			if len(delivered) != nNotes {
				fail("message-lost", "the call completed but only notifications %v were delivered", delivered)
			}
		default:
			// an error is justified only if the stream could not be resumed
			// (with a zero budget no reconnect is attempted at all: any cut is fatal)
			gotID := false
			for _, e := range sc.events[:sc.complete] {
				if e.id != "" {
					gotID = true
				}
			}
			// MaxRetries is the number of attempts of one reconnect: that many consecutive failed attempts
			// exhaust it; and more than MaxRetries consecutive bodies without progress end the stream
			justified := !gotID || sc.saw404 || sc.maxConnFails >= budget || sc.maxNoProg > budget
			if !justified {
				fail("call-fails-although-resumable", "the call failed with %v although events carry ids, no 404 was served, at most %d consecutive attempts of one reconnect failed and at most %d consecutive bodies brought no progress (budget %d each); resumes %v", callErr, sc.maxConnFails, sc.maxNoProg, budget, sc.lastIDs)
			}
		}
	} else if o.ids && !sc.saw404 && sc.maxConnFails < budget && sc.maxNoProg <= budget && bad == "" {
		if len(delivered) != nNotes {
			fail("message-lost", "standalone stream: only notifications %v were delivered although every reconnect within the budget succeeded (resumes %v)", delivered, sc.lastIDs)
		}
	}
	if bad != "" {
		var tr []string
		for _, x := range hx.exchanges() {
			tr = append(tr, fmt.Sprintf("%s(last=%q)->%d", x.Method, x.Header.Get("Last-Event-ID"), x.Status))
		}
		bad += " exchanges: " + strings.Join(tr, " ")
	}
	// the session stays consistent: closing must not hang
	if cs != nil {
		cs.Close()
	}
	cls := "ok"
	if callErr != nil {
		cls = "error"
	}
	return fmt.Sprintf("%s delivered=%d resumes=%d", cls, len(delivered), min(len(sc.lastIDs), 6)), bad, sig, steps
}

func TestVerifC09(t *testing.T) {
	env := verifx.LoadEnv("C09")
	mk := func(name string, o c09Opts) *verifx.Scenario {
		return &verifx.Scenario{Name: name, Budget: 0, Exec: func(prefix []verifx.Point) *verifx.Outcome {
			ch := &verifx.Chooser{Prefix: prefix}
			var obs, bad, sig string
			var steps int
			func() {
				defer func() {
					if r := recover(); r != nil {
						if d, ok := r.(verifx.Divergence); ok {
							panic(d)
						}
						bad, sig = fmt.Sprintf("panic / bubble failure: %v", r), "c09 panic-or-leak"
					}
				}()
				synctest.Test(t, func(t *testing.T) { obs, bad, sig, steps = c09Run(o, ch) })
			}()
			return &verifx.Outcome{Trace: ch.Trace, Steps: steps, Obs: obs, Bad: bad, Sig: sig}
		}}
	}
	scs := []*verifx.Scenario{
		mk("post-stream/ids/retries=2", c09Opts{ids: true, maxRetries: 2}),
		mk("post-stream/ids+priming/retries=1", c09Opts{ids: true, priming: true, maxRetries: 1}),
		mk("post-stream/no-ids/retries=1", c09Opts{ids: false, maxRetries: 1}),
		mk("post-stream/ids/no-retries", c09Opts{ids: true, maxRetries: -1}),
		mk("post-stream/ids/single-cut/retries=2", c09Opts{ids: true, maxRetries: 2, singleCut: true}),
		mk("post-stream/ids+priming/single-cut/retries=1", c09Opts{ids: true, priming: true, maxRetries: 1, singleCut: true}),
		mk("post-stream/ids/retries=2/empty-resumes", c09Opts{ids: true, maxRetries: 2, emptyResumes: true}),
		mk("post-stream/ids/retries=2/empty-resumes-with-retry-field", c09Opts{ids: true, maxRetries: 2, emptyResumes: true, retryField: true}),
		mk("post-stream/ids+priming+retry-fields/retries=1", c09Opts{ids: true, priming: true, maxRetries: 1, retryField: true}),
		mk("handshake-stream/ids+priming/single-cut/retries=2", c09Opts{ids: true, priming: true, maxRetries: 2, singleCut: true, handshake: true}),
		mk("handshake-stream/ids+priming/retries=1", c09Opts{ids: true, priming: true, maxRetries: 1, handshake: true}),
		mk("standalone-stream/ids/retries=2", c09Opts{standalone: true, ids: true, maxRetries: 2}),
		mk("post-stream/ids/12-events/retries=2", c09Opts{ids: true, maxRetries: 2, notes: 12}),
		mk("post-stream/ids/12-events/retries=2/transport-error-kinds", c09Opts{ids: true, maxRetries: 2, notes: 12, errKinds: true}),
		mk("post-stream/ids/retries=2/reconnects-always-503", c09Opts{ids: true, maxRetries: 2, alwaysFail: true, failStatus: 503, notes: 12}),
		mk("post-stream/ids/retries=5/reconnects-always-429", c09Opts{ids: true, maxRetries: 5, alwaysFail: true, failStatus: 429, notes: 12}),
		mk("standalone-stream/ids/retries=2/reconnects-always-502", c09Opts{standalone: true, ids: true, maxRetries: 2, alwaysFail: true, failStatus: 502}),
		mk("post-stream/ids/retries=70/reconnects-always-fail", c09Opts{ids: true, maxRetries: 70, alwaysFail: true, notes: 12}),
	}
	if !env.Quick() {
		scs = append(scs,
			mk("post-stream/ids/retries=3", c09Opts{ids: true, maxRetries: 3}),
			mk("post-stream/ids+priming/retries=2", c09Opts{ids: true, priming: true, maxRetries: 2}),
			mk("standalone-stream/ids/retries=1", c09Opts{standalone: true, ids: true, maxRetries: 1}),
			mk("standalone-stream/no-ids/retries=1", c09Opts{standalone: true, ids: false, maxRetries: 1}),
		)
	}
	env.Run(scs)
}
