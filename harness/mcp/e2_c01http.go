package mcp

// C01 over the streamable HTTP client: a call whose SSE response stream is cut - at any byte
// offset, by a read error or a clean end of stream, resumable or not - still completes (with the
// response or with an error); it never stays blocked while its context is live.  The fault
// enumeration is C09's (same scripted server); only the completion oracle is evaluated here.

import (
	"context"
	"errors"
	"fmt"
	"strings"
	"testing"
	"testing/synctest"
	"time"

	"github.com/modelcontextprotocol/go-sdk/internal/verifx"
)

func TestVerifC01HTTP(t *testing.T) {
	env := verifx.LoadEnv("C01")
	mk := func(name string, o c09Opts) *verifx.Scenario {
		return &verifx.Scenario{Name: name, Budget: 0, Exec: func(prefix []verifx.Point) *verifx.Outcome {
			ch := &verifx.Chooser{Prefix: prefix}
			var obs, bad, sig string
			var steps int
			func() {
				defer func() {
					if r := recover(); r != nil {
						if d, ok := r.(verifx.Divergence); ok {
							panic(d)
						}
						bad, sig = fmt.Sprintf("panic / bubble failure: %v", r), "c01 http panic-or-leak"
					}
				}()
				synctest.Test(t, func(t *testing.T) { obs, bad, sig, steps = c09Run(o, ch) })
			}()
			switch {
			case strings.Contains(sig, "call-hangs"):
				sig, bad = "c01 http call-never-completes", "streamable client: "+bad
			case strings.HasPrefix(sig, "c01 "):
			default:
				sig, bad = "", "" // delivery / resumption details are C09's business
			}
			cls := "completed-with-error"
			if strings.HasPrefix(obs, "ok") {
				cls = "completed-with-response"
			}
			return &verifx.Outcome{Trace: ch.Trace, Steps: steps, Obs: cls, Bad: bad, Sig: sig}
		}}
	}
	env.Run([]*verifx.Scenario{
		mk("http/post-stream/no-ids/retries=1", c09Opts{ids: false, maxRetries: 1}),
		mk("http/post-stream/ids/no-retries", c09Opts{ids: true, maxRetries: -1}),
		mk("http/post-stream/ids/retries=1", c09Opts{ids: true, maxRetries: 1}),
	})
}

// ---- calls started after the session has terminated fail at once with an error that says so,
// and leave nothing running: every ClientSession / ServerSession API method, on sessions of both
// protocol generations, after Close (own side) and after the peer closed.

func c01AfterClose(version, how, op string) (obs, sig, msg string) {
	fail := func(s, format string, a ...any) (string, string, string) {
		return "", "c01 after-close " + s, fmt.Sprintf(format, a...) + fmt.Sprintf(" [version=%s closed-by=%s op=%s]", version, how, op)
	}
	ctx := context.Background()
	s := NewServer(&Implementation{Name: "srv", Version: "1"}, &ServerOptions{Logger: quietLogger,
		SubscribeHandler:   func(context.Context, *SubscribeRequest) error { return nil },
		UnsubscribeHandler: func(context.Context, *UnsubscribeRequest) error { return nil },
	})
	AddTool(s, &Tool{Name: "t"}, func(ctx context.Context, r *CallToolRequest, in map[string]any) (*CallToolResult, any, error) {
		return &CallToolResult{}, nil, nil
	})
	s.AddResource(&Resource{URI: "file:///r", Name: "r"}, func(context.Context, *ReadResourceRequest) (*ReadResourceResult, error) {
		return &ReadResourceResult{}, nil
	})
	ct, st := NewInMemoryTransports()
	ss, err := s.Connect(ctx, st, nil)
	if err != nil {
		return fail("setup", "%v", err)
	}
	cl := NewClient(&Implementation{Name: "cli", Version: "1"}, &ClientOptions{Logger: quietLogger})
	cs, err := cl.Connect(ctx, ct, &ClientSessionOptions{ProtocolVersion: version})
	if err != nil {
		return fail("setup", "%v", err)
	}
	synctest.Wait()
	if how == "client" {
		cs.Close()
	} else {
		ss.Close()
	}
	cs.Wait()
	ss.Wait()
	synctest.Wait()
	t0 := time.Now()
	var opErr error
	switch op {
	case "ListTools":
		_, opErr = cs.ListTools(ctx, nil)
	case "CallTool":
		_, opErr = cs.CallTool(ctx, &CallToolParams{Name: "t", Arguments: map[string]any{}})
	case "ReadResource":
		_, opErr = cs.ReadResource(ctx, &ReadResourceParams{URI: "file:///r"})
	case "Subscribe":
		opErr = cs.Subscribe(ctx, &SubscribeParams{URI: "file:///r"})
	case "Ping":
		opErr = cs.Ping(ctx, nil)
	case "NotifyProgress":
		opErr = cs.NotifyProgress(ctx, &ProgressNotificationParams{ProgressToken: "x", Progress: 1})
	case "server:Ping":
		opErr = ss.Ping(ctx, nil)
	case "server:ListRoots":
		_, opErr = ss.ListRoots(ctx, nil)
	case "server:NotifyProgress":
		opErr = ss.NotifyProgress(ctx, &ProgressNotificationParams{ProgressToken: "x", Progress: 1})
	}
	synctest.Wait()
	if d := time.Since(t0); d != 0 {
		return fail("call-after-close-not-immediate "+op, "the operation took %v of virtual time on a terminated session", d)
	}
	if opErr == nil {
		return fail("call-after-close-succeeds "+op, "the session has terminated (Wait returned on both sides) but %s returned nil", op)
	}
	if version >= "2026-07-28" && op == "server:ListRoots" {
		return "refused: the negotiated protocol has no such request", "", "" // any error will do
	}
	if !errors.Is(opErr, ErrConnectionClosed) && !strings.Contains(opErr.Error(), "clos") {
		return fail("call-after-close-wrong-error "+op, "%s on a terminated session failed with %q, which does not identify the connection as closed", op, opErr)
	}
	cs.Close()
	ss.Close()
	return "fails at once with a closed-connection error", "", ""
}

func TestVerifC01AfterClose(t *testing.T) {
	env := verifx.LoadEnv("C01")
	res := env.NewResult()
	cases := env.NewCases(res, "api/calls-after-termination")
	for _, version := range []string{"2025-06-18", "2026-07-28"} {
		for _, how := range []string{"client", "server"} {
			for _, op := range []string{"ListTools", "CallTool", "ReadResource", "Subscribe", "Ping", "NotifyProgress", "server:Ping", "server:ListRoots", "server:NotifyProgress"} {
				idx, mine := cases.Next()
				if !mine {
					continue
				}
				var obs, sig, msg string
				func() {
					defer func() {
						if r := recover(); r != nil {
							sig, msg = "c01 after-close goroutine-left-behind "+op, fmt.Sprintf("%v [version=%s closed-by=%s op=%s]", r, version, how, op)
						}
					}()
					synctest.Test(t, func(t *testing.T) { obs, sig, msg = c01AfterClose(version, how, op) })
				}()
				if sig != "" {
					cases.Violate(idx, sig, msg, 2)
					continue
				}
				cases.Record(idx, obs, 2, func() string { return fmt.Sprintf("version=%s closed-by=%s op=%s", version, how, op) })
			}
		}
	}
	env.Finish(res)
}
