package mcp

// C01 over the streamable HTTP client: a call whose SSE response stream is cut - at any byte
// offset, by a read error or a clean end of stream, resumable or not - still completes (with the
// response or with an error); it never stays blocked while its context is live.  The fault
// enumeration is C09's (same scripted server); only the completion oracle is evaluated here.

import (
	"context"
	"encoding/json"
	"errors"
	"fmt"
	"io"
	"net/http"
	"strings"
	"sync"
	"testing"
	"testing/synctest"
	"time"

	"github.com/modelcontextprotocol/go-sdk/internal/verifx"
)

func TestVerifC01HTTP(t *testing.T) {
	env := verifx.LoadEnv("C01")
	mk := func(name string, o c09Opts) *verifx.Scenario {
		return &verifx.Scenario{Name: name, Budget: 0, Exec: func(prefix []verifx.Point) *verifx.Outcome {
			ch := &verifx.Chooser{Prefix: prefix}
			var obs, bad, sig string
			var steps int
			func() {
				defer func() {
					if r := recover(); r != nil {
						if d, ok := r.(verifx.Divergence); ok {
							panic(d)
						}
						bad, sig = fmt.Sprintf("panic / bubble failure: %v", r), "c01 http panic-or-leak"
					}
				}()
				synctest.Test(t, func(t *testing.T) { obs, bad, sig, steps = c09Run(o, ch) })
			}()
			switch {
			case strings.Contains(sig, "call-hangs"):
				sig, bad = "c01 http call-never-completes", "streamable client: "+bad
			case strings.HasPrefix(sig, "c01 "):
			default:
				sig, bad = "", "" // delivery / resumption details are C09's business
			}
			cls := "completed-with-error"
			if strings.HasPrefix(obs, "ok") {
				cls = "completed-with-response"
			}
			return &verifx.Outcome{Trace: ch.Trace, Steps: steps, Obs: cls, Bad: bad, Sig: sig}
		}}
	}
	env.Run([]*verifx.Scenario{
		mk("http/post-stream/no-ids/retries=1", c09Opts{ids: false, maxRetries: 1}),
		mk("http/post-stream/ids/no-retries", c09Opts{ids: true, maxRetries: -1}),
		mk("http/post-stream/ids/retries=1", c09Opts{ids: true, maxRetries: 1}),
	})
}

// ---- calls started after the session has terminated fail at once with an error that says so,
// and leave nothing running: every ClientSession / ServerSession API method, on sessions of both
// protocol generations, after Close (own side) and after the peer closed.

func c01AfterClose(version, how, op string) (obs, sig, msg string) {
	fail := func(s, format string, a ...any) (string, string, string) {
		return "", "c01 after-close " + s, fmt.Sprintf(format, a...) + fmt.Sprintf(" [version=%s closed-by=%s op=%s]", version, how, op)
	}
	ctx := context.Background()
	s := NewServer(&Implementation{Name: "srv", Version: "1"}, &ServerOptions{Logger: quietLogger,
		SubscribeHandler:   func(context.Context, *SubscribeRequest) error { return nil },
		UnsubscribeHandler: func(context.Context, *UnsubscribeRequest) error { return nil },
	})
	AddTool(s, &Tool{Name: "t"}, func(ctx context.Context, r *CallToolRequest, in map[string]any) (*CallToolResult, any, error) {
		return &CallToolResult{}, nil, nil
	})
	s.AddResource(&Resource{URI: "file:///r", Name: "r"}, func(context.Context, *ReadResourceRequest) (*ReadResourceResult, error) {
		return &ReadResourceResult{}, nil
	})
	ct, st := NewInMemoryTransports()
	ss, err := s.Connect(ctx, st, nil)
	if err != nil {
		return fail("setup", "%v", err)
	}
	cl := NewClient(&Implementation{Name: "cli", Version: "1"}, &ClientOptions{Logger: quietLogger})
	cs, err := cl.Connect(ctx, ct, &ClientSessionOptions{ProtocolVersion: version})
	if err != nil {
		return fail("setup", "%v", err)
	}
	synctest.Wait()
	if how == "client" {
		cs.Close()
	} else {
		ss.Close()
	}
	cs.Wait()
	ss.Wait()
	synctest.Wait()
	t0 := time.Now()
	var opErr error
	switch op {
	case "ListTools":
		_, opErr = cs.ListTools(ctx, nil)
	case "CallTool":
		_, opErr = cs.CallTool(ctx, &CallToolParams{Name: "t", Arguments: map[string]any{}})
	case "ReadResource":
		_, opErr = cs.ReadResource(ctx, &ReadResourceParams{URI: "file:///r"})
	case "Subscribe":
		opErr = cs.Subscribe(ctx, &SubscribeParams{URI: "file:///r"})
	case "Ping":
		opErr = cs.Ping(ctx, nil)
	case "NotifyProgress":
		opErr = cs.NotifyProgress(ctx, &ProgressNotificationParams{ProgressToken: "x", Progress: 1})
	case "server:Ping":
		opErr = ss.Ping(ctx, nil)
	case "server:ListRoots":
		_, opErr = ss.ListRoots(ctx, nil)
	case "server:NotifyProgress":
		opErr = ss.NotifyProgress(ctx, &ProgressNotificationParams{ProgressToken: "x", Progress: 1})
	}
	synctest.Wait()
	if d := time.Since(t0); d != 0 {
		return fail("call-after-close-not-immediate "+op, "the operation took %v of virtual time on a terminated session", d)
	}
	if opErr == nil {
		return fail("call-after-close-succeeds "+op, "the session has terminated (Wait returned on both sides) but %s returned nil", op)
	}
	if version >= "2026-07-28" && op == "server:ListRoots" {
		return "refused: the negotiated protocol has no such request", "", "" // any error will do
	}
	if !errors.Is(opErr, ErrConnectionClosed) && !strings.Contains(opErr.Error(), "clos") {
		return fail("call-after-close-wrong-error "+op, "%s on a terminated session failed with %q, which does not identify the connection as closed", op, opErr)
	}
	cs.Close()
	ss.Close()
	return "fails at once with a closed-connection error", "", ""
}

// c01IOCase: the streams behind IOTransport (what StdioTransport and CommandTransport are made of).
// A request is still being written - the peer has stopped draining our output - when the session
// ends (the peer's output ends, or we Close): once Wait has returned the call has completed with an
// error.  The reader's / writer's Close may itself report an error (a descriptor somebody else has
// closed already): the other stream is closed all the same.
type c01StallWriter struct {
	w       io.WriteCloser
	stalled bool
	closed  chan struct{}
	err     error
}

func (s *c01StallWriter) Write(p []byte) (int, error) {
	if s.stalled {
		<-s.closed
		return 0, io.ErrClosedPipe
	}
	return s.w.Write(p)
}

func (s *c01StallWriter) Close() error {
	select {
	case <-s.closed:
	default:
		close(s.closed)
	}
	s.w.Close()
	return s.err
}

type c01ErrCloseReader struct {
	io.ReadCloser
	err error
}

func (r c01ErrCloseReader) Close() error {
	r.ReadCloser.Close()
	return r.err
}

func c01IOCase(side, ends, readerCloseErr, writerCloseErr string) (obs, sig, msg string) {
	fail := func(s, format string, a ...any) (string, string, string) {
		return "", "c01 io-transport " + s, fmt.Sprintf(format, a...) + fmt.Sprintf(" [blocked side=%s ended by=%s reader.Close=%s writer.Close=%s]", side, ends, readerCloseErr, writerCloseErr)
	}
	mkErr := func(s string) error {
		if s == "error" {
			return errors.New("close |0: file already closed")
		}
		return nil
	}
	ctx := context.Background()
	c2sR, c2sW := io.Pipe()
	s2cR, s2cW := io.Pipe()
	s := NewServer(&Implementation{Name: "srv", Version: "1"}, &ServerOptions{Logger: quietLogger})
	c := NewClient(&Implementation{Name: "cli", Version: "1"}, &ClientOptions{Logger: quietLogger})
	var stall *c01StallWriter
	var st, ct Transport
	if side == "client" {
		stall = &c01StallWriter{w: c2sW, closed: make(chan struct{}), err: mkErr(writerCloseErr)}
		st = &IOTransport{Reader: c2sR, Writer: s2cW}
		ct = &IOTransport{Reader: c01ErrCloseReader{s2cR, mkErr(readerCloseErr)}, Writer: stall}
	} else {
		stall = &c01StallWriter{w: s2cW, closed: make(chan struct{}), err: mkErr(writerCloseErr)}
		st = &IOTransport{Reader: c01ErrCloseReader{c2sR, mkErr(readerCloseErr)}, Writer: stall}
		ct = &IOTransport{Reader: s2cR, Writer: c2sW}
	}
	ss, err := s.Connect(ctx, st, nil)
	if err != nil {
		return fail("setup", "%v", err)
	}
	cs, err := c.Connect(ctx, ct, &ClientSessionOptions{ProtocolVersion: "2025-06-18"})
	if err != nil {
		return fail("setup", "%v", err)
	}
	synctest.Wait()
	stall.stalled = true // from now on the peer does not drain what this side writes
	done, waited := false, false
	var callErr error
	go func() {
		if side == "client" {
			callErr = cs.Ping(ctx, nil)
		} else {
			callErr = ss.Ping(ctx, nil)
		}
		done = true
	}()
	go func() {
		if side == "client" {
			cs.Wait()
		} else {
			ss.Wait()
		}
		waited = true
	}()
	synctest.Wait()
	if done {
		return fail("setup", "the call returned although its write is stalled: %v", callErr)
	}
	closed := false
	go func() {
		switch {
		case ends == "peer-output-ends" && side == "client":
			s2cW.Close()
		case ends == "peer-output-ends":
			c2sW.Close()
		case side == "client":
			cs.Close()
		default:
			ss.Close()
		}
		closed = true
	}()
	time.Sleep(time.Minute)
	synctest.Wait()
	cleanup := func() {
		// release whatever is still blocked, so that the verdict is this one and not a stuck bubble
		stall.Close()
		c2sW.Close()
		s2cW.Close()
		c2sR.Close()
		s2cR.Close()
		synctest.Wait()
		cs.Close()
		ss.Close()
		synctest.Wait()
	}
	defer cleanup()
	switch {
	case !closed:
		return fail("close-never-returns", "%s has not returned a minute later (Wait returned: %v, call returned: %v)", ends, waited, done)
	case !waited:
		return fail("session-never-terminates", "a minute after %s the session's Wait has not returned (call returned: %v)", ends, done)
	case !done:
		return fail("call-blocked-after-termination", "the session has terminated (Wait returned) but the call whose request was being written is still blocked")
	case callErr == nil:
		return fail("call-succeeded-without-response", "the call returned nil")
	}
	return "call failed after termination", "", ""
}

// c01Coalesce is a byte stream like an OS pipe or a socket: writes never block and are not message
// boundaries - a Read returns whatever has accumulated, as much as fits.  While hold is set the reading
// side sees nothing (the bytes are "in flight").
type c01Coalesce struct {
	mu     sync.Mutex
	buf    []byte
	hold   bool
	closed bool
	wake   chan struct{}
}

func newC01Coalesce() *c01Coalesce { return &c01Coalesce{wake: make(chan struct{}, 1)} }

func (c *c01Coalesce) signal() {
	select {
	case c.wake <- struct{}{}:
	default:
	}
}

func (c *c01Coalesce) Write(p []byte) (int, error) {
	c.mu.Lock()
	defer c.mu.Unlock()
	if c.closed {
		return 0, io.ErrClosedPipe
	}
	c.buf = append(c.buf, p...)
	c.signal()
	return len(p), nil
}

func (c *c01Coalesce) Read(p []byte) (int, error) {
	for {
		c.mu.Lock()
		if !c.hold && len(c.buf) > 0 {
			n := copy(p, c.buf)
			c.buf = c.buf[n:]
			c.mu.Unlock()
			return n, nil
		}
		if c.closed {
			c.mu.Unlock()
			return 0, io.EOF
		}
		c.mu.Unlock()
		<-c.wake
	}
}

func (c *c01Coalesce) Close() error {
	c.mu.Lock()
	c.closed = true
	c.mu.Unlock()
	c.signal()
	return nil
}

func (c *c01Coalesce) setHold(h bool) {
	c.mu.Lock()
	c.hold = h
	c.mu.Unlock()
	c.signal()
}

// c01CoalescedCase: client and server over IOTransports on coalescing byte streams.  Two or three calls
// are outstanding, one of them with a large payload (in its response, or in its request); the bytes of
// all the messages of one direction pile up and arrive together.  Every call completes with its own result.
func c01CoalescedCase(dir string, size int, order string) (obs, sig, msg string) {
	fail := func(s, format string, a ...any) (string, string, string) {
		return "", "c01 io-coalesced " + s, fmt.Sprintf(format, a...) + fmt.Sprintf(" [large %s of %d bytes, order %s]", dir, size, order)
	}
	ctx := context.Background()
	c2s, s2c := newC01Coalesce(), newC01Coalesce()
	s := NewServer(&Implementation{Name: "srv", Version: "1"}, &ServerOptions{Logger: quietLogger})
	AddTool(s, &Tool{Name: "echo"}, func(ctx context.Context, r *CallToolRequest, in struct {
		Tag string `json:"tag"`
		Pad string `json:"pad,omitempty"`
		N   int    `json:"n,omitempty"`
	}) (*CallToolResult, any, error) {
		return &CallToolResult{Content: []Content{&TextContent{Text: in.Tag + ":" + fmt.Sprint(len(in.Pad)) + ":" + strings.Repeat("y", in.N)}}}, nil, nil
	})
	c := NewClient(&Implementation{Name: "cli", Version: "1"}, &ClientOptions{Logger: quietLogger})
	ss, err := s.Connect(ctx, &IOTransport{Reader: c2s, Writer: s2c}, nil)
	if err != nil {
		return fail("setup", "%v", err)
	}
	cs, err := c.Connect(ctx, &IOTransport{Reader: s2c, Writer: c2s}, &ClientSessionOptions{ProtocolVersion: "2025-06-18"})
	if err != nil {
		return fail("setup", "%v", err)
	}
	defer func() {
		c2s.Close()
		s2c.Close()
		synctest.Wait()
		cs.Close()
		ss.Close()
	}()
	synctest.Wait()
	held := s2c
	if dir == "request" {
		held = c2s
	}
	held.setHold(true)
	type out struct {
		done bool
		text string
		err  error
	}
	outs := make([]*out, len(order))
	for i, kind := range order {
		o := &out{}
		outs[i] = o
		args := map[string]any{"tag": fmt.Sprint(i)}
		if kind == 'B' && dir == "request" {
			args["pad"] = strings.Repeat("x", size)
		} else if kind == 'B' {
			args["n"] = size
		}
		go func() {
			r, err := cs.CallTool(ctx, &CallToolParams{Name: "echo", Arguments: args})
			if err == nil && len(r.Content) == 1 {
				o.text = r.Content[0].(*TextContent).Text
			}
			o.err, o.done = err, true
		}()
		synctest.Wait() // the messages enter the stream in this order
	}
	held.setHold(false) // everything arrives at once
	time.Sleep(time.Minute)
	synctest.Wait()
	for i, kind := range order {
		o := outs[i]
		wantPad, wantN := 0, 0
		if kind == 'B' && dir == "request" {
			wantPad = size
		} else if kind == 'B' {
			wantN = size
		}
		want := fmt.Sprintf("%d:%d:%s", i, wantPad, strings.Repeat("y", wantN))
		switch {
		case !o.done:
			return fail("call-never-completes", "call %d (%c) is still blocked a minute after the bytes of every message of that direction arrived; the session is up", i, kind)
		case o.err != nil:
			return fail("call-failed", "call %d (%c) failed although the peer answered: %v", i, kind, o.err)
		case o.text != want:
			return fail("wrong-result", "call %d (%c) returned %.40q..., want %.40q...", i, kind, o.text, want)
		}
	}
	return "all calls completed", "", ""
}

// c01SSESpellingCase: the HTTP+SSE client against a scripted server that answers on the event stream
// in one of the spellings the SSE format allows for a message event: named "message", unnamed (the
// default type is message), with ids, retry fields, comment lines, CRLF line ends.  Connect, a ping and
// two concurrent tool calls all complete, each with its own answer.
func c01SSESpellingCase(spelling string) (obs, sig, msg string) {
	return c01SSECase(spelling, false)
}

// lastWords: the server answers the ping and ends the event stream right behind the answer (it shuts
// down, a proxy recycles the connection): the answer arrived in full before the end of the stream, so the
// ping completes with it; the two tool calls are not made.
func c01SSECase(spelling string, lastWords bool) (obs, sig, msg string) {
	return c01SSECaseX(spelling, lastWords, false)
}

// postHangs: the server accepts the POST of a tools/call and never answers it (no response headers), then
// ends the event stream: the session terminates (Wait returns) and the call, which has no deadline, must end
// with it - also while it is still inside the transport's write.
func c01SSECaseX(spelling string, lastWords, postHangs bool) (obs, sig, msg string) {
	fail := func(s, format string, a ...any) (string, string, string) {
		return "", "c01 sse-spelling " + s, fmt.Sprintf(format, a...) + " [message events spelled: " + spelling + "]"
	}
	ctx, cancel := context.WithCancel(context.Background())
	defer cancel()
	pr, pw := io.Pipe()
	nEvents := 0
	event := func(data string) string {
		nEvents++
		eol := "\n"
		var b strings.Builder
		switch spelling {
		case "named":
			b.WriteString("event: message" + eol)
		case "unnamed":
		case "unnamed-after-first":
			if nEvents == 1 {
				b.WriteString("event: message" + eol)
			}
		case "with-id-and-retry":
			b.WriteString(fmt.Sprintf("id: %d%sretry: 100%s", nEvents, eol, eol))
		case "comments":
			b.WriteString(": keep-alive" + eol + "event: message" + eol + ": another comment" + eol)
		case "crlf-unnamed":
			eol = "\r\n"
		case "no-space-after-colon":
			return "event:message\ndata:" + data + "\n\n"
		}
		b.WriteString("data: " + data + eol + eol)
		return b.String()
	}
	hx := &hxTransport{Intercept: func(req *http.Request, n int) (*http.Response, error) {
		h := http.Header{}
		if req.Method == "GET" {
			h.Set("Content-Type", "text/event-stream")
			go io.WriteString(pw, "event: endpoint\ndata: /messages?sessionid=1\n\n")
			return &http.Response{StatusCode: 200, Status: "200 OK", Header: h, Body: pr, Proto: "HTTP/1.1", ProtoMajor: 1, ProtoMinor: 1}, nil
		}
		body, _ := io.ReadAll(req.Body)
		var m struct {
			ID     json.RawMessage `json:"id"`
			Method string          `json:"method"`
			Params struct {
				Arguments struct {
					Tag string `json:"tag"`
				} `json:"arguments"`
			} `json:"params"`
		}
		json.Unmarshal(body, &m)
		answer := ""
		switch m.Method {
		case "initialize":
			answer = `{"jsonrpc":"2.0","id":` + string(m.ID) + `,"result":{"protocolVersion":"2025-06-18","capabilities":{"tools":{}},"serverInfo":{"name":"peer","version":"1"}}}`
		case "ping":
			answer = `{"jsonrpc":"2.0","id":` + string(m.ID) + `,"result":{}}`
		case "tools/call":
			answer = `{"jsonrpc":"2.0","id":` + string(m.ID) + `,"result":{"content":[{"type":"text","text":"echo ` + m.Params.Arguments.Tag + `"}]}}`
			if postHangs {
				<-req.Context().Done()
				return nil, req.Context().Err()
			}
		}
		if answer != "" {
			go func() {
				io.WriteString(pw, event(answer))
				if lastWords && m.Method == "ping" {
					pw.Close()
				}
			}()
		}
		return &http.Response{StatusCode: 202, Status: "202 Accepted", Header: h, Body: io.NopCloser(strings.NewReader("")), Proto: "HTTP/1.1", ProtoMajor: 1, ProtoMinor: 1}, nil
	}}
	c := NewClient(&Implementation{Name: "cli", Version: "1"}, &ClientOptions{Logger: quietLogger})
	var cs *ClientSession
	var connErr error
	connected := false
	go func() {
		cs, connErr = c.Connect(ctx, &SSEClientTransport{Endpoint: "http://peer.test/sse", HTTPClient: hx.client()}, &ClientSessionOptions{ProtocolVersion: "2025-06-18"})
		connected = true
	}()
	time.Sleep(time.Minute)
	synctest.Wait()
	defer func() {
		cancel()
		pw.Close()
		pr.Close()
		synctest.Wait()
		if cs != nil {
			cs.Close()
		}
	}()
	switch {
	case !connected:
		return fail("call-never-completes", "Connect: the initialize call is still blocked a minute after the server answered it on the event stream")
	case connErr != nil:
		return fail("call-failed", "Connect: %v", connErr)
	}
	if postHangs {
		callDone, waited := false, false
		var callErr error
		go func() {
			_, callErr = cs.CallTool(context.Background(), &CallToolParams{Name: "echo", Arguments: map[string]any{"tag": "t"}})
			callDone = true
		}()
		go func() { cs.Wait(); waited = true }()
		synctest.Wait()
		pw.Close() // the server goes away
		time.Sleep(time.Minute)
		synctest.Wait()
		switch {
		case !waited:
			return fail("session-does-not-terminate", "the event stream ended a minute ago and Wait has not returned")
		case !callDone:
			return fail("call-blocked-after-termination", "the session has terminated (Wait returned) but the call whose POST the server never answered is still blocked")
		case callErr == nil:
			return fail("wrong-result", "the unanswered call returned without an error")
		}
		return "call ended with the session", "", ""
	}
	results := make([]string, 3)
	done := make([]bool, 3)
	go func() {
		if err := cs.Ping(ctx, nil); err != nil {
			results[0] = "error: " + err.Error()
		} else {
			results[0] = "pong"
		}
		done[0] = true
	}()
	for i := 1; i <= 2 && !lastWords; i++ {
		go func() {
			r, err := cs.CallTool(ctx, &CallToolParams{Name: "echo", Arguments: map[string]any{"tag": fmt.Sprint("t", i)}})
			switch {
			case err != nil:
				results[i] = "error: " + err.Error()
			case len(r.Content) == 1:
				results[i] = r.Content[0].(*TextContent).Text
			}
			done[i] = true
		}()
	}
	time.Sleep(time.Minute)
	synctest.Wait()
	for i, want := range []string{"pong", "echo t1", "echo t2"} {
		if lastWords && i > 0 {
			break
		}
		if lastWords && done[i] && results[i] != want {
			return fail("response-before-end-of-stream-lost", "the server answered the ping and then ended the event stream; the ping completed with %q", results[i])
		}
		switch {
		case !done[i]:
			return fail("call-never-completes", "call %d is still blocked a minute after the server answered it on the event stream; the session is up", i)
		case results[i] != want:
			return fail("wrong-result", "call %d returned %q, want %q", i, results[i], want)
		}
	}
	return "all calls completed", "", ""
}

// c01LargeResultCase: a tool result of the given size over the HTTP transports (the SDK's client on
// the SDK's handlers, in process): streamable with SSE or JSON responses, with or without an event
// store, and the legacy HTTP+SSE pair.  The call completes with exactly that result, and so does a
// small call after it.
func c01LargeResultCase(transport string, size int) (obs, sig, msg string) {
	fail := func(s, format string, a ...any) (string, string, string) {
		return "", "c01 large-result " + s, fmt.Sprintf(format, a...) + fmt.Sprintf(" [%s, result of %d bytes]", transport, size)
	}
	ctx, cancel := context.WithTimeout(context.Background(), 10*time.Minute)
	defer cancel()
	s := NewServer(&Implementation{Name: "srv", Version: "1"}, &ServerOptions{Logger: quietLogger})
	AddTool(s, &Tool{Name: "blob"}, func(ctx context.Context, r *CallToolRequest, in struct {
		N int `json:"n"`
	}) (*CallToolResult, any, error) {
		return &CallToolResult{Content: []Content{&TextContent{Text: strings.Repeat("z", in.N)}}}, nil, nil
	})
	var tr Transport
	switch transport {
	case "http+sse":
		hx := &hxTransport{Handler: NewSSEHandler(func(*http.Request) *Server { return s }, nil)}
		tr = &SSEClientTransport{Endpoint: "http://srv.test/sse", HTTPClient: hx.client()}
	default:
		o := &StreamableHTTPOptions{Logger: quietLogger, JSONResponse: strings.Contains(transport, "json")}
		if strings.Contains(transport, "store") {
			o.EventStore = NewMemoryEventStore(nil)
		}
		hx := &hxTransport{Handler: NewStreamableHTTPHandler(func(*http.Request) *Server { return s }, o)}
		tr = &StreamableClientTransport{Endpoint: "http://srv.test/mcp", HTTPClient: hx.client()}
	}
	cs, err := NewClient(&Implementation{Name: "cli", Version: "1"}, &ClientOptions{Logger: quietLogger}).Connect(ctx, tr, &ClientSessionOptions{ProtocolVersion: "2025-06-18"})
	if err != nil {
		return fail("setup", "connect: %v", err)
	}
	defer func() {
		cs.Close()
		for ss := range s.Sessions() {
			ss.Close()
		}
	}()
	for i, n := range []int{size, 3} {
		r, err := cs.CallTool(ctx, &CallToolParams{Name: "blob", Arguments: map[string]any{"n": n}})
		switch {
		case err != nil:
			return fail("call-failed", "call %d (a result of %d bytes) failed although the server answered it and the connection is healthy: %v", i, n, err)
		case len(r.Content) != 1 || len(r.Content[0].(*TextContent).Text) != n:
			return fail("wrong-result", "call %d returned a result of the wrong size", i)
		}
	}
	return "completed", "", ""
}

func TestVerifC01AfterClose(t *testing.T) {
	env := verifx.LoadEnv("C01")
	res := env.NewResult()
	cases := env.NewCases(res, "api/calls-after-termination")
	for _, version := range []string{"2025-06-18", "2026-07-28"} {
		for _, how := range []string{"client", "server"} {
			for _, op := range []string{"ListTools", "CallTool", "ReadResource", "Subscribe", "Ping", "NotifyProgress", "server:Ping", "server:ListRoots", "server:NotifyProgress"} {
				idx, mine := cases.Next()
				if !mine {
					continue
				}
				var obs, sig, msg string
				func() {
					defer func() {
						if r := recover(); r != nil {
							sig, msg = "c01 after-close goroutine-left-behind "+op, fmt.Sprintf("%v [version=%s closed-by=%s op=%s]", r, version, how, op)
						}
					}()
					synctest.Test(t, func(t *testing.T) { obs, sig, msg = c01AfterClose(version, how, op) })
				}()
				if sig != "" {
					cases.Violate(idx, sig, msg, 2)
					continue
				}
				cases.Record(idx, obs, 2, func() string { return fmt.Sprintf("version=%s closed-by=%s op=%s", version, how, op) })
			}
		}
	}
	ioc := env.NewCases(res, "api/io-transport-blocked-write-at-termination")
	for _, side := range []string{"client", "server"} {
		// (a Close of our own is graceful by design: it waits for the outstanding call, which is a matter
		// of C05; here the session ends because the peer's output ends)
		for _, ends := range []string{"peer-output-ends"} {
			for _, rc := range []string{"nil", "error"} {
				for _, wc := range []string{"nil", "error"} {
					idx, mine := ioc.Next()
					if !mine {
						continue
					}
					var obs, sig, msg string
					desc := fmt.Sprintf("blocked side=%s ended by=%s reader.Close=%s writer.Close=%s", side, ends, rc, wc)
					func() {
						defer func() {
							if r := recover(); r != nil && sig == "" {
								sig, msg = "c01 io-transport panic-or-leak", fmt.Sprintf("%v [%s]", r, desc)
							}
						}()
						synctest.Test(t, func(t *testing.T) { obs, sig, msg = c01IOCase(side, ends, rc, wc) })
					}()
					if sig != "" {
						ioc.Violate(idx, sig, msg, 2)
						continue
					}
					ioc.Record(idx, obs, 2, func() string { return desc })
				}
			}
		}
	}
	lr := env.NewCases(res, "api/large-results-over-http")
	for _, transport := range []string{"streamable-sse", "streamable-sse+store", "streamable-json", "http+sse"} {
		for _, size := range []int{70 << 10, 1<<20 + 10, 4<<20 + 10, 9 << 20} {
			idx, mine := lr.Next()
			if !mine {
				continue
			}
			var obs, sig, msg string
			desc := fmt.Sprintf("%s, result of %d bytes", transport, size)
			func() {
				defer func() {
					if r := recover(); r != nil && sig == "" {
						sig, msg = "c01 large-result panic-or-leak", fmt.Sprintf("%v [%s]", r, desc)
					}
				}()
				synctest.Test(t, func(t *testing.T) { obs, sig, msg = c01LargeResultCase(transport, size) })
			}()
			if sig != "" {
				lr.Violate(idx, sig, msg, 2)
				continue
			}
			lr.Record(idx, obs, 2, func() string { return desc })
		}
	}
	sp := env.NewCases(res, "api/sse-client-event-spellings")
	for _, spelling := range []string{"named", "unnamed", "unnamed-after-first", "with-id-and-retry", "comments", "crlf-unnamed", "no-space-after-colon"} {
		idx, mine := sp.Next()
		if !mine {
			continue
		}
		var obs, sig, msg string
		func() {
			defer func() {
				if r := recover(); r != nil && sig == "" {
					sig, msg = "c01 sse-spelling panic-or-leak", fmt.Sprintf("%v [%s]", r, spelling)
				}
			}()
			synctest.Test(t, func(t *testing.T) { obs, sig, msg = c01SSESpellingCase(spelling) })
		}()
		if sig != "" {
			sp.Violate(idx, sig, msg, 4)
			continue
		}
		sp.Record(idx, obs, 4, func() string { return spelling })
	}
	ph := env.NewCases(res, "api/sse-client-post-never-answered")
	if idx, mine := ph.Next(); mine {
		var obs, sig, msg string
		func() {
			defer func() {
				if r := recover(); r != nil && sig == "" {
					sig, msg = "c01 sse-spelling panic-or-leak", fmt.Sprintf("%v [post never answered]", r)
				}
			}()
			synctest.Test(t, func(t *testing.T) { obs, sig, msg = c01SSECaseX("named", false, true) })
		}()
		if sig != "" {
			ph.Violate(idx, sig, msg, 2)
		} else {
			ph.Record(idx, obs, 2, func() string { return "HTTP+SSE client, POST of a call never answered, then the stream ends" })
		}
	}
	coal := env.NewCases(res, "api/io-transport-coalesced-stream")
	for _, dir := range []string{"response", "request"} {
		for _, size := range []int{70 << 10, 1<<20 + 10, 5 << 19} {
			for _, order := range []string{"BS", "SB", "BSS", "SBS", "BB"} {
				idx, mine := coal.Next()
				if !mine {
					continue
				}
				var obs, sig, msg string
				desc := fmt.Sprintf("large %s of %d bytes, order %s", dir, size, order)
				func() {
					defer func() {
						if r := recover(); r != nil && sig == "" {
							sig, msg = "c01 io-coalesced panic-or-leak", fmt.Sprintf("%v [%s]", r, desc)
						}
					}()
					synctest.Test(t, func(t *testing.T) { obs, sig, msg = c01CoalescedCase(dir, size, order) })
				}()
				if sig != "" {
					coal.Violate(idx, sig, msg, 2)
					continue
				}
				coal.Record(idx, obs, 2, func() string { return desc })
			}
		}
	}
	env.Finish(res)
}
