package mcp

// C01 over the streamable HTTP client: a call whose SSE response stream is cut - at any byte
// offset, by a read error or a clean end of stream, resumable or not - still completes (with the
// response or with an error); it never stays blocked while its context is live.  The fault
// enumeration is C09's (same scripted server); only the completion oracle is evaluated here.

import (
	"fmt"
	"strings"
	"testing"
	"testing/synctest"

	"github.com/modelcontextprotocol/go-sdk/internal/verifx"
)

func TestVerifC01HTTP(t *testing.T) {
	env := verifx.LoadEnv("C01")
	mk := func(name string, o c09Opts) *verifx.Scenario {
		return &verifx.Scenario{Name: name, Budget: 0, Exec: func(prefix []verifx.Point) *verifx.Outcome {
			ch := &verifx.Chooser{Prefix: prefix}
			var obs, bad, sig string
			var steps int
			func() {
				defer func() {
					if r := recover(); r != nil {
						if d, ok := r.(verifx.Divergence); ok {
							panic(d)
						}
						bad, sig = fmt.Sprintf("panic / bubble failure: %v", r), "c01 http panic-or-leak"
					}
				}()
				synctest.Test(t, func(t *testing.T) { obs, bad, sig, steps = c09Run(o, ch) })
			}()
			switch {
			case strings.Contains(sig, "call-hangs"):
				sig, bad = "c01 http call-never-completes", "streamable client: "+bad
			case strings.HasPrefix(sig, "c01 "):
			default:
				sig, bad = "", "" // delivery / resumption details are C09's business
			}
			cls := "completed-with-error"
			if strings.HasPrefix(obs, "ok") {
				cls = "completed-with-response"
			}
			return &verifx.Outcome{Trace: ch.Trace, Steps: steps, Obs: cls, Bad: bad, Sig: sig}
		}}
	}
	env.Run([]*verifx.Scenario{
		mk("http/post-stream/no-ids/retries=1", c09Opts{ids: false, maxRetries: 1}),
		mk("http/post-stream/ids/no-retries", c09Opts{ids: true, maxRetries: -1}),
		mk("http/post-stream/ids/retries=1", c09Opts{ids: true, maxRetries: 1}),
	})
}
