package mcp

// The only place where the C20 harnesses read MemoryEventStore's private state.  priv_c20.go.fallback is
// the black-box twin (same functions, answered through After alone); the driver swaps it in when this file
// no longer compiles against the tree under test (a change that reshapes the store's internals), so that
// such a change is still judged by everything observable from outside.

const c20PrivateView = true

// c20View reports what stream (s, t) retains: the index of its first retained item, the items, and the
// size the store accounts for the stream.  n is the number of items ever appended (unused here).
func c20View(st *MemoryEventStore, s, t string, n int) (first int, items [][]byte, size int, ok bool) {
	st.mu.Lock()
	defer st.mu.Unlock()
	dl := st.store[s][t]
	if dl == nil {
		return 0, nil, 0, false
	}
	return dl.first, append([][]byte{}, dl.data...), dl.size, true
}

// c20Streams lists every (session, stream) the store holds; known is ignored here.
func c20Streams(st *MemoryEventStore, known [][2]string) [][2]string {
	st.mu.Lock()
	defer st.mu.Unlock()
	var out [][2]string
	for s, sm := range st.store {
		for t := range sm {
			out = append(out, [2]string{s, t})
		}
	}
	return out
}

// c20Totals: the store's own byte count and limit (accounted = -1 when it cannot be observed).
func c20Totals(st *MemoryEventStore) (accounted, max int) {
	st.mu.Lock()
	defer st.mu.Unlock()
	return st.nBytes, st.maxBytes
}

// c20HasSession: does the store still hold anything of session s (streams: the ones it had).
func c20HasSession(st *MemoryEventStore, s string, streams []string) bool {
	st.mu.Lock()
	defer st.mu.Unlock()
	_, ok := st.store[s]
	return ok
}
