package mcp

// C09, the standalone stream of a long-lived session.  A healthy server writes one notification at a
// time; after each of them the connection carrying the stream is cut (an idle timeout of a proxy, a
// load balancer draining), cleanly or by an error, and the client's reconnect succeeds at once.
// Every body brings a message - with or without event ids (a server without an event store sends
// none) - so the session must survive any number of such cuts: every notification is delivered once
// and in order, and the session still works afterwards.

import (
	"context"
	"errors"
	"fmt"
	"io"
	"net/http"
	"strings"
	"testing"
	"testing/synctest"
	"time"

	"github.com/modelcontextprotocol/go-sdk/internal/verifx"
)

type c09ChurnBody struct {
	data []byte
	err  error
	hang <-chan struct{} // if set: after data, stay open until closed
}

func (b *c09ChurnBody) Read(p []byte) (int, error) {
	if len(b.data) > 0 {
		n := copy(p, b.data)
		b.data = b.data[n:]
		return n, nil
	}
	if b.hang != nil {
		<-b.hang
		return 0, errors.New("closed")
	}
	if b.err != nil {
		return 0, b.err
	}
	return 0, io.EOF
}
func (b *c09ChurnBody) Close() error { return nil }

func c09ChurnCase(ids bool, maxRetries, cuts int, cutKind string) (obs, sig, msg string) {
	fail := func(s, format string, a ...any) (string, string, string) {
		return "", "c09 churn " + s, fmt.Sprintf(format, a...) + fmt.Sprintf(" [event ids=%v MaxRetries=%d cuts=%d (%s)]", ids, maxRetries, cuts, cutKind)
	}
	ctx, cancel := context.WithCancel(context.Background())
	defer cancel()
	served := 0
	var lastIDs []string
	mk := func(status int, ctype string, body io.ReadCloser) *http.Response {
		h := http.Header{}
		if ctype != "" {
			h.Set("Content-Type", ctype)
		}
		h.Set("Mcp-Session-Id", "sess-1")
		if body == nil {
			body = io.NopCloser(strings.NewReader(""))
		}
		return &http.Response{StatusCode: status, Status: fmt.Sprint(status), Header: h, Body: body, Proto: "HTTP/1.1", ProtoMajor: 1, ProtoMinor: 1}
	}
	hx := &hxTransport{Intercept: func(req *http.Request, n int) (*http.Response, error) {
		body, _ := io.ReadAll(req.Body)
		bs := string(body)
		switch {
		case req.Method == "POST" && strings.Contains(bs, `"initialize"`):
			return mk(200, "application/json", io.NopCloser(strings.NewReader(`{"jsonrpc":"2.0","id":1,"result":{"protocolVersion":"2025-06-18","capabilities":{},"serverInfo":{"name":"script","version":"1"}}}`))), nil
		case req.Method == "POST" && strings.Contains(bs, `"ping"`):
			var m struct{ ID int }
			fmt.Sscanf(bs[strings.Index(bs, `"id":`):], `"id":%d`, &m.ID)
			return mk(200, "application/json", io.NopCloser(strings.NewReader(fmt.Sprintf(`{"jsonrpc":"2.0","id":%d,"result":{}}`, m.ID)))), nil
		case req.Method == "POST":
			return mk(202, "", nil), nil
		case req.Method == "DELETE":
			return mk(204, "", nil), nil
		case req.Method == "GET":
			lastIDs = append(lastIDs, req.Header.Get("Last-Event-ID"))
			if served >= cuts {
				// the server has nothing more to say; the stream stays up
				return mk(200, "text/event-stream", &c09ChurnBody{hang: req.Context().Done()}), nil
			}
			served++
			id := ""
			if ids {
				id = fmt.Sprintf("id: st_%d\n", served)
			}
			ev := fmt.Sprintf("event: message\n%sdata: {\"jsonrpc\":\"2.0\",\"method\":\"notifications/progress\",\"params\":{\"progressToken\":\"tok\",\"progress\":%d}}\n\n", id, served)
			b := &c09ChurnBody{data: []byte(ev)}
			if cutKind == "error" {
				b.err = errC09Net
			}
			return mk(200, "text/event-stream", b), nil
		}
		return mk(400, "", nil), nil
	}}
	var delivered []int
	client := NewClient(&Implementation{Name: "cli", Version: "1"}, &ClientOptions{Logger: quietLogger,
		ProgressNotificationHandler: func(ctx context.Context, r *ProgressNotificationClientRequest) {
			delivered = append(delivered, int(r.Params.Progress))
		}})
	cs, err := client.Connect(ctx, &StreamableClientTransport{Endpoint: "http://example.test/mcp", HTTPClient: hx.client(), MaxRetries: maxRetries}, &ClientSessionOptions{ProtocolVersion: "2025-06-18"})
	if err != nil {
		return fail("connect", "%v", err)
	}
	time.Sleep(30 * time.Minute)
	synctest.Wait()
	pctx, pcancel := context.WithTimeout(ctx, time.Minute)
	pingErr := cs.Ping(pctx, nil)
	pcancel()
	defer func() {
		cs.Close()
		cancel()
		synctest.Wait()
	}()
	for i, d := range delivered {
		if d != i+1 {
			return fail("delivery-order-or-duplicate", "notifications delivered %v", delivered)
		}
	}
	switch {
	case pingErr != nil:
		return fail("session-lost-although-every-body-made-progress", "the server's stream was cut %d times, each time after delivering a new message, and every reconnect succeeded at once - yet the session is gone: %v (delivered %v, GETs %d)", cuts, pingErr, delivered, len(lastIDs))
	case len(delivered) != cuts:
		return fail("message-lost", "delivered %v of %d notifications (Last-Event-IDs presented: %q)", delivered, cuts, lastIDs)
	}
	return fmt.Sprintf("delivered %d", len(delivered)), "", ""
}

func TestVerifC09Churn(t *testing.T) {
	env := verifx.LoadEnv("C09")
	res := env.NewResult()
	cases := env.NewCases(res, "standalone-stream/cut-after-every-message")
	for _, ids := range []bool{false, true} {
		for _, maxRetries := range []int{1, 2, 5} {
			for _, cuts := range []int{1, 2, 3, 4, 7, 12} {
				for _, kind := range []string{"eof", "error"} {
					idx, mine := cases.Next()
					if !mine {
						continue
					}
					desc := fmt.Sprintf("event ids=%v MaxRetries=%d cuts=%d (%s)", ids, maxRetries, cuts, kind)
					var obs, sig, msg string
					func() {
						defer func() {
							if r := recover(); r != nil && sig == "" {
								sig, msg = "c09 churn panic-or-leak", fmt.Sprintf("%v [%s]", r, desc)
							}
						}()
						synctest.Test(t, func(t *testing.T) { obs, sig, msg = c09ChurnCase(ids, maxRetries, cuts, kind) })
					}()
					if sig != "" {
						cases.Violate(idx, sig, msg, cuts+1)
						continue
					}
					cases.Record(idx, obs, cuts+1, func() string { return desc })
				}
			}
		}
	}
	env.Finish(res)
}
