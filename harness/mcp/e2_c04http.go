package mcp

// C04 over streamable HTTP (real client, real handler, in-process HTTP): cancelling an in-flight call
// returns promptly, cancels the server-side handler of exactly that call, and leaves the session
// usable - for stateless (2026-07-28) and stateful (legacy) endpoints, SSE and JSON responses.

import (
	"context"
	"encoding/json"
	"errors"
	"fmt"
	"io"
	"net/http"
	"strings"
	"testing"
	"testing/synctest"
	"time"

	"github.com/modelcontextprotocol/go-sdk/internal/verifx"
)

type c04hArgs struct {
	Tag string `json:"tag"`
}

type c04hCase struct {
	stateless bool
	jsonResp  bool
	second    bool // a second call is in flight while the first is cancelled
}

func (c c04hCase) String() string {
	return fmt.Sprintf("stateless=%v json=%v second-call-in-flight=%v", c.stateless, c.jsonResp, c.second)
}

func c04hRun(c c04hCase) (obs, sig, msg string) {
	fail := func(s, format string, a ...any) (string, string, string) {
		return "", "c04 http " + s, fmt.Sprintf(format, a...) + " [" + c.String() + "]"
	}
	ctx := context.Background()
	cancelled := map[string]bool{}
	release := make(chan struct{})
	started := make(chan string, 4)
	s := NewServer(&Implementation{Name: "srv", Version: "1"}, &ServerOptions{Logger: quietLogger})
	AddTool(s, &Tool{Name: "wait"}, func(ctx context.Context, r *CallToolRequest, in c04hArgs) (*CallToolResult, any, error) {
		started <- in.Tag
		select {
		case <-ctx.Done():
			cancelled[in.Tag] = true
			return nil, nil, ctx.Err()
		case <-release:
			return &CallToolResult{Content: []Content{&TextContent{Text: in.Tag}}}, nil, nil
		}
	})
	AddTool(s, &Tool{Name: "quick"}, func(ctx context.Context, r *CallToolRequest, in map[string]any) (*CallToolResult, any, error) {
		return &CallToolResult{Content: []Content{&TextContent{Text: "ok"}}}, nil, nil
	})
	h := NewStreamableHTTPHandler(func(*http.Request) *Server { return s }, &StreamableHTTPOptions{Stateless: c.stateless, JSONResponse: c.jsonResp, Logger: quietLogger,
		// under 2026-07-28 a handler is cancelled through the end of its HTTP request, which the server opts in to
		PropagateRequestCancellation: true})
	hx := &hxTransport{Handler: h}
	client := NewClient(&Implementation{Name: "cli", Version: "1"}, &ClientOptions{Logger: quietLogger})
	cs, err := client.Connect(ctx, &StreamableClientTransport{Endpoint: "http://example.test/mcp", HTTPClient: hx.client(), MaxRetries: -1}, nil)
	if err != nil {
		return fail("connect", "%v", err)
	}
	defer cs.Close()
	released := false
	defer func() {
		if !released {
			close(release)
			synctest.Wait()
		}
	}()
	version := cs.InitializeResult().ProtocolVersion
	type res struct {
		r   *CallToolResult
		err error
		at  time.Time
	}
	call := func(cctx context.Context, tag string) chan res {
		ch := make(chan res, 1)
		go func() {
			r, err := cs.CallTool(cctx, &CallToolParams{Name: "wait", Arguments: c04hArgs{Tag: tag}})
			ch <- res{r, err, time.Now()}
		}()
		return ch
	}
	actx, cancelA := context.WithCancel(ctx)
	chA := call(actx, "A")
	var chB chan res
	if c.second {
		chB = call(ctx, "B")
	}
	synctest.Wait()
	n := 1
	if c.second {
		n = 2
	}
	for i := 0; i < n; i++ {
		select {
		case <-started:
		default:
			return fail("handler-not-started", "a tool handler did not start (negotiated %s)", version)
		}
	}
	t0 := time.Now()
	cancelA()
	synctest.Wait()
	var ra res
	select {
	case ra = <-chA:
	default:
		return fail("cancelled-call-does-not-return", "the cancelled call has not returned although nothing else can make progress (negotiated %s)", version)
	}
	if ra.err == nil || !errors.Is(ra.err, context.Canceled) {
		return fail("cancelled-call-wrong-error", "the cancelled call returned %v, want the context's error", ra.err)
	}
	if d := ra.at.Sub(t0); d != 0 {
		return fail("cancelled-call-needed-time", "the cancelled call returned %v of virtual time after the cancellation", d)
	}
	time.Sleep(10 * time.Second) // let any notice timeout pass
	synctest.Wait()
	if !cancelled["A"] {
		return fail("handler-not-cancelled", "the server-side handler of the cancelled call never observed ctx.Done (negotiated %s)", version)
	}
	if cancelled["B"] {
		return fail("wrong-handler-cancelled", "the handler of the other in-flight call was cancelled")
	}
	close(release)
	released = true
	synctest.Wait()
	if c.second {
		select {
		case rb := <-chB:
			if rb.err != nil || rb.r.IsError || len(rb.r.Content) != 1 {
				return fail("other-call-affected", "the other in-flight call returned %+v, %v after the cancellation of its neighbour (negotiated %s)", rb.r, rb.err, version)
			}
		default:
			return fail("other-call-hangs", "the other in-flight call never returned")
		}
	}
	// the session stays usable
	r, err := cs.CallTool(ctx, &CallToolParams{Name: "quick", Arguments: map[string]any{}})
	if err != nil || r.IsError {
		return fail("session-unusable-after-cancel", "a call after the cancellation failed: %v (negotiated %s)", err, version)
	}
	return fmt.Sprintf("negotiated=%s cancelled-handler=A", version), "", ""
}

// ---- a scripted (non-SDK) HTTP peer that answers a call with application/json headers at once
// and delivers the body late: the call is cancelled while the client is reading that body.

type c04hStalledBody struct {
	ctx     context.Context
	release chan struct{}
	data    []byte
	pos     int
}

func (b *c04hStalledBody) Read(p []byte) (int, error) {
	if b.pos == 0 {
		select {
		case <-b.release:
		case <-b.ctx.Done():
			return 0, b.ctx.Err() // what net/http reports when the request's context ends mid-body
		}
	}
	if b.pos >= len(b.data) {
		return 0, io.EOF
	}
	n := copy(p, b.data[b.pos:])
	b.pos += n
	return n, nil
}

func (b *c04hStalledBody) Close() error { return nil }

func c04hScripted(second bool) (obs, sig, msg string) {
	fail := func(s, format string, a ...any) (string, string, string) {
		return "", "c04 http-scripted " + s, fmt.Sprintf(format, a...) + fmt.Sprintf(" [second-call-in-flight=%v]", second)
	}
	ctx := context.Background()
	release := make(chan struct{})
	resp := func(status int, ctype, body string) *http.Response {
		h := http.Header{}
		if ctype != "" {
			h.Set("Content-Type", ctype)
		}
		return &http.Response{StatusCode: status, Status: fmt.Sprint(status), Header: h, Body: io.NopCloser(strings.NewReader(body)), Proto: "HTTP/1.1", ProtoMajor: 1, ProtoMinor: 1}
	}
	hx := &hxTransport{Intercept: func(req *http.Request, n int) (*http.Response, error) {
		body, _ := io.ReadAll(req.Body)
		var m struct {
			ID     json.RawMessage `json:"id"`
			Method string          `json:"method"`
			Params struct {
				Name string `json:"name"`
			} `json:"params"`
		}
		json.Unmarshal(body, &m)
		switch {
		case req.Method == "GET":
			return resp(405, "", ""), nil
		case req.Method == "DELETE":
			return resp(204, "", ""), nil
		case m.Method == "initialize":
			r := resp(200, "application/json", `{"jsonrpc":"2.0","id":`+string(m.ID)+`,"result":{"protocolVersion":"2025-06-18","capabilities":{"tools":{}},"serverInfo":{"name":"peer","version":"1"}}}`)
			r.Header.Set("Mcp-Session-Id", "s1")
			return r, nil
		case m.Method == "tools/call" && m.Params.Name == "wait":
			r := resp(200, "application/json", "")
			r.Body = &c04hStalledBody{ctx: req.Context(), release: release, data: []byte(`{"jsonrpc":"2.0","id":` + string(m.ID) + `,"result":{"content":[{"type":"text","text":"late"}]}}`)}
			return r, nil
		case m.Method == "tools/call":
			return resp(200, "application/json", `{"jsonrpc":"2.0","id":`+string(m.ID)+`,"result":{"content":[{"type":"text","text":"ok"}]}}`), nil
		case len(m.ID) == 0:
			return resp(202, "", ""), nil
		}
		return resp(400, "", ""), nil
	}}
	client := NewClient(&Implementation{Name: "cli", Version: "1"}, &ClientOptions{Logger: quietLogger})
	cs, err := client.Connect(ctx, &StreamableClientTransport{Endpoint: "http://example.test/mcp", HTTPClient: hx.client(), MaxRetries: -1}, &ClientSessionOptions{ProtocolVersion: "2025-06-18"})
	if err != nil {
		return fail("connect", "%v", err)
	}
	defer cs.Close()
	released := false
	defer func() {
		if !released {
			close(release)
			synctest.Wait()
		}
	}()
	type res struct {
		r   *CallToolResult
		err error
	}
	call := func(cctx context.Context) chan res {
		ch := make(chan res, 1)
		go func() {
			r, err := cs.CallTool(cctx, &CallToolParams{Name: "wait", Arguments: map[string]any{}})
			ch <- res{r, err}
		}()
		return ch
	}
	actx, cancelA := context.WithCancel(ctx)
	chA := call(actx)
	var chB chan res
	if second {
		chB = call(ctx)
	}
	synctest.Wait()
	cancelA()
	synctest.Wait()
	select {
	case ra := <-chA:
		if !errors.Is(ra.err, context.Canceled) {
			return fail("cancelled-call-wrong-error", "the cancelled call returned %v", ra.err)
		}
	default:
		return fail("cancelled-call-does-not-return", "the cancelled call has not returned")
	}
	time.Sleep(10 * time.Second)
	synctest.Wait()
	close(release)
	released = true
	synctest.Wait()
	if second {
		select {
		case rb := <-chB:
			if rb.err != nil || len(rb.r.Content) != 1 {
				return fail("other-call-affected", "the other in-flight call returned %+v, %v after its neighbour was cancelled while its JSON body was being read", rb.r, rb.err)
			}
		default:
			return fail("other-call-hangs", "the other in-flight call never returned")
		}
	}
	if r, err := cs.CallTool(ctx, &CallToolParams{Name: "quick", Arguments: map[string]any{}}); err != nil || r.IsError {
		return fail("session-unusable-after-cancel", "a call after the cancellation failed: %v", err)
	}
	return "scripted json peer: cancelled while the body was being read", "", ""
}

func TestVerifC04HTTP(t *testing.T) {
	env := verifx.LoadEnv("C04")
	res := env.NewResult()
	cases := env.NewCases(res, "http/cancel-over-streamable")
	for _, stateless := range []bool{false, true} {
		for _, js := range []bool{false, true} {
			for _, second := range []bool{false, true} {
				c := c04hCase{stateless: stateless, jsonResp: js, second: second}
				idx, mine := cases.Next()
				if !mine {
					continue
				}
				var obs, sig, msg string
				func() {
					defer func() {
						if r := recover(); r != nil {
							sig, msg = "c04 http panic-or-leak", fmt.Sprintf("%v [%s]", r, c)
						}
					}()
					synctest.Test(t, func(t *testing.T) { obs, sig, msg = c04hRun(c) })
				}()
				if sig != "" {
					cases.Violate(idx, sig, msg, 3)
					continue
				}
				cases.Record(idx, obs, 3, func() string { return c.String() })
			}
		}
	}
	for _, second := range []bool{false, true} {
		idx, mine := cases.Next()
		if !mine {
			continue
		}
		var obs, sig, msg string
		func() {
			defer func() {
				if r := recover(); r != nil {
					sig, msg = "c04 http-scripted panic-or-leak", fmt.Sprintf("%v [second=%v]", r, second)
				}
			}()
			synctest.Test(t, func(t *testing.T) { obs, sig, msg = c04hScripted(second) })
		}()
		if sig != "" {
			cases.Violate(idx, sig, msg, 3)
			continue
		}
		cases.Record(idx, obs, 3, func() string { return fmt.Sprintf("scripted json peer second=%v", second) })
	}
	env.Finish(res)
}
