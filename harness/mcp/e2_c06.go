package mcp

// C06: nothing is served before initialize; per-request protocol metadata is validated.
// History search over raw wire messages against a real ServerSession (in-memory pipe),
// compared after every message with a reference gate model written from the statement.

import (
	"bufio"
	"context"
	"encoding/json"
	"fmt"
	"io"
	"strings"
	"testing"
	"testing/synctest"

	"github.com/modelcontextprotocol/go-sdk/internal/verifx"
)

type c06Msg struct {
	name   string
	method string
	params string // raw JSON or "" for absent
	notif  bool
	kind   string // reference class, see c06Expect
}

const c06ModernMeta = `"_meta":{"io.modelcontextprotocol/protocolVersion":"2026-07-28","io.modelcontextprotocol/clientCapabilities":{},"io.modelcontextprotocol/clientInfo":{"name":"c","version":"1"}}`

func c06Alphabet() []c06Msg {
	return []c06Msg{
		{name: "initialize(2025-06-18)", method: "initialize", params: `{"protocolVersion":"2025-06-18","capabilities":{},"clientInfo":{"name":"c","version":"1"}}`, kind: "initialize"},
		{name: "initialize(1999-01-01)", method: "initialize", params: `{"protocolVersion":"1999-01-01","capabilities":{},"clientInfo":{"name":"c","version":"1"}}`, kind: "initialize"},
		{name: "initialize(no params)", method: "initialize", kind: "initialize-bad"},
		{name: "initialized", method: "notifications/initialized", params: `{}`, notif: true, kind: "initialized"},
		{name: "ping", method: "ping", kind: "ping"},
		{name: "cancelled", method: "notifications/cancelled", params: `{"requestId":99}`, notif: true, kind: "cancelled"},
		{name: "tools/list", method: "tools/list", params: `{}`, kind: "feature"},
		{name: "tools/call", method: "tools/call", params: `{"name":"t","arguments":{}}`, kind: "feature-tool"},
		// a method the application registered itself (AddReceivingCustomMethod) is behind the gate like any other
		{name: "acme/echo (custom method)", method: "acme/echo", params: `{"text":"x"}`, kind: "feature-custom"},
		{name: "tools/call(modern)", method: "tools/call", params: `{"name":"t","arguments":{},` + c06ModernMeta + `}`, kind: "modern-tool"},
		{name: "tools/list(modern,no caps)", method: "tools/list", params: `{"_meta":{"io.modelcontextprotocol/protocolVersion":"2026-07-28"}}`, kind: "modern-invalid"},
		{name: "tools/list(modern,2099)", method: "tools/list", params: `{"_meta":{"io.modelcontextprotocol/protocolVersion":"2099-01-01","io.modelcontextprotocol/clientCapabilities":{}}}`, kind: "modern-unsupported"},
		{name: "tools/list(modern,caps an empty array)", method: "tools/list", params: `{"_meta":{"io.modelcontextprotocol/protocolVersion":"2026-07-28","io.modelcontextprotocol/clientCapabilities":[]}}`, kind: "modern-invalid"},
		{name: "tools/call(modern,caps null)", method: "tools/call", params: `{"name":"t","arguments":{},"_meta":{"io.modelcontextprotocol/protocolVersion":"2026-07-28","io.modelcontextprotocol/clientCapabilities":null}}`, kind: "modern-invalid"},
		{name: "tools/call(modern,caps a string)", method: "tools/call", params: `{"name":"t","arguments":{},"_meta":{"io.modelcontextprotocol/protocolVersion":"2026-07-28","io.modelcontextprotocol/clientCapabilities":"{}"}}`, kind: "modern-invalid"},
		{name: "tools/call(modern,bad clientInfo)", method: "tools/call", params: `{"name":"t","arguments":{},"_meta":{"io.modelcontextprotocol/protocolVersion":"2026-07-28","io.modelcontextprotocol/clientCapabilities":{},"io.modelcontextprotocol/clientInfo":5}}`, kind: "modern-invalid"},
		{name: "unknown/method(modern)", method: "unknown/method", params: `{` + c06ModernMeta + `}`, kind: "modern-unknown-method"},
		{name: "tools/call(modern, name not a string)", method: "tools/call", params: `{"name":5,"arguments":{},` + c06ModernMeta + `}`, kind: "modern-bad-params"},
		{name: "server/discover(modern)", method: "server/discover", params: `{` + c06ModernMeta + `}`, kind: "modern-discover"},
		{name: "server/discover(no meta)", method: "server/discover", params: `{}`, kind: "removed"},
		{name: "logging/setLevel", method: "logging/setLevel", params: `{"level":"debug"}`, kind: "feature-setlevel"},
		{name: "resources/subscribe", method: "resources/subscribe", params: `{"uri":"file:///r"}`, kind: "feature-subscribe"},
		{name: "roots/list_changed", method: "notifications/roots/list_changed", params: `{}`, notif: true, kind: "feature-roots"},
		{name: "initialize(modern)", method: "initialize", params: `{"protocolVersion":"2026-07-28","capabilities":{},"clientInfo":{"name":"c","version":"1"},` + c06ModernMeta + `}`, kind: "removed"},
		{name: "ping(modern)", method: "ping", params: `{` + c06ModernMeta + `}`, kind: "removed"},
	}
}

type c06EchoParams struct {
	ParamsBase
	Text string `json:"text"`
}

type c06EchoResult struct {
	ResultBase
	Text string `json:"text"`
}

type c06Wire struct {
	ID     *json.RawMessage `json:"id"`
	Method string           `json:"method"`
	Result json.RawMessage  `json:"result"`
	Error  *struct {
		Code    int64           `json:"code"`
		Message string          `json:"message"`
		Data    json.RawMessage `json:"data"`
	} `json:"error"`
}

// c06Model is the reference gate.
type c06Model struct {
	inited bool // an initialize was accepted, or a complete modern request was served
	initd  bool // the initialized notification was accepted
	level  LoggingLevel
}

func c06Run(t *testing.T, msgs []c06Msg, hist []int, serves string) (out verifx.SearchResult) {
	synctest.Test(t, func(t *testing.T) {
		out = c06RunInBubble(msgs, hist, serves)
	})
	return out
}

// legacyOnly: the server's transport declares (ProtocolVersionSupporter) that it serves the legacy
// versions only, as the SDK's HTTP+SSE and stateful streamable transports do: 2026-07-28 is then not
// a supported version on this session, whatever a request's _meta says.
func c06RunInBubble(msgs []c06Msg, hist []int, serves string) verifx.SearchResult {
	// serves: what the server's transport declares it serves - "" (no declaration), "legacy" (the legacy
	// versions only) or "modern" (2026-07-28 only: no version an initialize handshake could settle on)
	legacyOnly, modernOnly := serves == "legacy", serves == "modern"
	bad := func(sig, format string, a ...any) verifx.SearchResult {
		return verifx.SearchResult{Bad: fmt.Sprintf(format, a...), Sig: "c06 " + sig}
	}
	ctx := context.Background()
	var reached []string // methods that reached the receiving middleware (the handler layer)
	counts := map[string]int{}
	s := NewServer(&Implementation{Name: "srv", Version: "1"}, &ServerOptions{
		Logger:                  quietLogger,
		InitializedHandler:      func(context.Context, *InitializedRequest) { counts["initialized"]++ },
		RootsListChangedHandler: func(context.Context, *RootsListChangedRequest) { counts["roots"]++ },
		SubscribeHandler:        func(context.Context, *SubscribeRequest) error { counts["subscribe"]++; return nil },
		UnsubscribeHandler:      func(context.Context, *UnsubscribeRequest) error { return nil },
	})
	AddTool(s, &Tool{Name: "t"}, func(ctx context.Context, r *CallToolRequest, in map[string]any) (*CallToolResult, any, error) {
		counts["tool"]++
		return &CallToolResult{}, nil, nil
	})
	s.AddResource(&Resource{URI: "file:///r", Name: "r"}, func(context.Context, *ReadResourceRequest) (*ReadResourceResult, error) {
		return &ReadResourceResult{}, nil
	})
	if err := AddReceivingCustomMethod(s, "acme/echo", func(ctx context.Context, ss *ServerSession, p *c06EchoParams) (*c06EchoResult, error) {
		counts["custom"]++
		return &c06EchoResult{Text: p.Text}, nil
	}); err != nil {
		return bad("setup", "AddReceivingCustomMethod: %v", err)
	}
	s.AddReceivingMiddleware(func(next MethodHandler) MethodHandler {
		return func(ctx context.Context, method string, req Request) (Result, error) {
			reached = append(reached, method)
			return next(ctx, method, req)
		}
	})
	ct, st0 := NewInMemoryTransports()
	var st Transport = st0
	if legacyOnly {
		st = &c07Advertise{Transport: st0, set: c07Legacy}
	}
	if modernOnly {
		st = &c07Advertise{Transport: st0, set: []string{"2026-07-28"}}
	}
	ss, err := s.Connect(ctx, st, nil)
	if err != nil {
		return bad("connect", "connect: %v", err)
	}
	defer func() {
		ct.rwc.Close()
		ss.Wait()
	}()
	var lines []string
	go func() {
		sc := bufio.NewScanner(ct.rwc)
		sc.Buffer(make([]byte, 1<<20), 1<<20)
		for sc.Scan() {
			lines = append(lines, sc.Text())
		}
	}()
	m := &c06Model{}
	obs := ""
	for step, mi := range hist {
		msg := msgs[mi]
		id := 100 + step
		var b strings.Builder
		b.WriteString(`{"jsonrpc":"2.0"`)
		if !msg.notif {
			fmt.Fprintf(&b, `,"id":%d`, id)
		}
		fmt.Fprintf(&b, `,"method":%q`, msg.method)
		if msg.params != "" {
			b.WriteString(`,"params":` + msg.params)
		}
		b.WriteString("}\n")
		nReached, nLines := len(reached), len(lines)
		before := map[string]int{}
		for k, v := range counts {
			before[k] = v
		}
		paramsBefore := ss.InitializeParams()
		if _, err := io.WriteString(ct.rwc, b.String()); err != nil {
			return bad("write-failed", "step %d: writing %s failed: %v (session torn down?)", step, msg.name, err)
		}
		synctest.Wait()
		newReached := append([]string{}, reached[nReached:]...)
		var resp *c06Wire
		for _, l := range lines[nLines:] {
			var w c06Wire
			if err := json.Unmarshal([]byte(l), &w); err != nil {
				return bad("garbage-output", "step %d: server wrote %q", step, l)
			}
			if w.Method != "" {
				continue // server-initiated traffic (none expected, but not our concern)
			}
			if resp != nil {
				return bad("two-responses", "step %d: %s got two responses", step, msg.name)
			}
			resp = &w
		}
		if msg.notif && resp != nil {
			return bad("response-to-notification", "step %d: notification %s got a response %+v", step, msg.name, resp)
		}
		if !msg.notif {
			if resp == nil {
				return bad("no-response "+msg.kind, "step %d: %s got no response", step, msg.name)
			}
			if resp.ID == nil || string(*resp.ID) != fmt.Sprint(id) {
				return bad("wrong-id", "step %d: %s answered with id %v", step, msg.name, resp.ID)
			}
		}
		code := int64(0)
		isErr := resp != nil && resp.Error != nil
		if isErr {
			code = resp.Error.Code
		}
		delta := func(k string) int { return counts[k] - before[k] }
		userHandlers := delta("tool") + delta("subscribe") + delta("roots") + delta("initialized") + delta("custom")
		served := len(newReached) > 0
		where := fmt.Sprintf("step %d (%s) in state inited=%v initialized=%v", step, msg.name, m.inited, m.initd)
		stateUnchanged := func() *verifx.SearchResult {
			after := ss.InitializeParams()
			if after != paramsBefore {
				r := bad("state-changed-by-rejected "+msg.kind, "%s: rejected, yet InitializeParams changed from %v to %v", where, paramsBefore, after)
				return &r
			}
			_, ipSet, lvl, privOK := privSessionState(ss)
			if !privOK {
				return nil // (no private view of the session state: the public InitializeParams above is all there is)
			}
			var ip any
			if ipSet {
				ip = true
			}
			if lvl != LoggingLevel(m.level) {
				r := bad("state-changed-by-rejected "+msg.kind, "%s: rejected, yet the log level changed to %q", where, lvl)
				return &r
			}
			if (ip != nil) != m.initd {
				r := bad("state-changed-by-rejected "+msg.kind, "%s: rejected, yet InitializedParams changed", where)
				return &r
			}
			return nil
		}
		gateReject := true // false: the rejection is made by the method's own handler, behind the middleware
		mustReject := func(wantCode int64) *verifx.SearchResult {
			if (served && gateReject) || userHandlers > 0 {
				r := bad("served-"+msg.kind+fmt.Sprintf(" inited=%v", m.inited), "%s: must be rejected but reached the handlers (%v, user handlers %d)", where, newReached, userHandlers)
				return &r
			}
			if !msg.notif {
				if !isErr {
					r := bad("not-rejected-"+msg.kind, "%s: must be rejected but got a result", where)
					return &r
				}
				if wantCode != 0 && code != wantCode {
					r := bad(fmt.Sprintf("wrong-code-%s got %d want %d", msg.kind, code, wantCode), "%s: error code %d, want %d", where, code, wantCode)
					return &r
				}
			}
			return stateUnchanged()
		}
		mustServe := func() *verifx.SearchResult {
			if !msg.notif && isErr {
				r := bad("rejected-"+msg.kind+fmt.Sprintf(" inited=%v", m.inited), "%s: must be served but got error %d %q", where, code, resp.Error.Message)
				return &r
			}
			return nil
		}
		var r *verifx.SearchResult
		switch msg.kind {
		case "initialize":
			if modernOnly && !m.inited {
				// no legacy version to settle on: refused, and a refused initialize leaves no trace
				gateReject = false
				r = mustReject(-32022)
			} else if !m.inited {
				if r = mustServe(); r == nil {
					if ss.InitializeParams() == nil {
						r2 := bad("initialize-not-recorded", "%s: accepted but InitializeParams() is nil", where)
						r = &r2
					}
					m.inited = true
				}
			} else {
				gateReject = false
				r = mustReject(0)
			}
		case "initialize-bad":
			gateReject = false
			r = mustReject(0) // the statement does not fix the code (-32600 / -32602 are both in use)
		case "initialized":
			if m.inited && !m.initd {
				if delta("initialized") != 1 {
					r2 := bad("initialized-handler-not-run", "%s: accepted but the InitializedHandler ran %d times", where, delta("initialized"))
					r = &r2
				}
				m.initd = true
			} else {
				if delta("initialized") != 0 {
					r2 := bad("initialized-handler-rerun", "%s: premature/repeated initialized ran the InitializedHandler", where)
					r = &r2
				} else {
					r = stateUnchanged()
				}
			}
		case "ping":
			r = mustServe()
		case "cancelled":
			if userHandlers > 0 {
				r2 := bad("cancelled-ran-handlers", "%s: ran user handlers", where)
				r = &r2
			}
		case "feature", "feature-tool", "feature-setlevel", "feature-subscribe", "feature-roots", "feature-custom":
			if !m.inited {
				r = mustReject(0)
			} else {
				r = mustServe()
				if r == nil && msg.kind == "feature-setlevel" {
					m.level = "debug"
				}
				if r == nil && msg.kind == "feature-custom" && delta("custom") != 1 {
					r2 := bad("custom-method-not-run", "%s: served but the custom method's handler ran %d times", where, delta("custom"))
					r = &r2
				}
				if r == nil && msg.kind == "feature-tool" && delta("tool") != 1 {
					r2 := bad("tool-not-run", "%s: served but the tool handler ran %d times", where, delta("tool"))
					r = &r2
				}
			}
		case "modern-tool", "modern-discover", "modern-unknown-method", "modern-bad-params":
			if legacyOnly {
				// complete metadata naming a version this session's transport does not serve
				if msg.kind == "modern-discover" && served {
					r = stateUnchanged() // discovery may also answer with the (legacy) versions on offer
				} else {
					r = mustReject(-32022)
				}
				break
			}
			if msg.kind == "modern-unknown-method" {
				// complete, supported metadata - but the request itself is refused: it must leave no trace
				r = mustReject(-32601)
				break
			}
			if msg.kind == "modern-bad-params" {
				gateReject = false // refused while decoding the parameters, which may sit behind the middleware
				r = mustReject(-32602)
				break
			}
			if r = mustServe(); r == nil {
				if msg.kind == "modern-tool" {
					if delta("tool") != 1 {
						r2 := bad("tool-not-run", "%s: served but the tool handler ran %d times", where, delta("tool"))
						r = &r2
					}
					m.inited = true // complete, supported metadata was accepted
				} else if ss.InitializeParams() != nil {
					m.inited = true
				}
			}
		case "modern-invalid":
			r = mustReject(-32602)
		case "modern-unsupported":
			if r = mustReject(-32022); r == nil {
				var data struct {
					Supported []string `json:"supported"`
				}
				if json.Unmarshal(resp.Error.Data, &data) != nil || len(data.Supported) == 0 {
					r2 := bad("unsupported-version-without-list", "%s: -32022 without the list of supported versions: %s", where, resp.Error.Data)
					r = &r2
				}
			}
		case "removed":
			if legacyOnly && strings.Contains(msg.params, "io.modelcontextprotocol/protocolVersion") {
				r = mustReject(-32022) // the version is refused before the method is looked at
			} else {
				r = mustReject(-32601)
			}
		}
		if r != nil {
			return *r
		}
		obs = fmt.Sprintf("%s inited=%v->served=%v code=%d", msg.kind, m.inited, served, code)
	}
	ver, ip, lvl, privOK := privSessionState(ss)
	if !privOK {
		// without the private view the deduplication key is the model's (what was accepted so far)
		ip, lvl = m.initd, LoggingLevel(m.level)
	}
	return verifx.SearchResult{Key: fmt.Sprintf("init=%q initd=%v level=%q", ver, ip, lvl), Obs: obs}
}

func TestVerifC06(t *testing.T) {
	env := verifx.LoadEnv("C06")
	res := env.NewResult()
	msgs := c06Alphabet()
	env.RunSearch(res, &verifx.Search{
		Name: "wire-history-search", NumOps: len(msgs), OpName: func(i int) string { return msgs[i].name },
		MaxDepth: env.Pick(6, 7), ShallowDepth: env.Pick(2, 4),
		Run: func(h []int) verifx.SearchResult { return c06Run(t, msgs, h, "") },
	})
	env.RunSearch(res, &verifx.Search{
		Name: "wire-history-search/legacy-only-transport", NumOps: len(msgs), OpName: func(i int) string { return msgs[i].name },
		MaxDepth: env.Pick(5, 6), ShallowDepth: env.Pick(2, 3),
		Run: func(h []int) verifx.SearchResult { return c06Run(t, msgs, h, "legacy") },
	})
	env.RunSearch(res, &verifx.Search{
		Name: "wire-history-search/modern-only-transport", NumOps: len(msgs), OpName: func(i int) string { return msgs[i].name },
		MaxDepth: env.Pick(4, 6), ShallowDepth: env.Pick(2, 3),
		Run: func(h []int) verifx.SearchResult { return c06Run(t, msgs, h, "modern") },
	})
	// The same histories with every params object spelled differently - the member name _meta and the
	// reverse-DNS keys inside it written with JSON escapes (\u005f, \/), insignificant white space: the
	// same JSON values, so the same reference answers.
	spelled := make([]c06Msg, len(msgs))
	for i, m := range msgs {
		m.params = c06Respell(m.params)
		spelled[i] = m
	}
	env.RunSearch(res, &verifx.Search{
		Name: "wire-history-search/json-spellings", NumOps: len(spelled), OpName: func(i int) string { return spelled[i].name },
		MaxDepth: env.Pick(4, 6), ShallowDepth: env.Pick(2, 3),
		Run: func(h []int) verifx.SearchResult { return c06Run(t, spelled, h, "") },
	})
	env.Finish(res)
}

// c06Respell rewrites a JSON text into another spelling of the same value.
func c06Respell(params string) string {
	if params == "" {
		return params
	}
	r := strings.NewReplacer(`"_meta"`, `"\u005fmeta"`, `io.modelcontextprotocol/`, `io.modelcontextprotocol\/`, `":`, `" : `, `,"`, ` , "`)
	return " " + r.Replace(params) + " "
}
