package mcp

// C10 for the requests a server sends on a handler's behalf.  A tool answers its first invocation with
// input requests (elicitation / sampling); on a legacy session the server's multi-round-trip middleware
// turns them into server-to-client requests, collects the answers and calls the tool again.  Those requests
// are "issued while handling a request": two concurrent tools/call POSTs on one session, each asking one or
// two questions - every elicitation/create and sampling/createMessage travels on the exchange of the call it
// belongs to (SSE mode) or on the session's standalone stream (JSON-response mode), never on the other
// call's exchange; each call is answered on its own exchange with the answers to its own questions.

import (
	"context"
	"encoding/json"
	"fmt"
	"net/http"
	"net/http/httptest"
	"sort"
	"strings"
	"testing"
	"testing/synctest"

	"github.com/modelcontextprotocol/go-sdk/internal/verifx"
)

func c10InputRequestsCase(jsonResp bool, kinds string, answerOrder int) (obs, sig, msg string) {
	desc := fmt.Sprintf("json-responses=%v input requests per call: %s, answers in order %d", jsonResp, kinds, answerOrder)
	fail := func(s, format string, a ...any) (string, string, string) {
		return "", "c10 input-requests " + s, fmt.Sprintf(format, a...) + " [" + desc + "]"
	}
	ctx := context.Background()
	s := NewServer(&Implementation{Name: "srv", Version: "1"}, &ServerOptions{Logger: quietLogger})
	AddTool(s, &Tool{Name: "ask"}, func(ctx context.Context, r *CallToolRequest, in struct {
		Tag string `json:"tag"`
	}) (*CallToolResult, any, error) {
		if len(r.Params.InputResponses) == 0 {
			reqs := InputRequestMap{}
			if strings.Contains(kinds, "elicit") {
				reqs["e"] = &ElicitParams{Message: "question of " + in.Tag}
			}
			if strings.Contains(kinds, "sample") {
				reqs["s"] = &CreateMessageParams{SystemPrompt: "question of " + in.Tag, MaxTokens: 1, Messages: []*SamplingMessage{}}
			}
			return &CallToolResult{InputRequests: reqs}, nil, nil
		}
		var parts []string
		for k, v := range r.Params.InputResponses {
			b, _ := json.Marshal(v)
			parts = append(parts, k+"="+string(b))
		}
		sort.Strings(parts)
		return &CallToolResult{Content: []Content{&TextContent{Text: in.Tag + " got " + strings.Join(parts, " ")}}}, nil, nil
	})
	h := NewStreamableHTTPHandler(func(*http.Request) *Server { return s }, &StreamableHTTPOptions{JSONResponse: jsonResp, Logger: quietLogger})
	mk := func(method, sid, body string) *http.Request {
		var r *http.Request
		if body != "" {
			r = httptest.NewRequest(method, "http://example.test/mcp", strings.NewReader(body))
			r.Header.Set("Content-Type", "application/json")
		} else {
			r = httptest.NewRequest(method, "http://example.test/mcp", nil)
		}
		r.Header.Set("Accept", "application/json, text/event-stream")
		if sid != "" {
			r.Header.Set("Mcp-Session-Id", sid)
		}
		r.Header.Set("Mcp-Protocol-Version", "2025-06-18")
		return r
	}
	post := func(sid, body string) *httptest.ResponseRecorder {
		w := httptest.NewRecorder()
		h.ServeHTTP(w, mk("POST", sid, body))
		return w
	}
	w := post("", `{"jsonrpc":"2.0","id":"i","method":"initialize","params":{"protocolVersion":"2025-06-18","capabilities":{"sampling":{},"elicitation":{}},"clientInfo":{"name":"c","version":"1"}}}`)
	sid := w.Header().Get("Mcp-Session-Id")
	if w.Code != 200 || sid == "" {
		return fail("setup", "initialize answered %d", w.Code)
	}
	post(sid, `{"jsonrpc":"2.0","method":"notifications/initialized","params":{}}`)
	gctx, gcancel := context.WithCancel(ctx)
	standalone := httptest.NewRecorder()
	go h.ServeHTTP(standalone, mk("GET", sid, "").WithContext(gctx))
	synctest.Wait()
	defer func() {
		gcancel()
		for ss := range s.Sessions() {
			ss.Close()
		}
		synctest.Wait()
	}()
	tags := []string{"A1", "A2"}
	recs := map[string]*httptest.ResponseRecorder{}
	finished := map[string]bool{}
	for i, tag := range tags {
		rec := httptest.NewRecorder()
		recs[tag] = rec
		go func() {
			h.ServeHTTP(rec, mk("POST", sid, fmt.Sprintf(`{"jsonrpc":"2.0","id":%d,"method":"tools/call","params":{"name":"ask","arguments":{"tag":%q}}}`, i+1, tag)))
			finished[tag] = true
		}()
	}
	synctest.Wait() // both calls wait for the client's answers
	type sreq struct {
		where, method, tag string
		id                 any
	}
	var found []sreq
	scan := func(where string, rec *httptest.ResponseRecorder) {
		for _, evt := range hxParseSSE(rec.Body.Bytes()) {
			var m map[string]any
			if len(evt.Data) == 0 || json.Unmarshal(evt.Data, &m) != nil {
				continue
			}
			method, _ := m["method"].(string)
			if method != "elicitation/create" && method != "sampling/createMessage" {
				continue
			}
			p, _ := m["params"].(map[string]any)
			q, _ := p["message"].(string)
			if method == "sampling/createMessage" {
				q, _ = p["systemPrompt"].(string)
			}
			found = append(found, sreq{where: where, method: method, tag: strings.TrimPrefix(q, "question of "), id: m["id"]})
		}
	}
	scan("A1", recs["A1"])
	scan("A2", recs["A2"])
	scan("standalone", standalone)
	perCall := strings.Count(kinds, "+") + 1
	if len(found) != 2*perCall {
		return fail("server-request-not-delivered", "two calls asked %d questions each, %d requests reached the client: %+v", perCall, len(found), found)
	}
	for _, q := range found {
		want := q.tag
		if jsonResp {
			want = "standalone"
		}
		if q.where != want {
			return fail("server-request-on-foreign-exchange", "the %s issued on behalf of the handler of %s travelled on %s, want %s", q.method, q.tag, q.where, want)
		}
	}
	// the client answers in one of the orders
	switch answerOrder {
	case 1:
		for i, j := 0, len(found)-1; i < j; i, j = i+1, j-1 {
			found[i], found[j] = found[j], found[i]
		}
	case 2:
		sort.SliceStable(found, func(i, j int) bool { return found[i].method < found[j].method })
	}
	for _, q := range found {
		idJSON, _ := json.Marshal(q.id)
		result := `{"action":"accept","content":{"by":"` + q.tag + `"}}`
		if q.method == "sampling/createMessage" {
			result = `{"role":"assistant","model":"m","content":{"type":"text","text":"reply to ` + q.tag + `"}}`
		}
		if w := post(sid, fmt.Sprintf(`{"jsonrpc":"2.0","id":%s,"result":%s}`, idJSON, result)); w.Code >= 300 {
			return fail("client-response-rejected", "the client's answer to the %s of %s was answered %d %s", q.method, q.tag, w.Code, w.Body.String())
		}
	}
	synctest.Wait()
	for _, tag := range tags {
		if !finished[tag] {
			return fail("call-not-answered", "every question of %s has been answered but its POST has not completed: %q", tag, recs[tag].Body.String())
		}
		var texts []string
		docs := [][]byte{recs[tag].Body.Bytes()}
		if strings.HasPrefix(recs[tag].Header().Get("Content-Type"), "text/event-stream") {
			docs = nil
			for _, evt := range hxParseSSE(recs[tag].Body.Bytes()) {
				docs = append(docs, evt.Data)
			}
		}
		for _, d := range docs {
			var m struct {
				ID     any `json:"id"`
				Result *struct {
					Content []struct {
						Text string `json:"text"`
					} `json:"content"`
				} `json:"result"`
			}
			if json.Unmarshal(d, &m) == nil && m.Result != nil && len(m.Result.Content) > 0 {
				texts = append(texts, m.Result.Content[0].Text)
			}
		}
		if len(texts) != 1 || !strings.HasPrefix(texts[0], tag+" got ") || strings.Count(texts[0], tag) != 1+perCall {
			return fail("reply-misrouted", "the exchange of %s carries the results %q: want one, built from the answers to its own %d questions", tag, texts, perCall)
		}
	}
	return fmt.Sprintf("%d requests routed", len(found)), "", ""
}

func TestVerifC10InputRequests(t *testing.T) {
	env := verifx.LoadEnv("C10")
	res := env.NewResult()
	cases := env.NewCases(res, "input-requests/on-behalf-of-two-concurrent-calls")
	for _, jsonResp := range []bool{false, true} {
		for _, kinds := range []string{"elicit", "sample", "elicit+sample"} {
			for order := 0; order < 3; order++ {
				idx, mine := cases.Next()
				if !mine {
					continue
				}
				var obs, sig, msg string
				func() {
					defer func() {
						if r := recover(); r != nil && sig == "" {
							sig, msg = "c10 input-requests panic-or-leak", fmt.Sprintf("%v [json=%v %s order=%d]", r, jsonResp, kinds, order)
						}
					}()
					synctest.Test(t, func(t *testing.T) { obs, sig, msg = c10InputRequestsCase(jsonResp, kinds, order) })
				}()
				if sig != "" {
					cases.Violate(idx, sig, msg, 6)
					continue
				}
				cases.Record(idx, obs, 6, func() string { return fmt.Sprintf("json=%v %s order=%d", jsonResp, kinds, order) })
			}
		}
	}
	env.Finish(res)
}
