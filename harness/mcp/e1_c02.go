package mcp

// C02 (E1): pipelined requests on one connection under the controlled scheduler.  A raw peer
// writes three messages back to back (every composition over ping / tool call / unknown-method
// call / notification) to a real server session on the in-memory pipe and then stays silent; for
// every schedule within the budget each call is answered exactly once with its id, notifications
// never, whatever the timing of a request's arrival relative to the connection's handler queue
// draining, the previous handler releasing the queue (jsonrpc2.Async) or finishing.

import (
	"bufio"
	"context"
	"encoding/json"
	"fmt"
	"io"
	"sort"
	"sync"
	"testing"

	"github.com/modelcontextprotocol/go-sdk/internal/verifx"
	vs "github.com/modelcontextprotocol/go-sdk/internal/vsched"
)

func c02Pipelined(version string, n int) vs.Verdict {
	f := &e1Fail{prefix: "c02 pipelined"}
	ctx := context.Background()
	vs.Quiet(true)
	s := NewServer(&Implementation{Name: "srv", Version: "1"}, &ServerOptions{Logger: quietLogger,
		ProgressNotificationHandler: func(context.Context, *ProgressNotificationServerRequest) {}})
	AddTool(s, &Tool{Name: "t"}, func(ctx context.Context, r *CallToolRequest, in struct{}) (*CallToolResult, any, error) {
		return &CallToolResult{}, nil, nil
	})
	ct, st := NewInMemoryTransports()
	ss, err := s.Connect(ctx, st, nil)
	if err != nil {
		return vs.Verdict{Bad: "connect failed: " + err.Error(), Sig: "c02 connect-failed"}
	}
	peer := ct.rwc
	type reply struct {
		id    string
		code  int
		isErr bool
	}
	var mu sync.Mutex // replies and stray are written by the peer's reader
	var replies []reply
	var stray []string
	drained := make(chan struct{})
	vs.Go(func() {
		defer close(drained)
		sc := bufio.NewScanner(peer)
		sc.Buffer(make([]byte, 1<<20), 1<<20)
		for sc.Scan() {
			var m struct {
				ID     json.RawMessage `json:"id"`
				Method string          `json:"method"`
				Error  *struct {
					Code int `json:"code"`
				} `json:"error"`
			}
			mu.Lock()
			if json.Unmarshal(sc.Bytes(), &m) != nil || m.Method != "" {
				stray = append(stray, sc.Text())
				mu.Unlock()
				continue
			}
			r := reply{id: string(m.ID)}
			if m.Error != nil {
				r.isErr, r.code = true, m.Error.Code
			}
			replies = append(replies, r)
			mu.Unlock()
		}
	})
	send := func(line string) { io.WriteString(peer, line+"\n") }
	send(`{"jsonrpc":"2.0","id":"i","method":"initialize","params":{"protocolVersion":"` + version + `","capabilities":{},"clientInfo":{"name":"peer","version":"1"}}}`)
	send(`{"jsonrpc":"2.0","method":"notifications/initialized","params":{}}`)
	vs.WaitIdle()
	mu.Lock()
	replies = nil
	mu.Unlock()
	const kinds = "PTUN"
	var seq []byte
	for i := 0; i < n; i++ {
		seq = append(seq, kinds[vs.Choose("message", len(kinds), 0)])
	}
	vs.Quiet(false)
	for i, k := range seq {
		switch k {
		case 'P':
			send(fmt.Sprintf(`{"jsonrpc":"2.0","id":%d,"method":"ping"}`, 10+i))
		case 'T':
			send(fmt.Sprintf(`{"jsonrpc":"2.0","id":%d,"method":"tools/call","params":{"name":"t","arguments":{}}}`, 10+i))
		case 'U':
			send(fmt.Sprintf(`{"jsonrpc":"2.0","id":%d,"method":"no/such-method"}`, 10+i))
		case 'N':
			send(fmt.Sprintf(`{"jsonrpc":"2.0","method":"notifications/progress","params":{"progressToken":%d,"progress":1}}`, i))
		}
	}
	// the peer now stays silent: nothing that arrives later may be needed to get the answers out
	vs.WaitIdle()
	vs.Quiet(true)
	mu.Lock()
	got := map[string][]reply{}
	for _, r := range replies {
		got[r.id] = append(got[r.id], r)
	}
	for i, k := range seq {
		id := fmt.Sprint(10 + i)
		rs := got[id]
		delete(got, id)
		if k == 'N' {
			continue
		}
		switch {
		case len(rs) == 0:
			f.failf(fmt.Sprintf("call-never-answered %c", k), "messages %q written back to back: call id %s (%c, position %d) is still unanswered when the connection has gone quiet", seq, id, k, i)
		case len(rs) > 1:
			f.failf(fmt.Sprintf("call-answered-twice %c", k), "messages %q: call id %s received %d responses", seq, id, len(rs))
		case k == 'U' && (!rs[0].isErr || rs[0].code != -32601):
			f.failf("unknown-method-wrong-answer", "messages %q: unknown method answered with %+v, want error -32601", seq, rs[0])
		case k != 'U' && rs[0].isErr:
			f.failf(fmt.Sprintf("call-failed %c", k), "messages %q: call id %s answered with error %d", seq, id, rs[0].code)
		}
	}
	if len(got) > 0 {
		var ids []string
		for id := range got {
			ids = append(ids, id)
		}
		sort.Strings(ids)
		f.failf("response-without-request", "messages %q: responses for ids %v that no call carried", seq, ids)
	}
	if len(stray) > 0 {
		f.failf("unexpected-output", "messages %q: the server wrote %q", seq, stray)
	}
	// still usable
	before := len(replies)
	mu.Unlock()
	send(`{"jsonrpc":"2.0","id":"final","method":"ping"}`)
	vs.WaitIdle()
	mu.Lock()
	defer mu.Unlock()
	if len(replies) != before+1 || replies[len(replies)-1].id != `"final"` {
		f.failf("unusable-afterwards", "messages %q: a ping afterwards produced %d responses", seq, len(replies)-before)
	}
	peer.Close()
	ss.Close()
	<-drained
	vs.Quiet(false)
	return f.verdict(fmt.Sprintf("%s answers=%d", seq, before))
}

func TestVerifC02Pipelined(t *testing.T) {
	env := verifx.LoadEnv("C02")
	scs := []*verifx.Scenario{
		vs.E1(t, "pipelined/three-messages/2025-06-18", env.Pick(1, 3), vs.Options{}, func() vs.Verdict { return c02Pipelined("2025-06-18", 3) }),
		vs.E1(t, "pipelined/two-messages/2025-06-18", env.Pick(3, 4), vs.Options{}, func() vs.Verdict { return c02Pipelined("2025-06-18", 2) }),
	}
	// over streamable HTTP with an event store a response may also reach the client by replay: the
	// write of a response racing the client's resumption of the cut exchange (the scenario of C08,
	// here for "answered exactly once": no response is delivered twice or dropped)
	scs = append(scs, vs.E1(t, "pipelined/streamable-response-write-vs-resume/2025-06-18", env.Pick(2, 3), vs.Options{}, func() vs.Verdict { return c08RaceAs("c02 response-vs-resume", "2025-06-18", false) }))
	env.Run(scs)
}
