package mcp

// C04, cancellation notices that come late.  "A late response to the abandoned call is discarded without
// effect" has a mirror image on the receiving side: a notifications/cancelled that names a request which
// has already been answered - it lost the race with the response, was duplicated by a relay, or never
// named a request of this connection at all - cancels nothing, now or later.  A raw peer sends every
// sequence of up to three messages over {a quick call with id 1 / 2 (answered before the next message),
// a cancellation for id 1 / 2 / 7} to a real session and then a call that parks in its handler, with the
// id 1, 2 or 7 (ids may be used again once their request has completed): that handler runs, its context
// stays alive until the harness releases it, and it is answered with its result.  Both sides: a server
// session (tools/call) and a client session (sampling/createMessage).

import (
	"bufio"
	"context"
	"encoding/json"
	"fmt"
	"io"
	"strings"
	"testing"
	"testing/synctest"

	"github.com/modelcontextprotocol/go-sdk/internal/verifx"
)

var c04StaleOps = []string{"call 1", "call 2", "cancel 1", "cancel 2", "cancel 7"}

func c04StaleCase(side string, hist []int, finalID string) (obs, sig, msg string) {
	var names []string
	for _, h := range hist {
		names = append(names, c04StaleOps[h])
	}
	desc := fmt.Sprintf("%s session; peer sends %v, then a parked call with id %s", side, names, finalID)
	fail := func(s, format string, a ...any) (string, string, string) {
		return "", "c04 stale-cancel " + s, fmt.Sprintf(format, a...) + " [" + desc + "]"
	}
	ctx := context.Background()
	ct, st := NewInMemoryTransports()
	release := make(chan struct{})
	var started, cancelledEarly, finished int
	park := func(ctx context.Context, parked bool) {
		if !parked {
			return
		}
		started++
		select {
		case <-release:
			finished++
		case <-ctx.Done():
			cancelledEarly++
		}
	}
	var peer io.ReadWriteCloser
	var lines []string
	handshake := make(chan struct{})
	scan := func() {
		sc := bufio.NewScanner(peer)
		sc.Buffer(make([]byte, 1<<20), 1<<20)
		for sc.Scan() {
			line := sc.Text()
			var m struct {
				ID     json.RawMessage `json:"id"`
				Method string          `json:"method"`
			}
			json.Unmarshal([]byte(line), &m)
			switch m.Method {
			case "initialize":
				io.WriteString(peer, `{"jsonrpc":"2.0","id":`+string(m.ID)+`,"result":{"protocolVersion":"2025-06-18","capabilities":{},"serverInfo":{"name":"peer","version":"1"}}}`+"\n")
			case "notifications/initialized":
				close(handshake)
			case "":
				lines = append(lines, line)
			}
		}
	}
	var closeAll func()
	var callLine func(id string, parked bool) string
	switch side {
	case "server":
		s := NewServer(&Implementation{Name: "srv", Version: "1"}, &ServerOptions{Logger: quietLogger})
		AddTool(s, &Tool{Name: "t"}, func(ctx context.Context, r *CallToolRequest, in struct {
			Parked bool `json:"parked"`
		}) (*CallToolResult, any, error) {
			park(ctx, in.Parked)
			if ctx.Err() != nil {
				return nil, nil, ctx.Err()
			}
			return &CallToolResult{Content: []Content{&TextContent{Text: "done"}}}, nil, nil
		})
		ss, err := s.Connect(ctx, st, nil)
		if err != nil {
			return fail("setup", "%v", err)
		}
		peer = ct.rwc
		go scan()
		go func() {
			io.WriteString(peer, `{"jsonrpc":"2.0","id":"i","method":"initialize","params":{"protocolVersion":"2025-06-18","capabilities":{},"clientInfo":{"name":"peer","version":"1"}}}`+"\n")
			io.WriteString(peer, `{"jsonrpc":"2.0","method":"notifications/initialized","params":{}}`+"\n")
		}()
		synctest.Wait()
		lines = nil
		closeAll = func() { peer.Close(); ss.Close() }
		callLine = func(id string, parked bool) string {
			return fmt.Sprintf(`{"jsonrpc":"2.0","id":%s,"method":"tools/call","params":{"name":"t","arguments":{"parked":%v}}}`, id, parked)
		}
	case "client":
		peer = st.rwc
		go scan()
		c := NewClient(&Implementation{Name: "cli", Version: "1"}, &ClientOptions{Logger: quietLogger,
			CreateMessageHandler: func(ctx context.Context, r *CreateMessageRequest) (*CreateMessageResult, error) {
				park(ctx, r.Params.SystemPrompt == "parked")
				if ctx.Err() != nil {
					return nil, ctx.Err()
				}
				return &CreateMessageResult{Model: "m", Role: "assistant", Content: &TextContent{Text: "done"}}, nil
			}})
		cs, err := c.Connect(ctx, ct, &ClientSessionOptions{ProtocolVersion: "2025-06-18"})
		if err != nil {
			return fail("setup", "%v", err)
		}
		<-handshake
		synctest.Wait()
		closeAll = func() { peer.Close(); cs.Close() }
		callLine = func(id string, parked bool) string {
			sp := ""
			if parked {
				sp = "parked"
			}
			return fmt.Sprintf(`{"jsonrpc":"2.0","id":%s,"method":"sampling/createMessage","params":{"messages":[{"role":"user","content":{"type":"text","text":"hi"}}],"maxTokens":5,"systemPrompt":%q}}`, id, sp)
		}
	}
	send := func(line string) bool {
		done := false
		go func() { io.WriteString(peer, line+"\n"); done = true }()
		synctest.Wait()
		return done
	}
	quick := map[string]int{}
	for _, h := range hist {
		op := c04StaleOps[h]
		id := op[len(op)-1:]
		line := callLine(id, false)
		if strings.HasPrefix(op, "cancel") {
			line = fmt.Sprintf(`{"jsonrpc":"2.0","method":"notifications/cancelled","params":{"requestId":%s,"reason":"late"}}`, id)
		} else {
			quick[id]++
		}
		if !send(line) {
			closeAll()
			return fail("session-torn-down", "%s could not be delivered", op)
		}
	}
	if !send(callLine(finalID, true)) {
		closeAll()
		return fail("session-torn-down", "the final call could not be delivered")
	}
	if started != 1 || cancelledEarly != 0 {
		close(release)
		synctest.Wait()
		closeAll()
		if cancelledEarly > 0 {
			return fail("later-request-cancelled-by-stale-notice", "the handler of the call with id %s found its context cancelled although no cancellation was sent while it was in flight", finalID)
		}
		return fail("later-request-never-dispatched", "the handler of the call with id %s never started (%d starts)", finalID, started)
	}
	close(release)
	synctest.Wait()
	answers, results := map[string]int{}, map[string]int{}
	for _, l := range lines {
		var m struct {
			ID     json.RawMessage `json:"id"`
			Result json.RawMessage `json:"result"`
		}
		if json.Unmarshal([]byte(l), &m) == nil {
			answers[string(m.ID)]++
			if len(m.Result) > 0 {
				results[string(m.ID)]++
			}
		}
	}
	closeAll()
	quick[finalID]++
	for id, n := range quick {
		if answers[id] != n || results[id] != n {
			return fail("call-not-answered-with-its-result", "id %s was used by %d calls; %d responses, %d of them results: %v", id, n, answers[id], results[id], lines)
		}
	}
	if finished != 1 {
		return fail("later-request-cancelled-by-stale-notice", "the parked handler did not run to completion")
	}
	return "later call served", "", ""
}

func TestVerifC04Stale(t *testing.T) {
	env := verifx.LoadEnv("C04")
	res := env.NewResult()
	cases := env.NewCases(res, "stale/late-cancellation-then-id-reused")
	var hists [][]int
	var gen func(prefix []int, depth int)
	gen = func(prefix []int, depth int) {
		hists = append(hists, append([]int{}, prefix...))
		if depth == 0 {
			return
		}
		for i := range c04StaleOps {
			gen(append(prefix, i), depth-1)
		}
	}
	gen(nil, env.Pick(3, 4))
	for _, side := range []string{"server", "client"} {
		for _, h := range hists {
			for _, finalID := range []string{"1", "2", "7"} {
				idx, mine := cases.Next()
				if !mine {
					continue
				}
				var obs, sig, msg string
				func() {
					defer func() {
						if r := recover(); r != nil && sig == "" {
							sig, msg = "c04 stale-cancel panic-or-leak", fmt.Sprintf("%v [%s %v final %s]", r, side, h, finalID)
						}
					}()
					synctest.Test(t, func(t *testing.T) { obs, sig, msg = c04StaleCase(side, h, finalID) })
				}()
				if sig != "" {
					cases.Violate(idx, sig, msg, len(h)+1)
					continue
				}
				cases.Record(idx, side+" "+obs, len(h)+1, func() string { return fmt.Sprintf("%s %v final=%s", side, h, finalID) })
			}
		}
	}
	env.Finish(res)
}
