package mcp

// The places where harnesses (other than C20's, see priv_c20.go) read private state of the SDK.  Each
// accessor reports ok=false in the black-box twin priv_sdk.go.fallback, which the driver swaps in when
// this file no longer compiles against the tree under test (a change that renames or reshapes these
// fields): the oracle items that need the private view are then skipped, everything observable through
// the public API is still judged.

// privClientSessionCount: how many sessions the Client still tracks.
func privClientSessionCount(c *Client) (n int, ok bool) {
	c.mu.Lock()
	defer c.mu.Unlock()
	return len(c.sessions), true
}

// privListChangedSubscriptions: list-changed subscriptions (all kinds) the server holds.
func privListChangedSubscriptions(s *Server) (n int, ok bool) {
	s.mu.Lock()
	defer s.mu.Unlock()
	return len(s.toolChangeSubscriptions) + len(s.promptChangeSubscriptions) + len(s.resourceChangeSubscriptions), true
}

// privToolSubscriptionsAndSessions: tool list-changed subscriptions plus sessions in the server's own list.
func privToolSubscriptionsAndSessions(s *Server) (n int, ok bool) {
	s.mu.Lock()
	defer s.mu.Unlock()
	return len(s.toolChangeSubscriptions) + len(s.sessions), true
}

// privResourceSubscribers: sessions subscribed to uri in the server's table.
func privResourceSubscribers(s *Server, uri string) (n int, ok bool) {
	s.mu.Lock()
	defer s.mu.Unlock()
	return len(s.resourceSubscriptions[uri]), true
}

// privStaleResourceSubscription: a URI whose subscription table mentions a session the server no longer lists.
func privStaleResourceSubscription(s *Server) (uri string, found, ok bool) {
	s.mu.Lock()
	defer s.mu.Unlock()
	for u, m := range s.resourceSubscriptions {
		for ss := range m {
			live := false
			for _, x := range s.sessions {
				if x == ss {
					live = true
				}
			}
			if !live {
				return u, true, true
			}
		}
	}
	return "", false, true
}

// privHandlerSessionIDs: the ids in the streamable HTTP handler's session table.
func privHandlerSessionIDs(h *StreamableHTTPHandler) (ids []string, ok bool) {
	h.mu.Lock()
	defer h.mu.Unlock()
	for id := range h.sessions {
		ids = append(ids, id)
	}
	return ids, true
}

// privHandlerTracks: is sid in the handler's table.
func privHandlerTracks(h *StreamableHTTPHandler, sid string) (tracked, ok bool) {
	h.mu.Lock()
	defer h.mu.Unlock()
	_, tracked = h.sessions[sid]
	return tracked, true
}

// privSessionState: what the server session has recorded of the handshake.
func privSessionState(ss *ServerSession) (version string, initialized bool, level LoggingLevel, ok bool) {
	ss.mu.Lock()
	defer ss.mu.Unlock()
	if ss.state.InitializeParams != nil {
		version = ss.state.InitializeParams.ProtocolVersion
	}
	return version, ss.state.InitializedParams != nil, ss.state.LogLevel, true
}

// privHandlerSessionInfo: an opaque handle on the handler's table entry for sid (nil if there is none).
func privHandlerSessionInfo(h *StreamableHTTPHandler, sid string) (handle any, ok bool) {
	h.mu.Lock()
	defer h.mu.Unlock()
	if info := h.sessions[sid]; info != nil {
		return info, true
	}
	return nil, true
}

// privIdleTimerStop stops the idle-timeout timer of a table entry; armed reports whether it was still armed.
func privIdleTimerStop(handle any) (armed, ok bool) {
	info, isInfo := handle.(*sessionInfo)
	if !isInfo || info == nil {
		return false, false
	}
	info.timerMu.Lock()
	defer info.timerMu.Unlock()
	return info.timer != nil && info.timer.Stop(), true
}
